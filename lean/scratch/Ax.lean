import SFV.Props.C31
#print axioms SFV.C31.deps_sound_partial
#print axioms SFV.C31.deps_defined_partial
#print axioms SFV.C31.deps_sound_false
#print axioms SFV.C31.deps_defined_false
#print axioms SFV.C31.paramref_sound
