import SFV.Lemmas.QueueStep
import SFV.Gen.QueueGuards
/-! # C27 — batch jobs complete only after leaving the queue

Theorems about the transition system of `SFV/Model/Queue.lean` (every interleaving of any number of concurrent
`run` calls, the batch system, cache expiry at arbitrary instants and one `undeploy`). `Gen.queueCfg` and
`Gen.slurmQueryStates` are regenerated from `queue_manager.py` on every run. -/
namespace SFV.C27
open SFV SFV.Queue

/-- the statement-order facts the safety proofs need, as the source has them now -/
theorem gen_clears_cache_after_registration : Gen.queueCfg.clearsCache = true := rfl

/-- (invariant) a cached `squeue` answer lists every registered id whose run is past the cache clear, and every
    id it lists but does not report running has left the queue -/
theorem cache_covers_scheduled {cfg : Cfg} (hc : cfg.clearsCache = true) {res s} (h : Reachable cfg res s)
    (r q : List Nat) (hcache : s.cache = some (r, q)) :
    (∀ j, j ∈ s.scheduled → s.pc j ≠ .needClear → j ∈ q) ∧ (∀ j, j ∈ q → j ∉ r → j ∉ s.queue) :=
  (inv_reachable hc h).2.1 r q hcache

/-- **a `run` leaves its polling loop normally only when its job has left the queue** — in every reachable
    state, i.e. for every interleaving -/
theorem finished_only_after_left {cfg : Cfg} (hc : cfg.clearsCache = true) {res s} (h : Reachable cfg res s)
    (j : Nat) (hd : (s.pc j).finished = true) : j ∉ s.queue ∧ j ∈ s.submitted := by
  have hI := inv_reachable hc h
  refine ⟨hI.2.2.2.2.2.1 j hd, hI.2.2.2.2.2.2.2.2.2.2.2.2 j ?_⟩
  intro hidle; rw [hidle] at hd; simp [Pc.finished] at hd

/-- the same for the configuration read from the source -/
theorem finished_only_after_left_gen {res s} (h : Reachable Gen.queueCfg res s) (j : Nat)
    (hd : (s.pc j).finished = true) : j ∉ s.queue :=
  (finished_only_after_left gen_clears_cache_after_registration h j hd).1

/-- **own output**: what `run` returns is the batch system's final record of the *same* id -/
theorem own_output {cfg : Cfg} (hc : cfg.clearsCache = true) {res s} (h : Reachable cfg res s)
    (j : Nat) (o c : Option Nat) (hd : s.pc j = .done o c) : o = some (res j).1 ∧ c = some (res j).2 := by
  have := (inv_reachable hc h).2.2.2.2.2.2.2.2.2.1 j o c hd
  rwa [res_reachable h] at this

/-- without the cache clear after registration the safety theorem is false: job 2 registers while a cached answer
    (computed for job 1 alone) is still in the cell, and its first poll believes it finished -/
theorem finished_only_after_left_needs_clear :
    ∃ s, Reachable ⟨false, false⟩ (fun j => (j, 0)) s ∧ s.pc 2 = .popped ∧ 2 ∈ s.queue := by
  refine ⟨_, reachable_runActs Reachable.init
    [.submit 1, .clear 1, .pollMiss 1, .answer 1, .pollStore 1, .submit 2, .clear 2, .pollHit 2] rfl, ?_, ?_⟩ <;> decide

/-! ### undeploy -/

/-- the source keeps the *outer* location in `undeploy`'s `loc_map` (repaired in 8bb14ab), so `_remove_jobs` → `run`
    unwraps it exactly once -/
theorem gen_undeploy_keeps_outer_location : Gen.queueCfg.passInner = false := rfl

/-- **undeploy cancels exactly the jobs still queued**: the ids handed to `scancel` are exactly those of the runs
    still waiting — they include every job still queued, none whose `run` already returned — and once undeploy has
    returned none of them is in the queue. (`hp`: `undeploy` hands `_remove_jobs` a location that can be unwrapped —
    true of the source, see `gen_undeploy_keeps_outer_location` and the instance `…_gen` below.) -/
theorem undeploy_cancels_exactly_queued {cfg : Cfg} (hc : cfg.clearsCache = true)
    (hp : cfg.passInner = false) {res s} (h : Reachable cfg res s) :
    (∀ s', s.upc = .idle → step cfg s .undeployStart = some s' →
        ∃ js, (s'.upc = .cancelling js ∨ (js = [] ∧ s'.upc = .finished [])) ∧
          (∀ j, j ∈ js ↔ (s.pc j).waiting = true) ∧ (∀ j, j ∈ s.queue → j ∈ js) ∧
          (∀ j, j ∈ js → (s.pc j).finished = false)) ∧
    (∀ js, s.upc = .finished js → ∀ j, j ∈ js → j ∉ s.queue) := by
  have hI := inv_reachable hc h
  have hU := uinv_reachable hc h
  obtain ⟨h0, h1, h2, h3, h4, h5, h6, h7, h8, h9, h10, h11, h12⟩ := hI
  obtain ⟨u0, u1, u2, u3⟩ := hU
  refine ⟨?_, fun js hf j hj => u2 js (Or.inr hf) j hj⟩
  intro s' hidle hs
  have hw : ∀ j, j ∈ s.scheduled ↔ (s.pc j).waiting = true := fun j => ⟨fun hj => (h0 j hj).1, u0 hidle j⟩
  have hqw : ∀ j, j ∈ s.queue → (s.pc j).waiting = true := by
    intro j hj
    have h1' := h7 j (h6 j hj)
    have h2' := u1 hidle j
    have h3' : (s.pc j).finished ≠ true := fun hf => h5 j hf hj
    cases hpc : s.pc j <;> simp_all [Pc.waiting, Pc.finished]
  have hnf : ∀ j, (s.pc j).waiting = true → (s.pc j).finished = false := by
    intro j; cases s.pc j <;> simp [Pc.waiting, Pc.finished]
  by_cases hnil : s.scheduled = []
  · simp [step, hidle, hnil] at hs
    cases hs
    refine ⟨[], Or.inr ⟨rfl, rfl⟩, ?_, ?_, by simp⟩
    · intro j; rw [← hw j, hnil]
    · intro j hj; have := (hw j).mpr (hqw j hj); rw [hnil] at this; exact this
  · simp [step, hidle, hp, hnil] at hs
    cases hs
    exact ⟨s.scheduled, Or.inl rfl, hw, fun j hj => (hw j).mpr (hqw j hj), fun j hj => hnf j ((hw j).mp hj)⟩

/-- the statement for the configuration read from the source -/
theorem undeploy_cancels_exactly_queued_gen {res s} (h : Reachable Gen.queueCfg res s) :
    (∀ s', s.upc = .idle → step Gen.queueCfg s .undeployStart = some s' →
        ∃ js, (s'.upc = .cancelling js ∨ (js = [] ∧ s'.upc = .finished [])) ∧
          (∀ j, j ∈ js ↔ (s.pc j).waiting = true) ∧ (∀ j, j ∈ s.queue → j ∈ js) ∧
          (∀ j, j ∈ js → (s.pc j).finished = false)) ∧
    (∀ js, s.upc = .finished js → ∀ j, j ∈ js → j ∉ s.queue) :=
  undeploy_cancels_exactly_queued gen_clears_cache_after_registration gen_undeploy_keeps_outer_location h

/-- **regression guard** (the code before 8bb14ab): had `loc_map` kept the inner location, `_remove_jobs` → `run` would
    unwrap it a second time: with a job still scheduled `undeploy` raises before any `scancel` and the queue is untouched -/
theorem undeploy_raises_when_jobs_scheduled {cfg : Cfg} (hp : cfg.passInner = true) (s s' : St)
    (hidle : s.upc = .idle) (hne : s.scheduled ≠ []) (hs : step cfg s .undeployStart = some s') :
    s'.upc = .raised ∧ s'.queue = s.queue ∧ ∀ a s'', a = .scancel ∨ a = .undeployEnd → step cfg s' a ≠ some s'' := by
  simp only [step, hidle, hp, hne] at hs
  cases hs
  refine ⟨rfl, rfl, ?_⟩
  intro a s'' ha
  rcases ha with rfl | rfl <;> simp [step]

/-- … so that with the old statement order the clause "undeploying cancels the jobs still queued" was false:
    one submitted job, undeploy: the job stays in the queue and no cancellation can follow -/
theorem undeploy_cancels_queued_false_before_fix :
    ∃ s, Reachable ⟨true, true⟩ (fun j => (j, 0)) s ∧ s.upc = .raised ∧ 1 ∈ s.queue ∧ 1 ∈ s.scheduled := by
  refine ⟨_, reachable_runActs Reachable.init [.submit 1, .clear 1, .undeployStart] rfl, ?_, ?_, ?_⟩ <;> decide

/-! ### progress of the polling loop -/

/-- no cached or in-flight answer still reports `j` running -/
def Fresh (s : St) (j : Nat) : Prop :=
  (∀ r q, s.cache = some (r, q) → j ∉ r) ∧ (∀ h, s.pc h = .answered → j ∉ s.answer)

/-- **poll_terminates** (safety half): once job `j` has left the queue and the answers computed before that are
    gone (`Fresh`; the cell's TTL is the polling interval, so the cell read by the next poll was computed after the
    previous one), no action can ever bring `j` back into a cached or in-flight answer, and the next poll that `j`'s
    run completes — hit or miss — takes it out of the loop. -/
theorem poll_terminates {cfg : Cfg} {s : St} {j : Nat} (hq : j ∉ s.queue) (hsub : j ∈ s.submitted)
    (hf : Fresh s j) (a : Act) (s' : St) (hs : step cfg s a = some s') :
    j ∉ s'.queue ∧ j ∈ s'.submitted ∧ Fresh s' j ∧ ((a = .pollHit j ∨ a = .pollStore j) → s'.pc j ≠ .poll) := by
  obtain ⟨f1, f2⟩ := hf
  unfold Fresh
  cases a <;> simp only [step] at hs <;> (repeat' split at hs) <;>
    first
    | (cases hs; done)
    | (cases hs; unfold afterPoll; (repeat' split) <;> grind [setPc])
    | (cases hs; grind [setPc])

/-- **poll_terminates** (enabledness half): from any reachable state in which `j`'s run is between two polls, its
    job has left the queue and the lock is free, the run can finish: cell expiry, one query, the two `scontrol`
    reads — and it returns the job's own record. No other process has to move. -/
theorem poll_can_finish {cfg : Cfg} (hc : cfg.clearsCache = true) {res s} (h : Reachable cfg res s) (j : Nat)
    (hq : j ∉ s.queue) (hp : s.pc j = .poll) (hl : s.lock = none) (hu : s.upc = .idle) :
    ∃ s', runActs cfg s [.expire, .pollMiss j, .answer j, .pollStore j, .fetchOut j, .fetchRc j] = some s' ∧
      s'.pc j = .done (some (res j).1) (some (res j).2) := by
  have hI := inv_reachable hc h
  have hU := uinv_reachable hc h
  have hsched : j ∈ s.scheduled := hU.1 hu j (by rw [hp]; rfl)
  have hres := res_reachable h
  simp [runActs, step, hp, hl, setPc, afterPoll, hq, hsched, scontrol, hres]

/-- whoever holds the lock can always move (the lock is never held across a wait for another run) -/
theorem lock_holder_enabled {cfg : Cfg} (hc : cfg.clearsCache = true) {res s} (h : Reachable cfg res s) (k : Nat)
    (hl : s.lock = some k) : (∃ s', step cfg s (.answer k) = some s') ∨ (∃ s', step cfg s (.pollStore k) = some s') := by
  have := ((inv_reachable hc h).2.2.1 k hl).1
  rcases this with hq | ha
  · left; simp [step, hq]
  · right; simp [step, ha]

/-! ### the `squeue -t` filter -/

/-- every non-terminal state of the modelled Slurm life cycle is in the `-t` list of `_get_running_jobs`
    (a job in a listed state is reported running; one in a terminal state is not) -/
theorem query_lists_every_live_state :
    ∀ st ∈ JobState.all, (st.name ∈ Gen.slurmQueryStates) = (!st.terminal) := by decide

/-! ### non-vacuity -/

/-- two concurrent jobs; the second registers while the first one's query is in flight; both finish properly -/
example : ∃ s, Reachable Gen.queueCfg (fun j => (10 + j, j)) s ∧ s.pc 1 = .done (some 11) (some 1) ∧
    s.pc 2 = .done (some 12) (some 2) ∧ s.queue = [] := by
  refine ⟨_, reachable_runActs Reachable.init
    [.submit 1, .clear 1, .pollMiss 1, .submit 2, .answer 1, .pollStore 1, .clear 2, .leave 1, .pollMiss 2,
     .answer 2, .pollStore 2, .pollHit 1, .fetchOut 1, .leave 2, .expire, .pollMiss 2, .answer 2, .pollStore 2,
     .fetchRc 1, .fetchOut 2, .fetchRc 2] rfl, ?_, ?_, ?_⟩ <;> decide

/-- the repaired undeploy cancels a queued job while its run is polling; the run then fails with `KeyError` -/
example : ∃ s, Reachable ⟨true, false⟩ (fun j => (j, 0)) s ∧ s.upc = .finished [1] ∧ s.queue = [] ∧ s.pc 1 = .failed := by
  refine ⟨_, reachable_runActs Reachable.init
    [.submit 1, .clear 1, .undeployStart, .scancel, .undeployEnd, .pollMiss 1, .answer 1, .pollStore 1] rfl,
    ?_, ?_, ?_⟩ <;> decide

/-- `Fresh` is satisfiable in a state where the job has left and the run is still polling -/
example : ∃ s, Reachable Gen.queueCfg (fun j => (j, 0)) s ∧ 1 ∉ s.queue ∧ s.pc 1 = .poll ∧ Fresh s 1 := by
  refine ⟨_, reachable_runActs Reachable.init [.submit 1, .clear 1, .leave 1] rfl, by decide, by decide, ?_, ?_⟩
  · intro r q hx; simp [init, Gen.queueCfg] at hx
  · intro _ _; decide

end SFV.C27
