/-! # CwlCmdSh — the shell layer under a CWL command line (own small copy for C30)

`shlexQuote` = Python `shlex.quote`; `parseCmd` = how `/bin/sh` splits a command string made of words separated
by single spaces into words, *refusing* (`none`) any character it would interpret (expansion, globbing,
operators) — so `some ws` means: the shell hands exactly the literal words `ws` to the program. -/
namespace SFV.CwlCmd

def isSafe (c : Char) : Bool :=
  c.isAlphanum || c ∈ ['@', '%', '+', '=', ':', ',', '.', '/', '-', '_']

def escSq : List Char → List Char
  | [] => []
  | c :: cs => if c = '\'' then '\'' :: '"' :: '\'' :: '"' :: '\'' :: escSq cs else c :: escSq cs

/-- `shlex.quote` -/
def shlexQuote (s : List Char) : List Char :=
  if s.isEmpty then ['\'', '\''] else
  if s.all isSafe then s else '\'' :: (escSq s ++ ['\''])

inductive Mode | unq | sq | dq
deriving DecidableEq

/-- characters the shell interprets outside quotes (space separates words and is handled apart) -/
def isMeta (c : Char) : Bool :=
  c ∈ ['\t', '\n', '|', '&', ';', '<', '>', '(', ')', '$', '`', '\\', '"', '\'', '*', '?', '[', '#', '~', '!', '{', '}']

/-- split a command string into literal words; `cur` = the word being read (reversed), `done` = finished words
(reversed) -/
def parseCmd : Mode → List Char → List Char → List (List Char) → Option (List (List Char))
  | .unq, [], cur, done => some ((cur.reverse :: done).reverse)
  | .sq, [], _, _ => none
  | .dq, [], _, _ => none
  | .unq, c :: cs, cur, done =>
      if c = ' ' then parseCmd .unq cs [] (cur.reverse :: done)
      else if c = '\'' then parseCmd .sq cs cur done
      else if c = '"' then parseCmd .dq cs cur done
      else if isMeta c then none
      else parseCmd .unq cs (c :: cur) done
  | .sq, c :: cs, cur, done =>
      if c = '\'' then parseCmd .unq cs cur done else parseCmd .sq cs (c :: cur) done
  | .dq, c :: cs, cur, done =>
      if c = '"' then parseCmd .unq cs cur done
      else if c = '$' || c = '`' || c = '\\' then none
      else parseCmd .dq cs (c :: cur) done

/-- the command string: words joined by single spaces -/
def joinSp : List (List Char) → List Char
  | [] => []
  | [w] => w
  | w :: w' :: ws => w ++ ' ' :: joinSp (w' :: ws)

/-- `create_command` renders an environment variable as `export K="v"`: the value between double quotes -/
def dqRender (v : List Char) : List Char := '"' :: (v ++ ['"'])

/-- characters that stay active between double quotes -/
def dqActive (c : Char) : Bool := c = '$' || c = '`' || c = '\\' || c = '"'

end SFV.CwlCmd
