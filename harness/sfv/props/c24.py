"""C24 — remote path operations agree with the local filesystem."""
from __future__ import annotations

import os
import shutil
import stat
import subprocess

from streamflow.core.deployment import ExecutionLocation
from streamflow.data.remotepath import LocalStreamFlowPath, RemoteStreamFlowPath

from sfv.framework import Ctx, Property
from sfv.rt.hexs import hx, unhx
from sfv.rt.sfctx import make_context
from sfv.rt.shfake import in_scratch_cwd, Hang, MiniConnector, run_watchdog
from sfv.rt.trees import NAME_CORPUS, diff, make_tree, rand_name, snapshot
from sfv.translate import cmdtmpl

SAFE = set("abcdefghijklmnopqrstuvwxyzABCDEFGHIJKLMNOPQRSTUVWXYZ0123456789_@%+=:,./-")
OPS = ["exists", "is_file", "is_dir", "is_symlink", "mkdir", "write_text", "read_text", "size", "checksum", "glob", "walk", "resolve",
       "rmtree", "symlink_to", "hardlink_to", "chmod"]
CONTENTS = ["", "x", "hello\n", "no newline", "  padded  ", "\nlead", "trail\n\n", "é日本😀", "a\tb", "line1\nline2\n", "$HOME `id` \"q\" 'a'", "\\n", "x" * 3000]


def is_safe(s: str) -> bool:
    return bool(s) and all(c in SAFE for c in s)


class C24(Property):
    pid = "C24"
    title = "Remote path operations agree with the local filesystem"
    lean_targets = ["SFV.Model.Proto", "SFV.Props.C24"]
    props_files = ["SFV/Props/C24.lean"]
    drivers = ["Drivers/C24.lean"]
    translators = [cmdtmpl.generate]
    quick_budget_s = 900
    thorough_budget_s = 3000
    op_timeout = 8
    confirm_timeout = 90
    rule = ("random trees (names with blanks, quotes, $, backticks, glob characters, unicode, leading dashes, newlines; symlinks; contents with "
            "leading/trailing whitespace) are created twice; random sequences of the 16 path operations are executed through LocalStreamFlowPath on "
            "one copy and through RemoteStreamFlowPath over a persistent-sh connector (MiniConnector) on the other; after every operation the "
            "canonicalised results and the two trees are compared. Every command line the remote side sends is compared with the Lean rendering "
            "of the extracted template. A `tame` regime (safe names, no links, trimmed contents) must agree exactly. Non-trivial = distinct "
            "(operation, path, arguments, tree) tuples.")
    trusted_base = [
        "translator harness/sfv/translate/cmdtmpl.py (python ast -> SFV/Gen/CmdTemplates.lean); every command line captured from the real "
        "RemoteStreamFlowPath is compared with the Lean rendering of its template on every run",
        "modelled, not verified: POSIX sh lexing (SFV/Model/Sh.lean, compared with dash by the C25 check); the semantics of test, mkdir, rm, ln, "
        "readlink, cat, head, chmod, find, sha1sum, tee are NOT modelled: agreement of results and trees is validated differentially only",
        "the fake remote: MiniConnector (BaseConnector.run unchanged, stream commands through `sh -c`) with a private root directory",
    ]
    technique = ("Lean 4 theorems about shlex.quote and command templates (all-quoted templates are verbatim for every path) with per-operation "
                 "obligations over templates regenerated from the source; differential execution local API vs remote shell commands on equal trees")
    level_text = ("grade C: proved — shlex.quote round trip for every string, verbatim reading of every all-quoted template for every argument list, "
                  "the per-operation quoting obligations over the regenerated templates and the exactness of the syntactic criterion on today's "
                  "templates; validated differentially only — the agreement of results and file-system states with the local API "
                  "(utility semantics are not modelled; op_refines_local of DESIGN §4 is not proved)")
    level_note = "Lean kernel, axioms within {propext, Classical.choice, Quot.sound}; trusts the cmdtmpl extractor (compared with captured commands)"
    assumptions = ["paths contain no NUL; the remote shell is a POSIX sh; GNU coreutils/findutils on the remote side"]

    # ------------------------------------------------------------------------------------------------------------
    def _setup(self, ctx: Ctx):
        import logging
        logging.getLogger("streamflow").setLevel(logging.ERROR)
        self.gen = getattr(self, "gen", 0) + 1
        try:
            self.table = cmdtmpl.table(os.environ.get("SFV_REPO", "/repo"))
        except Exception as e:  # noqa: BLE001  (the framework has already recorded the broken extractor)
            ctx.notes.append(f"command-template table unavailable: {e}")
            self.table = []
        self.by_op: dict[str, list[dict]] = {}
        for r in self.table:
            self.by_op.setdefault(r["op"], []).append(r)
        self.lines: list[str] = []
        self.expect: list = []
        self.fs_lines: list[str] = []
        self.fs_expect: list = []
        self.nseq = 0

    def op_quoted(self, op: str) -> bool:
        return all(r["quoted"] for r in self.by_op.get(op, []))

    # ---- one sequence ------------------------------------------------------------------------------------------------
    def run_sequence(self, ctx: Ctx, tame: bool, seq_seed: int, ops: list | None = None, nops: int = 10, links: bool = False) -> None:
        import random
        rng = random.Random(seq_seed)
        self.nseq += 1
        base = os.path.join(ctx.scratch, f"s{self.gen}_{self.nseq}")
        lroot, rroot = os.path.join(base, "local"), os.path.join(base, "remote")
        make_tree(rng, lroot, max_entries=rng.choice([3, 8, 15]), nasty=0.0 if tame else 0.6, symlinks=(not tame) or links)
        subprocess.run(["cp", "-a", lroot, rroot], check=True, timeout=60)
        entries = [k for k in snapshot(lroot) if k]
        context = make_context(base)
        conn = MiniConnector("c24remote")
        context.deployment_manager.deployments_map["c24remote"] = conn
        loc = ExecutionLocation(name="loc0", deployment="c24remote", local=False)
        plan = ops if ops is not None else self.plan(rng, entries, tame, nops)
        self.custom_plan = ops is not None
        state = {"i": 0}

        def lpath(rel):
            return LocalStreamFlowPath(os.path.join(lroot, rel) if rel else lroot, context=context)

        def rpath(rel):
            return RemoteStreamFlowPath(os.path.join(rroot, rel) if rel else rroot, context=context, location=loc)

        async def apply(p, root, op):
            """-> canonical result"""
            name, rel, a = op["op"], op["path"], op.get("args", {})
            path = p(rel)

            def relz(x):
                s = str(x)
                return os.path.relpath(s, root) if s == root or s.startswith(root + "/") else "ABS:" + s
            try:
                if name in ("exists", "is_file", "is_dir", "is_symlink"):
                    return await getattr(path, name)()
                if name == "mkdir":
                    await path.mkdir(mode=a.get("mode", 0o777), parents=a.get("parents", False), exist_ok=a.get("exist_ok", False))
                    return ["mode", oct(stat.S_IMODE(os.lstat(str(path)).st_mode))]
                if name == "write_text":
                    return await path.write_text(a["data"])
                if name == "read_text":
                    return await path.read_text(n=a.get("n", -1))
                if name == "size":
                    return await path.size()
                if name == "checksum":
                    return await path.checksum()
                if name == "glob":
                    return sorted([relz(x) async for x in path.glob(a["pattern"])])
                if name == "walk":
                    out = []
                    async for d, dn, fn in path.walk(follow_symlinks=a.get("follow", False)):
                        out.append([relz(d), sorted(dn), sorted(fn)])
                    return sorted(out)
                if name == "resolve":
                    r = await path.resolve()
                    return None if r is None else relz(r)
                if name == "rmtree":
                    return await path.rmtree()
                if name == "symlink_to":
                    return await path.symlink_to(a["target"])
                if name == "hardlink_to":
                    return await path.hardlink_to(os.path.join(root, a["target"]))
                if name == "chmod":
                    await path.chmod(a["mode"], follow_symlinks=a.get("follow", True))
                    return ["mode", oct(stat.S_IMODE(os.stat(str(path)).st_mode))]
            except Exception as e:  # noqa: BLE001
                if isinstance(e, (Hang, KeyboardInterrupt)):
                    raise
                return ["error"]
            raise ValueError(name)

        results = []
        holder = {"conn": conn}

        async def go():
            import asyncio as aio
            from sfv.rt.shfake import kill_leftovers
            try:
                pre = snapshot(lroot)
                pre_copy = os.path.join(base, "pre")
                for op in plan:
                    holder["conn"].commands.clear()
                    shutil.rmtree(pre_copy, ignore_errors=True)
                    subprocess.run(["cp", "-a", lroot, pre_copy], check=True, timeout=60)
                    lres = await apply(lpath, lroot, op)
                    task = aio.ensure_future(apply(rpath, rroot, op))
                    done, _ = await aio.wait({task}, timeout=self.op_timeout)
                    if not done:
                        task.cancel()
                        # the persistent shell is stuck — or the machine is just slow: kill it, restore the remote tree and CONFIRM the
                        # time-out by running this single operation again, alone, on a fresh shell with a much larger bound
                        kill_leftovers()
                        holder["conn"] = MiniConnector("c24remote")
                        context.deployment_manager.deployments_map["c24remote"] = holder["conn"]
                        shutil.rmtree(rroot, ignore_errors=True)
                        subprocess.run(["cp", "-a", pre_copy, rroot], check=True, timeout=60)
                        # hangs that are known defects (walk over a sub-directory, an unquoted path with shell-special characters) need no
                        # confirmation; any other time-out does
                        expected = op["op"] == "walk" or (not self.op_quoted(op["op"]) and not (
                            is_safe(os.path.join(rroot, op["path"])) and is_safe(str(op.get("args", {}).get("target", "x")))))
                        task = aio.ensure_future(apply(rpath, rroot, op))
                        done, _ = await aio.wait({task}, timeout=2 if expected else self.confirm_timeout)
                        if done:
                            ctx.count("slow-operation-confirmed-not-a-hang")
                            rres = task.result()
                            cmds = list(holder["conn"].commands)
                        else:
                            task.cancel()
                            rres = ["hang"]
                            kill_leftovers()
                            holder["conn"] = MiniConnector("c24remote")
                            context.deployment_manager.deployments_map["c24remote"] = holder["conn"]
                            cmds = []
                            done = set()
                    else:
                        rres = task.result()
                        cmds = list(holder["conn"].commands)
                    if not self.op_quoted(op["op"]) and not is_safe(os.path.join(rroot, op["path"])):
                        # an unquoted `&` starts a background job, `;` a second command: let their effects land before looking
                        await aio.sleep(0.7)
                    ls, rs = snapshot(lroot), snapshot(rroot)
                    results.append((op, lres, rres, cmds, ls, rs, pre))
                    pre = ls
                    if ls != rs:
                        # re-synchronise so that later operations are judged on equal trees again
                        shutil.rmtree(rroot, ignore_errors=True)
                        subprocess.run(["cp", "-a", lroot, rroot], check=True, timeout=60)
                    if done:
                        # a mis-parsed (unquoted) command may have killed or confused the persistent shell, after which BaseConnector.run
                        # silently falls back to exec without a shell: every operation is judged on a fresh shell
                        try:
                            await holder["conn"].undeploy(False)
                        except Exception:  # noqa: BLE001
                            pass
                        kill_leftovers()
                        holder["conn"] = MiniConnector("c24remote")
                        context.deployment_manager.deployments_map["c24remote"] = holder["conn"]
            finally:
                try:
                    await holder["conn"].undeploy(False)
                except Exception:  # noqa: BLE001
                    pass

        try:
            run_watchdog(go, 120 + (self.op_timeout + self.confirm_timeout) * len(plan))
        except Hang as e:
            ctx.fail("sequence:hang", f"sequence {seq_seed} did not finish: {e}", {"op": "sequence", "tame": tame, "seq_seed": seq_seed, "upto": len(plan)})
        finally:
            context.deployment_manager.deployments_map.pop("c24remote", None)
            try:
                run_watchdog(context.close, 10)
            except Exception:  # noqa: BLE001
                pass
        for op, lres, rres, cmds, lsnap, rsnap, pre in results:
            self.judge(ctx, tame, seq_seed, plan, op, lres, rres, cmds, lsnap, rsnap, rroot)
            if tame and op["op"] == "mkdir" and rres != ["hang"]:
                self.fs_model_case(op, lres, rres, lsnap, rsnap, pre)
            if tame and op["op"] in ("symlink_to", "hardlink_to", "size", "chmod") and rres != ["hang"]:
                self.fsl_model_case(op, lres, rres, lsnap, rsnap, pre, lroot)
        shutil.rmtree(base, ignore_errors=True)

    def misc_cases(self, ctx: Ctx, n: int) -> None:
        """`_size` on a LIST of paths (get_storage_usages) and `resolve()` of a path registered in the data manager"""
        import random
        from streamflow.core.data import DataType
        from streamflow.data.remotepath import _size
        for _ in range(n):
            if ctx.out_of_time():
                ctx.extra["incomplete"] = True
                break
            seed = ctx.rng.randrange(1 << 30)
            rng = random.Random(seed)
            self.nseq += 1
            base = os.path.join(ctx.scratch, f"m{self.gen}_{self.nseq}")
            root = os.path.join(base, "tree")
            nasty = rng.random() < 0.5
            make_tree(rng, root, max_entries=10, nasty=0.5 if nasty else 0.0, symlinks=False)
            entries = [k for k, v in snapshot(root).items() if k]
            paths = [os.path.join(root, e) for e in rng.sample(entries, min(len(entries), rng.randint(1, 3)))] or [root]
            context = make_context(base)
            conn = MiniConnector("c24remote")
            context.deployment_manager.deployments_map["c24remote"] = conn
            rloc = ExecutionLocation(name="loc0", deployment="c24remote", local=False)
            lloc = ExecutionLocation(name="__LOCAL__", deployment="__LOCAL__", local=True)
            out = {}

            async def go():
                try:
                    out["local"] = await _size(context, lloc, list(paths))
                    try:
                        out["remote"] = await _size(context, rloc, list(paths))
                    except Exception as e:  # noqa: BLE001
                        out["remote"] = f"error {type(e).__name__}"
                    reg = paths[0]
                    context.data_manager.register_path(location=rloc, path=reg, relpath=reg, data_type=DataType.PRIMARY)
                    for dl in context.data_manager.get_data_locations(path=reg, deployment="c24remote", location_name="loc0"):
                        dl.available.set()
                    conn.commands.clear()
                    r = await RemoteStreamFlowPath(reg, context=context, location=rloc).resolve()
                    out["resolve"] = (None if r is None else str(r), len(conn.commands))
                finally:
                    await conn.undeploy(False)
            special = not all(is_safe(p) for p in paths)
            try:
                run_watchdog(go, 60)
            except Hang as e:
                out["hang"] = str(e)
            finally:
                context.deployment_manager.deployments_map.pop("c24remote", None)
                try:
                    run_watchdog(context.close, 10)
                except Exception:  # noqa: BLE001
                    pass
            rel = [os.path.relpath(p, root) for p in paths]
            ctx.case({"op": "_size(list)+resolve(registered)", "paths": rel, "out": {k: str(v)[:60] for k, v in out.items()}}, ("misc", seed),
                     f"size-list:{'nasty' if special else 'tame'}")
            replay = {"op": "misc", "seed": seed}
            if out.get("hang") or out.get("local") != out.get("remote"):
                dq_safe = all(not any(c in p for c in '$`"\\') for p in paths)
                key = "remote:size:path-not-quoted" if (special and not dq_safe) else "size-list:differs-from-local"
                ctx.fail(key, f"_size({rel}): local {out.get('local')}, remote {out.get('remote')} {out.get('hang', '')}", replay)
            if "resolve" in out and out["resolve"] != (paths[0], 0):
                ctx.fail("resolve:registered-primary-path-not-returned-as-is",
                         f"resolve() of the registered PRIMARY path {rel[0]!r} returned {out['resolve'][0]!r} after {out['resolve'][1]} shell command(s)", replay)
            shutil.rmtree(base, ignore_errors=True)

    def plan(self, rng, entries: list[str], tame: bool, nops: int) -> list[dict]:
        plan = []
        known = list(entries)
        for _ in range(nops):
            name = rng.choice(OPS)
            if name == "walk" and rng.random() < 0.85:
                name = rng.choice(OPS)

            def fresh():
                parent = rng.choice([""] + [e for e in known if "/" not in e][:3])
                n = rand_name(rng, 0.0 if tame else 0.6)
                return os.path.join(parent, n) if parent and rng.random() < 0.4 else n
            existing = rng.choice(known) if known and rng.random() < 0.8 else fresh()
            op = {"op": name, "path": existing, "args": {}}
            if name == "mkdir":
                op["path"] = fresh() if rng.random() < 0.7 else existing
                if rng.random() < 0.3:
                    op["path"] = os.path.join(op["path"], rand_name(rng, 0.0 if tame else 0.5))
                op["args"] = {"mode": rng.choice([0o777, 0o755, 0o700]), "parents": rng.random() < 0.5, "exist_ok": rng.random() < 0.5}
                known.append(op["path"])
            elif name == "write_text":
                op["path"] = fresh() if rng.random() < 0.6 else existing
                c = rng.choice(CONTENTS)
                op["args"] = {"data": c.strip() if tame else c}
                known.append(op["path"])
            elif name == "read_text":
                op["args"] = {"n": rng.choice([-1, -1, 0, 3, 10])}
            elif name == "glob":
                op["path"] = rng.choice([""] + [e for e in known][:4])
                op["args"] = {"pattern": rng.choice(["*", "*.txt", "a*", "*/*", "?", "[a-c]*", "nomatch*"])}
            elif name == "walk":
                op["path"] = rng.choice(["", ""] + known[:3])
                op["args"] = {"follow": (not tame) and rng.random() < 0.3}
            elif name in ("symlink_to", "hardlink_to"):
                op["path"] = fresh()
                op["args"] = {"target": rng.choice(known) if known else "missing"}
                known.append(op["path"])
            elif name == "chmod":
                op["args"] = {"mode": rng.choice([0o644, 0o755, 0o600, 0o700]), "follow": True if tame else rng.random() < 0.85}
            plan.append(op)
        return plan

    # ---- verdicts ---------------------------------------------------------------------------------------------------
    def judge(self, ctx, tame, seq_seed, plan, op, lres, rres, cmds, lsnap, rsnap, rroot) -> None:
        name, rel, a = op["op"], op["path"], op.get("args", {})
        full = os.path.join(rroot, rel) if rel else rroot
        special = not is_safe(full) or (name in ("symlink_to", "hardlink_to") and not is_safe(str(a.get("target"))))
        ctx.case({"op": name, "path": rel, "args": {k: (v if not isinstance(v, str) else v[:40]) for k, v in a.items()}, "local": _short(lres),
                  "remote": _short(rres)}, (name, rel, repr(a), seq_seed), f"{name}:{'tame' if tame else 'nasty'}")
        # template correspondence: every captured command line is the rendering of one of the op's variants
        self.check_templates(ctx, name, full, a, cmds, rroot)
        d = diff(lsnap, rsnap)
        if lres == rres and not d:
            return
        replay = {"op": "sequence", "tame": tame, "seq_seed": seq_seed, "upto": plan.index(op) + 1}
        if getattr(self, "custom_plan", False):
            replay["plan"] = plan[: plan.index(op) + 1]
        detail = (f"{name}({rel!r}, {a if name != 'write_text' else {'data': a['data'][:30]}}): local -> {_short(lres)}, remote -> {_short(rres)}"
                  + (f"; trees differ: {d[:2]}" if d else ""))
        ctx.fail(self.classify(name, rel, a, lres, rres, d, special, lsnap), detail, replay)

    def classify(self, name, rel, a, lres, rres, d, special, lsnap) -> str:
        ent = lsnap.get(rel)
        has_subdir = any(v[0] == "d" and k and (k.startswith(rel + "/") if rel else True) for k, v in lsnap.items())
        if name == "walk" and rres == ["hang"] and has_subdir:
            return "walk:_make_child_relpath-ignores-its-argument:never-terminates-with-a-subdirectory"
        if special and not self.op_quoted(name) and name != "glob":
            return f"remote:{name}:path-not-quoted"
        if rres == ["hang"]:
            return f"remote:{name}:hang"
        if name in ("symlink_to", "hardlink_to") and str(a.get("target", "")).startswith("-") and name == "symlink_to":
            return "symlink_to:target-with-leading-dash-read-as-option"
        if name == "write_text" and lres == ["error"] and isinstance(rres, int):
            return "write_text:failure-of-tee-is-not-reported"
        if name == "read_text" and lres == ["error"] and isinstance(rres, str) and ent and ent[0] in ("f", "l"):
            return "read_text:non-utf8-content-replaced-remotely-error-locally"
        if name == "read_text" and isinstance(lres, str) and isinstance(rres, str):
            if lres.strip() == rres:
                return "read_text:remote-strips-whitespace"
            if a.get("n", -1) >= 0 and lres.encode()[: a["n"]].decode("utf-8", "ignore").strip() == rres.strip():
                return "read_text:n-counts-bytes-remotely-characters-locally"
        if name == "read_text" and lres == ["error"] and ent and ent[0] == "d":
            return "read_text:directory"
        if name == "mkdir" and isinstance(lres, list) and isinstance(rres, list) and lres[0] == "mode" and rres[0] == "mode" and not d:
            return "mkdir:remote-mode-not-subject-to-umask"
        if name == "mkdir" and lres == ["error"] and rres != ["error"] and a.get("exist_ok") and not a.get("parents"):
            return "mkdir:exist_ok-implies-parents-remotely"
        if name == "mkdir" and lres == ["error"] and rres != ["error"] and a.get("parents") and not a.get("exist_ok"):
            return "mkdir:parents-implies-exist_ok-remotely"
        if name == "checksum" and lres is None and rres == "":
            return "checksum:non-file-gives-empty-string-remotely-None-locally"
        if name == "checksum" and isinstance(lres, str) and isinstance(rres, str) and rres.lstrip("\\") == lres:
            return "checksum:sha1sum-escape-prefix-for-special-file-names"
        if name in ("symlink_to", "hardlink_to") and lres == ["error"] and rres != ["error"]:
            return f"{name}:ln-f-replaces-existing-destination"
        if name in ("symlink_to", "hardlink_to") and lres != ["error"] and rres != ["error"] and d:
            return f"{name}:ln-creates-link-inside-existing-directory-or-differs"
        if name == "hardlink_to" and lres != rres:
            return "hardlink_to:error-behaviour-differs"
        if name == "chmod" and not a.get("follow", True):
            return "chmod:follow_symlinks-false-uses-unsupported-chmod-h"
        if name == "walk" and ent and ent[0] != "d" and lres == []:
            return "walk:non-directory-yields-one-entry-remotely-none-locally"
        if name == "rmtree" and ent and ent[0] == "l" and d:
            return "rmtree:dangling-symlink-kept-locally-removed-remotely"
        if name == "size":
            return "size:remote-follows-symlinks-and-counts-differently" if any(v[0] == "l" for v in lsnap.values()) else "size:differs"
        if name == "walk":
            if any("\n" in k for k in lsnap) and rres == ["error"]:
                return "walk:name-with-newline-breaks-splitlines"
            if any(v[0] == "l" for v in lsnap.values()):
                return "walk:symlinks-listed-differently"
            if any(c in k for k in lsnap for c in "\n") or any(k != k.strip() or k.split("/")[-1] != k.split("/")[-1].strip() for k in lsnap):
                return "walk:names-with-newline-or-surrounding-blanks"
            return "walk:differs"
        if name == "glob":
            if any(any(c in k for c in " \t\n") for k in lsnap):
                return "glob:remote-splits-results-on-whitespace"
            if any(c in rel for c in "*?[]"):
                return "glob:local-treats-path-as-pattern"
            if any(c in str(a.get("pattern", "")) for c in "?[") and any(not k.isascii() for k in lsnap):
                return "glob:question-mark-matches-bytes-remotely-characters-locally"
            return "glob:differs"
        if name == "resolve":
            return "resolve:differs"
        if name == "rmtree":
            return "rmtree:differs"
        if name == "write_text":
            return "write_text:differs"
        return f"{name}:differs"

    def fs_model_case(self, op, lres, rres, lsnap, rsnap, pre) -> None:
        """mkdir on the Lean file-system model (no symlinks) vs what the local API and the remote command really did"""
        comps = [c for c in op["path"].split("/") if c]
        if not comps or any(v[0] == "l" for v in pre.values()):
            return
        dirs = [k for k, v in pre.items() if k and v[0] == "d"]
        files = [k for k, v in pre.items() if k and v[0] == "f"]
        a = op.get("args", {})
        self.fs_lines.append(f"fsmkdir {int(a.get('parents', False))} {int(a.get('exist_ok', False))} {hx(op['path'])} D " +
                             " ".join(hx(d) for d in dirs) + " F " + " ".join(hx(f) for f in files))

        def bits(res, snap):
            if res == ["error"]:
                return "error"
            return "ok " + "".join("1" if snap.get("/".join(comps[: i + 1]), ("",))[0] == "d" else "0" for i in range(len(comps)))
        self.fs_expect.append((f"L {bits(lres, lsnap)} R {bits(rres, rsnap)}", {"op": op, "dirs": dirs[:10], "files": files[:10]}))

    def fsl_model_case(self, op, lres, rres, lsnap, rsnap, pre, lroot) -> None:
        """symlink_to / hardlink_to / size / chmod on the Lean model with links (SFV/Model/FSL.lean) vs the real local API and remote command"""
        name, rel, a = op["op"], op["path"], op.get("args", {})
        if not rel and name != "size":
            return
        entries = []
        for k, v in pre.items():
            if not k:
                continue
            if v[0] == "d":
                entries.append(f"d:{hx(k)}")
            elif v[0] == "f":
                mode = os.lstat(os.path.join(lroot, k)).st_mode & 0o777 if False else None
                entries.append(("f", k, v[2]))
            elif v[0] == "l":
                t = os.path.normpath(os.path.join(os.path.dirname(k), v[1]))
                if t.startswith("..") or os.path.isabs(v[1]):
                    return  # a link leaving the tree: outside the model
                if pre.get(t, ("",))[0] in ("d", "l") or t == ".":
                    return  # links to directories / chains of links: outside the model (leaf links to files only)
                entries.append(f"l:{hx(k)}:{hx(t)}:{len(v[1].encode())}")
        # file modes are not part of the snapshots: chmod is compared on the mode it sets, the others do not depend on modes
        entries = [e if isinstance(e, str) else f"f:{hx(e[1])}:{e[2]}:420" for e in entries]
        comps = rel
        if name in ("symlink_to", "hardlink_to"):
            target = str(a.get("target", ""))
            if target.startswith("-") or not target:
                return  # `ln` would read it as an option: a separate known finding, outside the model
            if name == "symlink_to":
                tpath = os.path.normpath(os.path.join(os.path.dirname(rel), target))
                if tpath.startswith(".."):
                    return
            else:
                tpath = target
            base = os.path.basename(target)
            if name == "symlink_to" and pre.get(tpath, ("",))[0] in ("d", "l"):
                return
            line = f"fsl {'symlink' if name == 'symlink_to' else 'hardlink'} {hx(comps)} {hx(tpath)} {len(target.encode())} E " + " ".join(entries)

            def kinds(res, snap):
                if res == ["error"]:
                    return "error"

                def k(pth):
                    v = snap.get(pth)
                    return "-" if v is None else ("f420" if v[0] == "f" else v[0])
                return f"ok {k(rel)} {k(os.path.join(rel, base))}"
            expect = f"L {kinds(lres, lsnap)} R {kinds(rres, rsnap)}"
        elif name == "size":
            if not isinstance(lres, int) or not isinstance(rres, int):
                return
            line = f"fsl size {hx(comps) if comps else '-'} - - E " + " ".join(entries)
            expect = f"L {lres} R {rres}"
        else:  # chmod
            mode = a.get("mode", 0o644)
            follow = a.get("follow", True)

            def cm(res):
                if res == ["error"]:
                    return "error"
                ent = pre.get(rel)
                # the model reports the kind (and new mode) of the node the operation ends on
                if ent and ent[0] == "d":
                    return "ok d"
                return f"ok f{mode}"
            ent = pre.get(rel)
            if ent is None or ent[0] == "l":
                return  # through links the harness cannot see which node changed: left to the differential comparison
            line = f"fsl chmod {hx(comps)} {hx(str(mode))} {int(bool(follow))} E " + " ".join(entries)
            expect = f"L {cm(lres)} R {cm(rres)}"
        self.fs_lines.append(line)
        self.fs_expect.append((expect, {"op": op, "entries": len(entries)}))

    def check_templates(self, ctx, name, full, a, cmds, rroot) -> None:
        variants = self.by_op.get(name if name != "is_executable" else name, [])
        if not variants or not cmds:
            return
        kind, cmd = cmds[0]
        real = " ".join(cmd)
        for v in variants:
            args = []
            for an in v["args"]:
                if an == "path":
                    args.append(full)
                elif an == "mode":
                    args.append(f"{a.get('mode', 0o777):o}")
                elif an == "n":
                    args.append(str(a.get("n", -1)))
                elif an == "target":
                    args.append(os.path.join(rroot, a["target"]) if name == "hardlink_to" else str(a.get("target")))
                elif an == "pattern":
                    args.append(a.get("pattern", ""))
                else:
                    args.append("")
            self.lines.append(f"render {v['lean']} " + " ".join(hx(x) for x in args))
        self.expect.append((name, real, len(variants), {"op": name, "path": full, "args": {k: str(v)[:40] for k, v in a.items()}}))

    # ------------------------------------------------------------------------------------------------------------
    @in_scratch_cwd
    def explore(self, ctx: Ctx) -> None:
        from sfv.rt.shfake import limit_failures
        limit_failures(ctx)
        self._setup(ctx)
        rng = ctx.rng
        big = ctx.tier == "thorough" or ctx.mode == "search"
        # the extractor's view of the source must classify today's operations as the baseline says
        n_tame, n_nasty = (40, 80) if big else (5, 10)
        for i in range(n_tame + n_nasty):
            if ctx.out_of_time():
                ctx.extra["incomplete"] = True
                break
            self.run_sequence(ctx, tame=i < n_tame, seq_seed=rng.randrange(1 << 30), nops=12 if big else 10)
        # mkdir-focused tame sequences: every flag combination on short paths over a tiny alphabet (ties the Lean FS model of mkdir)
        for _ in range(6 if big else 2):
            r2 = rng.randrange(1 << 30)
            import random as _random
            g = _random.Random(r2)
            plan = [{"op": "mkdir", "path": "/".join(g.choice(["a", "b", "c1"]) for _ in range(g.randint(1, 3))),
                     "args": {"mode": 0o755, "parents": g.random() < 0.5, "exist_ok": g.random() < 0.5}} for _ in range(10)]
            plan.insert(3, {"op": "write_text", "path": "b", "args": {"data": "x"}})
            self.run_sequence(ctx, tame=True, seq_seed=r2, ops=plan)
        # link-focused sequences on tame names (ties the Lean model with links: symlink_to / hardlink_to / size / chmod)
        for _ in range(6 if big else 2):
            r3 = rng.randrange(1 << 30)
            import random as _random
            g = _random.Random(r3)
            names = ["a", "b", "c1", "sub", "sub/x", "sub/y"]
            plan = [{"op": "mkdir", "path": "sub", "args": {"mode": 0o755, "parents": False, "exist_ok": True}},
                    {"op": "write_text", "path": "a", "args": {"data": "hello"}}, {"op": "write_text", "path": "sub/x", "args": {"data": "xy"}}]
            for _i in range(9):
                k = g.choice(["symlink_to", "hardlink_to", "size", "chmod", "symlink_to", "size"])
                if k == "size":
                    plan.append({"op": "size", "path": g.choice(["", "sub", "a", "b"]), "args": {}})
                elif k == "chmod":
                    plan.append({"op": "chmod", "path": g.choice(names), "args": {"mode": g.choice([0o600, 0o755, 0o644]), "follow": g.random() < 0.8}})
                else:
                    plan.append({"op": k, "path": g.choice(names), "args": {"target": g.choice(["a", "sub/x", "sub", "b"])}})
            self.run_sequence(ctx, tame=True, seq_seed=r3, ops=plan, links=True)
        self.misc_cases(ctx, 20 if big else 4)
        # walk: one guaranteed case on a directory with a sub-directory (never terminates today: known finding) and one on a flat directory
        self.run_sequence(ctx, tame=True, seq_seed=rng.randrange(1 << 30), ops=[
            {"op": "mkdir", "path": "wflat", "args": {"mode": 0o755, "parents": False, "exist_ok": False}},
            {"op": "write_text", "path": "wflat/f1", "args": {"data": "x"}},
            {"op": "walk", "path": "wflat", "args": {"follow": False}},
            {"op": "mkdir", "path": "wdeep/sub", "args": {"mode": 0o755, "parents": True, "exist_ok": True}},
            {"op": "walk", "path": "wdeep", "args": {"follow": False}}])
        # one driver call for both kinds of lines
        all_lines = self.lines + self.fs_lines
        all_got = ctx.lean("Drivers/C24.lean", all_lines) if all_lines else []
        got, fs_got = all_got[:len(self.lines)], all_got[len(self.lines):]
        pos = 0
        for name, real, nv, sample in self.expect:
            outs = got[pos:pos + nv]
            pos += nv
            if hx(real) not in outs:
                ctx.disagree(f"template of RemoteStreamFlowPath.{name}", f"real command {real!r} is not the rendering of any extracted variant "
                             f"{[unhx(o) if o != 'bad-op' else o for o in outs]}", sample)
        if self.fs_lines:
            for g, (e, sample) in zip(fs_got, self.fs_expect):
                opn = sample["op"]["op"]
                ctx.count(f"fs-model:{opn}")
                if g != e:
                    ctx.disagree(f"FS model of {opn} (local API / remote command)", f"real {e!r}, Lean model {g!r}", sample)
        ctx.extra["templates"] = {r["lean"]: ("quoted" if r["quoted"] else "NOT-quoted") for r in self.table if r["via"] != "env"}

    @in_scratch_cwd
    def replay(self, ctx: Ctx, data) -> None:
        self._setup(ctx)
        r = data.get("replay") or {}
        if r.get("op") == "sequence":
            import random
            rng = random.Random(r["seq_seed"])
            # regenerate the same tree and plan, run the prefix
            self.nseq = 0
            base = os.path.join(ctx.scratch, "plan-only")
            make_tree(rng, base, max_entries=rng.choice([3, 8, 15]), nasty=0.0 if r["tame"] else 0.6, symlinks=not r["tame"])
            entries = [k for k in snapshot(base) if k]
            plan = r["plan"] if r.get("plan") else self.plan(rng, entries, r["tame"], 12)[: r["upto"]]
            print("tree :", entries)
            print("plan :", plan)
            n0 = len(ctx.failures)
            self.run_sequence(ctx, r["tame"], r["seq_seed"], ops=plan)
            for s in ctx.samples[-len(plan):]:
                print(s)
        else:
            super().replay(ctx, data)


def _short(x):
    s = repr(x)
    return s if len(s) <= 160 else s[:160] + "…"


PROPERTY = C24()
