-- PILOT (round 0): Shell.lean (shlex.quote ∘ POSIX word parse = id for every string; sorry-free, axioms: propext only; 90 lines). `safe_not_meta` via `key : ∀ m, isSafe m = false → c ≠ m` and `by decide` per metacharacter.
namespace Pilot

/-- Python shlex.quote on char lists. -/
def isSafe (c : Char) : Bool :=
  c.isAlphanum || c ∈ ['@', '%', '+', '=', ':', ',', '.', '/', '-', '_']

def escSq : List Char → List Char
  | [] => []
  | c :: cs => if c = '\'' then '\'' :: '"' :: '\'' :: '"' :: '\'' :: escSq cs else c :: escSq cs

def shlexQuote (s : List Char) : List Char :=
  if s.isEmpty then ['\'', '\''] else
  if s.all isSafe then s else '\'' :: (escSq s ++ ['\''])

/-- POSIX-sh word parser for one word: states: unquoted / in single quotes / in double quotes.
    Returns none when an uninterpreted-verbatim reading is impossible (meta char hit). -/
inductive Mode | unq | sq | dq
deriving DecidableEq

def isMeta (c : Char) : Bool :=
  c ∈ [' ', '\t', '\n', '|', '&', ';', '<', '>', '(', ')', '$', '`', '\\', '"', '\'', '*', '?', '[', '#', '~', '!', '{', '}']

/-- parse a single word; `some w` = the shell sees exactly one literal word w with no expansion. -/
def parseWord : Mode → List Char → List Char → Option (List Char)
  | .unq, [], acc => some acc.reverse
  | .sq, [], _ => none
  | .dq, [], _ => none
  | .unq, c :: cs, acc =>
      if c = '\'' then parseWord .sq cs acc
      else if c = '"' then parseWord .dq cs acc
      else if isMeta c then none
      else parseWord .unq cs (c :: acc)
  | .sq, c :: cs, acc =>
      if c = '\'' then parseWord .unq cs acc else parseWord .sq cs (c :: acc)
  | .dq, c :: cs, acc =>
      if c = '"' then parseWord .unq cs acc
      else if c = '$' || c = '`' || c = '\\' then none
      else parseWord .dq cs (c :: acc)

theorem parse_sq_escSq (s : List Char) (acc : List Char) (rest : List Char) :
    parseWord .sq (escSq s ++ '\'' :: rest) acc = parseWord .unq rest (s.reverse ++ acc) := by
  induction s generalizing acc with
  | nil => simp [escSq, parseWord]
  | cons c cs ih =>
    by_cases h : c = '\''
    · subst h
      simp only [escSq, ↓reduceIte, List.cons_append]
      -- ' closes, " opens dq, ' literal, " closes, ' reopens sq
      simp only [parseWord, ↓reduceIte]
      have : ¬ ('\'' = '"') := by decide
      simp only [this, ↓reduceIte, Bool.or_self, Bool.false_eq_true]
      simp [parseWord, ih]
    · simp only [escSq, h, ↓reduceIte, List.cons_append, parseWord]
      rw [ih]; simp

theorem safe_not_meta (c : Char) (hc : isSafe c = true) : isMeta c = false ∧ c ≠ '\'' ∧ c ≠ '"' := by
  have key : ∀ m : Char, isSafe m = false → c ≠ m := by
    intro m hm e; subst e; rw [hc] at hm; exact absurd hm (by decide)
  refine ⟨?_, key _ (by decide), key _ (by decide)⟩
  simp only [isMeta, List.elem_eq_mem, decide_eq_false_iff_not, List.mem_cons, List.mem_nil_iff, or_false, not_or]
  exact ⟨key _ (by decide), key _ (by decide), key _ (by decide), key _ (by decide), key _ (by decide),
    key _ (by decide), key _ (by decide), key _ (by decide), key _ (by decide), key _ (by decide),
    key _ (by decide), key _ (by decide), key _ (by decide), key _ (by decide), key _ (by decide),
    key _ (by decide), key _ (by decide), key _ (by decide), key _ (by decide), key _ (by decide),
    key _ (by decide), key _ (by decide), key _ (by decide)⟩

theorem parse_safe (s : List Char) (acc : List Char) (h : s.all isSafe = true) :
    parseWord .unq s acc = some (s.reverse ++ acc).reverse := by
  induction s generalizing acc with
  | nil => simp [parseWord]
  | cons c cs ih =>
    simp only [List.all_cons, Bool.and_eq_true] at h
    obtain ⟨h3, h1, h2⟩ := safe_not_meta c h.1
    simp [parseWord, h1, h2, h3, ih _ h.2]

theorem quote_roundtrip (s : List Char) : parseWord .unq (shlexQuote s) [] = some s := by
  unfold shlexQuote
  split
  · rename_i h; simp at h; subst h; simp [parseWord]
  · split
    · rename_i h; rw [parse_safe _ _ h]; simp
    · simp only [parseWord, ↓reduceIte]
      rw [parse_sq_escSq]; simp [parseWord]
end Pilot

#print axioms Pilot.quote_roundtrip
