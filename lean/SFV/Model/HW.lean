import SFV.Gen.SchedGuards
/-! `Hardware` / `Storage` of `streamflow/core/scheduling.py` over exact rationals (core `Rat`).

* strings (dict keys, mount points, paths, bind paths) are `Nat` identifiers in ONE namespace (the code compares
  keys with mount points and paths with mount points); `root` stands for `os.sep`;
* the `storage` dict is an insertion-ordered association list (update keeps the position, a new key is appended);
* `paths` is a Python set: a duplicate-free list whose order is not observable (drivers print it sorted);
* every operator that can raise returns `Except Err`;
* the comparison operators and the arithmetic on sizes / cores / memory are the definitions GENERATED from the
  source (`SFV.Gen.Sched`). -/
namespace SFV.HW
open SFV.Gen.Sched

abbrev Name := Nat
/-- `os.sep` -/
def root : Name := 0

inductive Err
  | negativeSize      -- WorkflowExecutionException of `Storage.__init__`
  | mountMismatch     -- ArithmeticError of the `Storage` operators
  | missingStorage    -- WorkflowExecutionException of `Hardware.satisfies`
  | keyError          -- KeyError of `Hardware.get_storage`
deriving DecidableEq, Repr

instance {ε α} [DecidableEq ε] [DecidableEq α] : DecidableEq (Except ε α)
  | .ok a, .ok b => if h : a = b then isTrue (h ▸ rfl) else isFalse (fun e => h (Except.ok.inj e))
  | .error a, .error b => if h : a = b then isTrue (h ▸ rfl) else isFalse (fun e => h (Except.error.inj e))
  | .ok _, .error _ => isFalse (fun e => nomatch e)
  | .error _, .ok _ => isFalse (fun e => nomatch e)

structure Storage where
  mount : Name
  size : Rat
  paths : List Name := []
  bind : Option Name := none
deriving DecidableEq, Repr

abbrev StorageMap := List (Name × Storage)

structure Hardware where
  cores : Rat
  memory : Rat
  storage : StorageMap
deriving DecidableEq, Repr

/-- set union on duplicate-free lists (`self.paths | other.paths`) -/
def unionPaths (a b : List Name) : List Name := a ++ b.filter (fun p => !a.contains p)

/-- `Storage(mount_point, size, paths, bind)` — raises on a negative size -/
def mkStorage (mount : Name) (size : Rat) (paths : List Name) (bind : Option Name) : Except Err Storage :=
  if sizeRejected size then .error .negativeSize else .ok { mount, size, paths, bind }

/-- the common body of `Storage.__add__`, `__sub__`, `__or__` -/
def Storage.combine (f : Rat → Rat → Rat) (a b : Storage) : Except Err Storage :=
  if mountMismatch a.mount b.mount then .error .mountMismatch
  else mkStorage a.mount (f a.size b.size) (unionPaths a.paths b.paths) a.bind

def Storage.add : Storage → Storage → Except Err Storage := Storage.combine storageAdd
def Storage.sub : Storage → Storage → Except Err Storage := Storage.combine storageSub
def Storage.or : Storage → Storage → Except Err Storage := Storage.combine storageOr

/-- `Storage.__ior__` (in place: no constructor call, hence no size test) -/
def Storage.ior (a b : Storage) : Except Err Storage :=
  if mountMismatch a.mount b.mount then .error .mountMismatch
  else .ok { a with size := storageIor a.size b.size, paths := unionPaths a.paths b.paths }

/-- `Hardware(cores, memory, storage)`: an empty storage map becomes `{os.sep: Storage(os.sep, 0.0)}` -/
def mkHardware (cores memory : Rat) (storage : StorageMap) : Hardware :=
  { cores, memory, storage := if storage.isEmpty then [(root, { mount := root, size := 0 })] else storage }

/-- `Hardware()` -/
def Hardware.empty : Hardware := mkHardware 0 0 []

/-- one iteration of the loop of `_reduce_storages`: `storage[disk.mount_point] = …` -/
def upsert (op : Storage → Storage → Except Err Storage) : StorageMap → Storage → Except Err StorageMap
  | [], d => do
      let s ← mkStorage d.mount d.size d.paths d.bind
      pure [(d.mount, s)]
  | (k, s) :: rest, d =>
      if k = d.mount then do
        let s' ← op s d
        pure ((k, s') :: rest)
      else do
        let r ← upsert op rest d
        pure ((k, s) :: r)

/-- `_reduce_storages(storages, operator)` with the accumulator explicit -/
def reduceFrom (op : Storage → Storage → Except Err Storage) : StorageMap → List Storage → Except Err StorageMap
  | acc, [] => .ok acc
  | acc, d :: ds => do
      let acc' ← upsert op acc d
      reduceFrom op acc' ds

def reduceStorages (ds : List Storage) (op : Storage → Storage → Except Err Storage) : Except Err StorageMap :=
  reduceFrom op [] ds

def values (m : StorageMap) : List Storage := m.map (·.2)
def keys (m : StorageMap) : List Name := m.map (·.1)

/-- `Hardware._normalize_storage` -/
def normalizeStorage (m : StorageMap) : Except Err StorageMap := reduceStorages (values m) Storage.add

/-- `Hardware.normalized` -/
def Hardware.normalized (h : Hardware) : Except Err Hardware := do
  let st ← normalizeStorage h.storage
  pure (mkHardware h.cores h.memory st)

/-- `Hardware.is_normalized` -/
def Hardware.isNormalized (h : Hardware) : Bool := h.storage.all (fun kd => kd.1 == kd.2.mount)

/-- `Hardware.__add__` -/
def Hardware.add (a b : Hardware) : Except Err Hardware := do
  let sa ← normalizeStorage a.storage
  let sb ← normalizeStorage b.storage
  let st ← reduceStorages (values sa ++ values sb) Storage.add
  pure (mkHardware (hwAddCores a.cores b.cores) (hwAddMemory a.memory b.memory) st)

/-- `Hardware.__sub__` -/
def Hardware.sub (a b : Hardware) : Except Err Hardware := do
  let sa ← normalizeStorage a.storage
  let sb ← normalizeStorage b.storage
  let st ← reduceStorages (values sa ++ values sb) Storage.sub
  pure (mkHardware (hwSubCores a.cores b.cores) (hwSubMemory a.memory b.memory) st)

/-- the loop of `Hardware.__ior__`: `self.storage[key] = disk` / `self.storage[key] |= disk` -/
def iorKey : StorageMap → Name → Storage → Except Err StorageMap
  | [], k, d => .ok [(k, d)]
  | (k', s) :: rest, k, d =>
      if k' = k then do
        let s' ← Storage.ior s d
        pure ((k', s') :: rest)
      else do
        let r ← iorKey rest k d
        pure ((k', s) :: r)

def iorLoop : StorageMap → StorageMap → Except Err StorageMap
  | acc, [] => .ok acc
  | acc, (k, d) :: rest => do
      let acc' ← iorKey acc k d
      iorLoop acc' rest

/-- `Hardware.__ior__` / `__or__` (the value; `__or__` works on a deep copy) -/
def Hardware.or (a b : Hardware) : Except Err Hardware := do
  let st ← iorLoop a.storage b.storage
  pure { cores := hwIorCores a.cores b.cores, memory := hwIorMemory a.memory b.memory, storage := st }

/-- lookup in a storage map -/
def lookup (m : StorageMap) (k : Name) : Option Storage :=
  match m with
  | [] => none
  | (k', s) :: rest => if k' = k then some s else lookup rest k

/-- the `all(...)` of `Hardware.satisfies` over `other_norm.values()` -/
def allDisksOk (selfNorm : StorageMap) : List Storage → Bool
  | [] => true
  | d :: ds =>
      (match lookup selfNorm d.mount with
       | some s => diskOk s.size d.size
       | none => false) && allDisksOk selfNorm ds

/-- `Hardware.satisfies` -/
def Hardware.satisfies (self other : Hardware) : Except Err Bool :=
  if coresMemoryOk self.cores self.memory other.cores other.memory then do
    let otherNorm ← normalizeStorage other.storage
    let selfNorm ← normalizeStorage self.storage
    if (keys otherNorm).any (fun k => !(keys selfNorm).contains k) then .error .missingStorage
    else pure (allDisksOk selfNorm (values otherNorm))
  else pure false

/-- `Hardware.get_storage(path)` -/
def getStorage : StorageMap → Name → Except Err Storage
  | [], _ => .error .keyError
  | (_, d) :: rest, p => if p = d.mount ∨ d.paths.contains p then .ok d else getStorage rest p

/-- `Hardware.get_mount_point(path)` -/
def Hardware.getMountPoint (h : Hardware) (p : Name) : Except Err Name := do
  let d ← getStorage h.storage p
  pure d.mount

/-! ### quantities the theorems talk about -/

/-- total size a storage map gives to a mount point -/
def mountTotal : StorageMap → Name → Rat
  | [], _ => 0
  | (_, s) :: rest, m => (if s.mount = m then s.size else 0) + mountTotal rest m

/-- the mount points of a storage map -/
def mounts (m : StorageMap) : List Name := m.map (·.2.mount)

/-- every size is acceptable to the `Storage` constructor -/
def ValidMap (m : StorageMap) : Prop := ∀ kd ∈ m, sizeRejected kd.2.size = false

end SFV.HW
