import SFV.Model.PersistSpec
/-! Lemmas about the `dependency` rows of a step (`addDep` = `INSERT OR IGNORE`) used by `SFV.Props.C08`. -/
namespace SFV.Persist

theorem foldl_addDep_mem (ports : List Dep) (deps : List Dep) (d : Dep) :
    (d ∈ deps → d ∈ ports.foldl addDep deps) ∧
    (d ∈ ports → (ports.map (·.1)).Nodup → (∀ e ∈ deps, e.1 ≠ d.1) → d ∈ ports.foldl addDep deps) := by
  induction ports generalizing deps with
  | nil => exact ⟨fun h => h, fun h => by cases h⟩
  | cons a ports ih =>
    have hsub : ∀ x, x ∈ deps → x ∈ addDep deps a := by
      intro x hx; unfold addDep; split
      · exact hx
      · exact List.mem_append_left _ hx
    refine ⟨fun h => (ih (addDep deps a)).1 (hsub d h), ?_⟩
    intro hm hnd hfresh
    simp only [List.map_cons, List.nodup_cons] at hnd
    simp only [List.foldl_cons]
    rcases List.mem_cons.mp hm with rfl | hm'
    · apply (ih _).1
      unfold addDep
      have : deps.any (fun x => x.1 == d.1) = false := by
        simp only [List.any_eq_false, beq_iff_eq]; exact fun e he => hfresh e he
      simp [this]
    · apply (ih _).2 hm' hnd.2
      intro e he
      unfold addDep at he
      split at he
      · exact hfresh e he
      · rcases List.mem_append.mp he with h | h
        · exact hfresh e h
        · simp at h; subst h
          intro heq
          exact hnd.1 (List.mem_map.mpr ⟨d, hm', heq.symm⟩)


theorem foldl_addDep_sub (l : List Dep) : ∀ (acc : List Dep) (x : Dep), x ∈ l.foldl addDep acc → x ∈ acc ∨ x ∈ l := by
  induction l with
  | nil => intro acc x hx; exact Or.inl hx
  | cons a l ih =>
    intro acc x hx
    rcases ih _ x hx with h | h
    · unfold addDep at h
      split at h
      · exact Or.inl h
      · rcases List.mem_append.mp h with h | h
        · exact Or.inl h
        · simp at h; exact Or.inr (by simp [h])
    · exact Or.inr (List.mem_cons_of_mem _ h)

end SFV.Persist
