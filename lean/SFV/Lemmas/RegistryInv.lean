import SFV.Lemmas.Registry
/-! C21 after fix 5f6015f: the invariant of every history (registrations, relations, invalidations) and what the
    structural invalidation walk reaches. -/
namespace SFV.Registry

theorem mem_prefixes {q p : Path} : q ∈ prefixes p ↔ q <+: p ∧ q ≠ [] := by
  induction p generalizing q with
  | nil => simp [prefixes]
  | cons x r ih =>
    simp only [prefixes, List.mem_cons, List.mem_map]
    constructor
    · rintro (rfl | ⟨a, ha, rfl⟩)
      · exact ⟨by simp, by simp⟩
      · exact ⟨by simpa using (ih.mp ha).1, by simp⟩
    · rintro ⟨hp, hne⟩
      cases q with
      | nil => exact absurd rfl hne
      | cons y q' =>
        obtain ⟨rfl, hq'⟩ := List.cons_prefix_cons.mp hp
        by_cases hq : q' = []
        · left; rw [hq]
        · right; exact ⟨q', ih.mpr ⟨hq', hq⟩, rfl⟩

/-- what every reachable registry satisfies -/
structure WInv (s : St) : Prop where
  /-- stored objects exist and are stored under their own location -/
  key : ∀ np l o, o ∈ s.locs np l → o < s.heap.length ∧ objLoc s o = l
  /-- a valid stored object has its path listed in `valid_paths` of that node -/
  listed : ∀ np l o, o ∈ s.locs np l → objValid s o = true → objPath s o ∈ s.vpaths np l
  /-- the trie is prefix closed -/
  closed : ∀ q ∈ s.nodes, ∀ r, r <+: q → r ≠ [] → r ∈ s.nodes

theorem winv_init : WInv St.init := ⟨by simp [St.init], by simp [St.init], by simp [St.init]⟩

theorem mem_setAddP {vp : List Path} {p q : Path} : q ∈ setAddP vp p ↔ q ∈ vp ∨ q = p := by
  unfold setAddP; split <;> simp <;> grind

theorem objValid_app (s : St) (x : Obj) (o : Nat) (h : o < s.heap.length) :
    objValid { s with heap := s.heap ++ [x] } o = objValid s o := by
  simp [objValid, List.getElem?_append_left h]

theorem objPath_app (s : St) (x : Obj) (o : Nat) (h : o < s.heap.length) :
    objPath { s with heap := s.heap ++ [x] } o = objPath s o := by
  simp [objPath, List.getElem?_append_left h]

theorem objLoc_app (s : St) (x : Obj) (o : Nat) (h : o < s.heap.length) :
    objLoc { s with heap := s.heap ++ [x] } o = objLoc s o := by
  simp [objLoc, List.getElem?_append_left h]

theorem winv_alloc {s : St} (h : WInv s) (x : Obj) : WInv { s with heap := s.heap ++ [x] } := by
  refine ⟨?_, ?_, h.closed⟩
  · intro np l o ho
    obtain ⟨h1, h2⟩ := h.key np l o ho
    exact ⟨by simp; omega, by rw [objLoc_app s x o h1]; exact h2⟩
  · intro np l o ho hv
    have h1 := (h.key np l o ho).1
    rw [objValid_app s x o h1] at hv
    rw [objPath_app s x o h1]
    exact h.listed np l o ho hv

theorem winv_nodes {s : St} (h : WInv s) (p : Path) : WInv { s with nodes := s.nodes ++ prefixes p } := by
  refine ⟨h.key, h.listed, ?_⟩
  intro q hq r hr hne
  simp only [List.mem_append] at hq ⊢
  rcases hq with hq | hq
  · exact Or.inl (h.closed q hq r hr hne)
  · right; rw [mem_prefixes] at hq ⊢; exact ⟨List.IsPrefix.trans hr hq.1, hne⟩

/-- storing the object `oid` at the node `np` under its own location, listing its path -/
theorem winv_store {s : St} (h : WInv s) (np : Path) (l oid : Nat) (hlt : oid < s.heap.length) (hl : objLoc s oid = l) :
    WInv { s with locs := upd s.locs np l (s.locs np l ++ [oid]),
                  vpaths := upd s.vpaths np l (setAddP (s.vpaths np l) (objPath s oid)) } := by
  refine ⟨?_, ?_, h.closed⟩
  · intro np' l' o ho
    simp only [upd] at ho
    split at ho
    · rename_i hc
      obtain ⟨rfl, rfl⟩ := hc
      rcases List.mem_append.mp ho with ho | ho
      · exact h.key np' l' o ho
      · simp at ho; subst ho; exact ⟨hlt, hl⟩
    · exact h.key np' l' o ho
  · intro np' l' o ho hv
    simp only [upd] at ho ⊢
    split
    · rename_i hc
      rw [if_pos hc] at ho
      rw [mem_setAddP]
      rcases List.mem_append.mp ho with ho | ho
      · exact Or.inl (h.listed np l o ho hv)
      · simp at ho; subst ho; exact Or.inr rfl
    · rename_i hc
      rw [if_neg hc] at ho
      exact h.listed np' l' o ho hv

/-- `put` keeps the invariant for any existing object stored under its own location -/
theorem winv_putLoop (l o : Nat) (p : Path) (nps : List Path) (s : St) (h : WInv s) (ho : o < s.heap.length)
    (hl : objLoc s o = l) : WInv (putLoop l o p nps s) := by
  induction nps generalizing s with
  | nil => exact h
  | cons np rest ih =>
    by_cases e : np = p
    · subst e
      simp only [putLoop, if_true]
      split
      · exact h
      · exact ih _ (winv_store h np l o ho hl) ho hl
    · simp only [putLoop, e, if_false]
      split
      · exact h
      · have h1 : WInv { s with heap := s.heap ++ [⟨l, np, true⟩] } := winv_alloc h _
        have hnew : s.heap.length < (s.heap ++ [(⟨l, np, true⟩ : Obj)]).length := by simp
        have h2 := winv_store (s := { s with heap := s.heap ++ [⟨l, np, true⟩] }) h1 np l s.heap.length hnew (by simp [objLoc])
        have hp : objPath { s with heap := s.heap ++ [(⟨l, np, true⟩ : Obj)] } s.heap.length = np := by simp [objPath]
        rw [hp] at h2
        exact ih _ h2 (by simp; omega) (by simp only [objLoc] at hl ⊢; simp [List.getElem?_append_left ho, hl])

theorem winv_put (s : St) (h : WInv s) (p : Path) (o : Nat) (ho : o < s.heap.length) (rec : Bool) :
    WInv (put s p o rec) := by
  simp only [put]
  exact winv_putLoop _ o p _ _ (winv_nodes h p) ho rfl

theorem put_heap_le (s : St) (p : Path) (o : Nat) (rec : Bool) : s.heap.length ≤ (put s p o rec).heap.length := by
  simp only [put]
  generalize (if rec = true then (prefixes p).reverse else [p]) = nps
  generalize objLoc s o = l
  have : ∀ (s1 : St), s1.heap.length ≤ (putLoop l o p nps s1).heap.length := by
    induction nps with
    | nil => intro s1; exact Nat.le_refl _
    | cons np rest ih =>
      intro s1
      by_cases e : np = p
      · simp only [putLoop, e, if_true]
        split
        · exact Nat.le_refl _
        · refine Nat.le_trans ?_ (ih _); exact Nat.le_refl _
      · simp only [putLoop, e, if_false]
        split
        · exact Nat.le_refl _
        · refine Nat.le_trans ?_ (ih _); simp
  exact this ⟨s.heap, s.nodes ++ prefixes p, s.locs, s.vpaths⟩

theorem winv_register (s : St) (h : WInv s) (l : Nat) (p : Path) : WInv (register s l p).1 := by
  simp only [register]
  exact winv_put _ (winv_alloc h _) p s.heap.length (by simp) true

theorem winv_relateLoop (dst : Nat) (ds : List Nat) (s : St) (h : WInv s) (hd : dst < s.heap.length)
    (hds : ∀ d ∈ ds, d < s.heap.length) : WInv (relateLoop dst ds s) := by
  induction ds generalizing s with
  | nil => exact h
  | cons d ds ih =>
    simp only [relateLoop]
    have h1 := winv_put s h (objPath s d) dst hd false
    have l1 := put_heap_le s (objPath s d) dst false
    have h2 := winv_put _ h1 (objPath s dst) d (Nat.lt_of_lt_of_le (hds d (by simp)) l1) false
    have l2 := put_heap_le (put s (objPath s d) dst false) (objPath s dst) d false
    exact ih _ h2 (by omega) (fun x hx => by have := hds x (List.mem_cons_of_mem _ hx); omega)

theorem winv_relate (s : St) (h : WInv s) (src dst : Nat) (hd : dst < s.heap.length) : WInv (relate s src dst) := by
  simp only [relate]
  apply winv_relateLoop dst _ s h hd
  intro d hd'
  simp only [entriesAt, List.mem_filter, List.mem_range] at hd'
  exact hd'.1

/-- marking a whole node keeps the invariant -/
theorem winv_mark {s : St} (h : WInv s) (p : Path) (l : Nat) : WInv (markLoop p l (s.locs p l) s) := by
  have hs := shrinks_markLoop p l (s.locs p l) s
  refine ⟨?_, ?_, by rw [hs.nodes]; exact h.closed⟩
  · intro np l' o ho
    rw [hs.locs] at ho
    obtain ⟨h1, h2⟩ := h.key np l' o ho
    exact ⟨by rw [hs.len]; exact h1, by rw [hs.objLoc]; exact h2⟩
  · intro np l' o ho hv
    rw [hs.locs] at ho
    by_cases hc : np = p ∧ l' = l
    · obtain ⟨rfl, rfl⟩ := hc
      rw [markLoop_invalid np l' (s.locs np l') s o ho] at hv; cases hv
    · rw [markLoop_vpaths_other p l _ s np l' hc, hs.objPath]
      exact h.listed np l' o ho (hs.valid o hv)

theorem winv_invNode (depth : Nat) : ∀ s l p, WInv s → WInv (invNode depth s l p) := by
  induction depth with
  | zero => intro s l p h; exact winv_mark h p l
  | succ d ih =>
    intro s l p h
    simp only [invNode]
    have key : ∀ (cs : List Path) (s0 : St), WInv s0 → WInv (cs.foldl (fun s c => invNode d s l c) s0) := by
      intro cs
      induction cs with
      | nil => exact fun _ h0 => h0
      | cons c cs ihc => intro s0 h0; exact ihc _ (ih s0 l c h0)
    exact key _ _ (winv_mark h p l)

/-! ### what the walk reaches -/

theorem le_height (s : St) (q : Path) (hq : q ∈ s.nodes) : q.length ≤ height s := by
  unfold height
  have : ∀ (l : List Path) (m : Nat), (q ∈ l → q.length ≤ l.foldl (fun m q => max m q.length) m) ∧
      m ≤ l.foldl (fun m q => max m q.length) m := by
    intro l
    induction l with
    | nil => intro m; simp
    | cons a l ih =>
      intro m
      simp only [List.foldl_cons, List.mem_cons]
      have := ih (max m a.length)
      refine ⟨?_, by omega⟩
      rintro (rfl | h)
      · omega
      · exact this.1 h
  exact (this s.nodes 0).1 hq

/-- every object stored for `l` at a node of the subtree of `p` is invalid after the walk, provided the depth budget
    covers the node -/
theorem invNode_reaches (depth : Nat) : ∀ (s : St) (l : Nat) (p q : Path), WInv s → q ∈ s.nodes ∨ q = p → p <+: q →
    q.length ≤ p.length + depth → ∀ o ∈ s.locs q l, objValid (invNode depth s l p) o = false := by
  induction depth with
  | zero =>
    intro s l p q _ _ hpre hlen o ho
    have : q = p := by
      obtain ⟨r, rfl⟩ := hpre
      have : r = [] := by cases r with
        | nil => rfl
        | cons a r => simp at hlen; omega
      simp [this]
    subst this
    exact markLoop_invalid q l _ s o ho
  | succ d ih =>
    intro s l p q hW hq hpre hlen o ho
    simp only [invNode]
    have hs1 := shrinks_markLoop p l (s.locs p l) s
    have hW1 := winv_mark hW p l
    -- validity never comes back along the fold
    have hfold : ∀ (cs : List Path) (s0 : St), Shrinks s0 (cs.foldl (fun s c => invNode d s l c) s0) := by
      intro cs
      induction cs with
      | nil => exact fun s0 => shrinks_refl s0
      | cons c cs ihc => intro s0; exact shrinks_trans (shrinks_invNode d s0 l c) (ihc _)
    by_cases hqp : q = p
    · subst hqp
      cases hv : objValid (List.foldl (fun s c => invNode d s l c) (markLoop q l (s.locs q l) s) (children s q)) o with
      | false => rfl
      | true =>
        have := (hfold _ _).valid o hv
        rw [markLoop_invalid q l _ s o ho] at this; cases this
    · -- q lies below the child c = p ++ [x]
      obtain ⟨r, rfl⟩ := hpre
      cases r with
      | nil => simp at hqp
      | cons x r =>
        have hqn : p ++ x :: r ∈ s.nodes := by
          rcases hq with h | h
          · exact h
          · exact absurd h hqp
        have hc : p ++ [x] ∈ s.nodes := hW.closed _ hqn _ ⟨r, by simp⟩ (by simp)
        have hcc : p ++ [x] ∈ children s p := by
          simp only [children]
          apply List.mem_eraseDups.mpr
          simp only [List.mem_filter, decide_eq_true_eq, Bool.and_eq_true, List.isPrefixOf_iff_prefix]
          exact ⟨hc, by simp, ⟨[x], rfl⟩⟩
        -- walk along the fold up to c
        have key : ∀ (cs : List Path) (s0 : St), WInv s0 → s0.nodes = s.nodes → s0.locs = s.locs → p ++ [x] ∈ cs →
            objValid (cs.foldl (fun s c => invNode d s l c) s0) o = false := by
          intro cs
          induction cs with
          | nil => intro _ _ _ _ hm; cases hm
          | cons c cs ihc =>
            intro s0 hW0 hn0 hl0 hm
            simp only [List.foldl_cons]
            by_cases hcx : c = p ++ [x]
            · subst hcx
              have hreach := ih s0 l (p ++ [x]) (p ++ x :: r) hW0 (Or.inl (by rw [hn0]; exact hqn)) ⟨r, by simp⟩
                (by simp at hlen ⊢; omega) o (by rw [hl0]; exact ho)
              cases hv : objValid (List.foldl (fun s c => invNode d s l c) (invNode d s0 l (p ++ [x])) cs) o with
              | false => rfl
              | true => have := (hfold cs _).valid o hv; rw [hreach] at this; cases this
            · have hsh := shrinks_invNode d s0 l c
              exact ihc _ (winv_invNode d s0 l c hW0) (by rw [hsh.nodes, hn0]) (by rw [hsh.locs, hl0])
                (by rcases List.mem_cons.mp hm with h | h
                    · exact absurd h.symm hcx
                    · exact h)
        exact key _ _ hW1 hs1.nodes hs1.locs hcc

/-- objects stored under another location are never touched -/
theorem invNode_other (depth : Nat) : ∀ (s : St) (l : Nat) (p : Path), WInv s → ∀ o, objLoc s o ≠ l →
    objValid (invNode depth s l p) o = objValid s o := by
  have hmark : ∀ (s : St) (l : Nat) (p : Path), WInv s → ∀ o, objLoc s o ≠ l →
      objValid (markLoop p l (s.locs p l) s) o = objValid s o := by
    intro s l p hW o hne
    apply markLoop_valid_other
    intro hm
    exact hne (hW.key p l o hm).2
  induction depth with
  | zero => intro s l p hW o hne; exact hmark s l p hW o hne
  | succ d ih =>
    intro s l p hW o hne
    simp only [invNode]
    have key : ∀ (cs : List Path) (s0 : St), WInv s0 → objLoc s0 o ≠ l →
        objValid (cs.foldl (fun s c => invNode d s l c) s0) o = objValid s0 o := by
      intro cs
      induction cs with
      | nil => intro _ _ _; rfl
      | cons c cs ihc =>
        intro s0 hW0 hne0
        simp only [List.foldl_cons]
        rw [ihc _ (winv_invNode d s0 l c hW0) (by rw [(shrinks_invNode d s0 l c).objLoc]; exact hne0)]
        exact ih s0 l c hW0 o hne0
    have hs1 := shrinks_markLoop p l (s.locs p l) s
    rw [key _ _ (winv_mark hW p l) (by rw [hs1.objLoc]; exact hne)]
    exact hmark s l p hW o hne

end SFV.Registry
