#!/usr/bin/env python3
"""Parse the validate logs (given as arguments) into tools/seed_validation.json"""
import json, os, re, sys
out = {}
p = os.path.join(os.path.dirname(os.path.abspath(__file__)), "seed_validation.json")
if os.path.exists(p):
    out = json.load(open(p))
for f in sys.argv[1:]:
    txt = open(f).read()
    for b in re.split(r"^=== ", txt, flags=re.M)[1:]:
        head = b.split(" ")[0]
        sid = head.replace("/", "-").replace("-1p", "-1")
        if sid.startswith("B"):
            sid = sid[1:4] + "-B" + sid[-1]
        c = re.search(r"demo on clean tree: exit (\d+)", b); q = re.search(r"demo with patch:\s+exit (\d+)", b); t = re.search(r"baseline with patch: (\d+)/171", b)
        if c and q and t:
            rec = {"clean": int(c.group(1)), "patched": int(q.group(1)), "tests": int(t.group(1))}
            rec["ok"] = rec["clean"] == 0 and rec["patched"] != 0 and rec["tests"] == 171
            if rec["ok"] or sid not in out or not out[sid].get("ok"):
                out[sid] = rec
json.dump(out, open(p, "w"), indent=1, sort_keys=True)
print(len(out), "records;", sum(1 for r in out.values() if r["ok"]), "ok;", "not ok:", sorted(k for k, r in out.items() if not r["ok"]))
