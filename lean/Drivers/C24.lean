import SFV.Model.Sh
import SFV.Gen.CmdTemplates
import SFV.Model.Proto
open SFV SFV.Proto SFV.Sh

def hexL (s : List Char) : String := hexOfString (String.ofList s)
def unhexL (h : String) : Option (List Char) := (stringOfHex h).map (·.toList)

def showItem : Item → String
  | .word w => s!"w:{hexL w.cs}:{if w.exp then 1 else 0}"
  | .op s => s!"o:{hexL s}"

def showRes : Res → String
  | .ok items => " ".intercalate ("ok" :: items.map showItem)
  | .unterminated => "unterminated"
  | .subst => "subst"

def handle : List String → String
  | "render" :: name :: args =>
      match Gen.Cmd.table.lookup name, args.mapM unhexL with
      | some t, some args => hexL (render t args)
      | _, _ => "bad-op"
  | "verbatim" :: name :: args =>
      match Gen.Cmd.table.lookup name, args.mapM unhexL with
      | some t, some args => s!"{verbatimOn t args} {showRes (lexLine (render t args))}"
      | _, _ => "bad-op"
  | ["quoted", name] =>
      match Gen.Cmd.table.lookup name with
      | some t => toString (allShQuoted t)
      | none => "bad-op"
  | ["lex", h] =>
      match unhexL h with
      | some s => showRes (lexLine s)
      | none => "bad-op"
  | _ => "bad-op"

def main : IO Unit := runPure handle
