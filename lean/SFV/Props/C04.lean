import SFV.Lemmas.Exec
import SFV.Gen.StepGuards
/-! # C04 — executor protocol: the step network terminates, the executor returns or raises correctly

Property theorems only (helper definitions and lemmas live in `SFV/Lemmas/Exec.lean`, the executable
transition system in `SFV/Model/Exec.lean`). `fx = false` is the code as it is, `fx = true` the repaired
`_cancel`. A state assigns to every step its termination status (`none` = still running). -/
namespace SFV.C04
open SFV.Exec

/-! ## A. The step network -/

/-- **Progress of the step network.** In a well-formed (topologically ordered) graph, whenever some step is
not terminated, some step can terminate by itself: the least non-terminated step has only terminated
producers. Holds in every state, whatever the executor did. -/
theorem progress {fx : Bool} {N : ENet} (hwf : N.WF) (s : St) (h : ∃ i, i < N.n ∧ s.st i = none) :
    ∃ i s', step fx N s (.finish i) = some s' := by
  obtain ⟨i, hi, hn⟩ := h
  obtain ⟨i', _, he⟩ := exists_enabled_finish (fx := fx) hwf s i hi hn
  exact ⟨i', _, he⟩

/-- every `finish` / `fail` terminates exactly one more step -/
theorem step_action_decreases {fx : Bool} {N : ENet} {s s' : St} {a : Act} (h : step fx N s a = some s')
    (ha : isStepAct a = true) : notDone N s' + 1 = notDone N s :=
  step_decreases h ha

/-- no action (of a step or of the executor) brings a terminated step back -/
theorem exec_action_nonincreasing {fx : Bool} {N : ENet} {s s' : St} {a : Act} (h : step fx N s a = some s') :
    notDone N s' ≤ notDone N s :=
  step_nonincreasing h

/-- initially all `N.n` steps are running -/
theorem notDone_init (N : ENet) : notDone N St.init = N.n := SFV.Exec.notDone_init N

/-- **The DAG terminates under every scheduler.** Along any run the number of step actions plus the
number of steps still running never exceeds the number of steps that were running at the start (so a run
from the initial state performs at most `N.n` step actions), and a state in which no step can finish has
every step terminated. -/
theorem dag_terminates {fx : Bool} {N : ENet} (hwf : N.WF) {s s' : St} {acts : List Act}
    (h : runActs fx N s acts = some s') :
    (acts.filter isStepAct).length + notDone N s' ≤ notDone N s ∧
    ((∀ i, step fx N s' (.finish i) = none) → ∀ i, i < N.n → (s'.st i).isSome = true) :=
  ⟨run_steps_bounded acts s s' h, all_done_of_no_finish hwf s'⟩

/-! ## B. The executor -/

/-- **No failure: normal return, everything COMPLETED or SKIPPED.** In a run in which no step raises, the
executor never raises, and once it has left the collecting loop every step is terminated with status
COMPLETED or SKIPPED (in particular `close()` had nobody to cancel). -/
theorem no_failure_completed {fx : Bool} {N : ENet} (hwf : N.WF) {s : St} {acts : List Act}
    (hr : runActs fx N St.init acts = some s) (hnf : NoFail acts) (hp : s.pc ≠ .running) :
    s.pc ≠ .raised ∧ ∀ i, i < N.n → s.st i = some .completed ∨ s.st i = some .skipped := by
  obtain ⟨g1, _, _, g4, g5⟩ := invNF_run hwf hr hnf
  refine ⟨g5, fun i hi => ?_⟩
  cases hx : s.st i with
  | none => exact absurd hx (g4 hp i hi)
  | some x =>
    rcases (bad_false_iff x).mp (g1 i x hi hx) with e | e <;> simp [e]

/-- **A normal return is clean.** If the executor returned normally, every step is terminated COMPLETED or
SKIPPED (with or without the repair, whatever failed on the way). -/
theorem returned_means_clean {fx : Bool} {N : ENet} {s : St} (hr : Reachable fx N s) (hp : s.pc = .returned) :
    ∀ i, i < N.n → s.st i = some .completed ∨ s.st i = some .skipped := by
  intro i hi
  obtain ⟨x, hx, hb⟩ := (inv_reachable hr).2.2 hp i hi
  rcases (bad_false_iff x).mp hb with e | e <;> simp [hx, e]

/-- **A failure is reported.** If any step failed, the executor cannot have returned normally. -/
theorem failure_raises {fx : Bool} {N : ENet} {s : St} (hr : Reachable fx N s)
    (hf : ∃ i, i < N.n ∧ s.st i = some .failed) : s.pc ≠ .returned := by
  intro hp
  obtain ⟨i, hi, hx⟩ := hf
  rcases returned_means_clean hr hp i hi with e | e <;> rw [hx] at e <;> cases e

/-- **The executor is never stuck while collecting.** As long as the executor is in its collecting loop,
either some step can terminate by itself or the termination of some workflow output can be read. -/
theorem executor_progress {fx : Bool} {N : ENet} (hwf : N.WF) {s : St} (hr : Reachable fx N s)
    (hp : s.pc = .running) :
    (∃ i s', step fx N s (.finish i) = some s') ∨ (∃ k s', step fx N s (.read k) = some s') := by
  by_cases hall : ∃ i, i < N.n ∧ s.st i = none
  · exact Or.inl (progress hwf s hall)
  · right
    obtain ⟨k, hk, hkr⟩ := pending_reachable hwf.outsNe hr hp
    have ho : N.outs[k]? = some N.outs[k] := List.getElem?_eq_getElem hk
    cases hx : s.st N.outs[k] with
    | none => exact absurd ⟨_, hwf.outsLt _ (outs_getElem?_mem ho), hx⟩ hall
    | some x => exact ⟨k, step_read_enabled hp hkr ho hx⟩

/-- once the loop is left (`closed`), the executor can always conclude (return or raise) -/
theorem closed_final_enabled {fx : Bool} {N : ENet} {s : St} (hp : s.pc = .closed) :
    ∃ s', step fx N s .final = some s' :=
  step_final_enabled hp

/-- **Every run is short.** A run from the initial state has at most `N.n + N.outs.length + 1` actions (one per
step, one `read` per workflow output, one `final`); in particular at most `N.n + N.outs.length + 2`. No infinite
run exists, under any scheduler, with or without the repair. The bound is attained (see the diamond run below). -/
theorem run_length_bounded {fx : Bool} {N : ENet} {s : St} {acts : List Act}
    (h : runActs fx N St.init acts = some s) :
    acts.length ≤ N.n + N.outs.length + 1 ∧ acts.length ≤ N.n + N.outs.length + 2 := by
  have := budget_run acts St.init s h
  rw [budget_init] at this
  omega

/-! ## C. Failure: are all steps terminated when `run()` raises? -/

/-- **When the executor raises, every step is terminated** — the full-strength clause, for the code as it is now.
`Gen.cancelCallsClose` is extracted from `StreamFlowExecutor._cancel` on every run (it is `true` since fix 88472de:
`_cancel` calls `close()`); `Reachable Gen.cancelCallsClose` are the reachable states of the executor protocol of the
current source. Once the executor is not collecting any more (closed, returned or raised) every step is terminated.
This theorem stops compiling if `_cancel` no longer terminates the steps. -/
theorem failure_all_terminated {N : ENet} {s : St} (hr : Reachable Gen.cancelCallsClose N s) (hp : s.pc ≠ .running) :
    ∀ i, (s.st i).isSome = true := by
  have hg : Gen.cancelCallsClose = true := rfl
  rw [hg] at hr
  exact fixed_inv_reachable hr hp

/-- the same for any executor whose `_cancel` goes through `close()` (`fixed = true`) -/
theorem failure_all_terminated_of_closing_cancel {N : ENet} {s : St} (hr : Reachable true N s) (hp : s.pc ≠ .running) :
    ∀ i, (s.st i).isSome = true :=
  fixed_inv_reachable hr hp

/-- **Regression guard — false before fix 88472de.** About the OLD definition (`fixed = false`: `_cancel` only
set `_closed`): two independent steps; step 0 raises, the executor reads FAILED on output 0, `run()` raises — and
step 1 is still running (nobody cancels or awaits it). -/
theorem failure_all_terminated_false_before_fix_88472de :
    ∃ (N : ENet) (s : St), N.WF ∧ Reachable false N s ∧ s.pc = .raised ∧ ∃ i, i < N.n ∧ s.st i = none :=
  ⟨N2, runD false N2 [.fail 0, .read 0, .final], N2_wf, reachable_runD (by decide), by decide, 1, by decide,
    by decide⟩

/-- In every state, as long as some step is not terminated, some step can terminate by itself and doing so strictly
decreases the number of running steps (with or without the repair): the step network never blocks itself. -/
theorem unterminated_step_can_finish {fx : Bool} {N : ENet} (hwf : N.WF) (s : St)
    (h : ∃ i, i < N.n ∧ s.st i = none) :
    ∃ i s', step fx N s (.finish i) = some s' ∧ notDone N s' + 1 = notDone N s := by
  obtain ⟨i, s', hs⟩ := progress (fx := fx) hwf s h
  exact ⟨i, s', hs, step_action_decreases hs rfl⟩

/-! ## Examples: the hypotheses are satisfiable on non-trivial instances -/

/-! the diamond `0 → 1, 0 → 2, (1, 2) → 3` with output `[3]` and the two-step net `N2` are defined (and proved
well-formed) in `SFV/Lemmas/Exec.lean` -/

example : diamond.WF ∧ N2.WF := ⟨diamond_wf, N2_wf⟩
example : (runActs false diamond St.init diamondRun).isSome = true := by decide
example : diamondRun.length = diamond.n + diamond.outs.length + 1 := by decide
example : NoFail diamondRun := by simp [NoFail, diamondRun]
example : (runD false diamond diamondRun).pc = .returned ∧
    (List.range 4).map (runD false diamond diamondRun).st
      = [some .completed, some .completed, some .skipped, some .completed] := by decide

/-- the hypotheses of `progress` / `unterminated_step_can_finish` in the middle of a run, and the
step they promise (here step 1, not the step 3 that is named in the hypothesis) -/
example : (∃ i, i < diamond.n ∧ (runD false diamond [.finish 0, .finish 2]).st i = none) ∧
    (step false diamond (runD false diamond [.finish 0, .finish 2]) (.finish 1)).isSome = true ∧
    (step false diamond (runD false diamond [.finish 0, .finish 2]) (.finish 3)).isSome = false :=
  ⟨⟨3, by decide, by decide⟩, by decide, by decide⟩

/-- `no_failure_completed` applied to the diamond -/
example : ∀ i, i < 4 → (runD false diamond diamondRun).st i = some .completed ∨
    (runD false diamond diamondRun).st i = some .skipped :=
  (no_failure_completed (fx := false) (s := runD false diamond diamondRun) diamond_wf
    (runD_spec (by decide))
    (by simp [NoFail, diamondRun]) (by decide)).2

/-- a failing run of the diamond: step 1 raises, step 3 ends FAILED, the executor raises; here every step
had terminated by itself before the executor read the failure -/
example : (runD false diamond [.finish 0, .fail 1, .finish 2, .finish 3, .read 0, .final]).pc = .raised ∧
    (List.range 4).map (runD false diamond [.finish 0, .fail 1, .finish 2, .finish 3, .read 0, .final]).st
      = [some .completed, some .failed, some .skipped, some .failed] := by decide

/-- the witness run of `failure_all_terminated_false_before_fix_88472de`, and the same run with the repaired `_cancel` -/
example : (runD false N2 [.fail 0, .read 0, .final]).pc = .raised ∧
    (runD false N2 [.fail 0, .read 0, .final]).st 1 = none ∧
    (runD true N2 [.fail 0, .read 0, .final]).pc = .raised ∧
    (runD true N2 [.fail 0, .read 0, .final]).st 1 = some .cancelled := by decide

/-- in the witness state step 1 can still finish (the partial property), but nobody runs it -/
example : (step false N2 (runD false N2 [.fail 0, .read 0, .final]) (.finish 1)).isSome = true := by decide

/-- hypotheses of `returned_means_clean`: a reachable state with `pc = returned` -/
example : Reachable false diamond (runD false diamond diamondRun) ∧ (runD false diamond diamondRun).pc = .returned :=
  ⟨reachable_runD (by decide), by decide⟩

/-- hypotheses of `failure_raises`: a reachable state in which a step failed (and the executor did raise) -/
example :
    let s := runD false diamond [.finish 0, .fail 1, .finish 2, .finish 3, .read 0, .final]
    Reachable false diamond s ∧ (∃ i, i < diamond.n ∧ s.st i = some .failed) ∧ s.pc = .raised :=
  ⟨reachable_runD (by decide), ⟨1, by decide, by decide⟩, by decide⟩

/-- hypotheses of `executor_progress` in the middle of a run: here no `read` is enabled (the producer of the
output is still running) but `finish 1` is -/
example :
    let s := runD true diamond [.finish 0, .finish 2]
    Reachable true diamond s ∧ s.pc = .running ∧ (step true diamond s (.read 0)).isSome = false ∧
      (step true diamond s (.finish 1)).isSome = true :=
  ⟨reachable_runD (by decide), by decide, by decide, by decide⟩

/-- hypotheses of `failure_all_terminated`: with the repair, reading the failure while step 1 is
still running cancels it -/
example :
    let s := runD true N2 [.fail 0, .read 0]
    Reachable true N2 s ∧ s.pc = .closed ∧ s.st 1 = some .cancelled :=
  ⟨reachable_runD (by decide), by decide, by decide⟩

end SFV.C04
