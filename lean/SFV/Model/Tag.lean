import SFV.Gen.TagGuards
/-! Tags, `compare_tags`, `get_tag`, job names (`streamflow/core/utils.py`).
    A tag is the list of its numeric components; `strLen` is the length of the dotted string. -/
namespace SFV

abbrev Tag := List Nat

/-- number of decimal digits of `n` (`len(str(n))`) -/
def nd (n : Nat) : Nat := if n < 10 then 1 else 1 + nd (n / 10)
decreasing_by omega

/-- `len(tag)` of the dotted string of a non-empty tag -/
def strLen : Tag → Nat
  | [] => 0
  | [a] => nd a
  | a :: b :: r => nd a + 1 + strLen (b :: r)

/-- the `for … in zip(list1, list2)` loop of `compare_tags` -/
def cmpComps : List Nat → List Nat → Int
  | a :: as, b :: bs =>
      if Gen.cmpElemTest (Gen.cmpElem a b) then Gen.cmpElem a b else cmpComps as bs
  | _, _ => Gen.cmpDefault

/-- `compare_tags(tag1, tag2)` -/
def compareTags (t1 t2 : Tag) : Int :=
  if Gen.cmpLenTest (Gen.cmpLen t1.length t2.length) then Gen.cmpLen t1.length t2.length
  else cmpComps t1 t2

/-- the loop of `get_tag` with accumulator `output_tag` -/
def getTagLoop (out : Tag) : List Tag → Tag
  | [] => out
  | t :: ts => if Gen.getTagTakes (strLen t) (strLen out) then getTagLoop t ts else getTagLoop out ts

/-- `get_tag(tokens)` over the tokens' tags -/
def getTag (ts : List Tag) : Tag := getTagLoop Gen.getTagDefault ts

/-- `sorted(tags, key=cmp_to_key(compare_tags))` (stable merge sort; the ties of `compare_tags` are equal tags only,
    `C33.cmp_eq_zero_iff`, so stability cannot be observed) -/
def sortTags (l : List Tag) : List Tag := l.mergeSort (fun a b => decide (compareTags a b ≤ 0))

/-! ### `PurePosixPath` as used by `get_job_step_name` / `get_job_tag` -/

/-- split a character list on `/` (like `str.split("/")`) -/
def splitSlash : List Char → List (List Char)
  | [] => [[]]
  | c :: cs =>
      match splitSlash cs with
      | [] => [[]]            -- unreachable
      | w :: ws => if c = '/' then [] :: w :: ws else (c :: w) :: ws

def joinSlash : List (List Char) → List Char
  | [] => []
  | [w] => w
  | w :: w' :: ws => w ++ '/' :: joinSlash (w' :: ws)

/-- the parts `PurePosixPath` keeps: non-empty and different from `.` -/
def ppParts (s : List Char) : List (List Char) :=
  (splitSlash s).filter (fun p => p ≠ [] ∧ p ≠ ['.'])

/-- root of a POSIX pure path: `//` exactly two leading slashes, else `/`, else empty -/
def ppRoot : List Char → List Char
  | '/' :: '/' :: '/' :: _ => ['/']
  | '/' :: '/' :: _ => ['/', '/']
  | '/' :: _ => ['/']
  | _ => []

def ppRender (root : List Char) (parts : List (List Char)) : List Char :=
  if root = [] ∧ parts = [] then ['.'] else root ++ joinSlash parts

/-- `PurePosixPath(s).parent.as_posix()` -/
def ppParent (s : List Char) : List Char := ppRender (ppRoot s) (ppParts s).dropLast

/-- `PurePosixPath(s).name` -/
def ppName (s : List Char) : List Char := (ppParts s).getLast?.getD []

/-- `posixpath.join(a, b)` for a relative `b` -/
def posixJoin (a b : List Char) : List Char :=
  if a = [] ∨ a.getLast? = some '/' then a ++ b else a ++ '/' :: b

end SFV
