import SFV.Model.ShellRun
import SFV.Lemmas.Sh
/-! Lemmas for C25: `str.find`, the framing loop, chunkings, lexer output prefixes, `cd`/`export` segments. -/
namespace SFV.ShellRun
open SFV.Sh SFV.Gen.Cmd

/-! ### `find` -/

theorem find_first (pat : Str) : ∀ (s : Str) (n : Nat), n ≤ s.length →
    (∀ p, p < n → pat.isPrefixOf (s.drop p) = false) → pat.isPrefixOf (s.drop n) = true → find pat s = some n := by
  intro s
  induction s with
  | nil =>
    intro n hn _ hp
    have : n = 0 := by simpa using hn
    subst this
    cases pat <;> simp_all [find]
  | cons c r ih =>
    intro n hn hlt hp
    cases n with
    | zero => simp only [List.drop_zero] at hp; simp [find, hp]
    | succ m =>
      have h0 := hlt 0 (by omega)
      simp only [List.drop_zero] at h0
      simp only [find, h0]
      rw [ih m (by simpa using hn) (fun p hpm => by simpa using hlt (p + 1) (by omega)) (by simpa using hp)]
      rfl

theorem find_some (pat : Str) : ∀ (s : Str) (n : Nat), find pat s = some n →
    n ≤ s.length ∧ pat.isPrefixOf (s.drop n) = true := by
  intro s
  induction s with
  | nil =>
    intro n h
    simp only [find] at h
    split at h
    · cases h; rename_i hp; cases pat <;> simp_all
    · cases h
  | cons c r ih =>
    intro n h
    simp only [find] at h
    split at h
    · cases h; rename_i hp; simpa using hp
    · cases hf : find pat r with
      | none => simp [hf] at h
      | some m =>
        simp only [hf, Option.map_some, Option.some.injEq] at h
        subst h
        obtain ⟨h1, h2⟩ := ih m hf
        exact ⟨by simpa using h1, by simpa using h2⟩

theorem find_nl_none (s : Str) (h : ∀ c ∈ s, c ≠ '\n') : find ['\n'] s = none := by
  induction s with
  | nil => simp [find]
  | cons c r ih =>
    have hc : c ≠ '\n' := h c (List.mem_cons_self ..)
    have : (['\n'].isPrefixOf (c :: r)) = false := by
      simp [List.isPrefixOf, Ne.symm hc]
    simp [find, this, ih (fun d hd => h d (List.mem_cons_of_mem _ hd))]

theorem find_nl_append (m t : Str) (h : ∀ c ∈ m, c ≠ '\n') : find ['\n'] (m ++ '\n' :: t) = some m.length := by
  induction m with
  | nil => simp [find, List.isPrefixOf]
  | cons c r ih =>
    have hc : c ≠ '\n' := h c (List.mem_cons_self ..)
    have : (['\n'].isPrefixOf (c :: (r ++ '\n' :: t))) = false := by
      simp [List.isPrefixOf, Ne.symm hc]
    simp [find, this, ih (fun d hd => h d (List.mem_cons_of_mem _ hd))]

/-! ### the framing loop -/

theorem framed_eq (out marker rc : Str) : framed out marker rc = out ++ ((marker ++ [':']) ++ (rc ++ ['\n'])) := by
  simp [framed, List.append_assoc]

/-- on the complete answer the test succeeds with the stripped output and the return-code text -/
theorem tryParse_full (out marker rc : Str) (hne : NoEarly (marker ++ [':']) (framed out marker rc) out.length)
    (hm : ∀ c ∈ marker, c ≠ '\n') (hr : ∀ c ∈ rc, c ≠ '\n') :
    tryParse marker (framed out marker rc) = some (strip out, rc) := by
  have hd : (framed out marker rc).drop out.length = (marker ++ [':']) ++ (rc ++ ['\n']) := by
    rw [framed_eq]; exact List.drop_left' rfl
  have h1 : find (marker ++ [':']) (framed out marker rc) = some out.length := by
    apply find_first _ _ _ _ hne
    · rw [hd, List.isPrefixOf_iff_prefix]; exact List.prefix_append _ _
    · rw [framed_eq]; simp
  have h2 : find ['\n'] ((framed out marker rc).drop out.length) = some (marker.length + 1 + rc.length) := by
    rw [hd]
    have key := find_nl_append (marker ++ [':'] ++ rc) [] (by
      intro c hc
      simp only [List.mem_append, List.mem_singleton] at hc
      rcases hc with (hc | hc) | hc
      · exact hm c hc
      · subst hc; decide
      · exact hr c hc)
    have e1 : (marker ++ [':']) ++ (rc ++ ['\n']) = (marker ++ [':'] ++ rc) ++ '\n' :: [] := by
      simp [List.append_assoc]
    have e2 : (marker ++ [':'] ++ rc).length = marker.length + 1 + rc.length := by
      simp only [List.length_append, List.length_cons, List.length_nil]
    rw [e1, key, e2]
  unfold tryParse
  rw [h1]; simp only [h2]
  have h3 : (framed out marker rc).take out.length = out := by
    rw [framed_eq]; exact List.take_left' rfl
  have h4 : (framed out marker rc).drop (out.length + marker.length + 1) = rc ++ ['\n'] := by
    have : framed out marker rc = (out ++ (marker ++ [':'])) ++ (rc ++ ['\n']) := by simp [framed, List.append_assoc]
    rw [this]; exact List.drop_left' (by simp; omega)
  rw [h3, h4]
  have : marker.length + 1 + rc.length - (marker.length + 1) = rc.length := by omega
  rw [this, List.take_left' rfl]

/-- on every proper prefix of the answer the test fails (the reader keeps reading) -/
theorem tryParse_prefix (out marker rc acc tail : Str) (hsplit : acc ++ tail = framed out marker rc) (ht : tail ≠ [])
    (hne : NoEarly (marker ++ [':']) (framed out marker rc) out.length)
    (hm : ∀ c ∈ marker, c ≠ '\n') (hr : ∀ c ∈ rc, c ≠ '\n') :
    tryParse marker acc = none := by
  unfold tryParse
  cases hf : find (marker ++ [':']) acc with
  | none => rfl
  | some mp =>
    obtain ⟨hle, hpre⟩ := find_some _ _ _ hf
    -- the occurrence is also an occurrence in the complete text, hence not before `out.length`
    have hfull : (framed out marker rc).drop mp = acc.drop mp ++ tail := by
      rw [← hsplit]; exact List.drop_append_of_le_length hle
    have hge : out.length ≤ mp := by
      apply Nat.le_of_not_lt
      intro hlt
      have h := hne mp hlt
      rw [hfull] at h
      rw [List.isPrefixOf_iff_prefix] at hpre
      have : (marker ++ [':']).isPrefixOf (acc.drop mp ++ tail) = true := by
        rw [List.isPrefixOf_iff_prefix]; exact hpre.trans (List.prefix_append _ _)
      rw [this] at h; cases h
    -- everything of `acc` from `out.length` on lies inside `marker:rc`
    have hM : acc.drop out.length ++ tail = (marker ++ [':'] ++ rc) ++ ['\n'] := by
      have h1 : (acc ++ tail).drop out.length = acc.drop out.length ++ tail :=
        List.drop_append_of_le_length (by omega)
      rw [← h1, hsplit, framed_eq, List.drop_left' rfl]; simp [List.append_assoc]
    have hlast : tail = tail.dropLast ++ [tail.getLast ht] := (List.dropLast_concat_getLast ht).symm
    rw [hlast, ← List.append_assoc] at hM
    have hX := (List.append_inj' hM rfl).1
    have hnl : ∀ c ∈ acc.drop mp, c ≠ '\n' := by
      intro c hc
      have h1 : c ∈ acc.drop out.length := by
        have : acc.drop mp = (acc.drop out.length).drop (mp - out.length) := by
          rw [List.drop_drop]; congr 1; omega
        rw [this] at hc; exact List.mem_of_mem_drop hc
      have h2 : c ∈ marker ++ [':'] ++ rc := by rw [← hX]; exact List.mem_append_left _ h1
      simp only [List.mem_append, List.mem_singleton] at h2
      rcases h2 with (h2 | h2) | h2
      · exact hm c h2
      · subst h2; decide
      · exact hr c h2
    simp [find_nl_none _ hnl]

theorem readLoop_framed_aux (out marker rc : Str)
    (hne : NoEarly (marker ++ [':']) (framed out marker rc) out.length)
    (hm : ∀ c ∈ marker, c ≠ '\n') (hr : ∀ c ∈ rc, c ≠ '\n') :
    ∀ (chunks : List Str) (acc : Str), chunks ≠ [] → (∀ ch ∈ chunks, ch ≠ []) →
      acc ++ chunks.flatten = framed out marker rc →
      readLoop marker acc chunks = some ((strip out, rc), []) := by
  intro chunks
  induction chunks with
  | nil => intro acc h; exact absurd rfl h
  | cons ch rest ih =>
    intro acc _ hall hflat
    simp only [List.flatten_cons, ← List.append_assoc] at hflat
    unfold readLoop
    by_cases hrest : rest = []
    · subst hrest
      simp only [List.flatten_nil, List.append_nil] at hflat
      rw [hflat, tryParse_full out marker rc hne hm hr]
    · have hne' : rest.flatten ≠ [] := by
        cases rest with
        | nil => exact absurd rfl hrest
        | cons r rs =>
          have := hall r (by simp)
          simp [this]
      rw [tryParse_prefix out marker rc (acc ++ ch) rest.flatten hflat hne' hne hm hr]
      exact ih (acc ++ ch) hrest (fun c hc => hall c (List.mem_cons_of_mem _ hc)) hflat

theorem isPrefixOf_append_split (pat a b : Str) (h : pat.isPrefixOf (a ++ b) = true) (hlen : pat.length ≤ a.length) :
    pat.isPrefixOf a = true := by
  rw [List.isPrefixOf_iff_prefix] at h ⊢
  obtain ⟨t, ht⟩ := h
  -- pat ++ t = a ++ b, |pat| ≤ |a|  ⇒ pat is a prefix of a
  have := List.append_eq_append_iff.mp ht
  rcases this with ⟨c, hc1, _⟩ | ⟨c, hc1, _⟩
  · exact ⟨c, hc1.symm⟩
  · have : c = [] := by
      have hl := congrArg List.length hc1
      simp at hl
      exact List.eq_nil_of_length_eq_zero (by omega)
    subst this
    simp at hc1
    exact ⟨[], by simp [hc1]⟩

/-- **fresh markers are framable**: if the marker contains no `:` and `marker:` does not occur inside the output, then
    `marker:` does not occur anywhere before its own position in the framed answer -/
theorem noEarly_of_fresh (out marker rc : Str) (hcolon : ∀ c ∈ marker, c ≠ ':')
    (hfresh : ∀ p, (marker ++ [':']).isPrefixOf (out.drop p) = false) :
    NoEarly (marker ++ [':']) (framed out marker rc) out.length := by
  intro p hp
  rw [framed_eq]
  rw [List.drop_append_of_le_length (by omega)]
  cases h : (marker ++ [':']).isPrefixOf (out.drop p ++ (marker ++ [':'] ++ (rc ++ ['\n']))) with
  | false => rfl
  | true =>
    exfalso
    -- either the occurrence fits inside `out` (excluded by freshness) or its `:` falls inside the marker
    by_cases hfit : (marker ++ [':']).length ≤ (out.drop p).length
    · have := isPrefixOf_append_split _ _ _ h hfit
      rw [hfresh p] at this; cases this
    · rw [List.isPrefixOf_iff_prefix] at h
      obtain ⟨t, ht⟩ := h
      have hl : (out.drop p).length < marker.length + 1 := by simpa using hfit
      have hpos : 0 < (out.drop p).length := by simp [List.length_drop]; omega
      -- compare the character at index |marker| on both sides: `:` on the left, a marker character on the right
      have hidx : marker.length - (out.drop p).length < marker.length := by omega
      have e1 := congrArg (fun l => l[marker.length]?) ht
      rw [List.getElem?_append_left (by simp), List.getElem?_append_right (by simp)] at e1
      simp only [Nat.sub_self, List.getElem?_cons_zero] at e1
      rw [List.getElem?_append_right (by omega), List.append_assoc, List.getElem?_append_left (by omega)] at e1
      have hmem : ':' ∈ marker := by
        have := e1.symm
        exact List.mem_of_getElem? this
      exact hcolon ':' hmem rfl

/-! ### chunkings -/

theorem chunkBy_flatten : ∀ (cuts : List Nat) (s : Str), (chunkBy cuts s).flatten = s := by
  intro cuts
  induction cuts with
  | nil => intro s; cases s <;> simp [chunkBy]
  | cons n ns ih =>
    intro s
    cases s with
    | nil => simp [chunkBy]
    | cons c r => simp only [chunkBy, List.isEmpty_cons, Bool.false_eq_true, if_false, List.flatten_cons, ih,
        List.take_append_drop]

theorem chunkBy_nonempty : ∀ (cuts : List Nat) (s : Str), ∀ ch ∈ chunkBy cuts s, ch ≠ [] := by
  intro cuts
  induction cuts with
  | nil => intro s ch h; cases s <;> simp_all [chunkBy]
  | cons n ns ih =>
    intro s ch h
    cases s with
    | nil => simp [chunkBy] at h
    | cons c r =>
      simp only [chunkBy, List.isEmpty_cons, Bool.false_eq_true, if_false, List.mem_cons] at h
      rcases h with h | h
      · subst h; simp
      · exact ih _ ch h

theorem chunkBy_ne_nil (cuts : List Nat) (s : Str) (h : s ≠ []) : chunkBy cuts s ≠ [] := by
  cases cuts <;> cases s <;> simp_all [chunkBy]

theorem framed_ne_nil (out marker rc : Str) : framed out marker rc ≠ [] := by simp [framed]

/-! ### lexer: items already emitted are a prefix of the result -/

def addOut (p : List Item) (st : LexSt) : LexSt := { st with out := p ++ st.out }

theorem stepUnq_addOut (p : List Item) (st : LexSt) (c : Char) : stepUnq (addOut p st) c = addOut p (stepUnq st c) := by
  unfold stepUnq
  simp only [apply_ite (addOut p)]
  cases hc : st.cur <;>
    simp [addOut, LexSt.quoteMark, LexSt.pushLit, LexSt.flush, LexSt.emit, LexSt.push, LexSt.markExp, hc, List.append_assoc]

theorem stepDq_addOut (p : List Item) (st : LexSt) (c : Char) : stepDq (addOut p st) c = addOut p (stepDq st c) := by
  unfold stepDq
  simp only [apply_ite (addOut p)]
  simp [addOut, LexSt.push]

theorem step_addOut (p : List Item) (st : LexSt) (c : Char) : step (addOut p st) c = addOut p (step st c) := by
  unfold step
  have hmode : (addOut p st).mode = st.mode := rfl
  rw [hmode]
  cases hm : st.mode with
  | unq => exact stepUnq_addOut p st c
  | dq => exact stepDq_addOut p st c
  | dolU =>
    dsimp only
    by_cases h1 : (c = '(' || c = '{') = true
    · rw [if_pos h1, if_pos h1]; rfl
    · rw [if_neg h1, if_neg h1]
      by_cases h2 : isParamStart c = true
      · rw [if_pos h2, if_pos h2]; rfl
      · rw [if_neg h2, if_neg h2]
        exact stepUnq_addOut p { (st.push '$') with mode := .unq } c
  | dolD =>
    dsimp only
    by_cases h1 : (c = '(' || c = '{') = true
    · rw [if_pos h1, if_pos h1]; rfl
    · rw [if_neg h1, if_neg h1]
      by_cases h2 : isParamStart c = true
      · rw [if_pos h2, if_pos h2]; rfl
      · rw [if_neg h2, if_neg h2]
        exact stepDq_addOut p { (st.push '$') with mode := .dq } c
  | opc a =>
    dsimp only
    by_cases h1 : isOp2 a c = true
    · rw [if_pos h1, if_pos h1]; simp [addOut, LexSt.emit, List.append_assoc]
    · rw [if_neg h1, if_neg h1]
      have := stepUnq_addOut p { (st.emit (.op [a])) with mode := .unq } c
      rw [← this]; simp [addOut, LexSt.emit, List.append_assoc]
  | sq =>
    dsimp only
    by_cases h1 : c = '\''
    · rw [if_pos h1, if_pos h1]; rfl
    · rw [if_neg h1, if_neg h1]; rfl
  | bsU =>
    dsimp only
    by_cases h1 : c = '\n'
    · rw [if_pos h1, if_pos h1]; rfl
    · rw [if_neg h1, if_neg h1]; rfl
  | bsD =>
    dsimp only
    by_cases h1 : c = '\n'
    · rw [if_pos h1, if_pos h1]; rfl
    · rw [if_neg h1, if_neg h1]
      by_cases h2 : (c = '$' || c = '`' || c = '"' || c = '\\') = true
      · rw [if_pos h2, if_pos h2]; rfl
      · rw [if_neg h2, if_neg h2]; rfl
  | cmt =>
    dsimp only
    by_cases h1 : c = '\n'
    · rw [if_pos h1, if_pos h1]; simp [addOut, LexSt.emit, List.append_assoc]
    · rw [if_neg h1, if_neg h1]

theorem feed_addOut (p : List Item) (s : Str) : ∀ st : LexSt, feed (addOut p st) s = addOut p (feed st s) := by
  induction s with
  | nil => intro st; rfl
  | cons c r ih => intro st; rw [feed_cons, feed_cons, step_addOut, ih]

/-- prefix a lexing result with items -/
def prefixRes (p : List Item) : Res → Res
  | .ok i => .ok (p ++ i)
  | r => r

theorem finish_addOut (p : List Item) (st : LexSt) : finish (addOut p st) = prefixRes p (finish st) := by
  unfold finish
  by_cases hb : st.bad = true
  · simp [addOut, hb, prefixRes]
  · simp only [addOut, hb]
    cases hm : st.mode <;> cases hc : st.cur <;>
      simp [prefixRes, LexSt.flush, LexSt.push, hc, List.append_assoc]

/-- a text that leaves the lexer between words, followed by `b`: the items of the first, then the items of `b` -/
theorem lexLine_append (a b : Str) (pre : List Item) (h : feed init a = { out := pre }) :
    lexLine (a ++ b) = prefixRes pre (lexLine b) := by
  unfold lexLine
  rw [feed_append, h]
  have : ({ out := pre } : LexSt) = addOut pre init := by simp [addOut, init]
  rw [this, feed_addOut, finish_addOut]

theorem feed_between (a : Str) (pre : List Item) (st : LexSt) (hst : st = { out := st.out })
    (h : feed init a = { out := pre }) : feed st a = { out := st.out ++ pre } := by
  have : st = addOut st.out init := by rw [hst]; simp [addOut, init]
  rw [this, feed_addOut, h]; simp [addOut, init]

/-! ### `joinSep` -/

theorem joinSep_snoc (sep : Str) (xs : List Str) (last : Str) :
    joinSep sep (xs ++ [last]) = (xs.map (· ++ sep)).flatten ++ last := by
  induction xs with
  | nil => simp [joinSep]
  | cons x r ih =>
    cases r with
    | nil => simp [joinSep]
    | cons y r' =>
      simp only [List.cons_append, joinSep, List.map_cons, List.flatten_cons, List.append_assoc] at ih ⊢
      rw [ih]

/-! ### `K=v` -/

theorem splitEq_key (k v : Str) (h : k.contains '=' = false) : splitEq (k ++ '=' :: v) = some (k, v) := by
  induction k with
  | nil => simp [splitEq]
  | cons c r ih =>
    simp only [List.contains_cons, Bool.or_eq_false_iff, beq_eq_false_iff_ne, ne_eq] at h
    have hc : c ≠ '=' := fun e => h.1 e.symm
    simp [splitEq, hc, ih h.2]

/-! ### `cd` / `export` segments -/

/-- a literal word -/
def W (s : Str) : Item := .word { cs := s }

def kwCd : Str := ['c', 'd']
def kwExport : Str := ['e', 'x', 'p', 'o', 'r', 't']

/-- after a word, a separator text (`; ` or ` && `) closes the word and emits the operator -/
theorem feed_sep_semicolon (o : List Item) (w : Str) :
    feed { mode := .unq, cur := some { cs := w }, out := o, bad := false } [';', ' '] = { out := o ++ [W w, .op [';']] } := by
  simp [feed, step, stepUnq, isBlank, isOpChar, isOp2, LexSt.flush, LexSt.emit, W]

theorem feed_sep_andand (o : List Item) (w : Str) :
    feed { mode := .unq, cur := some { cs := w }, out := o, bad := false } [' ', '&', '&', ' '] = { out := o ++ [W w, .op ['&', '&']] } := by
  simp [feed, step, stepUnq, isBlank, isOpChar, isOp2, LexSt.flush, LexSt.emit, W]

theorem feed_kwCd : feed init ['c', 'd', ' '] = { out := [W kwCd] } := by decide
theorem feed_kwExport : feed init ['e', 'x', 'p', 'o', 'r', 't', ' '] = { out := [W kwExport] } := by decide

theorem keyOk_iff (k : Str) : keyOk k = true ↔ k ≠ [] ∧ k.all isSafe = true ∧ k.contains '=' = false := by
  unfold keyOk
  cases k <;> simp [Bool.and_eq_true]

/-- `cd <shlex.quote(wd)>; ` -/
theorem feed_bsc_cdSeg (wd : Str) :
    feed init (render bsc_cd [wd] ++ bsc_sep) = { out := [W kwCd, W wd, .op [';']] } := by
  have e : render bsc_cd [wd] ++ bsc_sep = ['c', 'd', ' '] ++ (shlexQuote wd ++ [';', ' ']) := by
    simp [render, renderPiece, bsc_cd, bsc_sep, arg]
  rw [e, feed_append, feed_kwCd, feed_append, feed_shlexQuote _ _ rfl]
  exact feed_sep_semicolon [W kwCd] wd

/-- `export K=<shlex.quote(v)>; ` -/
theorem feed_bsc_exportSeg (k v : Str) (hk : keyOk k = true) :
    feed init (render bsc_export [k, v] ++ bsc_sep) = { out := [W kwExport, W (k ++ '=' :: v), .op [';']] } := by
  obtain ⟨hne, hs, _⟩ := (keyOk_iff k).mp hk
  have e : render bsc_export [k, v] ++ bsc_sep
      = ['e', 'x', 'p', 'o', 'r', 't', ' '] ++ (k ++ (['='] ++ (shlexQuote v ++ [';', ' ']))) := by
    simp [render, renderPiece, bsc_export, bsc_sep, arg]
  rw [e, feed_append, feed_kwExport, feed_append, feed_safe _ k hne hs rfl, feed_append,
    feed_safe _ ['='] (by simp) (by decide) rfl, feed_append, feed_shlexQuote _ _ rfl]
  have := feed_sep_semicolon [W kwExport] (k ++ '=' :: v)
  simpa [LexSt.pushLit, List.append_assoc] using this

/-- characters that are literal inside double quotes -/
def dqPlain (c : Char) : Bool := !(c = '"' || c = '\\' || c = '$' || c = '`')

theorem feed_dqPlain (v : Str) : ∀ (st : LexSt) (w : Word), st.mode = .dq → st.cur = some w →
    v.all dqPlain = true → feed st v = st.pushLit v := by
  induction v with
  | nil =>
    intro st w _ hc _
    simp only [feed, List.foldl_nil, LexSt.pushLit, hc, List.append_nil]
    cases st; simp_all
  | cons c r ih =>
    intro st w hm hc hv
    simp only [List.all_cons, Bool.and_eq_true] at hv
    have hcp := hv.1
    simp only [dqPlain, Bool.not_eq_true', Bool.or_eq_false_iff, decide_eq_false_iff_not] at hcp
    obtain ⟨⟨⟨h1, h2⟩, h3⟩, h4⟩ := hcp
    rw [feed_cons]
    have : step st c = st.pushLit [c] := by
      simp only [step, hm, stepDq, h1, h2, h3, h4, if_false]; exact push_eq_pushLit _ _
    rw [this, ih _ { w with cs := w.cs ++ [c] } (by simp [hm]) (by simp [LexSt.pushLit, hc]) hv.2,
      pushLit_pushLit]
    rfl

/-- `cd <shlex.quote(wd)> && ` of `create_command` (as it is since commit 1a0529c), for every directory string -/
theorem feed_cc_cdSeg (wd : Str) :
    feed init (render cc_cd [wd]) = { out := [W kwCd, W wd, .op ['&', '&']] } := by
  have e : render cc_cd [wd] = ['c', 'd', ' '] ++ (shlexQuote wd ++ [' ', '&', '&', ' ']) := by
    simp [render, renderPiece, cc_cd, arg]
  rw [e, feed_append, feed_kwCd, feed_append, feed_shlexQuote _ _ rfl]
  exact feed_sep_andand [W kwCd] wd

/-- `export K=<shlex.quote(v)> && ` of `create_command`, for every value -/
theorem feed_cc_exportSeg (k v : Str) (hk : keyOk k = true) :
    feed init (render cc_export [k, v]) = { out := [W kwExport, W (k ++ '=' :: v), .op ['&', '&']] } := by
  obtain ⟨hne, hs, _⟩ := (keyOk_iff k).mp hk
  have e : render cc_export [k, v]
      = ['e', 'x', 'p', 'o', 'r', 't', ' '] ++ (k ++ (['='] ++ (shlexQuote v ++ [' ', '&', '&', ' ']))) := by
    simp [render, renderPiece, cc_export, arg]
  rw [e, feed_append, feed_kwExport, feed_append, feed_safe _ k hne hs rfl, feed_append,
    feed_safe _ ['='] (by simp) (by decide) rfl, feed_append, feed_shlexQuote _ _ rfl]
  have := feed_sep_andand [W kwExport] (k ++ '=' :: v)
  simpa [LexSt.pushLit, List.append_assoc] using this

/-! ### interpreting the segments -/

theorem splitSeq_seg2 (a b sep : Item) (rest : List Item) (ha : isSep a = false) (hb : isSep b = false)
    (hs : isSep sep = true) : splitSeq (a :: b :: sep :: rest) = [a, b] :: splitSeq rest := by
  simp [splitSeq, ha, hb, hs, consHead]

theorem map_nil_append {α β : Type} (x : Option (α × List β)) : x.map (fun p => (p.1, [] ++ p.2)) = x := by
  cases x <;> simp

theorem runItems_cd (e : Env) (wd : Str) (sep : Item) (hs : isSep sep = true) (rest : List Item) :
    runItems e (W kwCd :: W wd :: sep :: rest) = runItems { e with cwd := some wd } rest := by
  unfold runItems
  rw [splitSeq_seg2 _ _ _ _ (by decide) (by simp [isSep, W]) hs]
  simp [runSegs, wordsOf, W, runSimple, kwCd]

theorem runItems_export (e : Env) (k v : Str) (hk : keyOk k = true) (sep : Item) (hs : isSep sep = true)
    (rest : List Item) :
    runItems e (W kwExport :: W (k ++ '=' :: v) :: sep :: rest) = runItems { e with vars := setVar e.vars k v } rest := by
  obtain ⟨_, _, hc⟩ := (keyOk_iff k).mp hk
  unfold runItems
  rw [splitSeq_seg2 _ _ _ _ (by decide) (by simp [isSep, W]) hs]
  simp [runSegs, wordsOf, W, runSimple, kwExport, splitEq_key k v hc]

/-- the items of the `export` statements of a whole environment -/
def exportItems (sep : Item) (env : List (Str × Str)) : List Item :=
  env.flatMap (fun kv => [W kwExport, W (kv.1 ++ '=' :: kv.2), sep])

theorem runItems_exports (sep : Item) (hs : isSep sep = true) (env : List (Str × Str)) :
    ∀ (e : Env) (rest : List Item), (∀ kv ∈ env, keyOk kv.1 = true) →
      runItems e (exportItems sep env ++ rest) = runItems { e with vars := applyEnv e.vars env } rest := by
  induction env with
  | nil => intro e rest _; simp [exportItems, applyEnv]
  | cons kv r ih =>
    intro e rest hk
    have h1 : exportItems sep (kv :: r) ++ rest
        = W kwExport :: W (kv.1 ++ '=' :: kv.2) :: sep :: (exportItems sep r ++ rest) := by
      simp [exportItems]
    rw [h1, runItems_export e kv.1 kv.2 (hk kv (by simp)) sep hs,
      ih _ rest (fun x hx => hk x (List.mem_cons_of_mem _ hx))]
    simp [applyEnv]

theorem feed_exportSegs (sep : Item) (seg : Str × Str → Str)
    (hseg : ∀ kv, feed init (seg kv) = { out := [W kwExport, W (kv.1 ++ '=' :: kv.2), sep] }) (env : List (Str × Str)) :
    ∀ (o : List Item), feed { out := o } (env.map seg).flatten = { out := o ++ exportItems sep env } := by
  induction env with
  | nil => intro o; simp [feed, exportItems]
  | cons kv r ih =>
    intro o
    simp only [List.map_cons, List.flatten_cons, feed_append]
    rw [feed_between (seg kv) _ { out := o } rfl (hseg kv), ih]
    simp [exportItems, List.append_assoc]

end SFV.ShellRun
