"""C26 — deployments follow a safe lifecycle under concurrent requests."""
from __future__ import annotations

import collections
import itertools
import json
import logging
import random
import re

from sfv.framework import REPO, Ctx, Property
from sfv.rt import fakedeploy as fd
from sfv.translate import deployguards

logging.getLogger("streamflow").setLevel(logging.ERROR)

TOPOS = {
    "D": {"D": None}, "DE": {"D": None, "E": None}, "WD": {"D": None, "W": "D"}, "VWD": {"D": None, "W": "D", "V": "W"},
    "WXD": {"D": None, "W": "D", "X": "D"}, "WDE": {"D": None, "W": "D", "E": None},
}
K7 = "undeploy-under-live-wrapper:dependants-stripped-before-undeploy"
K8 = "hang:deploy-waits-forever-after-failure-inside-_inner_deploy"
KA = "deploy-returned-before-deployed:event-of-redeploy-set-by-finishing-undeploy"
KB = "lazy-connector-not-undeployed:FutureConnector.undeploy-during-its-deploy"
KD = "hang:event-of-failed-deployment-cleared-by-waiting-undeploy"
KC = "undeploy_all-left-live:failed-wrapper-stays-in-dependants-of-wrapped"
KH = "undeploy-returned-but-connector-live"
KF = "undeploy-of-not-deployed:undeploy-woken-from-event-wait-acts-on-redeployed-incarnation"
KG = "deploy-while-live:lazy-redeploy-overlaps-connector-awaiting-its-deferred-undeploy"
KE = "undeploy-under-live-wrapper:finishing-undeploy-strips-dependants-edge-of-concurrent-redeploy"


def gen_case(rng: random.Random, idx: int, single: bool | None = None) -> dict:
    if single is None:
        single = rng.random() < 0.45
    tname = "D" if single else rng.choice([t for t in TOPOS if t != "D"])
    topo = TOPOS[tname]
    deps = {n: {"kind": "wrap" if w else "base", "wraps": w, "lazy": rng.random() < (0.4 if single else 0.25)} for n, w in topo.items()}
    names = list(topo)
    scripts = {n: {"deploy": [[rng.choice([1, 1, 2, 3, 5]), rng.random() > 0.15] for _ in range(5)],
                   "undeploy_steps": rng.choice([1, 1, 2, 4])} for n in names}

    def req():
        k = rng.choice(["deploy"] * 5 + ["undeploy"] * 3 + ["undeploy_all"] + (["use"] * 3 if single else []))
        delay = rng.choice([0, 0, 0, 1, 2, 4, 7])
        return [k, None, delay] if k == "undeploy_all" else [k, rng.choice(names), delay]

    prefix = [["deploy", rng.choice(names)] for _ in range(rng.choice([0, 0, 1, 1, 2]))]
    batch = [req() for _ in range(rng.randint(1, 4))]
    while sum(1 for r in batch if r[0] == "undeploy_all") > 1:     # at most one concurrent undeploy_all (task naming)
        batch = [r for r in batch if r[0] != "undeploy_all"] + [["undeploy_all"]]
    return {"idx": idx, "topo": tname, "deployments": deps, "scripts": scripts, "prefix": prefix, "batch": batch,
            "lseed": rng.randrange(1 << 30)}


CORPUS = [
    # finding 7: undeploy_all on the deployed chain V>W>D
    {"idx": -1, "topo": "VWD", "deployments": {n: {"kind": "wrap" if w else "base", "wraps": w, "lazy": False} for n, w in TOPOS["VWD"].items()},
     "scripts": {}, "prefix": [["deploy", "V"]], "batch": [], "lseed": 1},
    # finding 8: D fails inside _inner_deploy while a second deploy(W) waits
    {"idx": -2, "topo": "WD", "deployments": {n: {"kind": "wrap" if w else "base", "wraps": w, "lazy": False} for n, w in TOPOS["WD"].items()},
     "scripts": {"D": {"deploy": [[2, False]]}}, "prefix": [], "batch": [["deploy", "W"], ["deploy", "W"]], "lseed": 1, "shuffle": False},
    # premature event set
    {"idx": -3, "topo": "D", "deployments": {"D": {"kind": "base", "wraps": None, "lazy": False}},
     "scripts": {"D": {"deploy": [[1, True], [6, True]], "undeploy_steps": 2}}, "prefix": [["deploy", "D"]],
     "batch": [["undeploy", "D"], ["deploy", "D"], ["deploy", "D"]], "lseed": 0},
    # lazy connector leaked
    {"idx": -4, "topo": "D", "deployments": {"D": {"kind": "base", "wraps": None, "lazy": True}},
     "scripts": {"D": {"deploy": [[1, True]] * 4, "undeploy_steps": 1}}, "prefix": [["deploy", "D"]],
     "batch": [["use", "D"], ["deploy", "D"], ["undeploy", "D"], ["deploy", "D"]], "lseed": 770412259},
    # open finding: a waiting undeploy clears the event of a failed deployment, later deploys hang
    {"idx": -5, "topo": "D", "deployments": {"D": {"kind": "base", "wraps": None, "lazy": False}},
     "scripts": {"D": {"deploy": [[3, False], [1, True]], "undeploy_steps": 1}}, "prefix": [],
     "batch": [["deploy", "D"], ["undeploy", "D", 1], ["deploy", "D", 8]], "lseed": 0, "final_undeploy_all": False},
    # open finding: a wrapper whose own deploy fails stays among the dependants of the wrapped deployment
    # an undeploy / undeploy_all issued INSIDE the deploy window of an eager deployment must undeploy it once the deploy has finished
    {"idx": -7, "topo": "D", "deployments": {"D": {"kind": "base", "wraps": None, "lazy": False}},
     "scripts": {"D": {"deploy": [[5, True]], "undeploy_steps": 1}}, "prefix": [],
     "batch": [["deploy", "D", 0], ["undeploy", "D", 2]], "lseed": 0, "shuffle": False, "final_undeploy_all": False},
    {"idx": -8, "topo": "D", "deployments": {"D": {"kind": "base", "wraps": None, "lazy": False}},
     "scripts": {"D": {"deploy": [[5, True]], "undeploy_steps": 2}}, "prefix": [],
     "batch": [["deploy", "D", 0], ["undeploy_all", None, 2]], "lseed": 0, "shuffle": False, "final_undeploy_all": False},
    {"idx": -9, "topo": "WD", "deployments": {n: {"kind": "wrap" if w else "base", "wraps": w, "lazy": False} for n, w in TOPOS["WD"].items()},
     "scripts": {"D": {"deploy": [[4, True]], "undeploy_steps": 1}}, "prefix": [],
     "batch": [["deploy", "D", 0], ["undeploy", "D", 1], ["undeploy", "D", 3]], "lseed": 0, "shuffle": False, "final_undeploy_all": False},
    {"idx": -6, "topo": "WXD", "deployments": {n: {"kind": "wrap" if w else "base", "wraps": w, "lazy": False} for n, w in TOPOS["WXD"].items()},
     "scripts": {"W": {"deploy": [[1, False]]}}, "prefix": [], "batch": [["deploy", "W"], ["deploy", "X"]], "lseed": 93353735},
]


# ------------------------------------------------------------------------------------------------
# the property's own oracle on the call log
# ------------------------------------------------------------------------------------------------
def monitor(case: dict, r: dict) -> list[tuple[str, str]]:
    fails = []
    log, ops = r["log"], r["ops"]
    deps = case["deployments"]
    wrappers_of = collections.defaultdict(list)
    for n, d in deps.items():
        if d["wraps"]:
            wrappers_of[d["wraps"]].append(n)
    obj: dict = {}
    for seq, kind, name, o, task in log:
        if kind == "create":
            obj[o] = {"name": name, "create": seq, "task": task}
        elif kind in ("deploy-enter", "deploy-exit", "deploy-fail", "undeploy-enter", "undeploy-exit"):
            obj[o].setdefault(kind, []).append(seq)

    def live_at(o, t):
        d = obj[o]
        return "deploy-exit" in d and d["deploy-exit"][0] < t and not ("undeploy-enter" in d and d["undeploy-enter"][0] < t)

    def active_at(o, t):
        d = obj[o]
        return ("deploy-enter" in d and d["deploy-enter"][0] < t and not ("deploy-fail" in d and d["deploy-fail"][0] < t)
                and not ("undeploy-enter" in d and d["undeploy-enter"][0] < t))

    def ancestors_failed(name):
        w, out = deps[name]["wraps"], []
        while w:
            out.append(w)
            w = deps[w]["wraps"]
        return any(any(e[1] == "deploy-fail" and e[2] == a for e in log) for a in out)

    if r["hang"]:
        pend = r.get("pending") or [q["rid"] for q in r["requests"] if "end" not in q]
        last = {t: [o for o in ops if o[0] == t and o[1] != "SEG"][-1:] for t in pend}
        waits = [l[0][2] for l in last.values() if l and l[0][1] == "ev-block"]
        own_failed = {e[2] for e in log if e[1] == "deploy-fail"}
        if waits and all(n in r["maps"].get("config_map", []) and n not in r["maps"].get("deployments_map", []) and deps[n]["wraps"]
                         and n not in own_failed for n in waits) and len(waits) == len(pend):
            fails.append((K8, f"requests {pend} wait for the event of {sorted(set(waits))} which is never set: the request that registered it raised inside _inner_deploy"))
        elif waits and len(waits) == len(pend) and all(
                n in r["maps"].get("config_map", []) and n not in r["maps"].get("deployments_map", []) and n in own_failed
                and any(o[1] == "ev-clear" and o[2] == n and _is_undeploy_task(r, o[0]) for o in ops) for n in waits):
            fails.append((KD, f"requests {pend} wait for the event of the failed deployment {sorted(set(waits))}, which a woken "
                              f"undeploy request cleared before hitting its KeyError"))
        else:
            fails.append(("hang", f"requests {pend} never finished; last operations {last}"))
    lazy_race = set()
    for o, d in obj.items():
        n = d["name"]
        if deps[n]["lazy"] and "deploy-enter" in d:
            end = (d.get("deploy-exit") or d.get("deploy-fail") or [10 ** 9])[0]
            i0 = next(i for i, e in enumerate(log) if e[0] == d["deploy-enter"][0])
            # an undeploy removed the FutureConnector from the map while its deploy was in flight
            seqs = [e[0] for e in log]
            during = [e for e in log if d["deploy-enter"][0] < e[0] < end and e[1].startswith("req-start:undeploy")]
            del_during = any(op[1] == "deployments_map.del" and op[2] == n for op in _ops_between(r, d["deploy-enter"][0], end))
            if del_during:
                lazy_race.add(o)
    for o, d in obj.items():
        n = d["name"]
        if len(d.get("deploy-enter", [])) > 1:
            fails.append(("deploy-twice-same-object", f"{d}"))
        if len(d.get("undeploy-enter", [])) > 1:
            fails.append(("undeploy-twice", f"{n} object {o} undeployed twice"))
        if "undeploy-enter" in d and not ("deploy-exit" in d and d["deploy-exit"][0] < d["undeploy-enter"][0]):
            by_undeploy = any(op[1] == "ev-set" and op[2] == n and _is_undeploy_task(r, op[0])
                              for op in _ops_between(r, d["deploy-enter"][0], d["undeploy-enter"][0])) if "deploy-enter" in d else False
            stale = _stale_woken_undeploy(ops, n, d.get("undeploy-task"))
            fails.append((KA if by_undeploy else (KF if stale else "undeploy-of-not-deployed"),
                          f"{n} object {o}: undeploy() entered at {d['undeploy-enter'][0]} while its deploy() had not completed: {d}"))
        if "deploy-enter" in d:
            t = d["deploy-enter"][0]
            for o2, d2 in obj.items():
                if o2 != o and d2["name"] == n and active_at(o2, t):
                    # the repaired FutureConnector.undeploy (3778dfe) defers the connector's undeploy until its deploy has finished, AFTER the
                    # manager released the name: a re-deploy can overlap the old connector, which IS undeployed later (KG); before the repair
                    # the old connector was never undeployed (KB)
                    key = ((KG if "undeploy-enter" in d2 else KB) if o2 in lazy_race else "deploy-while-live")
                    fails.append((key, f"{n}: object {o} deployed at {t} while object {o2} is deploying/live"))
        if "undeploy-enter" in d:
            t = d["undeploy-enter"][0]
            for w in wrappers_of[n]:
                for o2, d2 in obj.items():
                    if d2["name"] == w and live_at(o2, t):
                        fails.append((KE if _edge_stripped_by_stale_undeploy(ops, n, w) else K7,
                                      f"{n} undeployed at {t} while wrapper {w} (object {o2}) is live"))
    for q in r["requests"]:
        kind = q["req"][0]
        if "end" not in q:
            continue
        if kind == "deploy" and q.get("outcome") == "ok":
            n = q["req"][1]
            if not deps[n]["lazy"]:
                objs = [o for o, d in obj.items() if d["name"] == n and d["create"] < q["end"]]
                if not objs:
                    fails.append(("deploy-returned-without-connector", f"{q}"))
                else:
                    last = obj[max(objs)]
                    # some connector of the deployment was live at an instant of the request's lifetime
                    served = any("deploy-exit" in obj[o] and obj[o]["deploy-exit"][0] < q["end"]
                                 and not ("undeploy-enter" in obj[o] and obj[o]["undeploy-enter"][0] < q["start"]) for o in objs)
                    if not served:
                        by_undeploy = any(op[1] == "ev-set" and op[2] == n and _is_undeploy_task(r, op[0])
                                          for op in _ops_between(r, last["create"], q["end"]))
                        fails.append((KA if by_undeploy else "deploy-returned-before-deployed",
                                      f"deploy({n}) returned at {q['end']} but its connector (object {max(objs)}) is still {last}"))
        if kind == "undeploy_all" and q.get("outcome") == "ok":
            concurrent = [p for p in r["requests"] if p is not q and p["start"] < q["end"] and p.get("end", 10 ** 9) > q["start"]]
            if not concurrent:
                for o, d in obj.items():
                    if live_at(o, q["start"]) and not ("undeploy-exit" in d and d["undeploy-exit"][0] < q["end"]):
                        dgm = r["maps"].get("dependency_graph", {})

                        def blocked(nm, depth=0):
                            out = []
                            for w in wrappers_of[nm]:
                                if w in dgm.get(nm, []):
                                    if any(e[1] == "deploy-fail" and e[2] == w for e in log):
                                        out.append(w)
                                    elif depth < 4:
                                        out += blocked(w, depth + 1)
                            return out
                        failed_wrapper = blocked(d["name"])
                        key = KB if o in lazy_race else (KC if failed_wrapper else "undeploy_all-left-live")
                        fails.append((key, f"{d['name']} object {o} is live after undeploy_all returned"
                                      + (f" (failed wrappers still among its dependants: {failed_wrapper})" if failed_wrapper else "")))
    # an undeploy(n) / undeploy_all that returns ok leaves no connector of an eager, never-wrapped-in-this-run deployment live, unless a deploy
    # of it was requested after the undeploy request started (the dependants of such a deployment are {n} or {} — a set, not a counter)
    wrapped_now = {o[2].split("<")[0] for o in ops if o[1] == "deps.add" and o[2].split("<")[0] != o[2].split("<")[1]}
    for q in r["requests"]:
        if q["req"][0] not in ("undeploy", "undeploy_all") or q.get("outcome") != "ok" or "end" not in q:
            continue
        names_q = [q["req"][1]] if q["req"][0] == "undeploy" else [nm for nm in deps]
        for n in names_q:
            if deps[n]["lazy"] or n in wrapped_now or deps[n]["wraps"]:
                continue
            if any(p["req"][0] == "deploy" and p["req"][1] == n and p["start"] > q["start"] for p in r["requests"]):
                continue
            if q["req"][0] == "undeploy_all" and not any(p["req"][0] == "deploy" and p["req"][1] == n and p["start"] < q["start"]
                                                         for p in r["requests"]):
                continue            # undeploy_all iterates over the deployments registered when it starts
            if not any(p["req"][0] == "deploy" and p["req"][1] == n and p["start"] < q["start"] and p.get("outcome") == "ok" for p in r["requests"]):
                continue
            for o, d in obj.items():
                if d["name"] == n and "deploy-exit" in d and d["deploy-exit"][0] < q["end"] and d["create"] < q["end"] \
                        and not ("undeploy-enter" in d and d["undeploy-enter"][0] < q["end"]):
                    # the connector was registered before the request started?
                    if d["create"] < q["start"]:
                        fails.append((KH, f"{q['req'][0]}({n if q['req'][0] == 'undeploy' else ''}) started at {q['start']} (the deployment was "
                                          f"registered at {d['create']}) and returned ok at {q['end']}, but connector object {o} of {n} is live and "
                                          f"its undeploy() was never entered: {d}"))
    for o, d in obj.items():
        if "deploy-fail" in d and not deps[d["name"]]["lazy"]:
            for q in r["requests"]:
                if (q["req"][0] == "deploy" and q["req"][1] == d["name"] and q.get("outcome") == "ok"
                        and q["start"] < d["deploy-fail"][0] < q.get("end", 0)):
                    fails.append(("deploy-ok-although-failed", f"{q}"))
    return fails


def _stale_woken_undeploy(ops: list, n: str, task=None) -> bool:
    """ROOT CAUSE of KF, read off the operation log: some undeploy request blocked on `n`'s event (`ev-block n`); before it ran again
    another request deleted `n` from the maps and a third one registered `n` anew (`deployments_map.del n` … `deployments_map.set n`);
    the woken request then went on (`deps.discard n<n`, `deployments_map.del n`) without re-checking — on the NEW incarnation."""
    blocked = {}                                     # task -> index of its ev-block on n
    for i, o in enumerate(ops):
        if o[1] == "ev-block" and o[2] == n:
            blocked.setdefault(o[0], i)
        elif o[1] == "deps.discard" and o[2] == f"{n}<{n}" and o[0] in blocked and (task is None or o[0] == task):
            i0 = blocked[o[0]]
            dels = [j for j in range(i0, i) if ops[j][1] == "deployments_map.del" and ops[j][2] == n and ops[j][0] != o[0]]
            if dels and any(ops[j][1] == "deployments_map.set" and ops[j][2] == n and ops[j][0] != o[0] for j in range(dels[0], i)):
                return True
    return False


def _edge_stripped_by_stale_undeploy(ops: list, n: str, w: str) -> bool:
    """ROOT CAUSE of KE, read off the operation log: an undeploy request T removed `w` from the maps (`deployments_map.del w`), some OTHER
    request then re-deployed `w` and added the edge `w ∈ dependency_graph[n]`, and T — resuming after `await connector.undeploy()` — ran its
    clean-up `dependency_graph[n].discard(w)`: the edge of the NEW incarnation is gone, `n` is no longer protected by the live `w`."""
    edge = f"{n}<{w}"
    deleted_by = {}                      # task -> index of its `deployments_map.del w`
    last_add = None                      # (index, task) of the latest `deps.add n<w`
    for i, o in enumerate(ops):
        if o[1] == "deployments_map.del" and o[2] == w:
            deleted_by[o[0]] = i
        elif o[1] == "deps.add" and o[2] == edge:
            last_add = (i, o[0])
        elif o[1] == "deps.discard" and o[2] == edge and o[0] in deleted_by and last_add is not None:
            if deleted_by[o[0]] < last_add[0] and last_add[1] != o[0]:
                return True
    return False


def _ops_between(r: dict, seq_from: int, seq_to: int) -> list:
    """operations (map / event ops) between two call-log instants: ops carry no seq, so align through conn-* ops"""
    marks = r.setdefault("_marks", None)
    if marks is None:
        # every log entry of kind deploy-enter/exit/... has a matching conn-* op in order; req-end too
        li = [e for e in r["log"] if e[1] in ("deploy-enter", "deploy-exit", "deploy-fail", "undeploy-enter", "undeploy-exit")]
        oi = [i for i, o in enumerate(r["ops"]) if o[1].startswith("conn-")]
        marks = r["_marks"] = {e[0]: i for e, i in zip(li, oi)}
    lo = max([i for s, i in marks.items() if s <= seq_from], default=-1)
    hi = min([i for s, i in marks.items() if s >= seq_to], default=len(r["ops"]))
    return r["ops"][lo + 1:hi]


def _is_undeploy_task(r: dict, task: str) -> bool:
    if task.startswith("Task-"):
        return True
    for q in r["requests"]:
        if q["rid"] == task:
            return q["req"][0] in ("undeploy", "undeploy_all")
    return False


# ------------------------------------------------------------------------------------------------
# the real execution as a schedule of atomic segments
# ------------------------------------------------------------------------------------------------
def segments(r: dict) -> list[dict]:
    segs, cur = [], None
    for task, op, arg in r["ops"]:
        if op == "SEG":
            cur = {"task": task, "why": arg, "ops": []}
            segs.append(cur)
            continue
        if cur is None or cur["task"] != task:
            cur = {"task": task, "why": "resume", "ops": []}
            segs.append(cur)
        cur["ops"].append((op, arg))
    return segs


def protocol_a(case: dict, r: dict) -> tuple[list[str], list[str], list[str]]:
    """single deployment: model actions of SFV/Model/Deploy.lean + expected classes"""
    reqs = {q["rid"]: q for q in r["requests"]}
    order = [q["rid"] for q in r["requests"]]
    pid = {rid: i + 1 for i, rid in enumerate(order)}
    kinds = "".join({"deploy": "d", "undeploy": "u", "undeploy_all": "u", "use": "x"}[reqs[rid]["req"][0]] for rid in order)
    lazy = 1 if case["deployments"]["D"]["lazy"] else 0
    lines, expect, what = [f"A reset {lazy} {kinds}"], ["ok"], ["reset"]
    started, parent_all = set(), None
    for sg in segments(r):
        task, ops = sg["task"], sg["ops"]
        names = [o[0] for o in ops]
        if task.startswith("Task-") and not task[5:].isdigit():
            continue
        if task not in pid:
            if task.startswith("Task-") and parent_all is not None:
                p = pid[parent_all]
            else:
                continue
        else:
            p = pid[task]
            if reqs[task]["req"][0] == "undeploy_all":
                parent_all = task
                if sg["why"] == "start" and "req-end" not in names:
                    continue          # spawned a child; the child's segments are the request's
                if sg["why"] == "resume" and names == ["req-end"]:
                    continue          # gather returned
        if sg["why"] == "start" or (p not in started and sg["why"] == "resume"):
            act = "start"
        elif sg["why"] in ("ev-wake", "resume"):
            act = "wake"
        elif sg["why"] == "call-exit":
            act = "fail" if "conn-deploy-fail" in names else "ok"
        else:
            act = "?"
        started.add(p)
        # what the real request is doing at the end of the segment
        if "req-end" in names:
            out = dict(ops)["req-end"]
            cls = "end-ok" if out == "ok" else ("end-noconn" if out == "no-connector" else "end-exc")
        elif names and names[-1] == "ev-block":
            cls = "ev-block"
        elif names and names[-1] == "conn-deploy-enter":
            cls = "deploy-call"
        elif names and names[-1] == "conn-undeploy-enter":
            cls = "undeploy-call"
        elif task.startswith("Task-") and names and names[-1] in ("ev-set", "deps.discard", "deployments_map.keys"):
            cls = "end-ok"            # child of undeploy_all finished (its parent logs the request end)
        elif task.startswith("Task-") and sg["why"] == "ev-wake" and (not names or names[-1] in ("ev-clear",)):
            cls = "end-exc"           # child of undeploy_all woken into a KeyError (its map entries are gone)
        else:
            cls = "silent"
        lines.append(f"A {act} {p}")
        expect.append(cls)
        what.append(f"{task}:{sg['why']}:{','.join(names)}")
    return lines, expect, what


PC_CLASS = {"dWait": "ev-block", "uWait": "ev-block", "dConn": "deploy-call", "fConn": "deploy-call", "uConn": "undeploy-call",
            "fWait": "silent", "uFWait": "silent", "done": "end-ok", "failed": "end-exc", "noConn": "end-noconn"}


def protocol_b(case: dict, r: dict) -> tuple[list[str], list[str], list[str]]:
    """wraps chains: model actions of SFV/Model/DeployChain.lean + the operations of every segment"""
    names = list(case["deployments"])
    idx = {n: i for i, n in enumerate(names)}
    dline = " ".join(f"w{idx[d['wraps']] if d['wraps'] else '-'}:{1 if d['lazy'] else 0}:{1 if d['kind'] == 'wrap' else 0}"
                     for d in case["deployments"].values())
    lines, expect, what = ["B reset " + dline], ["ok"], ["reset"]
    tid: dict = {}
    ntasks = 0
    kids = sorted({t for t, _, _ in r["ops"] if t.startswith("Task-") and t[5:].isdigit()}, key=lambda t: int(t[5:]))
    pending_kids: list = []

    def ren(op, arg):
        if op in ("deps.add", "deps.discard"):
            a, b = arg.split("<")
            return f"{op} {idx[a]}<{idx[b]}"
        if op == "req-end":
            return "req-end " + ("ok" if arg == "ok" else "exc")
        if op == "deployments_map.keys":
            return "deployments_map.keys *"
        return f"{op} {idx[arg]}"

    segs = segments(r)
    for k, sg in enumerate(segs):
        task, ops = sg["task"], sg["ops"]
        if task.startswith("Task-") and not task[5:].isdigit():
            continue
        if task not in tid:
            q = next((q for q in r["requests"] if q["rid"] == task), None)
            if q is not None:
                kind = q["req"][0]
                lines.append("B spawn all" if kind == "undeploy_all" else f"B spawn {'d' if kind == 'deploy' else 'u'} {idx[q['req'][1]]}")
                expect.append(f"ok {ntasks}"); what.append(f"spawn {task}")
                tid[task] = ntasks
                ntasks += 1
            else:
                continue
        t = tid[task]
        act = f"B ret {t} {'fail' if any(o[0] == 'conn-deploy-fail' for o in ops) else 'ok'}" if sg["why"] == "call-exit" else f"B run {t}"
        lines.append(act)
        expect.append("ok " + ";".join(ren(*o) for o in ops))
        what.append(f"{task}:{sg['why']}")
        # children spawned by an undeploy_all parent in this segment get the next model task ids in creation order
        q = next((q for q in r["requests"] if q["rid"] == task), None)
        if q is not None and q["req"][0] == "undeploy_all" and sg["why"] == "start":
            nkids = next((a for o, a in ops if o == "deployments_map.keys"), 0)
            later = []
            for s2 in segs[k + 1:]:
                if s2["task"] in kids and s2["task"] not in tid and s2["task"] not in later:
                    later.append(s2["task"])
            mine = sorted(later, key=lambda x: int(x[5:]))[:nkids]
            for c in mine:
                tid[c] = ntasks
                ntasks += 1
            ntasks += nkids - len(mine)      # children that never ran (hang / cancelled)
    return lines, expect, what


class C26(Property):
    pid = "C26"
    title = "Deployments follow a safe lifecycle under concurrent requests"
    lean_targets = ["SFV.Props.C26", "SFV.Props.C26Chain", "SFV.Model.Proto"]
    props_files = ["SFV/Props/C26.lean", "SFV/Props/C26Chain.lean"]
    drivers = ["Drivers/C26.lean"]
    translators = [deployguards.generate]
    rule = ("the REAL DefaultDeploymentManager with instrumented fake connectors (base / wrapper kinds registered in "
            "connector_classes at run time, scripted suspension steps and failures) and traced maps/events; topologies D, D+E, W>D, "
            "V>W>D, W>D<X, W>D+E with random lazy flags; a sequential prefix (0..2 deploys), a batch of 1..4 concurrent requests "
            "(deploy / undeploy / undeploy_all / use), a final undeploy_all; controlled loop with shuffled ready handles (random "
            "interleavings) and, in the thorough tier, bounded-exhaustive enumeration of interleavings of small batches. Each execution "
            "is (a) judged by the property's own oracle on the connector call log (at most once while live, returns after live, no "
            "undeploy under a live wrapper, undeploy_all exactly once, failed => waiting requests fail, nothing hangs) and (b) replayed "
            "segment by segment on the Lean models: single-deployment cases on the protocol model (enabledness + what each request is "
            "doing after each segment), wraps-chain cases on the executable interpreter (the exact sequence of map/event/set/connector "
            "operations of every atomic segment).")
    trusted_base = [
        "translator harness/sfv/translate/deployguards.py (digest table of the normalised texts of the functions the models were written from)",
        "instrumented fakes harness/sfv/rt/fakedeploy.py (fake connectors, traced dict/set/Event subclasses installed on the manager instance)",
        "asyncio: code between awaits is atomic; Event.wait on a set event and a coroutine that never awaits do not suspend; "
        "Event.set wakes all waiters, who proceed even if the event is cleared again before they run",
    ]
    assumptions = ["wrappers always name the deployment they wrap (`wraps` not None); deployment configs of a name do not change between requests",
                   "part B theorems are bounded-exhaustive over the schedules of the stated scenarios (chain of 3, up to 3 requests)"]
    technique = ("Lean 4: inductive invariants over a protocol transition system (single deployment, unbounded requests) + kernel-evaluated "
                 "exhaustive schedule exploration of an executable interpreter (wraps chains) + digest translator + segment-by-segment correspondence")
    level_text = ("grade A for one deployment (deploy-at-most-once-while-live, undeploy-at-most-once, lazy-deploy-once proved for every "
                  "interleaving of any number of requests; returns-after-live and no-leak are false of the code: witnesses + known findings); "
                  "wraps chains: kernel-checked exhaustive exploration of the property's own bound (3 deployments, <= 3 concurrent requests), "
                  "two clauses false of the code (findings 7, 8) with witnesses and theorems for the repaired code")
    level_note = ("Lean kernel, axioms within {propext, Classical.choice, Quot.sound}; chain theorems are exhaustive over bounded scenarios, "
                  "not unbounded; asyncio semantics assumed; the real manager is replayed on the models on every run")
    min_nontrivial = 10

    def _one(self, ctx: Ctx, case: dict, acc: list) -> None:
        r = fd.run_case(case)
        single = case["topo"] == "D"
        shape = (case["topo"], tuple(tuple(x) for x in case["prefix"]), tuple(tuple(x) for x in case["batch"]),
                 tuple(sorted((n, d["lazy"]) for n, d in case["deployments"].items())), tuple(o[:2] for o in r["ops"][:60]))
        ctx.case({"case": {k: case[k] for k in ("idx", "topo", "prefix", "batch")}, "requests": [[q["req"], q.get("outcome")] for q in r["requests"]],
                  "calls": [e[1:4] for e in r["log"] if e[1].startswith(("deploy-", "undeploy-"))][:12]},
                 shape if len(r["ops"]) > 8 else None, f"{case['topo']}:{len(case['batch'])}req")
        for key, detail in monitor(case, r):
            ctx.fail(key, detail, {"case": case})
        lines, expect, what = (protocol_a if single else protocol_b)(case, r)
        acc.append((case, lines, expect, what, single))

    def explore(self, ctx: Ctx) -> None:
        rng = ctx.rng
        quick = ctx.tier == "quick"
        n = 260 if quick else 3000
        if ctx.mode == "search":
            n *= 3
        cases = [dict(c) for c in CORPUS] + [gen_case(random.Random(500 + k), k) for k in range(20)]
        cases += [gen_case(rng, 1000 + k) for k in range(n)]
        if not quick or ctx.mode == "search":
            # bounded-exhaustive over interleavings: every seed of a few small batches explores a different schedule
            for k, base in enumerate(CORPUS[:3]):
                for seed in range(120):
                    c = dict(base); c["lseed"] = seed; c["idx"] = 100000 + 1000 * k + seed; c.pop("shuffle", None)
                    cases.append(c)
        acc: list = []
        for case in cases:
            if ctx.out_of_time():
                ctx.extra["incomplete"] = True
                break
            self._one(ctx, case, acc)
        lines = ["cfg"]
        for _, ls, _, _, _ in acc:
            lines += ls
        got = ctx.lean("Drivers/C26.lean", lines)
        ctx.extra["source_cfg"] = got[0]
        pos = 1
        for case, ls, expect, what, single in acc:
            g = got[pos:pos + len(ls)]
            pos += len(ls)
            for gl, ln, ex, wh in zip(g, ls, expect, what):
                ok = True
                gl = gl.strip()
                if ex == "?ntasks":
                    continue
                if single and ln.startswith("A ") and not ln.startswith("A reset"):
                    if gl == "disabled":
                        ok = False
                    else:
                        ok = PC_CLASS.get(gl.split(" ")[1], "?") == ex
                else:
                    ok = (gl == ex.strip())
                if not ok:
                    ctx.disagree("real execution is not a run of the model",
                                 f"case {case['idx']} ({case['topo']}): `{ln}` [{wh}]: model `{gl}`, real `{ex}`", {"case": case})
                    break

    def replay(self, ctx: Ctx, data) -> None:
        rr = data.get("replay") or (data.get("no_longer_checks") or [{}])[0].get("case") or {}
        case = rr.get("case")
        if not case:
            return super().replay(ctx, data)
        r = fd.run_case(case)
        print("case:", json.dumps(case))
        print("connector call log:")
        for e in r["log"]:
            print("  ", e)
        for q in r["requests"]:
            print("  request", q)
        single = case["topo"] == "D"
        lines, expect, what = (protocol_a if single else protocol_b)(case, r)
        got = ctx.lean("Drivers/C26.lean", lines)
        print("segment | model | real")
        for ln, g, e, w in zip(lines, got, expect, what):
            print(f"   {ln:16s} [{w[:50]}] | {g.strip()[:90]} | {e[:90]}")
        for key, detail in monitor(case, r):
            ctx.fail(key, detail, {"case": case})
        acc: list = []
        self._one(ctx, case, acc)


PROPERTY = C26()
