import SFV.Model.ProvGraph
import SFV.Model.Proto
open SFV SFV.Proto SFV.Prov

/-! one line = one graph:  `bg <fuel> | <inputs: ids> | <stop ids> | <deps: t:p1,p2 ...>`
    answer: `ok nodes=<sorted ids> edges=<sorted p>t pairs>` | `noprev <t>` | `fuel` -/

def parseIds (s : String) : List Nat := (s.splitOn ",").filterMap (·.toNat?)
def idsS (l : List Nat) : String := if l.isEmpty then "-" else ",".intercalate (l.map toString)

def sortNat (l : List Nat) : List Nat := l.mergeSort (· ≤ ·)
def sortPairs (l : List (Nat × Nat)) : List (Nat × Nat) := l.mergeSort (fun a b => a.1 < b.1 || (a.1 == b.1 && a.2 ≤ b.2))

def handle : List String → String
  | "bg" :: fuel :: "|" :: rest =>
      match fuel.toNat? with
      | none => "bad-op"
      | some fuel =>
        let parts := (" ".intercalate rest).splitOn " | "
        match parts with
        | [inp, stop, deps] =>
            let inputs := parseIds inp.trimAscii.toString
            let stops := parseIds stop.trimAscii.toString
            let dl : List (Nat × List Nat) := (words deps).filterMap (fun w =>
              match w.splitOn ":" with
              | [t, ps] => t.toNat?.map (fun t => (t, parseIds ps))
              | _ => none)
            let depf : Nat → List Nat := fun t => (dl.find? (·.1 == t)).map (·.2) |>.getD []
            match buildGraph ⟨depf, fun t => stops.contains t⟩ fuel inputs with
            | .ok s => s!"ok nodes={idsS (sortNat s.nodes)} edges={",".intercalate ((sortPairs s.edges).map (fun e => s!"{e.1}>{e.2}"))}"
            | .noPrev t => s!"noprev {t}"
            | .outOfFuel => "fuel"
        | _ => "bad-op"
  | _ => "bad-op"

def main : IO Unit := runPure handle
