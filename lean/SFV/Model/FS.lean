/-! # A small POSIX file-system model (C24)

Paths are lists of components below a root directory; the file system is a total function from paths to what is
there. No symbolic links, no permissions: enough to state how the *flag logic* and the *post-processing* of
`RemoteStreamFlowPath` relate to the local API (`LocalStreamFlowPath` = `pathlib`), given the textbook behaviour
of `test`, `mkdir [-p]`, `rm -rf`, `cat`, `tee` (assumed, validated differentially). -/
namespace SFV.FS

abbrev Path := List String

inductive Node
  | dir
  | file (content : List Char)
deriving DecidableEq, Repr

abbrev FS := Path → Option Node

def set (fs : FS) (p : Path) (n : Option Node) : FS := fun q => if q = p then n else fs q

/-- everything at or below `p` disappears -/
def removeTree (fs : FS) (p : Path) : FS := fun q => if p <+: q then none else fs q

def isDir (fs : FS) (p : Path) : Bool := fs p == some .dir
def isFile (fs : FS) (p : Path) : Bool := match fs p with | some (.file _) => true | _ => false
def exists_ (fs : FS) (p : Path) : Bool := (fs p).isSome

/-! ## the utilities (assumed behaviour) -/

/-- `mkdir p`: the parent must be a directory and `p` must not exist -/
def mkdirPlain (fs : FS) (p : Path) : Option FS :=
  if p = [] then none
  else if (fs p).isSome then none
  else if isDir fs p.dropLast then some (set fs p (some .dir)) else none

/-- `mkdir -p p`: create the missing ancestors; fine if `p` is already a directory; fails on a file in the way.
    Fuel = length of the path. -/
def mkdirP : Nat → FS → Path → Option FS
  | 0, fs, p => if isDir fs p then some fs else none
  | n + 1, fs, p =>
      match fs p with
      | some .dir => some fs
      | some (.file _) => none
      | none =>
          if p = [] then none
          else match mkdirP n fs p.dropLast with
            | some fs' => some (set fs' p (some .dir))
            | none => none

/-- `rm -rf p` never fails -/
def rmRf (fs : FS) (p : Path) : FS := removeTree fs p

/-! ## `RemoteStreamFlowPath` (command logic) -/

/-- `mkdir`: `command.append("-p")` iff `parents or exist_ok` -/
def remoteMkdir (fs : FS) (p : Path) (parents existOk : Bool) : Option FS :=
  if parents || existOk then mkdirP p.length fs p else mkdirPlain fs p

def remoteExists (fs : FS) (p : Path) : Bool := exists_ fs p      -- test -e
def remoteIsDir (fs : FS) (p : Path) : Bool := isDir fs p         -- test -d
def remoteIsFile (fs : FS) (p : Path) : Bool := isFile fs p       -- test -f
def remoteRmtree (fs : FS) (p : Path) : FS := rmRf fs p           -- rm -rf

/-! ## `LocalStreamFlowPath` (= pathlib / os) -/

/-- `LocalStreamFlowPath.mkdir(mode, parents, exist_ok)` as written: `os.mkdir`; on `FileNotFoundError` (missing parent)
    recurse into the parent with `parents=True, exist_ok=True` when `parents`; on any other `OSError` succeed only if
    `exist_ok` and the path is a directory. Fuel = length of the path. -/
def localMkdir : Nat → FS → Path → Bool → Bool → Option FS
  | fuel, fs, p, parents, existOk =>
      match fs p with
      | some n => if existOk && n == .dir then some fs else none            -- FileExistsError
      | none =>
          if p = [] then none
          else match fs p.dropLast with
            | some .dir => some (set fs p (some .dir))                      -- os.mkdir succeeds
            | some (.file _) => none                                        -- NotADirectoryError: an OSError, re-raised
            | none =>                                                       -- FileNotFoundError
                if !parents then none
                else match fuel with
                  | 0 => none
                  | f + 1 =>
                      match localMkdir f fs p.dropLast true true with
                      | some fs' =>
                          -- self.mkdir(mode, parents=False, exist_ok=exist_ok) on the new state
                          (match fs' p with
                            | some n => if existOk && n == .dir then some fs' else none
                            | none => if isDir fs' p.dropLast then some (set fs' p (some .dir)) else none)
                      | none => none

/-- `LocalStreamFlowPath.rmtree` without symbolic links: `if exists: rmtree / unlink` -/
def localRmtree (fs : FS) (p : Path) : FS := if exists_ fs p then removeTree fs p else fs

end SFV.FS
