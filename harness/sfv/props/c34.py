"""C34 — exported run provenance is self-contained and consistent."""
from __future__ import annotations

import hashlib
import json
import os
import zipfile

from sfv.framework import Ctx, Inconclusive, Property
from sfv.rt import cwldiff as C
from sfv.rt import cwlgen_tool as GT
from sfv.rt import cwlgen_wf as G
from sfv.rt.hexs import hx


def _refs(o, acc):
    if isinstance(o, dict):
        if set(o.keys()) == {"@id"}:
            acc.append(o["@id"])
        else:
            for v in o.values():
                _refs(v, acc)
    elif isinstance(o, list):
        for v in o:
            _refs(v, acc)


def _types(e):
    t = e.get("@type")
    return t if isinstance(t, list) else [t]


def _external(r: str) -> bool:
    return r.startswith("http://") or r.startswith("https://")


def _strify(v):
    if isinstance(v, list):
        return [_strify(x) for x in v]
    if isinstance(v, bool):
        return str(v)
    return str(v)


def check_archive(path: str, job: dict, outputs: dict, job_dir: str):
    """-> (problems [(key, detail)], entities [(id, isFile, refs)], member names)"""
    probs = []
    try:
        z = zipfile.ZipFile(path)
        names = z.namelist()
        meta = json.loads(z.read("ro-crate-metadata.json"))
    except Exception as e:  # noqa: BLE001
        return [("jsonld:unreadable", f"{type(e).__name__}: {e}")], [], []
    if not isinstance(meta, dict) or "@context" not in meta or not isinstance(meta.get("@graph"), list):
        return [("jsonld:no-context-or-graph", str(meta)[:200])], [], names
    g = meta["@graph"]
    ents = []
    for e in g:
        if not isinstance(e, dict) or not isinstance(e.get("@id"), str) or "@type" not in e:
            probs.append(("jsonld:entity-without-id-or-type", json.dumps(e)[:200]))
            continue
        acc: list = []
        _refs({k: v for k, v in e.items() if k != "@id"}, acc)
        ents.append((e["@id"], "File" in _types(e), acc))
    ids = [e[0] for e in ents]
    byid = {e["@id"]: e for e in g if isinstance(e, dict) and "@id" in e}
    dup = sorted({i for i in ids if ids.count(i) > 1})
    if dup:
        probs.append(("ids:duplicate", f"{dup}"))
    root, desc = byid.get("./"), byid.get("ro-crate-metadata.json")
    if root is None or desc is None or desc.get("about", {}).get("@id") != "./" or "Dataset" not in _types(root):
        probs.append(("jsonld:root-or-descriptor", "missing ./ Dataset or ro-crate-metadata.json descriptor"))
    for i, is_file, refs in ents:
        for r in refs:
            if r not in byid and not _external(r):
                probs.append(("ref:dangling", f"{r} referenced from {i}"))
        if is_file and not _external(i):
            if i not in names:
                probs.append(("file:missing", f"{i} ({byid[i].get('alternateName')}) is described but not in the archive"))
            else:
                data = z.read(i)
                if "sha1" in byid[i] and hashlib.sha1(data).hexdigest() != byid[i]["sha1"]:
                    probs.append(("file:sha1", f"{i}: recorded sha1 {byid[i]['sha1']} != content"))
                if "contentSize" in byid[i] and int(byid[i]["contentSize"]) != len(data):
                    probs.append(("file:size", f"{i}: recorded size {byid[i]['contentSize']} != {len(data)}"))
    for nm in names:
        if nm not in ("ro-crate-metadata.json", "ro-crate-preview.html") and nm.rstrip("/") not in byid:
            probs.append(("archive:undescribed-member", f"{nm} is in the archive but no entity describes it"))
    # inputs / outputs of the run
    main_id = (root or {}).get("mainEntity", {}).get("@id")
    actions = [e for e in g if "CreateAction" in _types(e) and e.get("instrument", {}).get("@id") == main_id]
    if not actions:
        probs.append(("io:no-main-action", f"no CreateAction for {main_id}"))
    objs = [byid[r["@id"]] for a in actions for r in a.get("object", []) if r.get("@id") in byid]
    ress = [byid[r["@id"]] for a in actions for r in a.get("result", []) if r.get("@id") in byid]

    def dir_files(v):
        """sha1 of every regular file of a Directory value (from its listing, else from disk)"""
        out = []
        if "listing" in v:
            for x in v["listing"]:
                if x.get("class") == "File":
                    out.append(x.get("checksum", "sha1$")[5:] or (C.sha1_file(x["path"]) if x.get("path") and os.path.exists(x["path"]) else None))
                elif x.get("class") == "Directory":
                    out += dir_files(x)
        elif v.get("path") and os.path.isdir(v["path"]):
            for base, _, files in os.walk(v["path"]):
                out += [C.sha1_file(os.path.join(base, f)) for f in files]
        return [x for x in out if x]

    def names_of(e):
        a = e.get("alternateName")
        return a if isinstance(a, list) else [a]

    def represented(pool, name, value, what):
        if value is None:
            return
        if isinstance(value, dict) and value.get("class") == "Directory":
            base = value.get("basename") or os.path.basename(str(value.get("path", "")).rstrip("/"))
            ds = [e for e in pool if "Dataset" in _types(e) and base in names_of(e)]
            if not ds:
                probs.append((f"io:{what}-directory-missing", f"{name}: no Dataset entity named {base!r} linked from the run action"))
                return
            # every regular file of the directory is a File entity below that Dataset, under its own sha1
            below, todo = set(), [ds[0]["@id"]]
            while todo:
                cur = todo.pop()
                for r in byid.get(cur, {}).get("hasPart", []) or []:
                    if r.get("@id") in byid and r["@id"] not in below:
                        below.add(r["@id"])
                        todo.append(r["@id"])
            recorded = {byid[i].get("sha1") for i in below if "File" in _types(byid[i])}
            for sha in dir_files(value):
                if sha not in recorded:
                    probs.append((f"io:{what}-directory-file-missing",
                                  f"{name}: file with sha1 {sha} of directory {base!r} has no File entity with that sha1 below {ds[0]['@id']}"))
            return
        if isinstance(value, dict) and value.get("class") == "File":
            sha = value.get("checksum", "sha1$")[5:] or None
            if sha is None and value.get("path") and os.path.exists(value["path"]):
                sha = C.sha1_file(value["path"])
            if not any("File" in _types(e) and (e.get("sha1") == sha or e.get("@id") == sha) for e in pool):
                probs.append((f"io:{what}-file-missing", f"{name}: no File entity with sha1 {sha} linked from the run action"))
            return
        cands = [e for e in pool if e.get("name") == name]
        if not cands:
            probs.append((f"io:{what}-missing", f"{name}={json.dumps(value)[:80]} has no PropertyValue linked from the run action"))
            return
        if isinstance(value, (int, str, bool)) or (isinstance(value, list) and all(isinstance(x, (int, str)) and not isinstance(x, bool) for x in value)):
            if isinstance(value, list) and len(value) == 1 and any(e.get("value") == _strify(value[0]) for e in cands):
                probs.append(("io:single-element-array-recorded-as-scalar",
                              f"{name}: run value {json.dumps(value)} is recorded as the scalar {json.dumps(_strify(value[0]))}"))
            elif all(e.get("value") != _strify(value) for e in cands):
                probs.append((f"io:{what}-value", f"{name}: run value {json.dumps(value)[:80]}, recorded {json.dumps(cands[0].get('value'))[:80]}"))

    for k, v in job.items():
        represented(objs, k, v, "input")
    for k, v in (outputs or {}).items():
        represented(ress, k, v, "output")
    return probs, ents, names


def directory_doc():
    """a Directory input with three files and a sub-directory; a tool copying it and a tool emitting a three-file directory with a
    nested two-file directory: several regular files per directory level (what `_list_dir` checksums)"""
    mk = {"class": "CommandLineTool", "requirements": {"ShellCommandRequirement": {}},
          "inputs": {"tag": "string"},
          "arguments": [{"shellQuote": False, "valueFrom": "mkdir -p out/nested && echo one > out/f1.txt && echo two > out/f2.txt && "
                                                            "echo three > out/f3.txt && echo n1 > out/nested/n1.txt && echo n2 > out/nested/n2.txt"}],
          "outputs": {"o": {"type": "Directory", "outputBinding": {"glob": "out"}}}}
    ls = {"class": "CommandLineTool", "baseCommand": ["ls"], "inputs": {"d": {"type": "Directory", "inputBinding": {"position": 1}}},
          "stdout": "listing.txt", "outputs": {"o": {"type": "stdout"}}}
    return {"cwlVersion": "v1.2", "class": "Workflow", "inputs": {"d": "Directory", "tag": "string"},
            "outputs": {"made": {"type": "Directory", "outputSource": "mk/o"}, "listing": {"type": "File", "outputSource": "ls/o"}},
            "steps": {"mk": {"run": mk, "in": {"tag": "tag"}, "out": ["o"]}, "ls": {"run": ls, "in": {"d": "d"}, "out": ["o"]}}}


def check_additions(path: str, extra_file: str):
    """`--add-file src=F` and `--add-property ./.license=…`: F is a described member with its sha1, the root dataset got the property"""
    probs = []
    z = zipfile.ZipFile(path)
    g = json.loads(z.read("ro-crate-metadata.json"))["@graph"]
    byid = {e["@id"]: e for e in g}
    sha = C.sha1_file(extra_file)
    ents = [e for e in g if "File" in _types(e) and e.get("sha1") == sha]
    if not ents:
        probs.append(("add-file:not-described", f"--add-file {os.path.basename(extra_file)!r}: no File entity with sha1 {sha}"))
    else:
        e = ents[0]
        if e["@id"] not in z.namelist() or hashlib.sha1(z.read(e["@id"])).hexdigest() != sha:
            probs.append(("add-file:not-archived", f"--add-file: member {e['@id']} missing or with other content"))
        if {"@id": e["@id"]} not in byid["./"].get("hasPart", []):
            probs.append(("add-file:not-part-of-root", f"--add-file: {e['@id']} is not in the root dataset's hasPart"))
        if e["@id"] != "notes.txt":
            probs.append(("add-file:name", f"--add-file dst=/notes.txt: the entity is {e['@id']!r}"))
    if byid["./"].get("license") != "CC-BY-4.0":
        probs.append(("add-property:missing", f"--add-property ./.license: root has license={byid['./'].get('license')!r}"))
    return probs


def _flatten(v):
    out = []
    for x in v:
        if isinstance(x, list):
            out += _flatten(x)
        else:
            out.append(x)
    return out


def _leaf(v, job_dir):
    """protocol token of a list element / single value; None when the value is outside the model (records, directories)"""
    if v is None:
        return "n"
    if isinstance(v, dict):
        if v.get("class") == "File" and not v.get("secondaryFiles"):
            sha = v.get("checksum", "sha1$")[5:] or (C.sha1_file(v["path"]) if v.get("path") and os.path.exists(v["path"]) else None)
            return None if sha is None else f"f{hx(sha)}:{hx(v.get('path', 'p'))}"
        return None
    if isinstance(v, bool) or isinstance(v, (int, float, str)):
        return "s" + hx(str(v))
    return None


def io_tokens(job: dict, outputs: dict, job_dir: str):
    """[(name, token)] for every input and output value inside the model of get_property_value"""
    toks = []
    for name, v in list(job.items()) + list((outputs or {}).items()):
        if isinstance(v, list):
            items = [_leaf(x, job_dir) for x in _flatten(v)]
            if any(i is None for i in items):
                continue
            toks.append((name, "l" + ";".join(items)))
        else:
            t = _leaf(v, job_dir)
            if t is not None:
                toks.append((name, t))
    return toks


def archive_io(path: str):
    """what the main CreateAction of a real archive links to: sorted [(name, values, scalar-shaped?)] and File checksums"""
    g = json.loads(zipfile.ZipFile(path).read("ro-crate-metadata.json"))["@graph"]
    byid = {e["@id"]: e for e in g}
    main_id = byid["./"].get("mainEntity", {}).get("@id")
    pvs, files = [], []
    for a in g:
        if "CreateAction" in _types(a) and a.get("instrument", {}).get("@id") == main_id:
            for r in a.get("object", []) + a.get("result", []):
                e = byid.get(r["@id"], {})
                if "PropertyValue" in _types(e) and not (isinstance(e.get("value"), list) and any(isinstance(x, dict) and "@id" in x and
                                                                                                  byid.get(x["@id"], {}).get("@type") == "PropertyValue" for x in e["value"])):
                    v = e.get("value")
                    vals = [v] if not isinstance(v, list) else v
                    pvs.append((e.get("name"), tuple("@" + x["@id"] if isinstance(x, dict) else x for x in vals), not isinstance(v, list)))
                elif "File" in _types(e):
                    files.append(e.get("sha1"))
    return sorted(pvs), sorted(set(files))


class C34(Property):
    pid = "C34"
    title = "Exported run provenance is self-contained and consistent"
    lean_targets = ["SFV.Props.C34"]
    props_files = ["SFV/Props/C34.lean"]
    drivers = ["Drivers/C34.lean"]
    translators = []
    quick_budget_s = 1500
    thorough_budget_s = 2400
    min_nontrivial = 6
    rule = ("the workflow generator of C29 (1..6 steps, ExpressionTools, container-free CommandLineTools, scatter, linkMerge, pickValue, when, "
            "subworkflows, int/string/array/record/File values); each document is run with StreamFlow's cwl-runner entry point on a private "
            "database and, when the run completes, exported with `streamflow prov`; the archive is opened and checked: JSON-LD shape "
            "(@context, @graph, @id/@type everywhere, root Dataset + descriptor), unique @id, every {\"@id\"} reference resolves, every File "
            "entity is a zip member whose sha1 (and contentSize where recorded) matches, every non-null input and output of the run is a "
            "PropertyValue / File entity linked from the run's CreateAction with the recorded value; the Lean predicates idsUnique / "
            "refsClosed / filesPresent are evaluated on the same graph and the entities are replayed through the manager model. "
            "Non-trivial = distinct document.")
    trusted_base = [
        "differential / monitor validation (not proof): the CWL run itself, sha1 and zip writing, the RO-Crate vocabulary, which entities the "
        "CWL-specific manager decides to create",
        "the Lean model covers the dict / files_map bookkeeping only; its predicates are evaluated on the real archive's graph on every run",
    ]
    assumptions = [
        "a null input/output value needs no entity (StreamFlow records none); values of records and nested arrays are only checked for presence",
        "no contentSize is recorded by StreamFlow, so the size clause is checked only where the field exists",
    ]
    technique = "Lean 4 invariants of the provenance manager's bookkeeping over every update history + monitor of real exported archives"
    level_text = ("grade C (kernel): ids_unique / entity_under_own_id / hasPart_closed / file_entities_have_archive_entry are proved for every "
                  "history of the manager's three kinds of updates, io_values_represented for every history of run values handed to the manager "
                  "(scalars, File tokens, lists; fresh uuids assumed); that real exports of generated workflow runs are valid, self-contained and "
                  "represent every input and output is checked on real archives (monitor), not proved")
    level_note = ("Lean kernel, axioms within {propext, Classical.choice, Quot.sound}; the bookkeeping model is hand-written; the Lean predicates are "
                  "evaluated on the graph of every exported archive")

    def explore(self, ctx: Ctx) -> None:
        C.warm_up()
        rng = ctx.rng
        n = {"quick": 8, "thorough": 90}[ctx.tier] * (2 if ctx.mode == "search" else 1)
        cases, descs = [], {}
        # corpus: a fixed three-step document with a File, an array and a null output
        for i in range(n + 1):
            dd = os.path.join(ctx.scratch, f"doc{ctx.mode}{i}")
            if i == 0:
                desc = G.gen_workflow(__import__("random").Random(7), dd, G.SAFE_FEATURES, n_steps=4, force=["when", "scatter1"])
            else:
                desc = G.gen_workflow(rng, dd, G.SAFE_FEATURES)
            descs[i] = desc
            cases.append({"id": i, "dir": dd, "doc": "wf.cwl", "job": "job.json", "name": "wf", "timeout": 900, "prov": True, "only_sf": True})
        # Directory input (3 files + a 2-file sub-directory) and a Directory output (3 files + nested 2 files)
        dd = os.path.join(ctx.scratch, f"dirdoc{ctx.mode}")
        os.makedirs(os.path.join(dd, "indir", "sub"), exist_ok=True)
        for nm in ("a.txt", "b.txt", "c.txt"):
            open(os.path.join(dd, "indir", nm), "w").write(f"input {nm}\n")
        for nm in ("s1.txt", "s2.txt"):
            open(os.path.join(dd, "indir", "sub", nm), "w").write(f"sub {nm}\n")
        ddoc = directory_doc()
        json.dump(ddoc, open(os.path.join(dd, "wf.cwl"), "w"), indent=1)
        djob = {"d": {"class": "Directory", "path": os.path.join(dd, "indir")}, "tag": "t"}
        json.dump(djob, open(os.path.join(dd, "job.json"), "w"))
        descs["dir"] = {"doc": ddoc, "job": djob, "features": ["Directory-input", "Directory-output", "add-file", "add-property"], "steps": 2}
        # `streamflow prov --add-file src=…  --add-property ./.license=…` (RunCrateProvenanceManager.add_file / add_property)
        extra = os.path.join(dd, "NOTES extra.txt")
        open(extra, "w").write("an additional file\n")
        descs["dir"]["extra_file"] = extra
        cases.insert(0, {"id": "dir", "dir": dd, "doc": "wf.cwl", "job": "job.json", "name": "wf", "timeout": 900, "prov": True, "only_sf": True,
                         "prov_args": ["--add-file", f"src={extra},dst=/notes.txt", "--add-property", "\\./.license=CC-BY-4.0"],
                         "prov_args_alt": ["--add-file", f"src={extra}"]})
        ctx.corpus_replayed += 1
        # a run whose main entity is a bare CommandLineTool (DESIGN §6 #22)
        td = os.path.join(ctx.scratch, "tool")
        tdesc = GT.gen_tool(__import__("random").Random(3), td, {"string", "int"}, n_inputs=2)
        descs["tool"] = {"doc": tdesc["tool"], "job": tdesc["job"], "features": ["single-CommandLineTool"], "steps": 0}
        cases.append({"id": "tool", "dir": td, "doc": "tool.cwl", "job": "job.json", "name": "wf", "timeout": 900, "prov": True, "only_sf": True})
        ctx.corpus_replayed += 2
        lines, meta = [], []
        io_lines, io_meta = [], []
        completed = 0
        budget = self.quick_budget_s if ctx.tier == "quick" else self.thorough_budget_s
        ctx.extra["documents_planned"] = len(cases)
        for start in range(0, len(cases), 12):
            if start > 0 and ctx.time_left() < 0.3 * budget:
                ctx.notes.append(f"adaptive plan: {len(cases) - start} of {len(cases)} documents not run (70% of the budget used)")
                break
            try:
                confirmed = list(C.run_cases_confirmed(cases[start:start + 12], time_left=ctx.time_left))
            except C.Unconfirmed as e:
                raise Inconclusive(str(e)) from e
            for case, res in confirmed:
                desc = descs[case["id"]]
                rep = {"op": "doc", "doc": desc["doc"], "job": desc["job"], "file": case["doc"]}
                sf = res["sf"]
                if C.outcome(sf) != "success":
                    ctx.case({"doc": case["id"], "run": C.outcome(sf)}, None, "run-did-not-complete")
                    continue
                completed += 1
                pv = res.get("prov") or {"rc": "missing", "archive": None, "stderr": ""}
                ctx.case({"doc": case["id"], "features": desc["features"], "export_rc": pv["rc"]},
                         ("doc", json.dumps(desc["doc"], sort_keys=True), json.dumps(desc["job"], sort_keys=True)),
                         "single-tool" if case["id"] == "tool" else "workflow")
                if pv["rc"] != 0 or not pv["archive"]:
                    tail = pv["stderr"].strip().splitlines()[-1] if pv["stderr"].strip() else ""
                    key = "export:single-tool-KeyError-workExample" if case["id"] == "tool" and "workExample" in pv["stderr"] else "export:failed"
                    ctx.fail(key, f"streamflow prov failed (rc {pv['rc']}): {tail[:300]}", rep)
                    continue
                probs, ents, names = check_archive(pv["archive"], desc["job"], sf["out"], case["dir"])
                if desc.get("extra_file"):
                    probs += check_additions(pv["archive"], desc["extra_file"])
                    alt = res.get("prov_alt")
                    if alt is not None and alt["rc"] != 0:
                        tail = alt["stderr"].strip().splitlines()[-1] if alt["stderr"].strip() else ""
                        probs.append(("export:add-file-default-dst-KeyError" if "KeyError: '/'" in alt["stderr"] else "export:add-file-failed",
                                      f"`streamflow prov --add-file src=F` (default dst) fails: {tail[:200]}"))
                for key, detail in probs:
                    ctx.fail(key, f"document {case['id']}: {detail}", rep)
                toks = ["crate"]
                for i, is_file, refs in ents:
                    toks += [hx(i), "f1" if is_file else "f0", ",".join(hx(r) for r in refs) or "_"]
                toks += ["names"] + [hx(nm) for nm in names]
                lines.append(" ".join(toks))
                iot = io_tokens(desc["job"], sf["out"], case["dir"])
                io_lines.append("io" + "".join(f" {hx('#u' + str(k))} {hx(nm)} {tk}" for k, (nm, tk) in enumerate(iot)))
                io_meta.append((case["id"], {nm for nm, _ in iot}, archive_io(pv["archive"])))
                ids = [e[0] for e in ents]
                meta.append((case["id"], len(set(ids)) == len(ids),
                             all(r in ids or _external(r) for _, _, rs in ents for r in rs),
                             all((not f) or _external(i) or i in names for i, f, _ in ents), len(set(ids)),
                             len({i for i, f, _ in ents if f})))
        ctx.extra["runs_completed"] = completed
        ctx.extra["archives_checked"] = len(lines)
        if lines:
            outs = ctx.lean("Drivers/C34.lean", lines + io_lines)
            # the values of the run through the Lean manager model (`registerAll`) against what the real archive links from the run action
            for (cid, names_in_model, (pvs, files)), out in zip(io_meta, outs[len(lines):]):
                parts = dict(p.split(":", 1) for p in out.split(" ")) if out != "bad-op" else {}
                mpv = []
                for item in ([] if parts.get("pv", "_") == "_" else parts["pv"].split(";")):
                    nm, vals = item.split("=")
                    scalar = vals.endswith("!")
                    vals = vals.rstrip("!")
                    mpv.append((bytes.fromhex(nm).decode(), tuple([] if vals == "_" else [bytes.fromhex(v).decode() if v != "-" else "" for v in vals.split(",")]), scalar))
                mfiles = sorted({bytes.fromhex(v).decode() for v in parts.get("files", "_").split(",")} if parts.get("files", "_") != "_" else set())
                real_pv = [p for p in pvs if p[0] in names_in_model]
                ctx.count("io-model-compared")
                if sorted(mpv) != real_pv or not set(mfiles) <= set(files):
                    ctx.disagree("manager value model (registerAll) vs the real archive",
                                 f"document {cid}: archive links {real_pv} files {files}; Lean model {sorted(mpv)} files {mfiles}", {"op": "crate", "doc": cid})
            for (cid, u, c, f, nids, nfiles), out in zip(meta, outs[:len(lines)]):
                parts = dict(p.split(":") for p in out.split(" ")) if out != "bad-op" else {}
                exp = {"unique": "1" if u else "0", "closed": "1" if c else "0", "files": "1" if f else "0"}
                for k, v in exp.items():
                    if parts.get(k) != v:
                        ctx.disagree("Lean predicate vs Python on the real graph", f"document {cid}: {k}: python {v}, Lean {parts.get(k)}", {"op": "crate", "doc": cid})
                if parts.get("model-unique") != "1" or (u and parts.get("model-size") != str(nids)) or (u and parts.get("model-archive") != str(nfiles)):
                    ctx.disagree("manager model replay", f"document {cid}: {out}, expected {nids} entities / {nfiles} files", {"op": "crate", "doc": cid})

    def replay(self, ctx: Ctx, data) -> None:
        r = data.get("replay") or {}
        if r.get("op") != "doc":
            return super().replay(ctx, data)
        C.warm_up()
        dd = os.path.join(ctx.scratch, "replay")
        os.makedirs(dd, exist_ok=True)
        json.dump(r["doc"], open(os.path.join(dd, r.get("file", "wf.cwl")), "w"), indent=1)
        for v in r["job"].values():  # recreate input files / directories of the recorded job
            if isinstance(v, dict) and v.get("class") == "Directory" and not os.path.exists(v.get("path", "")):
                v["path"] = os.path.join(dd, "indir")
                os.makedirs(os.path.join(v["path"], "sub"), exist_ok=True)
                for nm in ("a.txt", "b.txt", "c.txt"):
                    open(os.path.join(v["path"], nm), "w").write(f"input {nm}\n")
                for nm in ("s1.txt", "s2.txt"):
                    open(os.path.join(v["path"], "sub", nm), "w").write(f"sub {nm}\n")
            elif isinstance(v, dict) and v.get("class") == "File" and not os.path.exists(v.get("path", "")):
                v["path"] = os.path.join(dd, os.path.basename(v["path"]))
                open(v["path"], "w").write("content\n")
        json.dump(r["job"], open(os.path.join(dd, "job.json"), "w"))
        res = C.run_case({"dir": dd, "doc": r.get("file", "wf.cwl"), "job": "job.json", "name": "wf", "timeout": 900, "prov": True, "only_sf": True})
        print("run:", C.outcome(res["sf"]), " export:", res.get("prov"))
        if C._timed_out(res):
            raise Inconclusive("replay: the run or the export did not finish within 900 s")
        pv = res.get("prov")
        if pv and pv["archive"]:
            probs, _, names = check_archive(pv["archive"], r["job"], res["sf"]["out"], dd)
            print("archive members:", names)
            for k, d in probs:
                ctx.fail(k, d, r)
        elif C.outcome(res["sf"]) == "success":
            ctx.fail(data.get("key", "export:failed"), "export failed", r)


PROPERTY = C34()
