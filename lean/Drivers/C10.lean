import SFV.Model.SchedProto
open SFV.SchedProto SFV.Proto

def main : IO Unit := runStateful ({} : DSt) step
