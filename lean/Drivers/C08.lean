import SFV.Model.WorkflowStore
import SFV.Model.Proto
open SFV SFV.Proto SFV.WfStore

/-! Driver of the whole-workflow record model: the harness replays what it does to a real workflow (create ports / steps, connect,
`Workflow.save`, rewire, save again, `Workflow.load`) and compares the loaded structure. Strings stay hex-encoded. -/

structure DSt where
  db : DB := DB.empty
  w : WF := ⟨"", [], [], [], none⟩
  dbOk : Bool := true

def updStep (w : WF) (name : String) (f : StepE → StepE) : WF :=
  { w with steps := w.steps.map (fun s => if s.name = name then f s else s) }

def showConns (cs : List (String × String)) : String :=
  let xs := (cs.map (fun c => c.1 ++ "=" ++ c.2)).mergeSort (· ≤ ·)
  if xs.isEmpty then "-" else ",".intercalate xs

def showWf (w : WF) : String :=
  let ps := (w.ports.map (fun p => p.name ++ ":" ++ p.cls)).mergeSort (· ≤ ·)
  let ss := (w.steps.map (fun s => s.name ++ ":" ++ s.cls ++ ":" ++ toString s.status ++ ":" ++ showConns s.ins ++ ":" ++ showConns s.outs)).mergeSort (· ≤ ·)
  ",".intercalate ps ++ "|" ++ ";".intercalate ss

def step (d : DSt) : List String → DSt × String
  | ["wnew", name] => ({ d with w := ⟨name, [], [], [], none⟩ }, "ok")
  | ["wport", name, cls] => ({ d with w := { d.w with ports := d.w.ports ++ [⟨name, cls, [], none⟩] } }, "ok")
  | ["wstep", name, cls, st] =>
      match st.toNat? with
      | some st => ({ d with w := { d.w with steps := d.w.steps ++ [⟨name, cls, st, [], [], [], none⟩] } }, "ok")
      | none => (d, "bad-op")
  | ["win", s, dep, port] => ({ d with w := updStep d.w s (fun x => { x with ins := x.ins ++ [(dep, port)] }) }, "ok")
  | ["wout", s, dep, port] => ({ d with w := updStep d.w s (fun x => { x with outs := x.outs ++ [(dep, port)] }) }, "ok")
  | ["wsave"] =>
      -- the hypotheses of `load_save_workflow`, measured on this workflow
      let flags := s!"ok={if decide d.db.ok then 1 else 0} fresh={if decide d.w.fresh then 1 else 0} wf={if decide d.w.wf then 1 else 0}"
      let r := saveWf d.db d.w
      ({ d with db := r.1, w := r.2 }, flags)
  | ["wload"] =>
      match d.w.pid.bind (loadWf d.db) with
      | some w => (d, showWf w)
      | none => (d, "none")
  | ["wcopy"] =>
      match d.w.pid.bind (copyWf d.db) with
      | some w => (d, (if w.pid.isNone && w.ports.all (·.pid.isNone) && w.steps.all (·.pid.isNone) then "noids|" else "IDS|") ++ showWf w)
      | none => (d, "none")
  | _ => (d, "bad-op")

def main : IO Unit := runStateful ({} : DSt) step
