import SFV.Model.Ledger
/-! Slot-only locations (no hardware information): `_is_valid` compares `len(_get_running_jobs(job, location))` with the
slots; `_get_running_jobs` filters the location's job list (`location_allocations[…].jobs`, which may contain a job
several times) with the generated `countsAsRunning`. The list gets the job at every level of every selected location
(`_allocate_job`) and loses one occurrence at the job's top-level locations on ROLLBACK (`notify_status`). -/
namespace SFV.Slots
open SFV.Gen.Sched SFV.Ledger

structure St where
  ids : List Job
  status : Job → Status
  placed : Job → List Loc          -- all levels of the job's selected locations
  tops : Job → List Loc            -- the job's top-level locations (`job_allocation.locations`)
  listed : Loc → List Job          -- `location_allocations[…][…].jobs`

def init : St := { ids := [], status := fun _ => .waiting, placed := fun _ => [], tops := fun _ => [], listed := fun _ => [] }

/-- static data: slots per location, step name and tag comparison of jobs (arguments of the running-jobs filter) -/
structure Cfg where
  slots : Loc → Nat
  stepOf : Job → Nat
  tagCmp : Job → Job → Int

/-- `len(self._get_running_jobs(job_name, location))` -/
def runningCount (c : Cfg) (s : St) (j : Job) (ℓ : Loc) : Nat :=
  ((s.listed ℓ).filter (fun x => countsAsRunning (s.status x) (c.stepOf x) (c.stepOf j) (c.tagCmp x j))).length

inductive Op
  | allocate (j : Job) (locs tops : List Loc)
  | notify (j : Job) (new : Status)

def step (c : Cfg) (s : St) : Op → St
  | .allocate j locs tops =>
      if locs.all (fun ℓ => slotFree (runningCount c s j ℓ) (c.slots ℓ)) then
        { ids := if j ∈ s.ids then s.ids else j :: s.ids,
          status := update s.status j allocStatus,
          placed := update s.placed j locs,
          tops := update s.tops j tops,
          listed := fun ℓ => if ℓ ∈ locs then s.listed ℓ ++ [j] else s.listed ℓ }
      else s
  | .notify j new =>
      if j ∈ s.ids then
        let st' := if statusStored (s.status j) new then update s.status j new else s.status
        if unlists new then
          { s with status := st', listed := fun ℓ => if ℓ ∈ s.tops j then (s.listed ℓ).erase j else s.listed ℓ,
                   placed := update s.placed j [], tops := update s.tops j [] }
        else { s with status := st' }
      else s

def run (c : Cfg) (s : St) : List Op → St
  | [] => s
  | op :: ops => run c (step c s op) ops

/-- the engine protocol (as in `Ledger.OpOk`) -/
def OpOk (s : St) : Op → Prop
  | .allocate j locs _ => ¬ (j ∈ s.ids ∧ occupying (s.status j) = true) ∧ locs.Nodup
  | .notify j new => occupying new = true → (s.status j = .fireable ∧ new = .running) ∨ s.status j = new

def HistoryOk (c : Cfg) : St → List Op → Prop
  | _, [] => True
  | s, op :: ops => OpOk s op ∧ HistoryOk c (step c s op) ops

/-- number of fireable / running jobs placed on location `ℓ` -/
def occCount (s : St) (ℓ : Loc) : Nat :=
  (s.ids.filter (fun j => occupying (s.status j) && (s.placed j).contains ℓ)).length

end SFV.Slots
