/-! # `DefaultDataManager.get_source_location` as a task that runs while transfers are in flight

`streamflow/data/manager.py`:
```
if data_locations := self.get_data_locations(path=path, data_type=DataType.PRIMARY):
    if same := {loc for loc in data_locations if loc.deployment == dst_deployment}:
        for loc in same:
            await loc.available.wait()
            if loc.data_type == DataType.PRIMARY: return loc
    if local := {loc for loc in data_locations if loc.location.local}:   -- the same loop
    for loc in data_locations:                                           -- the same loop
return None
```
A `DataLocation` put by `transfer_data` for a destination still being copied is PRIMARY with its `available` event unset; before the
event is set the location may be invalidated or become a SYMBOLIC_LINK. The call is a task: it runs until it blocks on an unset
event (`Event.wait()` on a set event does not yield), everything else (the environment) runs between two resumptions. -/
namespace SFV.SourceLoc

inductive DType | primary | symlink | invalid
  deriving DecidableEq, Repr

/-- the fields of a `DataLocation` the call looks at -/
structure Loc where
  dep : Nat
  isLocal : Bool
  dtype : DType
  avail : Bool
  deriving DecidableEq, Repr

abbrev Heap := List Loc

inductive Branch | same | loc | any
  deriving DecidableEq, Repr

/-- per loop: is the type tested after the wait (the code as written) or before it (`false`)? Read from the source. -/
structure Shape where
  same : Bool
  loc : Bool
  any : Bool

def Shape.recheck (s : Shape) : Branch → Bool
  | .same => s.same
  | .loc => s.loc
  | .any => s.any

/-- a call in progress: blocked in `await loc.available.wait()` of the head candidate (`committed`: the type test is already
behind it, only possible with a `false` in the shape), or returned -/
inductive Task
  | waiting (committed : Bool) (cands : List (Branch × Nat))
  | done (r : Option Nat)
  deriving DecidableEq, Repr

/-- the candidates in the order the three loops visit them; `pl` = `get_data_locations(path, PRIMARY)` at call time, `same` and
`loc` = the iteration orders of the two sets -/
def candidates (same loc pl : List Nat) : List (Branch × Nat) :=
  same.map (Branch.same, ·) ++ loc.map (Branch.loc, ·) ++ pl.map (Branch.any, ·)

/-- run the loops from the head candidate until the call returns or blocks -/
def advance (sh : Shape) (h : Heap) : List (Branch × Nat) → Task
  | [] => .done none
  | (b, i) :: rest =>
    match h[i]? with
    | none => advance sh h rest
    | some l =>
      if sh.recheck b then
        if l.avail then (if l.dtype = .primary then .done (some i) else advance sh h rest)
        else .waiting false ((b, i) :: rest)
      else
        if l.dtype = .primary then (if l.avail then .done (some i) else .waiting true ((b, i) :: rest))
        else advance sh h rest

/-- the scheduler resumes the task (it only becomes runnable when the awaited event is set; resuming earlier changes nothing) -/
def resume (sh : Shape) (h : Heap) : Task → Task
  | .done r => .done r
  | .waiting false cands => advance sh h cands
  | .waiting true [] => .done none
  | .waiting true ((b, i) :: rest) =>
    match h[i]? with
    | some l => if l.avail then .done (some i) else .waiting true ((b, i) :: rest)
    | none => .waiting true ((b, i) :: rest)

/-- the call over a history: `hs` are the heaps at the successive resumptions (the environment is arbitrary in between);
the result is the returned location and the heap at return time -/
def returnedAt (sh : Shape) : Task → List Heap → Option (Option Nat × Heap)
  | _, [] => none
  | t, h :: hs =>
    match resume sh h t with
    | .done r => some (r, h)
    | t' => returnedAt sh t' hs

/-- "a valid primary copy": PRIMARY (so not INVALID, not a link) and available -/
def validPrimary (h : Heap) (i : Nat) : Prop := ∃ l, h[i]? = some l ∧ l.dtype = .primary ∧ l.avail = true

/-- the candidate is seen not to be a primary copy (any more) in this heap -/
def lost (h : Heap) (i : Nat) : Prop := ∀ l, h[i]? = some l → l.dtype ≠ .primary

instance (h : Heap) (i : Nat) : Decidable (validPrimary h i) :=
  match hl : h[i]? with
  | none => isFalse (by intro ⟨l, h1, _⟩; rw [hl] at h1; cases h1)
  | some l =>
    if hp : l.dtype = .primary ∧ l.avail = true then isTrue ⟨l, hl, hp.1, hp.2⟩
    else isFalse (by intro ⟨l', h1, h2, h3⟩; rw [hl] at h1; cases h1; exact hp ⟨h2, h3⟩)

end SFV.SourceLoc
