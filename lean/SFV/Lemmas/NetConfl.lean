import SFV.Lemmas.NetDefs
/-! Confluence of workflow networks (C05): every family of port logs that is consistent with the network
(`Consistent`) holds, on every port and up to order, exactly the tokens of the denotation `den`.

The per-node order independence `NodeOutPermStmt` (proved in `SFV/Lemmas/NetPerm.lean`) is taken as a
hypothesis `hperm` here, so that this file only depends on the definitions. -/
namespace SFV.Net

/-! ## b. `Env.set` / `Env.setMany` look-ups -/

theorem set_get (e : Env) (p q : Nat) (l : List Tok) : (e.set p l).get q = if q = p then l else e.get q := rfl

theorem setMany_nil_right (e : Env) (ps : List Nat) : e.setMany ps [] = e := by
  cases ps <;> rfl

theorem setMany_get_notin (e : Env) (ps : List Nat) (ls : List (List Tok)) (q : Nat) (h : q ∉ ps) :
    (e.setMany ps ls).get q = e.get q := by
  induction ps generalizing e ls with
  | nil => rfl
  | cons p ps ih =>
    cases ls with
    | nil => rfl
    | cons l ls =>
      have h1 : q ≠ p := fun hq => h (hq ▸ List.mem_cons_self)
      have h2 : q ∉ ps := fun hq => h (List.mem_cons_of_mem _ hq)
      show ((e.set p l).setMany ps ls).get q = e.get q
      rw [ih _ _ h2, set_get, if_neg h1]

/-- with pairwise distinct ports, port `ps[j]` receives `ls[j]` (and keeps its content if `ls` is too short) -/
theorem setMany_get_idx (e : Env) (ps : List Nat) (ls : List (List Tok)) (hd : ps.Nodup) (j o : Nat)
    (hj : ps[j]? = some o) : (e.setMany ps ls).get o = ls[j]?.getD (e.get o) := by
  induction ps generalizing e ls j with
  | nil => simp at hj
  | cons p ps ih =>
    have hp : p ∉ ps := (List.nodup_cons.mp hd).1
    cases ls with
    | nil => rfl
    | cons l ls =>
      show ((e.set p l).setMany ps ls).get o = _
      cases j with
      | zero =>
        simp only [List.getElem?_cons_zero, Option.some.injEq] at hj
        subst hj
        rw [setMany_get_notin _ _ _ _ hp, set_get, if_pos rfl]
        rfl
      | succ j =>
        simp only [List.getElem?_cons_succ] at hj
        have ho : o ∈ ps := List.mem_iff_getElem?.mpr ⟨j, hj⟩
        have hne : o ≠ p := fun h => hp (h ▸ ho)
        rw [ih _ _ (List.nodup_cons.mp hd).2 j hj, set_get, if_neg hne]
        rfl

/-- the executable distinctness check gives `Nodup` -/
theorem nodup_of_allDistinct (l : List Nat) (h : allDistinct l = true) : l.Nodup := by
  induction l with
  | nil => exact List.nodup_nil
  | cons a r ih =>
    simp only [allDistinct, Bool.and_eq_true, Bool.not_eq_true'] at h
    refine List.nodup_cons.mpr ⟨fun hm => ?_, ih h.2⟩
    have := List.contains_iff_mem.mpr hm
    rw [h.1] at this
    cases this

/-! ## d. ports that no node of the list writes keep their content -/

theorem nodeDen_get_notin (e : Env) (n : Node) (q : Nat) (h : q ∉ n.outs) : (nodeDen e n).get q = e.get q :=
  setMany_get_notin _ _ _ _ h

theorem foldl_nodeDen_get_notin (ns : List Node) (e : Env) (q : Nat) (h : ∀ n ∈ ns, q ∉ n.outs) :
    (ns.foldl nodeDen e).get q = e.get q := by
  induction ns generalizing e with
  | nil => rfl
  | cons n ns ih =>
    rw [List.foldl_cons, ih _ (fun m hm => h m (List.mem_cons_of_mem _ hm)),
      nodeDen_get_notin _ _ _ (h n List.mem_cons_self)]

/-! ## a. `nodeOut` only reads the input ports -/

theorem mapM_option_congr {α β : Type} {f g : α → Option β} (l : List α) (h : ∀ a ∈ l, f a = g a) :
    l.mapM f = l.mapM g := by
  induction l with
  | nil => rfl
  | cons a l ih =>
    rw [List.mapM_cons, List.mapM_cons, h a List.mem_cons_self, ih (fun b hb => h b (List.mem_cons_of_mem _ hb))]

theorem groupAt_congr (e1 e2 : Env) (ins : List Nat) (h : ∀ q ∈ ins, e1.get q = e2.get q) (t : Tag) :
    groupAt e1 ins t = groupAt e2 ins t :=
  mapM_option_congr ins (fun q hq => by rw [h q hq])

theorem commonTags_congr (e1 e2 : Env) (ins : List Nat) (h : ∀ q ∈ ins, e1.get q = e2.get q) :
    commonTags e1 ins = commonTags e2 ins := by
  cases ins with
  | nil => rfl
  | cons q r =>
    simp only [commonTags]
    rw [h q List.mem_cons_self]
    exact List.filter_congr (fun t _ => by rw [groupAt_congr e1 e2 _ h t])

theorem groupStep_congr (e1 e2 : Env) (ins : List Nat) (h : ∀ q ∈ ins, e1.get q = e2.get q) (k : Nat)
    (f : List Val → List (Option Val)) : groupStep e1 ins k f = groupStep e2 ins k f := by
  have hg : groupAt e1 ins = groupAt e2 ins := funext (groupAt_congr e1 e2 ins h)
  simp only [groupStep, commonTags_congr e1 e2 ins h, hg]

theorem dotOut_congr (e1 e2 : Env) (ins : List Nat) (h : ∀ q ∈ ins, e1.get q = e2.get q) :
    dotOut e1 ins = dotOut e2 ins := by
  have h1 : ins.flatMap (fun q => (e1.get q).map (·.tag)) = ins.flatMap (fun q => (e2.get q).map (·.tag)) := by
    rw [List.flatMap_def, List.flatMap_def, List.map_congr_left (fun q hq => by rw [h q hq])]
  have h2 : ∀ k : Tag, ins.mapM (fun q => pickPre (e1.get q) k) = ins.mapM (fun q => pickPre (e2.get q) k) :=
    fun k => mapM_option_congr ins (fun q hq => by rw [h q hq])
  simp only [dotOut, h1, h2]

/-- `nodeOut e n` only depends on the contents of the input ports of `n` -/
theorem nodeOut_congr (e1 e2 : Env) (n : Node) (h : ∀ q ∈ n.ins, e1.get q = e2.get q) :
    nodeOut e1 n = nodeOut e2 n := by
  cases n with
  | tf fn ins outs => exact groupStep_congr e1 e2 ins h _ _
  | cond m r zero ins outs => exact groupStep_congr e1 e2 ins h _ _
  | exec k ins out => exact groupStep_congr e1 e2 ins h _ _
  | scatter inp out size =>
    have := h inp (by simp [Node.ins])
    simp only [nodeOut, this]
  | gather inp size out d =>
    have h1 := h inp (by simp [Node.ins])
    have h2 := h size (by simp [Node.ins])
    simp only [nodeOut, h1, h2]
  | dot ins outs => exact dotOut_congr e1 e2 ins h
  | cart a b oa ob =>
    have h1 := h a (by simp [Node.ins])
    have h2 := h b (by simp [Node.ins])
    simp only [nodeOut, h1, h2]

theorem nodeInputsOk_congr (e1 e2 : Env) (n : Node) (h : ∀ q ∈ n.ins, e1.get q = e2.get q)
    (hok : NodeInputsOk e1 n) : NodeInputsOk e2 n :=
  ⟨fun q hq => h q hq ▸ hok.distinct q hq, fun hd q hq => h q hq ▸ hok.antichain hd q hq⟩

/-! ## c. the structural check at Prop level -/

/-- Prop-level reading of the inner loop of `wfStruct`: with `avail` the ports available so far, every node
reads available ports only, writes fresh ports in range, pairwise distinct -/
def StructOk (np : Nat) : List Nat → List Node → Prop
  | _, [] => True
  | avail, n :: ns =>
      (∀ q ∈ n.ins, q ∈ avail) ∧ (∀ o ∈ n.outs, o ∉ avail ∧ o < np) ∧ n.outs.Nodup ∧
        StructOk np (avail ++ n.outs) ns

theorem structOk_cons {np : Nat} {avail : List Nat} {n : Node} {ns : List Node} :
    StructOk np avail (n :: ns) ↔
      (∀ q ∈ n.ins, q ∈ avail) ∧ (∀ o ∈ n.outs, o ∉ avail ∧ o < np) ∧ n.outs.Nodup ∧
        StructOk np (avail ++ n.outs) ns := Iff.rfl

theorem not_mem_of_contains_false {l : List Nat} {a : Nat} (h : l.contains a = false) : a ∉ l := by
  intro hm
  have hc := List.contains_iff_mem.mpr hm
  rw [h] at hc
  cases hc

theorem structOk_of_go (s : Spec) (avail : List Nat) (ns : List Node) (h : wfStruct.go s avail ns = true) :
    StructOk s.nports avail ns := by
  induction ns generalizing avail with
  | nil => trivial
  | cons n ns ih =>
    simp only [wfStruct.go, Bool.and_eq_true, List.all_eq_true] at h
    obtain ⟨⟨⟨h1, h2⟩, h3⟩, h4⟩ := h
    refine structOk_cons.mpr ⟨fun q hq => List.contains_iff_mem.mp (h1 q hq), fun o ho => ?_,
      nodup_of_allDistinct _ h3, ih _ h4⟩
    have := h2 o ho
    simp only [Bool.not_eq_true', decide_eq_true_eq] at this
    exact ⟨not_mem_of_contains_false this.1, this.2⟩

/-- the source and closed ports: the ports available before the first node -/
def Spec.srcPorts (s : Spec) : List Nat := s.sources.map (·.1) ++ s.closed

theorem wfStruct_unfold (sp : Spec) (h : wfStruct sp = true) :
    allDistinct sp.srcPorts = true ∧ (∀ p ∈ sp.srcPorts, p < sp.nports) ∧
      wfStruct.go sp sp.srcPorts sp.nodes = true := by
  have h' : (allDistinct sp.srcPorts && sp.srcPorts.all (· < sp.nports) &&
      wfStruct.go sp sp.srcPorts sp.nodes) = true := h
  simp only [Bool.and_eq_true, List.all_eq_true, decide_eq_true_eq] at h'
  exact ⟨h'.1.1, h'.1.2, h'.2⟩

theorem structOk_of_wfStruct (sp : Spec) (h : wfStruct sp = true) : StructOk sp.nports sp.srcPorts sp.nodes :=
  structOk_of_go sp _ _ (wfStruct_unfold sp h).2.2

/-- no node writes an available port -/
theorem StructOk.outs_notin {np : Nat} {avail : List Nat} {ns : List Node} (h : StructOk np avail ns) :
    ∀ m ∈ ns, ∀ o ∈ m.outs, o ∉ avail := by
  induction ns generalizing avail with
  | nil => intro m hm; cases hm
  | cons n ns ih =>
    obtain ⟨_, h2, _, h4⟩ := structOk_cons.mp h
    intro m hm o ho
    rcases List.mem_cons.mp hm with rfl | hm
    · exact (h2 o ho).1
    · exact fun ha => ih h4 m hm o ho (List.mem_append_left _ ha)

/-- all ports of the nodes are in range -/
theorem StructOk.ports_lt {np : Nat} {avail : List Nat} {ns : List Node} (h : StructOk np avail ns)
    (hav : ∀ p ∈ avail, p < np) : ∀ m ∈ ns, (∀ q ∈ m.ins, q < np) ∧ (∀ o ∈ m.outs, o < np) := by
  induction ns generalizing avail with
  | nil => intro m hm; cases hm
  | cons n ns ih =>
    obtain ⟨h1, h2, _, h4⟩ := structOk_cons.mp h
    intro m hm
    rcases List.mem_cons.mp hm with rfl | hm
    · exact ⟨fun q hq => hav q (h1 q hq), fun o ho => (h2 o ho).2⟩
    · refine ih h4 (fun p hp => ?_) m hm
      rcases List.mem_append.mp hp with hp | hp
      · exact hav p hp
      · exact (h2 p hp).2

/-- available ports are never overwritten -/
theorem StructOk.foldl_get_avail {np : Nat} {avail : List Nat} {ns : List Node} (h : StructOk np avail ns)
    (E : Env) (q : Nat) (hq : q ∈ avail) : (ns.foldl nodeDen E).get q = E.get q :=
  foldl_nodeDen_get_notin ns E q (fun m hm ho => h.outs_notin m hm q ho hq)

/-- the inputs of the first node are not overwritten by it or by any later node -/
theorem StructOk.foldl_get_ins {np : Nat} {avail : List Nat} {n : Node} {ns : List Node}
    (h : StructOk np avail (n :: ns)) (E : Env) (q : Nat) (hq : q ∈ n.ins) :
    ((n :: ns).foldl nodeDen E).get q = E.get q :=
  h.foldl_get_avail E q ((structOk_cons.mp h).1 q hq)

/-- splitting the node list: the second part is checked with the outputs of the first part available -/
theorem structOk_append {np : Nat} {avail : List Nat} {pre post : List Node} :
    StructOk np avail (pre ++ post) ↔
      StructOk np avail pre ∧ StructOk np (avail ++ pre.flatMap Node.outs) post := by
  induction pre generalizing avail with
  | nil => simp [StructOk]
  | cons n pre ih =>
    simp only [List.cons_append, structOk_cons, ih, List.flatMap_cons, List.append_assoc]
    constructor
    · rintro ⟨h1, h2, h3, h4, h5⟩; exact ⟨⟨h1, h2, h3, h4⟩, h5⟩
    · rintro ⟨⟨h1, h2, h3, h4⟩, h5⟩; exact ⟨h1, h2, h3, h4, h5⟩

/-- (i) one producer per port: in `pre ++ n :: post` no other node writes an output port of `n`, and no
node from `n` on writes an input port of `n` -/
theorem StructOk.single_producer {np : Nat} {avail : List Nat} {pre post : List Node} {n : Node}
    (h : StructOk np avail (pre ++ n :: post)) :
    (∀ m ∈ pre, ∀ o ∈ n.outs, o ∉ m.outs) ∧ (∀ m ∈ post, ∀ o ∈ n.outs, o ∉ m.outs) ∧
      (∀ m ∈ n :: post, ∀ q ∈ n.ins, q ∉ m.outs) := by
  obtain ⟨_, h2⟩ := structOk_append.mp h
  obtain ⟨g1, g2, _, g4⟩ := structOk_cons.mp h2
  refine ⟨fun m hm o ho hmo => ?_, fun m hm o ho hmo => ?_, fun m hm q hq hmo => ?_⟩
  · exact (g2 o ho).1 (List.mem_append_right _ (List.mem_flatMap.mpr ⟨m, hm, hmo⟩))
  · exact g4.outs_notin m hm o hmo (List.mem_append_right _ ho)
  · exact h2.outs_notin m hm q hmo (g1 q hq)

/-- (ii) source and closed ports are never outputs -/
theorem srcPorts_not_outs (sp : Spec) (h : wfStruct sp = true) :
    ∀ n ∈ sp.nodes, ∀ o ∈ n.outs, o ∉ sp.srcPorts :=
  (structOk_of_wfStruct sp h).outs_notin

theorem srcEnv_get_notin (sp : Spec) (p : Nat) (h : p ∉ sp.srcPorts) : (srcEnv sp).get p = [] := by
  have hn : sp.sources.find? (fun x => x.1 == p) = none := by
    rw [List.find?_eq_none]
    intro x hx hxp
    apply h
    have hxp' : x.1 = p := by simpa using hxp
    exact List.mem_append_left _ (hxp' ▸ List.mem_map_of_mem hx)
  simp only [srcEnv, hn]

/-! ## e. `den` is a consistent family -/

theorem nodeDen_get_idx (E : Env) (n : Node) (hd : n.outs.Nodup) (j o : Nat) (hj : n.outs[j]? = some o)
    (hE : E.get o = []) : (nodeDen E n).get o = (nodeOut E n)[j]?.getD [] := by
  rw [nodeDen, setMany_get_idx E n.outs _ hd j o hj, hE]

theorem foldl_nodeDen_node (np : Nat) (post : List Node) (avail : List Nat) (E : Env)
    (hs : StructOk np avail post) (hE : ∀ p, p ∉ avail → E.get p = []) :
    ∀ n ∈ post, ∀ (j o : Nat), n.outs[j]? = some o →
      (post.foldl nodeDen E).get o = (nodeOut (post.foldl nodeDen E) n)[j]?.getD [] := by
  induction post generalizing avail E with
  | nil => intro n hn; cases hn
  | cons m post ih =>
    obtain ⟨_, h2, h3, h4⟩ := structOk_cons.mp hs
    have hE' : ∀ p, p ∉ avail ++ m.outs → (nodeDen E m).get p = [] := fun p hp => by
      rw [nodeDen_get_notin _ _ _ (fun h => hp (List.mem_append_right _ h))]
      exact hE p (fun h => hp (List.mem_append_left _ h))
    intro n hn j o hj
    rcases List.mem_cons.mp hn with rfl | hn
    · have ho : o ∈ n.outs := List.mem_iff_getElem?.mpr ⟨j, hj⟩
      have hc : nodeOut ((n :: post).foldl nodeDen E) n = nodeOut E n :=
        nodeOut_congr _ _ n (fun q hq => hs.foldl_get_ins E q hq)
      rw [hc, List.foldl_cons, h4.foldl_get_avail _ o (List.mem_append_right _ ho)]
      exact nodeDen_get_idx E n h3 j o hj (hE o (h2 o ho).1)
    · exact ih (avail ++ m.outs) (nodeDen E m) h4 hE' n hn j o hj

/-- `den` solves the node equations exactly (not only up to order) -/
theorem den_node_eq (sp : Spec) (hwf : wfStruct sp = true) (n : Node) (hn : n ∈ sp.nodes) (j o : Nat)
    (hj : n.outs[j]? = some o) : (den sp).get o = (nodeOut (den sp) n)[j]?.getD [] :=
  foldl_nodeDen_node sp.nports sp.nodes sp.srcPorts (srcEnv sp) (structOk_of_wfStruct sp hwf)
    (srcEnv_get_notin sp) n hn j o hj

theorem den_consistent (sp : Spec) (hwf : wfStruct sp = true) : Consistent sp (den sp) where
  src := fun p hp => foldl_nodeDen_get_notin sp.nodes (srcEnv sp) p hp
  node := fun n hn j o hj => by
    rw [← den_node_eq sp hwf n hn j o hj]

/-- ports that are neither source/closed ports nor outputs of a node are empty in `den` -/
theorem den_get_unused (sp : Spec) (p : Nat) (hs : p ∉ sp.srcPorts) (hp : ∀ n ∈ sp.nodes, p ∉ n.outs) :
    (den sp).get p = [] := by
  rw [den, foldl_nodeDen_get_notin sp.nodes (srcEnv sp) p hp, srcEnv_get_notin sp p hs]

/-- source and closed ports hold their pre-loaded content in `den` -/
theorem den_get_src (sp : Spec) (hwf : wfStruct sp = true) (p : Nat) (hs : p ∈ sp.srcPorts) :
    (den sp).get p = (srcEnv sp).get p :=
  (structOk_of_wfStruct sp hwf).foldl_get_avail (srcEnv sp) p hs

/-! ## f. every consistent family is `den` up to order -/

theorem foldl_nodeDen_perm (hperm : NodeOutPermStmt) (logs : Env) (np : Nat) (post : List Node)
    (avail : List Nat) (E : Env) (hs : StructOk np avail post) (hE : ∀ p, p ∉ avail → E.get p = [])
    (hnode : ∀ n ∈ post, ∀ (j o : Nat), n.outs[j]? = some o →
      (logs.get o).Perm ((nodeOut logs n)[j]?.getD []))
    (hok : ∀ n ∈ post, NodeInputsOk (post.foldl nodeDen E) n)
    (hinv : ∀ p, (∀ m ∈ post, p ∉ m.outs) → (logs.get p).Perm (E.get p)) :
    ∀ p, (logs.get p).Perm ((post.foldl nodeDen E).get p) := by
  induction post generalizing avail E with
  | nil => exact fun p => hinv p (fun m hm => by cases hm)
  | cons n post ih =>
    obtain ⟨h1, h2, h3, h4⟩ := structOk_cons.mp hs
    have hE' : ∀ p, p ∉ avail ++ n.outs → (nodeDen E n).get p = [] := fun p hp => by
      rw [nodeDen_get_notin _ _ _ (fun h => hp (List.mem_append_right _ h))]
      exact hE p (fun h => hp (List.mem_append_left _ h))
    refine ih (avail ++ n.outs) (nodeDen E n) h4 hE'
      (fun m hm => hnode m (List.mem_cons_of_mem _ hm)) (fun m hm => hok m (List.mem_cons_of_mem _ hm)) ?_
    intro p hp
    by_cases hpo : p ∈ n.outs
    · obtain ⟨j, hj⟩ := List.mem_iff_getElem?.mp hpo
      have hins : EnvPermOn n.ins E logs := fun q hq =>
        (hinv q (fun m hm hmo => hs.outs_notin m hm q hmo (h1 q hq))).symm
      have hokE : NodeInputsOk E n :=
        nodeInputsOk_congr _ _ n (fun q hq => hs.foldl_get_ins E q hq) (hok n List.mem_cons_self)
      rw [nodeDen_get_idx E n h3 j p hj (hE p (h2 p hpo).1)]
      exact (hnode n List.mem_cons_self j p hj).trans (hperm n E logs hins hokE j).symm
    · rw [nodeDen_get_notin _ _ _ hpo]
      exact hinv p (fun m hm => by
        rcases List.mem_cons.mp hm with rfl | hm
        · exact hpo
        · exact hp m hm)

theorem run_eq_den (hperm : NodeOutPermStmt) (sp : Spec) (hwf : wfStruct sp = true)
    (hok : ∀ n ∈ sp.nodes, NodeInputsOk (den sp) n) (logs : Env) (h : Consistent sp logs) :
    ∀ p, (logs.get p).Perm ((den sp).get p) :=
  foldl_nodeDen_perm hperm logs sp.nports sp.nodes sp.srcPorts (srcEnv sp) (structOk_of_wfStruct sp hwf)
    (srcEnv_get_notin sp) h.node hok (fun p hp => by rw [h.src p hp])

/-! ## g. confluence -/

theorem confluence (hperm : NodeOutPermStmt) (sp : Spec) (hwf : wfStruct sp = true)
    (hok : ∀ n ∈ sp.nodes, NodeInputsOk (den sp) n) (l1 l2 : Env) (h1 : Consistent sp l1)
    (h2 : Consistent sp l2) : ∀ p, (l1.get p).Perm (l2.get p) := fun p =>
  (run_eq_den hperm sp hwf hok l1 h1 p).trans (run_eq_den hperm sp hwf hok l2 h2 p).symm

/-! ## h. the hypotheses on the inputs follow from the executable checks -/

theorem distinctTags_of_check (l : List Tok) (h : distinctTags l = true) : DistinctTags l := by
  induction l with
  | nil => exact List.Pairwise.nil
  | cons t r ih =>
    simp only [distinctTags, Bool.and_eq_true, Bool.not_eq_true'] at h
    refine List.pairwise_cons.mpr ⟨fun b hb heq => ?_, ih h.2⟩
    have : r.any (fun u => u.tag == t.tag) = true :=
      List.any_eq_true.mpr ⟨b, hb, beq_iff_eq.mpr heq.symm⟩
    rw [h.1] at this
    cases this

theorem antichain_of_check (l : List Tok) (h : antichain l = true) : Antichain l := by
  simp only [antichain, List.all_eq_true, Bool.or_eq_true, Bool.not_eq_true', beq_iff_eq] at h
  intro a ha b hb hpre
  rcases h a ha b hb with h | h
  · exact h
  · have : isPre a.tag b.tag = true := List.isPrefixOf_iff_prefix.mpr hpre
    rw [h] at this
    cases this

theorem antichain_of_go (np : Nat) (post : List Node) (avail : List Nat) (E : Env)
    (hs : StructOk np avail post) (hgo : wfDyn.go E post = true) :
    ∀ n ∈ post, n.isDot = true → ∀ q ∈ n.ins, Antichain ((post.foldl nodeDen E).get q) := by
  induction post generalizing avail E with
  | nil => intro n hn; cases hn
  | cons m post ih =>
    simp only [wfDyn.go, Bool.and_eq_true] at hgo
    intro n hn hdot q hq
    rcases List.mem_cons.mp hn with rfl | hn
    · rw [hs.foldl_get_ins E q hq]
      cases n with
      | dot ins outs =>
        have := hgo.1
        simp only [wfNode, List.all_eq_true] at this
        exact antichain_of_check _ (this q hq)
      | _ => cases hdot
    · exact ih (avail ++ m.outs) (nodeDen E m) (structOk_cons.mp hs).2.2.2 hgo.2 n hn hdot q hq

theorem nodeInputsOk_of_wf (sp : Spec) (hwf : wfStruct sp = true) (hdyn : wfDyn sp = true) :
    ∀ n ∈ sp.nodes, NodeInputsOk (den sp) n := by
  have hs := structOk_of_wfStruct sp hwf
  have hd : wfDyn.go (srcEnv sp) sp.nodes = true ∧
      ∀ p, p < sp.nports → distinctTags ((den sp).get p) = true := by
    have h' : (wfDyn.go (srcEnv sp) sp.nodes &&
        (List.range sp.nports).all (fun p => distinctTags ((den sp).get p))) = true := hdyn
    simp only [Bool.and_eq_true, List.all_eq_true, List.mem_range] at h'
    exact h'
  intro n hn
  refine ⟨fun q hq => distinctTags_of_check _ (hd.2 q ?_), fun hdot q hq => ?_⟩
  · exact (hs.ports_lt (wfStruct_unfold sp hwf).2.1 n hn).1 q hq
  · exact antichain_of_go sp.nports sp.nodes sp.srcPorts (srcEnv sp) hs hd.1 n hn hdot q hq

/-- the checked version: both hypotheses are the executable checks run by the driver -/
theorem run_eq_den_checked (hperm : NodeOutPermStmt) (sp : Spec) (hwf : wfStruct sp = true)
    (hdyn : wfDyn sp = true) (logs : Env) (h : Consistent sp logs) :
    ∀ p, (logs.get p).Perm ((den sp).get p) :=
  run_eq_den hperm sp hwf (nodeInputsOk_of_wf sp hwf hdyn) logs h

theorem confluence_checked (hperm : NodeOutPermStmt) (sp : Spec) (hwf : wfStruct sp = true)
    (hdyn : wfDyn sp = true) (l1 l2 : Env) (h1 : Consistent sp l1) (h2 : Consistent sp l2) :
    ∀ p, (l1.get p).Perm (l2.get p) :=
  confluence hperm sp hwf (nodeInputsOk_of_wf sp hwf hdyn) l1 l2 h1 h2

end SFV.Net
