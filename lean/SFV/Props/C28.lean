import SFV.Lemmas.BindingSet
/-! # C28 — steps get the binding of their nearest bound ancestor

`WorkflowConfig` (`streamflow/config/config.py`) and `get_binding_config` / `_get_workdir`
(`streamflow/deployment/utils.py`); model in `SFV/Model/Binding.lean`, helpers in `SFV/Lemmas/Binding*.lean`. -/
namespace SFV.C28
open SFV.Binding

/-- **Nearest bound ancestor.** After `WorkflowConfig.__init__` accepted the bindings `bs` (building the trie,
running `set_targets`, checking the stacks), `propagate(path, kind)` is `None` when no binding of that kind is
declared on a prefix of `path`; otherwise it is the configuration of the binding declared on the *longest* such
prefix (the last one, if the same path is bound twice). Bindings of the other kind on the way neither shadow
nor leak, and `set_targets` changes no answer. -/
theorem propagate_nearest (F : List String) (deps : List Deployment) (bs : List Binding) (t : Trie BConfig)
    (h : initConfig F deps bs = .ok t) (path : Path) (k : Kind) :
    ((∀ b ∈ bs, b.kind = k → ¬ b.path <+: path) → t.propagate path k = none) ∧
    (∀ q c, q <+: path → lastBinding bs k q = some c →
        (∀ b ∈ bs, b.kind = k → b.path <+: path → b.path.length ≤ q.length) →
        t.propagate path k = some c) := by
  obtain ⟨t0, ht0, _, hprop⟩ := initConfig_propagate h
  obtain ⟨hW, habs, hattr⟩ := processAll_spec bs Trie.empty t0 wf_empty ht0
  rw [hprop]
  constructor
  · intro hno
    apply propLoop_none
    intro r hr _
    have : lastBinding bs k ([] ++ r) = none :=
      lastBinding_none (fun b hb hk e => hno b hb hk (by rw [e]; simpa using hr))
    rw [hattr, this]; rfl
  · intro q c hq hlast hmax
    obtain ⟨r2, rfl⟩ := hq
    obtain ⟨b0, hb0, _, hp0⟩ := lastBinding_some_mem hlast
    have hqne : q ≠ [] := hp0 ▸ isAbsolute_ne_nil (habs b0 hb0)
    refine propLoop_found t0 hW k [] q r2 none (some c) hqne (by simp [hattr, hlast]) ?_
    intro r hr hne
    have : lastBinding bs k ([] ++ q ++ r) = none := by
      apply lastBinding_none
      intro b hb hk e
      have hlen := hmax b hb hk (by
        rw [e]; obtain ⟨s, rfl⟩ := hr; exact ⟨s, by simp⟩)
      rw [e] at hlen
      have : r.length = 0 := by simp at hlen; omega
      exact hne (List.length_eq_zero_iff.mp this)
    rw [hattr, this]; rfl

/-- **Targets in declared order, local execution otherwise.** `get_binding_config` resolves exactly the targets
of the propagated binding, one result per declared target, in the declared order, each on its declared
deployment, and carries the binding's filters; with no binding on the way it answers the single `LocalTarget`. -/
theorem binding_targets (deps : List Deployment) (t : Trie BConfig) (path : Path) (k : Kind) :
    (t.propagate path k = none → getBindingConfig deps t path k = .ok ([localTarget], [])) ∧
    (∀ cfg rs fs, t.propagate path k = some cfg → getBindingConfig deps t path k = .ok (rs, fs) →
        fs = cfg.filters ∧ rs.map (·.tag) = cfg.targets.map (·.tag) ∧
        rs.map (·.deployment) = cfg.targets.map (·.deployment)) := by
  constructor
  · intro h; simp [getBindingConfig, h]
  · intro cfg rs fs h hg
    simp only [getBindingConfig, h] at hg
    split at hg
    · cases hg
    · rename_i ts hts
      injection hg with hg
      injection hg with h1 h2
      subst h1 h2
      refine ⟨rfl, ?_⟩
      have key : ∀ (l : List TargetSpec) (ts : List Resolved), resolveAll deps (deps.length + 1) l = .ok ts →
          ts.map (·.tag) = l.map (·.tag) ∧ ts.map (·.deployment) = l.map (·.deployment) := by
        intro l
        induction l with
        | nil => intro ts h; simp [resolveAll] at h; subst h; simp
        | cons a l ih =>
          intro ts h
          simp only [resolveAll] at h
          split at h
          · cases h
          · rename_i x hx
            split at h
            · cases h
            · rename_i xs hxs
              injection h with h; subst h
              have := ih xs hxs
              simp only [resolveTarget] at hx
              split at hx
              · cases hx
              · rename_i d hd
                split at hx
                · cases hx
                · injection hx with hx; subst hx
                  have hn : d.name = a.deployment := by
                    have := List.find?_some hd; simpa using this
                  simp [this.1, this.2, hn]
      exact key _ _ hts

/-- **Working directory: own, else inherited along the wraps chain, else the type default.** -/
theorem workdir_inherit (deps : List Deployment) (fuel : Nat) (ts : TargetSpec) (r : Resolved)
    (h : resolveTarget deps fuel ts = .ok r) :
    ∃ d, lookup deps ts.deployment = some d ∧ FirstWorkdir deps d r.depWorkdir ∧
      (truthy ts.workdir = true → some r.workdir = ts.workdir) ∧
      (truthy ts.workdir = false → truthy r.depWorkdir = true → some r.workdir = r.depWorkdir) ∧
      (truthy ts.workdir = false → truthy r.depWorkdir = false → r.workdir = defaultWorkdir d.type) := by
  simp only [resolveTarget] at h
  split at h
  · cases h
  · rename_i d hd
    split at h
    · cases h
    · rename_i wd hwd
      injection h with h; subst h
      refine ⟨d, hd, getWorkdir_spec deps fuel d wd hwd, ?_, ?_, ?_⟩
      · intro ht
        cases hw : ts.workdir with
        | none => simp [truthy, hw] at ht
        | some s => rw [hw] at ht; simp [targetWorkdir, ht]
      · intro ht hd'
        cases hw : wd with
        | none => simp [truthy, hw] at hd'
        | some s =>
          have hd'' : truthy (some s) = true := by simpa [hw] using hd'
          simp [targetWorkdir, ht, hd'']
      · intro ht hd'
        simp [targetWorkdir, ht, hd']

/-- **Cyclic wraps chains are rejected, and only those.** With distinct deployment names and no dangling
`wraps` reference, `_check_stacked_deployments` raises the circular-reference error iff the wraps chain of some
deployment visits a deployment twice (self-references included); it never runs out of fuel (the loop
terminates), and a `KeyError` can only come from a dangling reference. -/
theorem cycle_rejected_iff (deps : List Deployment) (hnd : (deps.map (·.name)).Nodup) :
    checkStacked deps ≠ .error .outOfFuel ∧
    (checkStacked deps = .error .keyError → ∃ d ∈ deps, Dangling deps d) ∧
    ((∀ d ∈ deps, ¬ Dangling deps d) →
      (checkStacked deps = .error .circular ↔ ∃ d ∈ deps, Cyclic deps d) ∧
      (checkStacked deps = .ok () ↔ ∀ d ∈ deps, ¬ Cyclic deps d)) := by
  have hfuel : ∀ d ∈ deps, checkChain deps (deps.length + 1) d [d.name] ≠ .error .outOfFuel := by
    intro d hd
    apply checkChain_fuel
    · simp
    · intro n hn; simp at hn; subst hn; exact List.mem_map.mpr ⟨d, hd, rfl⟩
    · simp; omega
  have hspec := fun d => checkChain_spec deps d (deps.length + 1) d [d.name] 0 (chainInv_init deps d)
  have hfrom := checkFrom_spec deps deps
  refine ⟨?_, ?_, ?_⟩
  · intro h
    obtain ⟨d, hd, h'⟩ := hfrom.2 _ h
    exact hfuel d hd h'
  · intro h
    obtain ⟨d, hd, h'⟩ := hfrom.2 _ h
    exact ⟨d, hd, (hspec d).2.2 h'⟩
  · intro hnd'
    -- every chain check answers ok or circular
    have hcase : ∀ d ∈ deps, (checkChain deps (deps.length + 1) d [d.name] = .ok () ∧ ¬ Cyclic deps d) ∨
        (checkChain deps (deps.length + 1) d [d.name] = .error .circular ∧ Cyclic deps d) := by
      intro d hd
      cases hc : checkChain deps (deps.length + 1) d [d.name] with
      | ok u => cases u; exact Or.inl ⟨rfl, ((hspec d).1 hc).1⟩
      | error e =>
        cases e with
        | circular => exact Or.inr ⟨rfl, (hspec d).2.1 hc⟩
        | keyError => exact absurd ((hspec d).2.2 hc) (hnd' d hd)
        | outOfFuel => exact absurd hc (hfuel d hd)
        | portWithoutWorkdir | filterUndefined | notAbsolute =>
          exfalso
          -- these errors are never produced by checkChain
          have : ∀ fuel d v, checkChain deps fuel d v ≠ .error .portWithoutWorkdir ∧
              checkChain deps fuel d v ≠ .error .filterUndefined ∧ checkChain deps fuel d v ≠ .error .notAbsolute := by
            intro fuel
            induction fuel with
            | zero => intro d v; simp [checkChain]
            | succ fuel ih =>
              intro d v
              simp only [checkChain]
              split
              · simp
              · split
                · simp
                · split
                  · simp
                  · exact ih _ _
          have := this (deps.length + 1) d [d.name]
          simp_all
    have hok : checkStacked deps = .ok () ↔ ∀ d ∈ deps, ¬ Cyclic deps d := by
      unfold checkStacked; rw [hfrom.1]
      constructor
      · intro h d hd
        rcases hcase d hd with ⟨_, h2⟩ | ⟨h1, _⟩
        · exact h2
        · rw [h d hd] at h1; cases h1
      · intro h d hd
        rcases hcase d hd with ⟨h1, _⟩ | ⟨_, h2⟩
        · exact h1
        · exact absurd h2 (h d hd)
    refine ⟨?_, hok⟩
    constructor
    · intro h
      obtain ⟨d, hd, h'⟩ := hfrom.2 _ h
      exact ⟨d, hd, (hspec d).2.1 h'⟩
    · rintro ⟨d, hd, hcyc⟩
      cases hres : checkStacked deps with
      | ok u => cases u; exact absurd hcyc (hok.mp hres d hd)
      | error e =>
        obtain ⟨d', hd', h'⟩ := hfrom.2 e hres
        rcases hcase d' hd' with ⟨h1, _⟩ | ⟨h1, _⟩
        · rw [h1] at h'; cases h'
        · rw [h1] at h'; injection h' with h'; rw [h']

/-- **`_get_workdir` terminates on every configuration that passed the check** (within `len(deployments)`
steps, without `KeyError`), and answers the first workdir on the chain. -/
theorem get_workdir_terminates (deps : List Deployment) (hok : checkStacked deps = .ok ()) :
    ∀ d ∈ deps, ∃ r, getWorkdir deps (deps.length + 1) d = .ok r ∧ FirstWorkdir deps d r := by
  intro d hd
  have hc := (checkFrom_spec deps deps).1.mp hok d hd
  obtain ⟨_, _, k, a, hk, hch, ha⟩ :=
    (checkChain_spec deps d (deps.length + 1) d [d.name] 0 (chainInv_init deps d)).1 hc
  obtain ⟨r, hr⟩ := getWorkdir_ok deps (deps.length + 1) d k a (by omega) hch ha
  exact ⟨r, hr, getWorkdir_spec deps _ d r hr⟩

/-- … and the check is needed: on a self-wrapping deployment without workdir the walk never ends
(whatever the fuel, the model's loop is still running). -/
theorem get_workdir_diverges_without_check :
    ∀ fuel, getWorkdir [⟨"a", "docker", none, some "a"⟩] fuel ⟨"a", "docker", none, some "a"⟩ = .error .outOfFuel := by
  intro fuel
  induction fuel with
  | zero => rfl
  | succ fuel ih => simpa [getWorkdir, lookup] using ih

/-! ### non-vacuity -/

/-- a three-level chain `c → b → a` with the workdir on `a`, a root binding, a nested step binding and a port
binding in between: accepted, the nested step wins below it, the root binding elsewhere -/
def exDeps : List Deployment :=
  [⟨"a", "docker", some "/wd-a", none⟩, ⟨"b", "ssh", none, some "a"⟩, ⟨"c", "slurm", none, some "b"⟩]
def exBindings : List Binding :=
  [⟨.step, ["/"], [⟨"a", none, 0⟩], false, []⟩,
   ⟨.port, ["/", "s", "p"], [⟨"b", some "/pw", 1⟩], false, []⟩,
   ⟨.step, ["/", "s", "p", "q"], [⟨"c", none, 2⟩, ⟨"a", some "/own", 3⟩], true, []⟩]

example : checkStacked exDeps = .ok () := by rfl
example : (processAll [] Trie.empty exBindings).toOption.isSome = true := by rfl
example : lastBinding exBindings .step ["/", "s", "p", "q"] = some ⟨[⟨"c", none, 2⟩, ⟨"a", some "/own", 3⟩], []⟩ := by
  decide
example : resolveTarget exDeps 4 ⟨"c", none, 2⟩ = .ok ⟨"c", "/wd-a", some "/wd-a", 2⟩ := by rfl
/-- a two-cycle is rejected -/
example : checkStacked [⟨"x", "t", none, some "y"⟩, ⟨"y", "t", none, some "x"⟩] = .error .circular := by rfl

/-- **`get` hands out its default only for an unknown path**: when some prefix of the path is not a node of the tree the
default is returned; when the node exists the result is the node's attribute (or `None`) whatever the default — the
asymmetry of `return current_node.get(name)` in the code as written. -/
theorem get_default_only_for_unknown_path {V : Type} (t : Trie V) (p : Path) (k : Kind) (d : Option V) :
    (p ≠ [] → (prefixes p).all (· ∈ t.nodes) = false → t.get p k d = d) ∧
    ((p = [] ∨ (prefixes p).all (· ∈ t.nodes) = true) → t.get p k d = t.get p k none) := by
  constructor
  · intro h1 h2; simp [Trie.get, h1, h2]
  · rintro (h | h)
    · simp [Trie.get, h]
    · by_cases hp : p = []
      · simp [Trie.get, hp]
      · simp [Trie.get, hp, h]

end SFV.C28
