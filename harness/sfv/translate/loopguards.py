"""Extractor: loop numbering / loop output guards -> SFV/Gen/LoopGuards.lean.

Read from the source (semantic anchors, no line numbers):
* `LoopCombinator._product` (streamflow/workflow/combinator.py): the `prefix not in self.iteration_map` dispatch, the first
  iteration's counter value and tag suffix, the increment of the counter on a back-edge arrival and the tag built from it;
* `LoopOutputStep.run` (streamflow/workflow/step.py): the prefix slice, `size_map[prefix] = int(token.tag.split(".")[-1])`,
  the emission test `len(self.token_map.get(prefix, [])) == self.size_map.get(prefix, -1)`, the `all(self.termination_map)` exit test;
* `CWLLoopOutputAllStep` / `CWLLoopOutputLastStep._process_output` (streamflow/cwl/step.py): the sort key and what is taken
  from the sorted list."""
from __future__ import annotations

import ast
import os

from sfv.translate.expr import ExprTranslator, TranslateError, find_nodes, parse_function

TARGET = "SFV/Gen/LoopGuards.lean"


def _ns(node: ast.AST) -> str:
    return ast.unparse(node).replace(" ", "").replace('"', "'")


def _prefix_of(node: ast.AST, var: str, what: str) -> None:
    if _ns(node) != f"'.'.join({var}.split('.')[:-1])":
        raise TranslateError(f"{what}: prefix is not `'.'.join({var}.split('.')[:-1])`: `{ast.unparse(node)}`")


def _sort_key(call: ast.Call, what: str) -> str:
    """sorted(<list>, key=lambda t: int(t.tag.split('.')[-1])) -> lean expr over `last`"""
    if not (isinstance(call, ast.Call) and ast.unparse(call.func) == "sorted" and len(call.args) == 1):
        raise TranslateError(f"{what}: `sorted(...)` not found")
    kw = {k.arg: k.value for k in call.keywords}
    if set(kw) != {"key"} or not isinstance(kw["key"], ast.Lambda) or len(kw["key"].args.args) != 1:
        raise TranslateError(f"{what}: sorted() is not called with exactly `key=lambda t: …`")
    lam = kw["key"]
    v = lam.args.args[0].arg
    return ExprTranslator({f"int({v}.tag.split('.')[-1])": "last"}).tr(lam.body)


class _RestoreTr(ExprTranslator):
    """adds `max(a, b)`"""

    def tr(self, node: ast.AST) -> str:
        src = ast.unparse(node)
        if src in self.names:
            return self.names[src]
        if isinstance(node, ast.Call) and ast.unparse(node.func) in ("max", "min") and len(node.args) == 2 and not node.keywords:
            return f"({ast.unparse(node.func)} {self.tr(node.args[0])} {self.tr(node.args[1])})"
        return super().tr(node)


def generate(repo: str) -> tuple[str, str]:
    # ---- LoopCombinator._product ---------------------------------------------------------------
    comb = os.path.join(repo, "streamflow/workflow/combinator.py")
    fn = parse_function(comb, "_product", cls="LoopCombinator")
    loops = find_nodes(fn, ast.AsyncFor)
    if len(loops) != 1 or _ns(loops[0].iter) != "super()._product()":
        raise TranslateError("LoopCombinator._product: `async for schema in super()._product()` not found")
    body = loops[0].body
    assigns = {ast.unparse(s.targets[0]): s.value for s in body if isinstance(s, ast.Assign) and len(s.targets) == 1}
    if _ns(assigns.get("tag", ast.Constant(None))) != "utils.get_tag([t['token']fortinschema.values()])":
        raise TranslateError("LoopCombinator._product: tag is not get_tag of the schema tokens")
    if "prefix" not in assigns:
        raise TranslateError("LoopCombinator._product: `prefix = …` not found")
    _prefix_of(assigns["prefix"], "tag", "LoopCombinator._product")
    ifs = [s for s in body if isinstance(s, ast.If)]
    if len(ifs) != 1 or _ns(ifs[0].test) != "prefixnotinself.iteration_map":
        raise TranslateError("LoopCombinator._product: `if prefix not in self.iteration_map` dispatch not found")
    first, back = ifs[0].body, ifs[0].orelse
    # first arrival: self.iteration_map[tag] = K ; tag = ".".join(tag.split(".") + ["S"])
    if len(first) != 2 or len(back) != 2:
        raise TranslateError("LoopCombinator._product: each branch must be two statements")
    a0, a1 = first
    if not (isinstance(a0, ast.Assign) and _ns(a0.targets[0]) == "self.iteration_map[tag]" and isinstance(a0.value, ast.Constant)
            and isinstance(a0.value.value, int)):
        raise TranslateError("LoopCombinator._product: first arrival does not set `self.iteration_map[tag] = <int>`")
    init = a0.value.value
    if not (isinstance(a1, ast.Assign) and _ns(a1.targets[0]) == "tag" and isinstance(a1.value, ast.Call)
            and _ns(a1.value.func) == "'.'.join" and isinstance(a1.value.args[0], ast.BinOp)
            and _ns(a1.value.args[0].left) == "tag.split('.')" and isinstance(a1.value.args[0].op, ast.Add)
            and isinstance(a1.value.args[0].right, ast.List) and len(a1.value.args[0].right.elts) == 1
            and isinstance(a1.value.args[0].right.elts[0], ast.Constant)):
        raise TranslateError("LoopCombinator._product: first arrival tag is not `tag.split('.') + ['<n>']`")
    try:
        first_suffix = int(a1.value.args[0].right.elts[0].value)
    except (TypeError, ValueError) as e:
        raise TranslateError("LoopCombinator._product: first iteration suffix is not a number") from e
    # back edge: self.iteration_map[prefix] += K ; tag = ".".join(tag.split(".")[:-1] + [str(self.iteration_map[prefix])])
    b0, b1 = back
    if not (isinstance(b0, ast.AugAssign) and _ns(b0.target) == "self.iteration_map[prefix]" and isinstance(b0.op, ast.Add)
            and isinstance(b0.value, ast.Constant) and isinstance(b0.value.value, int)):
        raise TranslateError("LoopCombinator._product: back edge does not do `self.iteration_map[prefix] += <int>`")
    incr = b0.value.value
    if not (isinstance(b1, ast.Assign) and _ns(b1.targets[0]) == "tag"
            and _ns(b1.value) == "'.'.join(tag.split('.')[:-1]+[str(self.iteration_map[prefix])])"):
        raise TranslateError("LoopCombinator._product: back edge tag is not `prefix + [str(self.iteration_map[prefix])]`")
    # ---- LoopCombinator.restore ----------------------------------------------------------------
    rs = parse_function(comb, "restore", cls="LoopCombinator")
    rloops = [x for x in rs.body if isinstance(x, ast.For)]
    if len(rloops) != 1 or _ns(rloops[0].iter) != "from_tags.values()" or _ns(rloops[0].target) != "(prefix,iteration)":
        raise TranslateError("LoopCombinator.restore: `for prefix, iteration in from_tags.values()` not found")
    rb = rloops[0].body
    if len(rb) != 2 or _ns(rb[0]) != "iteration_num=int(iteration.split('.')[-1])" or not isinstance(rb[1], ast.Assign) \
            or _ns(rb[1].targets[0]) != "self.iteration_map[prefix]":
        raise TranslateError("LoopCombinator.restore: body is not `iteration_num = int(last); self.iteration_map[prefix] = …`")
    restore_val = _RestoreTr({"iteration_num": "n", "self.iteration_map.get(prefix, iteration_num)": "cur"}).tr(rb[1].value)
    # ---- LoopOutputStep.run --------------------------------------------------------------------
    step_py = os.path.join(repo, "streamflow/workflow/step.py")
    run = parse_function(step_py, "run", cls="LoopOutputStep")
    whiles = [s for s in run.body if isinstance(s, ast.While)]
    if len(whiles) != 1:
        raise TranslateError("LoopOutputStep.run: main loop not found")
    w = whiles[0]
    # the local holding the instance tag may be renamed: it is whatever is assigned `".".join(token.tag.split(".")[:-1])`
    passigns = [s for s in w.body if isinstance(s, ast.Assign) and len(s.targets) == 1 and isinstance(s.targets[0], ast.Name)
                and _ns(s.value) == "'.'.join(token.tag.split('.')[:-1])"]
    if len(passigns) != 1:
        raise TranslateError("LoopOutputStep.run: `<prefix> = '.'.join(token.tag.split('.')[:-1])` not found")
    pv = passigns[0].targets[0].id
    sizes = find_nodes(w, ast.Assign, lambda s: _ns(s.targets[0]) == f"self.size_map[{pv}]")
    if len(sizes) != 1:
        raise TranslateError("LoopOutputStep.run: `self.size_map[prefix] = …` not found")
    size_of = ExprTranslator({"int(token.tag.split('.')[-1])": "last"}).tr(sizes[0].value)
    emits = [s for s in w.body if isinstance(s, ast.If) and "_process_output" in ast.unparse(s) and "put" in ast.unparse(s)]
    if len(emits) != 1 or emits[0].orelse:
        raise TranslateError("LoopOutputStep.run: the emission `if <test>: output_port.put(… _process_output(prefix) …)` not found")
    test = emits[0].test
    getd = find_nodes(test, ast.Call, lambda c: _ns(c.func) == "self.size_map.get")
    if len(getd) != 1 or len(getd[0].args) != 2 or _ns(getd[0].args[0]) != pv:
        raise TranslateError("LoopOutputStep.run: emission test does not read `self.size_map.get(prefix, <default>)`")
    default = ExprTranslator({}).tr(getd[0].args[1])
    emit = ExprTranslator({f"len(self.token_map.get({pv}, []))": "count", ast.unparse(getd[0]): "size"}).tr(test)
    if f"_process_output({pv})" not in _ns(emits[0]):
        raise TranslateError("LoopOutputStep.run: emission does not call _process_output(prefix)")
    # the emission test must come after the three-way dispatch, and the exit test after the emission
    exits = [s for s in w.body if isinstance(s, ast.If) and isinstance(s.body[0], ast.Break)]
    if len(exits) != 1 or _ns(exits[0].test) != "self.termination_mapandall(self.termination_map)":
        raise TranslateError("LoopOutputStep.run: exit test is not `self.termination_map and all(self.termination_map)`")
    if w.body.index(exits[0]) < w.body.index(emits[0]):
        raise TranslateError("LoopOutputStep.run: the exit test precedes the emission")
    # ---- LoopCombinatorStep.run: the iteration-termination checklist -----------------------------
    crun = parse_function(step_py, "run", cls="LoopCombinatorStep")
    clears = find_nodes(crun, ast.If, lambda n: len(n.body) == 1 and _ns(n.body[0]) == "self.iteration_termination_checklist.get(task_name).clear()")
    if len(clears) != 1 or clears[0].orelse:
        raise TranslateError("LoopCombinatorStep.run: `if <test>: self.iteration_termination_checklist.get(task_name).clear()` not found")
    chk_clears = ExprTranslator({"token.value": "st"}, enums={"Status": "SFV.Status"}).tr(clears[0].test)
    adds = find_nodes(crun, ast.If, lambda n: len(n.body) == 1 and _ns(n.body[0]) == "self.iteration_termination_checklist[task_name].add(token.tag)")
    if len(adds) != 1 or adds[0].orelse:
        raise TranslateError("LoopCombinatorStep.run: `if <test>: self.iteration_termination_checklist[task_name].add(token.tag)` not found")
    t = adds[0].test
    if not (isinstance(t, ast.Compare) and len(t.ops) == 1 and isinstance(t.ops[0], (ast.In, ast.NotIn))
            and _ns(t.left) == "'.'.join(token.tag.split('.')[:-1])" and _ns(t.comparators[0]) == "self.iteration_termination_checklist[task_name]"):
        raise TranslateError(f"LoopCombinatorStep.run: checklist add guard is not `<prefix of token.tag> [not] in checklist`: `{ast.unparse(t)}`")
    chk_adds = "(!prefixIn)" if isinstance(t.ops[0], ast.NotIn) else "prefixIn"
    removes = find_nodes(crun, ast.If, lambda n: _ns(n.test) == "token.taginself.iteration_termination_checklist[task_name]")
    if len(removes) != 1 or "self.iteration_termination_checklist[task_name].remove(token.tag)" not in _ns(removes[0]):
        raise TranslateError("LoopCombinatorStep.run: `if token.tag in checklist: checklist.remove(token.tag)` not found")
    regets = find_nodes(crun, ast.If, lambda n: "self.get_input_ports()[task_name].get(" in _ns(n) and "input_tasks.append" in _ns(n.body[0]))
    regets = [n for n in regets if "iteration_termination_checklist" in _ns(n.test)]
    if len(regets) != 1 or regets[0].orelse:
        raise TranslateError("LoopCombinatorStep.run: the re-`get` guard `if not (task_name in terminated and len(checklist) == 0)` not found")
    # fix 4e89c00: a FAILED / CANCELLED termination token sets `failed`, after which terminated ports are no longer re-read
    fails = find_nodes(crun, ast.If, lambda n: any(_ns(b) == "failed=True" for b in n.body))
    if len(fails) != 1 or fails[0].orelse:
        raise TranslateError("LoopCombinatorStep.run: `if token.value in (…): failed = True` not found")
    chk_fails = ExprTranslator({"token.value": "st"}, enums={"Status": "SFV.Status"}).tr(fails[0].test)
    chk_reads = ExprTranslator({"task_name in terminated": "terminated", "failed": "failed",
                                "len(self.iteration_termination_checklist[task_name])": "n"}).tr(regets[0].test)
    # ---- CWL _process_output -------------------------------------------------------------------
    cwl_py = os.path.join(repo, "streamflow/cwl/step.py")
    pa = parse_function(cwl_py, "_process_output", cls="CWLLoopOutputAllStep")
    if len(pa.body) != 1 or not isinstance(pa.body[0], ast.Return) or not isinstance(pa.body[0].value, ast.Call) \
            or ast.unparse(pa.body[0].value.func) != "ListToken":
        raise TranslateError("CWLLoopOutputAllStep._process_output: does not return a ListToken")
    kw = {k.arg: k.value for k in pa.body[0].value.keywords}
    if ast.unparse(kw.get("tag", ast.Constant(None))) != "tag":
        raise TranslateError("CWLLoopOutputAllStep._process_output: the list token is not tagged with the instance tag")
    val = kw.get("value")
    if not isinstance(val, ast.Call) or _ns(val.args[0] if val.args else ast.Constant(None)) != "self.token_map.get(tag,[])":
        raise TranslateError("CWLLoopOutputAllStep._process_output: value is not sorted(self.token_map.get(tag, []), …)")
    key_all = _sort_key(val, "CWLLoopOutputAllStep._process_output")
    pl = parse_function(cwl_py, "_process_output", cls="CWLLoopOutputLastStep")
    if len(pl.body) != 1 or not isinstance(pl.body[0], ast.Return):
        raise TranslateError("CWLLoopOutputLastStep._process_output: single return expected")
    r = pl.body[0].value
    # sorted(...)[-1].retag(tag=tag)
    ok = (isinstance(r, ast.Call) and isinstance(r.func, ast.Attribute) and r.func.attr == "retag"
          and isinstance(r.func.value, ast.Subscript) and isinstance(r.func.value.slice, ast.UnaryOp)
          and isinstance(r.func.value.slice.op, ast.USub) and ast.unparse(r.func.value.slice.operand) == "1")
    if not ok or _ns(r).split(".retag(")[-1] not in ("tag=tag)", "tag)"):
        raise TranslateError("CWLLoopOutputLastStep._process_output: is not `sorted(…)[-1].retag(tag=tag)`")
    srt = r.func.value.value
    if _ns(srt.args[0] if isinstance(srt, ast.Call) and srt.args else ast.Constant(None)) != "self.token_map.get(tag,[Token(value=None)])":
        raise TranslateError("CWLLoopOutputLastStep._process_output: default is not [Token(value=None)]")
    key_last = _sort_key(srt, "CWLLoopOutputLastStep._process_output")
    text = f"""import SFV.Model.StepBase
/-! GENERATED by harness/sfv/translate/loopguards.py from streamflow/workflow/combinator.py, step.py, cwl/step.py — do not edit. -/
namespace SFV.Gen

/-- `self.iteration_map[tag] = …` on the first arrival of a loop instance (LoopCombinator._product) -/
def loopInit : Nat := {init}
/-- suffix appended to the tag of the first iteration -/
def loopFirstSuffix : Nat := {first_suffix}
/-- `self.iteration_map[prefix] += …` on a back-edge arrival -/
def loopIncr : Nat := {incr}
/-- `self.size_map[prefix] = …` for an IterationTerminationToken whose last tag component is `last` (LoopOutputStep.run) -/
def loopSizeOf (last : Int) : Int := {size_of}
/-- default of `self.size_map.get(prefix, …)` in the emission test -/
def loopSizeDefault : Int := {default}
/-- emission test of LoopOutputStep.run (`count` = len(token_map.get(prefix, []))) -/
def loopEmits (count size : Int) : Bool := {emit}
/-- sort key of CWLLoopOutputAllStep._process_output over the last tag component -/
def loopSortKeyAll (last : Int) : Int := {key_all}
/-- sort key of CWLLoopOutputLastStep._process_output over the last tag component -/
def loopSortKeyLast (last : Int) : Int := {key_last}
/-- LoopCombinator.restore: new counter of `prefix` (`n` = last component of the iteration tag, `cur` = iteration_map.get(prefix, n)) -/
def loopRestore (cur n : Nat) : Nat := {restore_val}
/-- LoopCombinatorStep.run: a termination token with status `st` clears the port's checklist -/
def loopChecklistClears (st : SFV.Status) : Bool := {chk_clears}
/-- LoopCombinatorStep.run: a data token is added to the checklist (`prefixIn` = its tag prefix is on the checklist) -/
def loopChecklistAdds (prefixIn : Bool) : Bool := {chk_adds}
/-- LoopCombinatorStep.run: a new `get` is issued on the port (`terminated` = its termination token was taken, `failed` = the step's flag, `n` = len(checklist)) -/
def loopKeepsReading (terminated failed : Bool) (n : Int) : Bool := {chk_reads}
/-- LoopCombinatorStep.run: a termination token with status `st` sets the step's `failed` flag -/
def loopFails (st : SFV.Status) : Bool := {chk_fails}

end SFV.Gen
"""
    return TARGET, text
