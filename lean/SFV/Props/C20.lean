import SFV.Lemmas.GraphOps
import SFV.Lemmas.Mapper
/-! # C20 — provenance graph operations keep the graph consistent

`DirectedGraph` / `DirectedAcyclicGraph` of `streamflow/recovery/utils.py` (model: `SFV/Model/Graph.lean`,
the two adjacency maps exactly as the code keeps them; the `while stack` loop of `remove_nodes` is a
well-founded recursion whose termination Lean checked). Helpers live in `SFV/Lemmas/Graph*.lean`. -/
namespace SFV.C20
open SFV.Graph

/-- **The two views mirror each other after every operation sequence**: both maps have the same keys,
`v ∈ succ u ↔ u ∈ pred v`, every edge joins existing nodes (so no lookup of the code can raise `KeyError`,
and every `set.remove` finds its element), and the sets are duplicate free. -/
theorem mirror_inv (ops : List Op) :
    (run ops).sk = (run ops).pk ∧
    (∀ u v, v ∈ (run ops).succ u ↔ u ∈ (run ops).pred v) ∧
    (∀ u v, v ∈ (run ops).succ u → u ∈ (run ops).sk ∧ v ∈ (run ops).sk) ∧
    (run ops).sk.Nodup ∧ (∀ u, ((run ops).succ u).Nodup) ∧ (∀ u, ((run ops).pred u).Nodup) :=
  let h := inv_run ops
  ⟨h.keys, h.mirror, h.closed, h.nodupK, h.nodupS, h.nodupP⟩

/-- every reachable graph satisfies the representation invariant used as hypothesis below -/
theorem reachable_inv (ops : List Op) : Inv (run ops) := inv_run ops

/-- **`remove_nodes(ns, prune_dead_end=False)` removes exactly `ns ∩ V`** with the incident edges, returns each
removed node once, and leaves every other node and edge untouched. -/
theorem remove_exact (g : G) (hI : Inv g) (ns : List Nat) :
    (∀ n, n ∈ (g.removeNodes ns false).2 ↔ n ∈ ns ∧ n ∈ g.sk) ∧
    (g.removeNodes ns false).2.Nodup ∧
    (∀ n, n ∈ (g.removeNodes ns false).1.sk ↔ n ∈ g.sk ∧ n ∉ ns) ∧
    (∀ u v, v ∈ (g.removeNodes ns false).1.succ u ↔ v ∈ g.succ u ∧ u ∉ ns ∧ v ∉ ns) ∧
    (∀ u v, v ∈ (g.removeNodes ns false).1.pred u ↔ v ∈ g.pred u ∧ u ∉ ns ∧ v ∉ ns) := by
  have h := removeNodes_spec g hI ns false
  have hm : ∀ n, n ∈ (g.removeNodes ns false).2 ↔ n ∈ ns ∧ n ∈ g.sk :=
    fun n => (removeNodes_mem g hI ns false n).trans closure_noprune
  refine ⟨hm, h.nodup, ?_, ?_, ?_⟩
  · intro n; rw [h.keys, hm]; grind
  · intro u v; rw [h.succ, hm, hm]
    have := hI.closed u v; grind
  · intro u v; rw [removeNodes_pred_mem g hI, hm, hm]
    have := hI.closed v u; have := hI.mirror v u; grind

/-- **`remove_nodes(ns)` with pruning removes exactly the closure**: the least set containing `ns ∩ V` and every
node that had a successor and has no successor left — whatever order the predecessor sets are iterated in
(the model's lists are arbitrary) — returns each removed node once, and the remaining graph is the old one
restricted to the surviving nodes. -/
theorem remove_prune_exact (g : G) (hI : Inv g) (ns : List Nat) :
    (∀ n, n ∈ (g.removeNodes ns true).2 ↔ Closure true g ns n) ∧
    (g.removeNodes ns true).2.Nodup ∧
    (∀ n, n ∈ (g.removeNodes ns true).1.sk ↔ n ∈ g.sk ∧ n ∉ (g.removeNodes ns true).2) ∧
    (∀ u v, v ∈ (g.removeNodes ns true).1.succ u ↔
        v ∈ g.succ u ∧ u ∉ (g.removeNodes ns true).2 ∧ v ∉ (g.removeNodes ns true).2) ∧
    (∀ u v, v ∈ (g.removeNodes ns true).1.pred u ↔
        v ∈ g.pred u ∧ u ∉ (g.removeNodes ns true).2 ∧ v ∉ (g.removeNodes ns true).2) :=
  let h := removeNodes_spec g hI ns true
  ⟨removeNodes_mem g hI ns true, h.nodup, h.keys, h.succ, removeNodes_pred_mem g hI ns true⟩

/-- the closure is the *least* such set: any set containing the existing targets and closed under
"all successors removed (and there was one)" contains everything `remove_nodes` removes -/
theorem remove_prune_least (g : G) (hI : Inv g) (ns : List Nat) (X : Nat → Prop)
    (hT : ∀ n ∈ ns, n ∈ g.sk → X n)
    (hstep : ∀ p ∈ g.sk, (g.succ p ≠ []) → (∀ s ∈ g.succ p, X s) → X p) :
    ∀ n ∈ (g.removeNodes ns true).2, X n := by
  intro n hn
  have hc := (removeNodes_mem g hI ns true n).mp hn
  clear hn
  induction hc with
  | base h1 h2 => exact hT _ h1 h2
  | step _ h2 h3 _ ih => exact hstep _ h2 (List.ne_nil_of_mem h3) ih

/-- after a pruning removal no surviving node is a dead end created by the removal -/
theorem remove_prune_no_dead_end (g : G) (hI : Inv g) (ns : List Nat) (p : Nat)
    (hp : p ∈ (g.removeNodes ns true).1.sk) (hhad : g.succ p ≠ []) :
    (g.removeNodes ns true).1.succ p ≠ [] := by
  intro hnil
  have h := removeNodes_spec g hI ns true
  obtain ⟨c, hc⟩ := List.exists_mem_of_ne_nil _ hhad
  have hall : ∀ s ∈ g.succ p, s ∈ (g.removeNodes ns true).2 := by
    intro s hs
    apply Classical.byContradiction; intro hns
    have : s ∈ (g.removeNodes ns true).1.succ p := (h.succ p s).mpr ⟨hs, ((h.keys p).mp hp).2, hns⟩
    rw [hnil] at this; cases this
  have hcl : Closure true g ns p :=
    .step rfl ((h.keys p).mp hp).1 hc (fun s hs => (removeNodes_mem g hI ns true s).mp (hall s hs))
  exact ((h.keys p).mp hp).2 ((removeNodes_mem g hI ns true p).mpr hcl)

/-- **`replace(old, new)` preserves every edge, self-loops included**: it raises `ValueError` (`none`) iff the
old node exists and the new one exists too, is a no-op iff the old node is absent, and otherwise the edges of
the result are exactly the old edges with `old` renamed to `new`. -/
theorem replace_preserves_edges (g : G) (hI : Inv g) (old new : Nat) :
    (g.replace old new = none ↔ old ∈ g.sk ∧ new ∈ g.sk) ∧
    (old ∉ g.sk → g.replace old new = some g) ∧
    (old ∈ g.sk → new ∉ g.sk → ∃ g', g.replace old new = some g' ∧ Inv g' ∧
        (∀ x, x ∈ g'.sk ↔ (x ∈ g.sk ∨ x = new) ∧ x ≠ old) ∧
        (∀ a b, b ∈ g.succ a → ren old new b ∈ g'.succ (ren old new a)) ∧
        (∀ u v, v ∈ g'.succ u → ∃ a b, b ∈ g.succ a ∧ u = ren old new a ∧ v = ren old new b) ∧
        (∀ a b, b ∈ g.pred a → ren old new b ∈ g'.pred (ren old new a)) ∧
        (∀ u v, v ∈ g'.pred u → ∃ a b, b ∈ g.pred a ∧ u = ren old new a ∧ v = ren old new b)) := by
  refine ⟨?_, ?_, ?_⟩
  · unfold G.replace; by_cases ho : old ∈ g.sk <;> by_cases hn : new ∈ g.sk <;> simp [ho, hn]
  · intro ho; simp [G.replace, ho]
  · intro ho hn
    have hs := replaced_succ_mem g hI old new hn ho
    have hp := replaced_pred_mem g hI old new hn ho
    have hne : new ≠ old := fun e => hn (e ▸ ho)
    refine ⟨_, replace_eq g old new ho hn, inv_replaced g hI old new hn ho, replaced_sk_mem g old new, ?_, ?_, ?_, ?_⟩
    · intro a b hab; rw [hs]
      have := hI.closed a b hab
      simp only [ren, unren]; grind
    · intro u v huv; rw [hs] at huv
      refine ⟨unren old new u, unren old new v, huv.2.2, ?_, ?_⟩ <;> simp only [ren, unren] <;> grind
    · intro a b hab; rw [hp]
      have := hI.closed b a ((hI.mirror b a).mpr hab)
      simp only [ren, unren]; grind
    · intro u v huv; rw [hp] at huv
      refine ⟨unren old new u, unren old new v, huv.2.2, ?_, ?_⟩ <;> simp only [ren, unren] <;> grind

/-- **`promote_to_source(node)`** cuts every edge into `node` and removes exactly the closure of the parents
left without successors (in the graph with those edges cut); an absent node is a no-op. -/
theorem promote_exact (g : G) (hI : Inv g) (node : Nat) :
    (node ∉ g.sk → g.promote node = (g, [])) ∧
    (node ∈ g.sk →
      (∀ n, n ∈ (g.promote node).2 ↔ Closure true (g.cutIncoming node) (deadPreds g node) n) ∧
      (g.promote node).2.Nodup ∧
      (∀ n, n ∈ (g.promote node).1.sk ↔ n ∈ g.sk ∧ n ∉ (g.promote node).2) ∧
      (∀ u v, v ∈ (g.promote node).1.succ u ↔
          v ∈ g.succ u ∧ v ≠ node ∧ u ∉ (g.promote node).2 ∧ v ∉ (g.promote node).2) ∧
      (∀ v, v ∉ (g.promote node).1.pred node) ∧ Inv (g.promote node).1) := by
  refine ⟨fun h => by simp [G.promote, h], ?_⟩
  intro hn
  have hI' := inv_promoteLoop g hI node
  have hp : g.promote node =
      (promoteLoop node (g.pred node) g []).1.removeNodes (promoteLoop node (g.pred node) g []).2 true := by
    simp [G.promote, hn]
  rw [hp]
  have h := removeNodes_spec _ hI' (promoteLoop node (g.pred node) g []).2 true
  have hmem := removeNodes_mem _ hI' (promoteLoop node (g.pred node) g []).2 true
  have hsucc : ∀ u v, v ∈ (promoteLoop node (g.pred node) g []).1.succ u ↔ v ∈ (g.cutIncoming node).succ u := by
    intro u v; rw [promoteLoop_succ_mem]; simp only [G.cutIncoming, mem_discard]
    have := hI.mirror u node; grind
  have hT : ∀ n, n ∈ (promoteLoop node (g.pred node) g []).2 ↔ n ∈ deadPreds g node := by
    intro n; rw [promoteLoop_del_mem]; simp [deadPreds]
  refine ⟨?_, h.nodup, ?_, ?_, ?_, h.inv⟩
  · intro n; rw [hmem]
    exact ⟨closure_congr (by intro n; rw [promoteLoop_sk]; rfl) hsucc hT,
           closure_congr (by intro n; rw [promoteLoop_sk]; rfl) (fun u v => (hsucc u v).symm) (fun n => (hT n).symm)⟩
  · intro n; rw [h.keys, promoteLoop_sk]
  · intro u v; rw [h.succ, promoteLoop_succ_mem]
    have := hI.mirror u node; grind
  · intro v hv
    rw [removeNodes_pred_mem _ hI', promoteLoop_pred_mem] at hv
    exact hv.1.2 rfl hv.1.1

/-! ### non-vacuity: concrete graphs on which the hypotheses hold and the results are not trivial -/

/-- the diamond-with-tail `0→1, 0→2, 1→3, 2→3, 3→3` is reachable and satisfies `Inv` -/
example : Inv (run [.add 0 (some 1), .add 0 (some 2), .add 1 (some 3), .add 2 (some 3), .add 3 (some 3)]) :=
  reachable_inv _

/-- pruning really prunes: in `0→1→2`, removing `2` also removes `1` and `0` -/
example : Closure true (run [.add 0 (some 1), .add 1 (some 2)]) [2] 0 := by
  have h2 : Closure true (run [.add 0 (some 1), .add 1 (some 2)]) [2] 2 := .base (by simp) (by decide)
  have h1 : Closure true (run [.add 0 (some 1), .add 1 (some 2)]) [2] 1 :=
    .step rfl (by decide) (c := 2) (by decide) (by
      intro s hs
      have : s = 2 := by revert hs; simp [run, G.apply, G.add, G.addNode, G.empty, upd, setAdd]
      exact this ▸ h2)
  exact .step rfl (by decide) (c := 1) (by decide) (by
    intro s hs
    have : s = 1 := by revert hs; simp [run, G.apply, G.add, G.addNode, G.empty, upd, setAdd]
    exact this ▸ h1)

/-- … and does not over-prune: in `0→1, 0→2` removing `1` keeps `0` (it still leads to `2`) -/
example : ¬ Closure true (run [.add 0 (some 1), .add 0 (some 2)]) [1] 0 := by
  intro h
  cases h with
  | base h1 _ => simp at h1
  | step _ _ _ hall =>
    have h2 := hall 2 (by decide)
    cases h2 with
    | base h1 _ => simp at h1
    | step _ _ hc _ => revert hc; simp [run, G.apply, G.add, G.addNode, G.empty, upd, setAdd]

/-- `replace` on a node with a self-loop: the accepted case of `replace_preserves_edges` is inhabited -/
example : (0 ∈ (run [.add 0 (some 0), .add 0 (some 1)]).sk) ∧ (7 ∉ (run [.add 0 (some 0), .add 0 (some 1)]).sk) := by
  decide

/-! ### `GraphMapper`: the dictionaries stay in step with the graphs (`SFV/Model/Mapper.lean`) -/

section Mapper
open SFV.Mapper

/-- **`mapper_consistent`**: `move_token_to_root` and `replace_token` keep the mapper consistent — the nodes of `dag_tokens`, the
keys of `token_instances`, of `token_availability` and the tokens listed in `port_tokens` are the same set, no listed port is
left without tokens or outside `dcg_ports`, a token is listed under one port, both graphs keep their representation invariant —
for every token, port, replacement and every consistent mapper (a `replace_token` that raises changes nothing). -/
theorem mapper_consistent (m : M) (h : m.consistent) :
    (∀ t, (m.moveToRoot t).consistent) ∧
    (∀ port new key a m', m.replaceToken port new key a = some m' → m'.consistent) :=
  ⟨fun t => moveToRoot_consistent m h t, fun port new key a m' hr => replaceToken_consistent m m' h port new key a hr⟩

theorem mapper_empty_consistent : M.empty.consistent :=
  ⟨by simp [M.empty, G.empty, Dict.keys], by simp [M.empty, Dict.keys], by simp [M.empty, Dict.keys, M.tokensOf],
   by simp [M.empty], by simp [M.empty], by simp [M.empty], by simp [M.empty, Dict.keys], inv_empty, inv_empty⟩

/-- `add` of a single token that is new to the mapper (no equal token in its port) keeps it consistent … -/
theorem mapper_add_single_consistent (m : M) (h : m.consistent) (a : Info) (hfresh : a.tok ∉ m.inst.keys)
    (hne : m.getEqual a.port a.key = none) : ∃ m', m.add a none = some m' ∧ m'.consistent :=
  add_single_consistent m h a hfresh hne

/-- … so consistent mappers with tokens exist (`mapper_consistent` is not vacuous): one token, then a second one in the same port -/
example : ∃ m, (M.empty.add ⟨0, 100, 1, 0, true⟩ none).bind (fun m => m.add ⟨0, 100, 2, 1, false⟩ none) = some m ∧ m.consistent ∧
    m.inst.keys = [1, 2] := by
  obtain ⟨m1, h1, c1⟩ := mapper_add_single_consistent M.empty mapper_empty_consistent ⟨0, 100, 1, 0, true⟩ (by decide) (by decide)
  have k1 : m1.inst.keys = [1] ∧ m1.getEqual 0 1 = none := by
    have : (M.empty.add ⟨0, 100, 1, 0, true⟩ none).map (fun m => (m.inst.keys, m.getEqual 0 1)) = some ([1], none) := by decide
    rw [h1] at this
    simp only [Option.map_some, Option.some.injEq, Prod.mk.injEq] at this
    exact this
  obtain ⟨m2, h2, c2⟩ := mapper_add_single_consistent m1 c1 ⟨0, 100, 2, 1, false⟩ (by rw [k1.1]; decide) k1.2
  refine ⟨m2, by rw [h1]; exact h2, c2, ?_⟩
  have : ((M.empty.add ⟨0, 100, 1, 0, true⟩ none).bind (fun m => m.add ⟨0, 100, 2, 1, false⟩ none)).map (·.inst.keys) = some [1, 2] := by
    decide
  rw [h1] at this
  simp only [Option.bind_some, h2, Option.map_some, Option.some.injEq] at this
  exact this

end Mapper

end SFV.C20
