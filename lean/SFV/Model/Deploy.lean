/-! # Model of `DefaultDeploymentManager` for ONE deployment name (no wrappers) and of `FutureConnector`
(streamflow/deployment/manager.py, future.py)

Any number of concurrent requests `deploy(D)`, `undeploy(D)` (also what `undeploy_all` runs for `D`) and *uses* of the
connector (`get_connector(D).<op>`, which is what triggers a lazy deployment). An action is the code between two
suspension points. Events are heap objects (`events_map[D] = asyncio.Event()` creates a new one at every
registration; `events_map[D].set()` acts on whatever object is in the map *at that instant*), connector objects and
`FutureConnector` objects likewise.

```
_deploy:   while True:
             if D not in config_map:  register (config_map, new event, new dependants set);  _inner_deploy = no-op
                 lazy : deployments_map[D] = FutureConnector(..); event.set(); (loop: event set, D present) -> return
                 eager: deployments_map[D] = connector; await connector.deploy()          -- pc dConn
                        ok  : events_map[D].set(); return          fail: deployments_map.pop(D); events_map[D].set(); raise
             else: await events_map[D].wait()                                              -- pc dWait e
                   if D not in deployments_map: raise;  if D in config_map: return         -- (else loop again)
deploy:    await _deploy(cfg); dependency_graph[D].add(D)
undeploy:  if D in deployments_map: await events_map[D].wait()                             -- pc uWait e
             dependency_graph[D].discard(D); (now empty) events_map[D].clear(); del maps;
             await connector.undeploy()                                                   -- pc uConn o
             events_map[D].set()
FutureConnector.<op>: if _connector is None:
             if not deploying: deploying = True; await self.deploy()                       -- pc fConn f o
             else: await deploy_event.wait(); if _connector is None: raise                 -- pc fWait f
FutureConnector.undeploy: if _connector is not None: await _connector.undeploy()
``` -/
namespace SFV.Deploy

/-- two facts about the source, re-read by `harness/sfv/translate/deployguards.py` on every run -/
structure Cfg where
  /-- `undeploy` sets the event object it cleared itself (repaired) instead of whatever `events_map[D]` holds after
      the `await connector.undeploy()` (as the code does: `self.events_map[deployment_name].set()`) -/
  ownEvent : Bool
  /-- `FutureConnector.undeploy` waits for a `deploy()` that is in flight (repaired) instead of doing nothing when
      `_connector is None` -/
  futWaits : Bool
deriving DecidableEq, Repr

inductive DPhase | deploying | ok | failed
deriving DecidableEq, Repr
inductive UPhase | none | undeploying | done
deriving DecidableEq, Repr

/-- a real connector object: progress of its `deploy()` call and of its `undeploy()` call -/
structure Obj where
  dep : DPhase
  und : UPhase
  fut : Option Nat      -- the FutureConnector that created it (lazy), if any
deriving DecidableEq, Repr

/-- deployed successfully and `undeploy()` not called -/
def Obj.live (o : Obj) : Bool := o.dep == .ok && o.und == .none
/-- `deploy()` called, not failed, `undeploy()` not called -/
def Obj.active (o : Obj) : Bool := o.dep != .failed && o.und == .none

structure Fut where
  deploying : Bool
  evSet : Bool
  conn : Option Nat
deriving DecidableEq, Repr

inductive DM | eager (o : Nat) | future (f : Nat)
deriving DecidableEq, Repr

inductive Kind | deploy | undeploy | use
deriving DecidableEq, Repr

inductive Pc
  | idle (k : Kind)
  | dWait (e : Nat) | dWoken | dConn (o : Nat)
  | uWait (e : Nat) | uWoken | uConn (o e : Nat)      -- `e`: the event object this undeploy cleared
  | uFWait (f e : Nat) | uFWoken (f e : Nat)         -- (repaired FutureConnector.undeploy) waiting for the deploy in flight
  | fConn (f o : Nat) | fWait (f : Nat) | fWoken (f : Nat)
  | done | failed | noConn
  | none           -- no such request
deriving DecidableEq, Repr

inductive Bad | doubleUndeploy (o : Nat) | undeployNotDeployed (o : Nat)
deriving DecidableEq, Repr

structure St where
  lazy : Bool
  config : Bool
  depmap : Option DM
  evmap : Option Nat
  evs : Nat → Bool
  nEv : Nat
  dg : Option Bool
  objs : Nat → Obj          -- ids ≥ nObj hold `Obj.absent`
  nObj : Nat
  futs : Nat → Fut          -- ids ≥ nFut hold `Fut.absent`
  nFut : Nat
  pc : Nat → Pc
  bad : List Bad

/-- placeholder for an id that was never allocated (neither active nor live) -/
def Obj.absent : Obj := ⟨.failed, .done, none⟩
def Fut.absent : Fut := ⟨false, false, none⟩

inductive Act
  | start (p : Nat)      -- first segment of a request
  | wake (p : Nat)       -- a request woken from an event wait continues
  | connOk (p : Nat)     -- the connector call the request is suspended in completes
  | connFail (p : Nat)   -- … raises (deploy calls only)
deriving DecidableEq, Repr

def init (lazy : Bool) (kinds : Nat → Option Kind) : St :=
  { lazy := lazy, config := false, depmap := none, evmap := none, evs := fun _ => false, nEv := 0, dg := none,
    objs := fun _ => Obj.absent, nObj := 0, futs := fun _ => Fut.absent, nFut := 0,
    pc := fun p => match kinds p with | some k => .idle k | none => .none, bad := [] }

def setPc (s : St) (p : Nat) (c : Pc) : St := { s with pc := fun q => if q = p then c else s.pc q }

/-- `Event.set()` on object `e`: every request blocked on it becomes runnable -/
def setEvent (s : St) (e : Nat) : St :=
  { s with evs := fun k => if k = e then true else s.evs k,
           pc := fun q => match s.pc q with
             | .dWait e' => if e' = e then .dWoken else .dWait e'
             | .uWait e' => if e' = e then .uWoken else .uWait e'
             | c => c }

def setObj (s : St) (o : Nat) (v : Obj) : St := { s with objs := fun k => if k = o then v else s.objs k }
def setFut (s : St) (f : Nat) (v : Fut) : St := { s with futs := fun k => if k = f then v else s.futs k }

/-- `deploy()` after `_deploy` returned: `self.dependency_graph[D].add(D)` -/
def finishDeploy (s : St) (p : Nat) : St :=
  match s.dg with
  | some _ => setPc { s with dg := some true } p .done
  | none => setPc s p .failed

/-- first branch of the loop: `D not in config_map` -/
def register (s : St) (p : Nat) : St :=
  let e := s.nEv
  let s1 := { s with config := true, evmap := some e, evs := fun k => if k = e then false else s.evs k,
                     nEv := e + 1, dg := some false }
  if s.lazy then
    let f := s.nFut
    let s2 := setFut { s1 with nFut := f + 1, depmap := some (.future f) } f ⟨false, false, none⟩
    finishDeploy (setEvent s2 e) p
  else
    let o := s.nObj
    setPc (setObj { s1 with nObj := o + 1, depmap := some (.eager o) } o ⟨.deploying, .none, none⟩) p (.dConn o)

/-- after `await events_map[D].wait()` in `_deploy` -/
def afterWait (s : St) (p : Nat) : St :=
  match s.depmap with
  | none => setPc s p .failed
  | some _ => if s.config then finishDeploy s p else register s p

def loopHead (s : St) (p : Nat) : St :=
  if ¬ s.config then register s p
  else match s.evmap with
    | none => setPc s p .failed
    | some e => if s.evs e then afterWait s p else setPc s p (.dWait e)

/-- `await connector.undeploy(...)` is entered for object `o` -/
def callUndeploy (s : St) (p o e : Nat) : St :=
  let ob := s.objs o
  let b1 := if ob.und ≠ .none then [Bad.doubleUndeploy o] else []
  let b2 := if ob.dep ≠ .ok then [Bad.undeployNotDeployed o] else []
  setPc (setObj { s with bad := b1 ++ b2 ++ s.bad } o { ob with und := .undeploying }) p (.uConn o e)

/-- `undeploy` after the event wait -/
def uBody (cfg : Cfg) (s : St) (p : Nat) : St :=
  match s.dg, s.depmap, s.evmap with
  | some _, some dm, some e =>
    let s1 := { s with evs := fun k => if k = e then false else s.evs k, depmap := none, config := false, dg := none }
    match dm with
    | .eager o => callUndeploy s1 p o e
    | .future f =>
      match (s.futs f).conn with
      | some o => callUndeploy s1 p o e
      | none =>
          if cfg.futWaits ∧ (s.futs f).deploying = true ∧ (s.futs f).evSet = false then setPc s1 p (.uFWait f e)
          else setPc (setEvent s1 e) p .done      -- FutureConnector.undeploy does nothing; events_map[D].set()
  | some _, none, some e =>
      -- `discard`, `events_map[D].clear()`, then `self.deployments_map[D]` raises KeyError
      setPc { s with evs := fun k => if k = e then false else s.evs k, dg := some false } p .failed
  | _, _, _ => setPc s p .failed                 -- KeyError

def useStart (s : St) (p : Nat) : St :=
  match s.depmap with
  | none => setPc s p .noConn
  | some (.eager _) => setPc s p .done
  | some (.future f) =>
    let fu := s.futs f
    match fu.conn with
    | some _ => setPc s p .done
    | none =>
      if ¬ fu.deploying then
        let o := s.nObj
        setPc (setObj (setFut { s with nObj := o + 1 } f { fu with deploying := true }) o ⟨.deploying, .none, some f⟩) p (.fConn f o)
      else if fu.evSet then setPc s p .failed
      else setPc s p (.fWait f)

/-- `deploy_event.set()` of a FutureConnector -/
def wakeFut (s : St) (f : Nat) : St :=
  { s with pc := fun q => match s.pc q with
      | .fWait f' => if f' = f then .fWoken f else .fWait f'
      | .uFWait f' e => if f' = f then .uFWoken f e else .uFWait f' e
      | c => c }

/-- the event `undeploy` sets when it is done: its own (repaired) or the one in the map now (the code) -/
def undeployEvent (cfg : Cfg) (s : St) (own : Nat) : Option Nat := if cfg.ownEvent then some own else s.evmap

def step (cfg : Cfg) (s : St) : Act → Option St
  | .start p =>
      match s.pc p with
      | .idle .deploy => some (loopHead s p)
      | .idle .undeploy =>
          match s.depmap, s.evmap with
          | some _, some e => if s.evs e then some (uBody cfg s p) else some (setPc s p (.uWait e))
          | some _, none => some (setPc s p .failed)
          | none, _ => some (setPc s p .done)
      | .idle .use => some (useStart s p)
      | _ => none
  | .wake p =>
      match s.pc p with
      | .dWoken => some (afterWait s p)
      | .uWoken => some (uBody cfg s p)
      | .fWoken f =>
          match (s.futs f).conn with
          | some _ => some (setPc s p .done)
          | none => some (setPc s p .failed)
      | .uFWoken f e =>
          match (s.futs f).conn with
          | some o => some (callUndeploy s p o e)
          | none => match undeployEvent cfg s e with
            | some e' => some (setPc (setEvent s e') p .done)
            | none => none
      | _ => none
  | .connOk p =>
      match s.pc p with
      | .dConn o =>
          match s.evmap with
          | some e => some (finishDeploy (setEvent (setObj s o { s.objs o with dep := .ok }) e) p)
          | none => none
      | .uConn o own =>
          match undeployEvent cfg s own with
          | some e => some (setPc (setEvent (setObj s o { s.objs o with und := .done }) e) p .done)
          | none => none
      | .fConn f o =>
          some (setPc (wakeFut (setFut (setObj s o { s.objs o with dep := .ok }) f { s.futs f with conn := some o, evSet := true }) f) p .done)
      | _ => none
  | .connFail p =>
      match s.pc p with
      | .dConn o =>
          match s.evmap with
          | some e =>
              -- `self.deployments_map.pop(D)` raises KeyError when a concurrent undeploy removed the entry: no `set()`
              if s.depmap.isNone then some (setPc (setObj s o { s.objs o with dep := .failed }) p .failed)
              else some (setPc (setEvent (setObj { s with depmap := none } o { s.objs o with dep := .failed }) e) p .failed)
          | none => none
      | .fConn f o =>
          some (setPc (wakeFut (setFut (setObj s o { s.objs o with dep := .failed }) f { s.futs f with evSet := true }) f) p .failed)
      | _ => none

inductive Reachable (cfg : Cfg) (lazy : Bool) (kinds : Nat → Option Kind) : St → Prop
  | init : Reachable cfg lazy kinds (init lazy kinds)
  | step {s a s'} : Reachable cfg lazy kinds s → step cfg s a = some s' → Reachable cfg lazy kinds s'

def runActs (cfg : Cfg) (s : St) : List Act → Option St
  | [] => some s
  | a :: as => match step cfg s a with
    | some s' => runActs cfg s' as
    | none => none

theorem reachable_runActs {cfg lazy kinds s} (h : Reachable cfg lazy kinds s) :
    ∀ (as : List Act) {s'}, runActs cfg s as = some s' → Reachable cfg lazy kinds s' := by
  intro as
  induction as generalizing s with
  | nil => intro s' h'; simp [runActs] at h'; exact h' ▸ h
  | cons a as ih =>
    intro s' h'
    simp only [runActs] at h'
    split at h'
    · rename_i s1 hs1; exact ih (Reachable.step h hs1) h'
    · cases h'

end SFV.Deploy
