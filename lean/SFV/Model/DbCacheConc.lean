import SFV.Model.DbCache
/-! Overlapping calls on `SqliteDatabase`: a cached getter that misses suspends between its `SELECT` and the
    moment cachebox stores the result (`result = await func(…); _cache[key] = result`). Other calls may run in
    between. `pending` holds the reads in flight together with the row their `SELECT` already produced. -/
namespace SFV.DbCache

structure CSt where
  base : St
  pending : List (Getter × Nat × PRow)

def CSt.init : CSt := ⟨St.init, []⟩

inductive COp where
  /-- a call that does not overlap with another one -/
  | seq (op : Op)
  /-- cache lookup misses, the `SELECT` is executed: the getter now holds the row and is suspended -/
  | getStart (g : Getter) (id : Nat)
  /-- the `k`-th suspended getter resumes: `_cache[key] = result`, then the postprocessed row is returned -/
  | getFinish (k : Nat)

/-- `locked = true` models the repaired code: an `update_*` waits while a getter reading its table is in flight -/
def cstep (spec : Spec) (locked : Bool) (s : CSt) : COp → Option (CSt × Option Row)
  | .seq op =>
      match op with
      | .update u _ _ =>
          if locked && s.pending.any (fun p => p.1.reads.contains u.table) then none
          else (step spec s.base op).map (fun r => ({ s with base := r.1 }, r.2))
      | _ => (step spec s.base op).map (fun r => ({ s with base := r.1 }, r.2))
  | .getStart g id =>
      if g ∈ spec.getters then
        match s.base.cache g.cache id, s.base.db g.table id with
        | none, some p => some ({ s with pending := s.pending ++ [(g, id, p)] }, none)
        | _, _ => none
      else none
  | .getFinish k =>
      match s.pending[k]? with
      | some (g, id, p) =>
          let b := s.base
          let r := (fresh b.next p).1
          let n1 := (fresh b.next p).2
          some ({ base := { b with cache := upd2 b.cache g.cache id (some r),
                                   out := b.out ++ [(copyRow g.copy n1 r).1], next := (copyRow g.copy n1 r).2 },
                  pending := s.pending.eraseIdx k },
                some (copyRow g.copy n1 r).1)
      | none => none

def crunFrom (spec : Spec) (locked : Bool) : CSt → List COp → Option (CSt × List (Option Row))
  | s, [] => some (s, [])
  | s, op :: ops =>
      match cstep spec locked s op with
      | none => none
      | some (s', r) =>
          match crunFrom spec locked s' ops with
          | none => none
          | some (s'', rs) => some (s'', r :: rs)

inductive CReachable (spec : Spec) (locked : Bool) : CSt → Prop
  | init : CReachable spec locked CSt.init
  | step {s op s' r} : CReachable spec locked s → cstep spec locked s op = some (s', r) → CReachable spec locked s'

end SFV.DbCache
