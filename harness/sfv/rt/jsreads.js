// Reference evaluation for C31: evaluates CWL JavaScript fragments exactly as cwl_utils wraps them
// ('"use strict"; (function(){...})()') with `inputs` wrapped in a recording Proxy.
// stdin: JSON array of {id, code}  (code = the text between `$` and the end of the expression: "(...)" or "{...}")
// stdout: JSON array of {id, ok, reads, error}
'use strict';
const KEYS = JSON.parse(process.argv[2] || '[]');
function nested(depth) {
  const o = {};
  if (depth === 0) return o;
  for (const k of KEYS) o[k] = nested(depth - 1);
  return o;
}
function wrap(code) {
  // cwl_utils.sandboxjs.code_fragment_to_js
  const inner = (code.length > 1 && code[0] === '{') ? code : '{return (' + code + ');}';
  return '"use strict";\nreturn (function()' + inner + ')()';
}
let data = '';
process.stdin.on('data', (c) => (data += c));
process.stdin.on('end', () => {
  const out = [];
  for (const item of JSON.parse(data)) {
    const reads = [];
    const rec = (k) => { if (typeof k === 'string' && !reads.includes(k)) reads.push(k); };
    const target = nested(3);
    const inputs = new Proxy(target, {
      get(t, k, r) { rec(k); return Reflect.get(t, k, r); },
      has(t, k) { rec(k); return Reflect.has(t, k); },
      getOwnPropertyDescriptor(t, k) { rec(k); return Reflect.getOwnPropertyDescriptor(t, k); },
      ownKeys(t) { for (const k of Reflect.ownKeys(t)) rec(k); return Reflect.ownKeys(t); },
    });
    try {
      const fn = new Function('inputs', 'self', 'runtime', wrap(item.code));
      fn(inputs, null, {cores: 1, outdir: '/o', tmpdir: '/t', ram: 1});
      out.push({id: item.id, ok: true, reads});
    } catch (e) {
      out.push({id: item.id, ok: false, reads, error: String(e).slice(0, 200)});
    }
  }
  process.stdout.write(JSON.stringify(out));
});
