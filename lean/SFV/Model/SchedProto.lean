import SFV.Model.Sched
import SFV.Model.HWProto
/-! Line protocol of the scheduler drivers (C10–C13): configuration lines, `try` / `notify` operations, state dump. -/
namespace SFV.SchedProto
open SFV SFV.HW SFV.HWProto SFV.Sched SFV.Gen.Sched SFV.Proto

structure DSt where
  env : Env := {}
  stacks : List (Nat × Stack) := []
  targets : List (Nat × (Nat × List Nat)) := []     -- id ↦ (wanted, available stack ids)
  st : St := {}

def statusOfNat (n : Nat) : Option Status := Status.all.find? (fun s => s.toNat = n)

def parseLevel (s : String) : Option Level :=
  match s.splitOn "," with
  | [d, n, sl, hw] => do
      let d ← d.toNat?
      let n ← n.toNat?
      let sl ← parseOpt sl
      let hw ← if hw = "-" then some none else (parseHw hw).map some
      pure { dep := d, name := n, slots := sl, hardware := hw }
  | _ => none

def parseStack (s : String) : Option Stack := (s.splitOn ";").mapM parseLevel

def noPaths (h : Hardware) : Hardware :=
  { h with storage := h.storage.map (fun kd => (kd.1, { kd.2 with paths := [] })) }

def namesStr (l : List Nat) : String := if l.isEmpty then "-" else "+".intercalate (l.map toString)

def insertBy {α} (lt : α → α → Bool) (x : α) : List α → List α
  | [] => [x]
  | y :: ys => if lt x y then x :: y :: ys else y :: insertBy lt x ys
def sortBy {α} (lt : α → α → Bool) (l : List α) : List α := l.foldr (insertBy lt) []

def dump (s : St) : String :=
  let r := s.reserved.map (fun (n, h) => s!"{n}={hwStr (noPaths h)}")
  let j := s.jobs.map (fun (i, a) =>
    s!"{i}={a.status.toNat},{a.target},{namesStr (a.locations.map (fun st => (st.head?.map (·.name)).getD 0))},{hwStr a.hardware}")
  let l := (sortBy (fun (a b : LocKey × List Nat) => a.1.1 < b.1.1 || (a.1.1 == b.1.1 && a.1.2 < b.1.2)) s.locJobs).map
    (fun (k, js) => s!"{k.1}/{k.2}={namesStr js}")
  let f := fun (xs : List String) => if xs.isEmpty then "-" else ";".intercalate xs
  s!"R {f r} J {f j} L {f l}"

def serrStr : SErr → String
  | .hw e => errStr e
  | .needsIO => "needsIO"
  | .noHardware => "noHardware"
  | .unknownJob => "unknownJob"
  | .missingReq => "missingReq"

def outcomeStr : Outcome → String
  | .allocated ns => "allocated " ++ namesStr ns
  | .waiting => "waiting"
  | .error e => "err " ++ serrStr e

def availOf (d : DSt) (t : Nat) : Option (Nat × List Stack) := do
  let (wanted, ids) ← assocGet d.targets t
  let sts ← ids.mapM (assocGet d.stacks)
  pure (wanted, sts)

def step (d : DSt) : List String → DSt × String
  | ["reset"] => ({}, "ok")
  | ["tr", b, m, p, o] =>
      match b.toNat?, m.toNat?, p.toNat?, o.toNat? with
      | some b, some m, some p, some o =>
          ({ d with env := { d.env with translate := d.env.translate ++ [((b, m, p), o)] } }, "ok")
      | _, _, _, _ => (d, "bad-op")
  | ["size", dep, p, r] =>
      match dep.toNat?, p.toNat?, parseRat r with
      | some dep, some p, some r => ({ d with env := { d.env with sizes := assocSet d.env.sizes (dep, p) r } }, "ok")
      | _, _, _ => (d, "bad-op")
  | ["fail", dep, p] =>
      match dep.toNat?, p.toNat? with
      | some dep, some p => ({ d with env := { d.env with failing := (dep, p) :: d.env.failing } }, "ok")
      | _, _ => (d, "bad-op")
  | ["stack", i, s] =>
      match i.toNat?, parseStack s with
      | some i, some st => ({ d with stacks := assocSet d.stacks i st }, "ok")
      | _, _ => (d, "bad-op")
  | "target" :: t :: wanted :: ids =>
      match t.toNat?, wanted.toNat?, ids.mapM (·.toNat?) with
      | some t, some w, some ids => ({ d with targets := assocSet d.targets t (w, ids) }, "ok")
      | _, _, _ => (d, "bad-op")
  | [op, j, stp, tag, hw, t] =>
      if op = "try" ∨ op = "probe" then
        match j.toNat?, stp.toNat?, parseTag tag, parseHw hw, t.toNat? with
        | some j, some stp, some tag, some hw, some t =>
            match availOf d t with
            | some (wanted, avail) =>
                let (s', o) := tryAllocate d.env d.st j stp tag hw t wanted avail
                if op = "try" then ({ d with st := s' }, outcomeStr o ++ " | " ++ dump s')
                else (d, outcomeStr o)
            | none => (d, "bad-op")
        | _, _, _, _, _ => (d, "bad-op")
      else (d, "bad-op")
  | ["notify", j, n] =>
      match j.toNat?, n.toNat? >>= statusOfNat with
      | some j, some stt =>
          let (s', o) := notify d.env d.st j stt
          let os := match o with
            | .done b => s!"done {b}"
            | .error e => "err " ++ serrStr e
          ({ d with st := s' }, os ++ " | " ++ dump s')
      | _, _ => (d, "bad-op")
  | ["refhyp"] => (d, "-")
  | ["dump"] => (d, dump d.st)
  | _ => (d, "bad-op")

end SFV.SchedProto
