import SFV.Model.Transfer
import SFV.Model.TransferReg
import SFV.Model.Proto
open SFV SFV.Proto SFV.Transfer SFV.Registry SFV.TransferReg

def showPath (p : List String) : String := "/" ++ "/".intercalate p

/-- `rrwc <dstIsDir> <srcIsDir> <base> <dst components…>` → the row chosen by `get_remote_to_remote_write_command`
    `dest <dstIsDir> <base> <dst components…>` → intended destination of the tree -/
def handle : List String → String
  | "rrwc" :: d :: s :: base :: dst =>
      match stringOfHex base, dst.mapM stringOfHex with
      | some b, some dst =>
          match remoteWriteCmd dst (d == "1") b (s == "1") with
          | .xC p => s!"xC {hexOfString (showPath p)}"
          | .xCstrip p => s!"xCstrip {hexOfString (showPath p)}"
          | .tee p => s!"tee {hexOfString (showPath p)}"
      | _, _ => "bad-op"
  | "dest" :: d :: base :: dst =>
      match stringOfHex base, dst.mapM stringOfHex with
      | some b, some dst => hexOfString (showPath (finalDest dst (d == "1") b))
      | _, _ => "bad-op"
  | "reg" :: w :: lsrc :: ldst :: "S" :: rest =>
      -- reg <writable> <lsrc> <ldst> S <src comps…> F <final comps…>: the valid objects `get_data_locations(final, ldst)` returns
      let srcC := rest.takeWhile (· ≠ "F")
      let finC := (rest.dropWhile (· ≠ "F")).drop 1
      match lsrc.toNat?, ldst.toNat?, srcC.mapM stringOfHex, finC.mapM stringOfHex with
      | some ls, some ld, some src, some fin =>
          let r := register St.init ls src
          let s' := transferRegister r.1 r.2 ld fin (w == "1")
          let paths := (getLocs s' fin ld).map (fun o => showPath (objPath s' o))
          " ".intercalate ("objs" :: paths.map hexOfString)
      | _, _, _, _ => "bad-op"
  | _ => "bad-op"

def main : IO Unit := runPure handle
