def hx(s: str | bytes) -> str:
    b = s.encode("utf-8", "surrogateescape") if isinstance(s, str) else s
    return b.hex() if b else "-"


def unhx(h: str) -> str:
    return "" if h == "-" else bytes.fromhex(h).decode("utf-8")


def unhxb(h: str) -> bytes:
    return b"" if h == "-" else bytes.fromhex(h)
