import SFV.Lemmas.CwlCmd
/-! # C30 — CWL tools receive exactly the arguments the reference runner passes (binding kernel)

Model: `SFV/Model/CwlCmd.lean` (StreamFlow's `bind` / `_merge_tokens` / `_get_executable_command` next to the CWL
standard's binding algorithm) and `SFV/Model/CwlCmdSh.lean` (`shlex.quote`, word splitting of `/bin/sh`).
Proved: on the modelled fragment both algorithms produce the same command-line elements in the same order with
the same quoting flags, hence the same command string; every quoted element reaches the tool verbatim
(`quote_roundtrip`). Environment values are rendered as `export K=<shlex.quote(v)>` since fix 1a0529c and reach the
tool verbatim for every value (`env_eq_spec`). Float formatting, JavaScript
`valueFrom`, records, file staging and the real shell are validated differentially by the check. -/
namespace SFV.C30
open SFV.CwlCmd

/-- the combination the two algorithms treat differently: a binding on the items *and* an `itemSeparator` -/
def ItemSepFree (p : Param) : Prop :=
  p.itemBind = none ∨ ∀ b, p.bind = some b → b.itemSeparator = none

/-- per parameter, StreamFlow's `bind` emits what the standard's `generate_arg` emits -/
theorem args_eq_spec_partial (p : Param) (h : ItemSepFree p) : sfArgs p = specArgs p := by
  unfold sfArgs specArgs
  cases hb : p.bind with
  | none => rfl
  | some b =>
    simp only
    cases hv : p.value with
    | null => simp [valueForCommand, applyPrefix]
    | bool v =>
      simp only [valueForCommand, applyPrefix]
      cases b.prefix_ <;> cases v <;> simp
    | str s => simp [valueForCommand, applyPrefix_one]
    | arr items =>
      simp only [valueForCommand, sfItems_isEmpty]
      by_cases he : items.isEmpty = true
      · simp [he, applyPrefix]
      · have he' : items.isEmpty = false := by simpa using he
        simp only [he', Bool.false_eq_true, if_false]
        cases hs : b.itemSeparator with
        | some sep =>
          have hib : p.itemBind = none := by
            rcases h with h | h
            · exact h
            · have := h b hb; rw [hs] at this; simp at this
          simp only [hib, sfItems, applyPrefix_one, Option.getD_some]
        | none =>
          simp only [applyPrefix, sfItems_eq]
          cases b.prefix_ <;> cases p.itemBind <;> simp

/-- the full per-parameter statement is false of the code: item binding together with `itemSeparator` -/
theorem args_eq_spec_false :
    sfArgs { name := some "a", index := 0, bind := some { itemSeparator := some "," },
             itemBind := some { prefix_ := some "-i" }, value := .arr ["x", "y"] } ≠
    specArgs { name := some "a", index := 0, bind := some { itemSeparator := some "," },
               itemBind := some { prefix_ := some "-i" }, value := .arr ["x", "y"] } := by
  decide

/-- entries of `arguments` are listed in document order (how the translator builds the processor list) -/
def ArgsInOrder (ps : List Param) : Prop :=
  ps.Pairwise (fun x y => x.name = none → y.name = none → x.index ≤ y.index)

/-- both sort keys order the bindings alike -/
theorem order_eq_spec (ps : List Param) (h : ArgsInOrder ps) : sortBy sfLe ps = sortBy specLe ps := by
  apply sortBy_congr
  refine h.imp ?_
  intro x y hxy
  unfold sfLe specLe
  simp only
  split
  · rfl
  · split
    · rfl
    · cases hx : x.name <;> cases hy : y.name <;> simp
      exact hxy hx hy

/-- **the command-line elements (text, order, quoting flag) are those of the standard** -/
theorem argv_eq_spec (shell : Bool) (ps : List Param) (ho : ArgsInOrder ps) (hi : ∀ p, p ∈ ps → ItemSepFree p) :
    sfElems shell ps = specElems shell ps := by
  unfold sfElems specElems elemsOf
  rw [order_eq_spec ps ho]
  apply flatMap_ext'
  intro p hp
  have hp' : p ∈ ps := (mem_sortBy specLe p ps).mp hp
  rw [args_eq_spec_partial p (hi p hp')]
  rfl

/-- hence the same command string reaches `/bin/sh` (whatever the shell then does with unquoted elements) -/
theorem command_string_eq_spec (shell : Bool) (ps : List Param) (ho : ArgsInOrder ps)
    (hi : ∀ p, p ∈ ps → ItemSepFree p) : renderElems (sfElems shell ps) = renderElems (specElems shell ps) := by
  rw [argv_eq_spec shell ps ho hi]

/-- `shlex.quote` round trip: a command line made of quoted words is split by the shell into exactly those
words — every string, including whitespace, quotes, `$`, backquotes, globs, the empty string -/
theorem quote_roundtrip (ws : List (List Char)) (h : ws ≠ []) :
    parseCmd .unq (joinSp (ws.map shlexQuote)) [] [] = some ws := by
  simpa using parse_words ws [] h

/-- without `ShellCommandRequirement` every element is quoted, so the tool receives the standard's argv -/
theorem argv_verbatim (ps : List Param) (ho : ArgsInOrder ps) (hi : ∀ p, p ∈ ps → ItemSepFree p)
    (hne : specElems false ps ≠ []) :
    parseCmd .unq (renderElems (sfElems false ps)) [] [] = some ((specElems false ps).map (fun e => e.text.toList)) := by
  rw [argv_eq_spec false ps ho hi]
  have hq : ∀ e, e ∈ specElems false ps → e.quoted = true := by
    intro e he
    simp only [specElems, elemsOf, List.mem_flatMap, List.mem_map] at he
    obtain ⟨p, _, s, _, rfl⟩ := he
    simp [specQuoted]
  unfold renderElems
  have : (specElems false ps).map (fun e => if e.quoted then shlexQuote e.text.toList else e.text.toList) =
      ((specElems false ps).map (fun e => e.text.toList)).map shlexQuote := by
    rw [List.map_map]
    apply List.map_congr_left
    intro e he
    simp [hq e he]
  rw [this]
  exact quote_roundtrip _ (by simpa using hne)

/-- `shellQuote: false` under `ShellCommandRequirement`: the element is placed in the command string as is -/
theorem shellquote_false_is_raw (e : Elem) (h : e.quoted = false) : renderElems [e] = e.text.toList := by
  simp [renderElems, joinSp, h]

/-- **Environment values reach the tool verbatim** (full strength since fix 1a0529c: `create_command` renders
`export K=<shlex.quote(v)>`): for every value — `$`, backquotes, quotes, backslashes, whitespace, empty — the shell
assigns exactly `v` -/
theorem env_eq_spec (v : List Char) : parseCmd .unq (envRender v) [] [] = some [v] := by
  show parseCmd .unq (shlexQuote v) [] [] = some [v]
  have := parse_quoted v [] [] []
  simp only [List.append_nil] at this
  rw [this]
  simp [parseCmd]

/-- regression guard, about the OLD rendering `export K="v"` (false before fix 1a0529c, DESIGN §6 #5): between double
quotes the value `$HOME \`id\`` is expanded / executed by the shell instead of being passed verbatim -/
theorem env_dq_render_false_before_fix :
    parseCmd .unq (dqRender "$HOME `id`".toList) [] [] ≠ some ["$HOME `id`".toList] := by
  decide

/-- the old rendering was verbatim only for values without `$`, backquote, backslash and double quote -/
theorem env_dq_render_partial_before_fix (v : List Char) (h : ∀ c, c ∈ v → dqActive c = false) :
    parseCmd .unq (dqRender v) [] [] = some [v] := by
  unfold dqRender
  have h1 : ¬ ('"' = ' ') := by decide
  have h2 : ¬ ('"' = '\'') := by decide
  simp only [parseCmd, h1, h2, ↓reduceIte]
  rw [parse_dq_plain v [] [] [] h]
  simp [parseCmd]

theorem wordOf_quote (f : List Char) : wordOf (shlexQuote f) = some f := by
  unfold wordOf
  have := quote_roundtrip [f] (by simp)
  simp only [List.map, joinSp] at this
  rw [this]

/-- **redirections**: when the tool declares `stderr` (to a file other than its `stdout` file) the suffix StreamFlow
appends makes the shell connect stdin / stdout / stderr exactly as the standard says, for every file name -/
theorem redirects_eq_spec_partial (i o : Option (List Char)) (ef : List Char) (h : o ≠ some ef) :
    interpSuffix (sfSuffix i o (some ef)) noStreams = some (specStreams i o (some ef)) := by
  unfold sfSuffix specStreams noStreams
  have hne : ¬ (some ef = o) := fun e => h e.symm
  cases i <;> cases o <;> simp [interpSuffix, wordOf_quote, hne]

/-- the full statement is **false of the code**: a tool with `stdout` and without `stderr` gets `2>&1` — its standard
error is merged into the captured standard output instead of going to the runner's stderr (known finding
`stdout:file-contains-stderr`) -/
theorem redirects_eq_spec_false :
    interpSuffix (sfSuffix none (some "out.txt".toList) none) noStreams ≠ some (specStreams none (some "out.txt".toList) none) := by
  decide

example : renderSuffix (sfSuffix (some "in put".toList) (some "out.txt".toList) (some "e'rr".toList)) =
    " < 'in put' > out.txt 2>'e'\"'\"'rr'".toList := by decide

/-- the extractor found the sort key and the `export K=<shlex.quote(v)>` template the model assumes -/
theorem templates_as_modelled :
    Gen.CwlCmdTpl.envQuote = .shlex ∧ Gen.CwlCmdTpl.sortKeyPositionThenName = true := by decide

/-! ### non-vacuity -/
example : ArgsInOrder [{ name := none, index := 0, bind := some {}, itemBind := none, value := .str "x" },
                       { name := some "b", index := 0, bind := some { position := -1 }, itemBind := none, value := .bool true },
                       { name := none, index := 1, bind := some { prefix_ := some "-A" }, itemBind := none, value := .str "two words" }] := by
  simp [ArgsInOrder]
example : (sfElems false [{ name := some "b", index := 0, bind := some { prefix_ := some "--b", separate := false }, itemBind := none, value := .str "it's" },
                          { name := none, index := 0, bind := some { position := 1 }, itemBind := none, value := .str "z" },
                          { name := some "a", index := 0, bind := some { prefix_ := some "-x" }, itemBind := some { prefix_ := some "-i" }, value := .arr ["p", "q r"] }]).map (·.text)
    = ["-x", "-i", "p", "-i", "q r", "--bit's", "z"] := by decide
example : parseCmd .unq (joinSp (["it's".toList, "".toList, "$HOME `id`".toList].map shlexQuote)) [] []
    = some ["it's".toList, "".toList, "$HOME `id`".toList] := quote_roundtrip _ (by simp)

end SFV.C30
