import SFV.Model.Comb
/-! # C02 — stub, replaced below -/
namespace SFV.C02
open SFV SFV.Comb

theorem dot_counterexample :
    (runDot 2 [(0, ⟨[0], 100⟩), (1, ⟨[0], 7⟩), (0, ⟨[0, 0], 5⟩)]).out.length ≠
    (runDot 2 [(0, ⟨[0, 0], 5⟩), (0, ⟨[0], 100⟩), (1, ⟨[0], 7⟩)]).out.length := by decide +kernel

end SFV.C02
