import SFV.Lemmas.DeployL
/-! `InvL` is preserved by the undeploy body and by the first segment of a connector use. -/
namespace SFV.Deploy

attribute [local grind] Obj.active Obj.live Obj.absent Fut.absent

theorem invL_uBody {cfg : Cfg} (hw : cfg.futWaits = true) {s : St} {p} (hE : InvE s) (hF : InvF s) (h : InvL s)
    (hp : ∀ f e, s.pc p ≠ .uFWait f e ∧ s.pc p ≠ .uFWoken f e) : InvL (uBody cfg s p) := by
  have h' := h
  obtain ⟨f0, f1, f2, g1, g2, g3, g4, g5⟩ := hF
  obtain ⟨h1, h2, h3, h3', ⟨h4, h4b⟩, h5, h6, h7, h8, h9, h10, h11, h12, h13, h14⟩ := hE
  obtain ⟨l0, l1, l2, l3, l5, l6, l4⟩ := h
  unfold uBody
  split
  · rename_i x dm e hdg hdm hev
    split
    · -- eager: no object belongs to a future
      rename_i o
      have hl := h1 o hdm
      unfold callUndeploy
      refine ⟨?_, ?_, ?_, ?_, ?_, ?_, ?_⟩
      · (try clear l4); (try clear h'); (try clear hE'); (try clear hF'); sgl
      · (try clear l4); (try clear h'); (try clear hE'); (try clear hF'); sgl
      · (try clear l4); (try clear h'); (try clear hE'); (try clear hF'); sgl
      · (try clear l4); (try clear h'); (try clear hE'); (try clear hF'); sgl
      · (try clear l4); (try clear h'); (try clear hE'); (try clear hF'); sgl
      · (try clear l4); (try clear h'); (try clear hE'); (try clear hF'); sgl
      · intro o' f' hf'
        simp at hf'
        have e1 := h3 o' hl
        have e2 := h3 o hl
        split at hf'
        · rw [e2] at hf'; cases hf'
        · rw [e1] at hf'; cases hf'
    · rename_i f
      split
      · rename_i o hconn
        have ho := h14 f o hconn
        unfold callUndeploy
        refine ⟨?_, ?_, ?_, ?_, ?_, ?_, ?_⟩
        · (try clear l4); (try clear h'); (try clear hE'); (try clear hF'); sgl
        · (try clear l4); (try clear h'); (try clear hE'); (try clear hF'); sgl
        · (try clear l4); (try clear h'); (try clear hE'); (try clear hF'); sgl
        · (try clear l4); (try clear h'); (try clear hE'); (try clear hF'); sgl
        · (try clear l4); (try clear h'); (try clear hE'); (try clear hF'); sgl
        · intro p1 q f1' o1 o1' hh1 hh2
          simp only [setPc_pc, setObj_pc] at hh1 hh2
          by_cases e1 : p1 = p <;> by_cases e2 : q = p <;> simp [e1, e2] at hh1 hh2
          exact l6 _ _ _ _ _ hh1 hh2
        · intro o' f' hf' ha
          simp at hf' ha
          by_cases hoo : o' = o
          · subst hoo; simp [Obj.active] at ha
          · simp [hoo] at hf' ha
            rcases l4 o' f' hf' ha with h | h
            · rw [hdm] at h; cases h
              exact absurd (f1 o' o f hf' ho.1) hoo
            · refine Or.inr (waitedFor_setPc (waitedFor_congr h (by intro q; rfl)) (hp f'))
      · rename_i hconn
        split
        · rename_i hcond
          refine ⟨?_, ?_, ?_, ?_, ?_, ?_, ?_⟩
          · (try clear l4); (try clear h'); (try clear hE'); (try clear hF'); sgl
          · (try clear l4); (try clear h'); (try clear hE'); (try clear hF'); sgl
          · (try clear l4); (try clear h'); (try clear hE'); (try clear hF'); sgl
          · (try clear l4); (try clear h'); (try clear hE'); (try clear hF'); sgl
          · (try clear l4); (try clear h'); (try clear hE'); (try clear hF'); sgl
          · (try clear l4); (try clear h'); (try clear hE'); (try clear hF'); sgl
          · intro o' f' hf' ha
            simp at hf' ha
            rcases l4 o' f' hf' ha with h | h
            · rw [hdm] at h; cases h
              exact Or.inr ⟨p, e, by simp⟩
            · refine Or.inr (waitedFor_setPc (waitedFor_congr h (by intro q; rfl)) (hp f'))
        · rename_i hcond
          simp only [hw, true_and, not_and, Bool.not_eq_false] at hcond
          refine invL_setPc (invL_setEvent ?_) (hp := setEvent_pc_ne hp)
          refine ⟨?_, ?_, ?_, ?_, ?_, ?_, ?_⟩
          · (try clear l4); (try clear h'); (try clear hE'); (try clear hF'); sgl
          · (try clear l4); (try clear h'); (try clear hE'); (try clear hF'); sgl
          · (try clear l4); (try clear h'); (try clear hE'); (try clear hF'); sgl
          · (try clear l4); (try clear h'); (try clear hE'); (try clear hF'); sgl
          · (try clear l4); (try clear h'); (try clear hE'); (try clear hF'); sgl
          · (try clear l4); (try clear h'); (try clear hE'); (try clear hF'); sgl
          · intro o' f' hf' ha
            simp at hf' ha
            rcases l4 o' f' hf' ha with h | h
            · rw [hdm] at h; cases h
              have hdep := f0 o' f hf'
              have hev := hcond hdep
              have := l0 f o' hev hconn hf'
              simp [Obj.active, this] at ha
            · exact Or.inr (waitedFor_congr h (by intro q; rfl))
  · refine invL_setPc (?_ : InvL _) (hp := hp)
    exact h'
  · exact invL_setPc h' (hp := hp)

theorem invL_useStart {s : St} {p} (hE : InvE s) (hF : InvF s) (h : InvL s)
    (hp : ∀ f e, s.pc p ≠ .uFWait f e ∧ s.pc p ≠ .uFWoken f e) : InvL (useStart s p) := by
  have h' := h
  obtain ⟨f0, f1, f2, g1, g2, g3, g4, g5⟩ := hF
  obtain ⟨h1, h2, h3, h3', ⟨h4, h4b⟩, h5, h6, h7, h8, h9, h10, h11, h12, h13, h14⟩ := hE
  obtain ⟨l0, l1, l2, l3, l5, l6, l4⟩ := h
  unfold useStart
  split
  · exact invL_setPc h' (hp := hp)
  · exact invL_setPc h' (hp := hp)
  · rename_i f hdm
    simp only []
    split
    · exact invL_setPc h' (hp := hp)
    · rename_i hconn
      split
      · rename_i hdep
        have hfr := h7 s.nObj (Nat.le_refl _)
        refine ⟨?_, ?_, ?_, ?_, ?_, ?_, ?_⟩
        · (try clear l4); (try clear h'); (try clear hE'); (try clear hF'); sgl
        · (try clear l4); (try clear h'); (try clear hE'); (try clear hF'); sgl
        · (try clear l4); (try clear h'); (try clear hE'); (try clear hF'); sgl
        · (try clear l4); (try clear h'); (try clear hE'); (try clear hF'); sgl
        · (try clear l4); (try clear h'); (try clear hE'); (try clear hF'); sgl
        · (try clear l4); (try clear h'); (try clear hE'); (try clear hF'); sgl
        · intro o' f' hf' ha
          simp at hf' ha
          by_cases hoo : o' = s.nObj
          · subst hoo; simp at hf'; subst hf'; exact Or.inl hdm
          · simp [hoo] at hf' ha
            rcases l4 o' f' hf' ha with h | h
            · exact Or.inl h
            · exact Or.inr (waitedFor_setPc (waitedFor_congr h (by intro q; rfl)) (hp f'))
      · split <;> exact invL_setPc h' (hp := hp)

theorem waitedFor_wakeFut {s : St} {f f'} (h : WaitedFor s f') : WaitedFor (wakeFut s f) f' := by
  obtain ⟨q, e, hq⟩ := h
  rcases hq with hq | hq
  · by_cases hf : f' = f
    · subst hf; exact ⟨q, e, Or.inr (by simp [hq])⟩
    · exact ⟨q, e, Or.inl (by simp [hq, hf])⟩
  · exact ⟨q, e, Or.inr (by simp [hq])⟩

theorem wakeFut_pc_ne {s : St} {p f} (hp : ∀ f e, s.pc p ≠ .uFWait f e ∧ s.pc p ≠ .uFWoken f e) :
    ∀ f' e', (wakeFut s f).pc p ≠ .uFWait f' e' ∧ (wakeFut s f).pc p ≠ .uFWoken f' e' := by
  intro f' e'
  have := hp f' e'
  simp only [wakeFut_pc]
  split <;> (try split) <;> simp_all


end SFV.Deploy
