import SFV.Model.Deploy
import SFV.Model.DeployChain
import SFV.Gen.DeployGuards
import SFV.Model.Proto
open SFV SFV.Proto

/-! line protocol:
  A reset <lazy 0|1> <kinds: string over d/u/x, request p = position+1>      -> ok
  A start|wake|ok|fail <p>                                                   -> ok <pc of p> | disabled
  A obj <o>                                                                  -> dep/und of object o
  B reset <deps: name entries "w<idx|->:<lazy 0|1>:<isWrap 0|1>" ...>        -> ok
  B spawn d <n> | u <n> | all                                                -> ok <task id>
  B run <t> | B ret <t> <ok|fail>                                            -> ops of this segment joined by ';' | disabled
  cfg                                                                        -> the generated configuration -/

namespace A
open SFV.Deploy
def pcS : Pc → String
  | .idle _ => "idle" | .dWait _ => "dWait" | .dWoken => "dWoken" | .dConn _ => "dConn" | .uWait _ => "uWait"
  | .uWoken => "uWoken" | .uConn _ _ => "uConn" | .uFWait _ _ => "uFWait" | .uFWoken _ _ => "uFWoken"
  | .fConn _ _ => "fConn" | .fWait _ => "fWait" | .fWoken _ => "fWoken" | .done => "done" | .failed => "failed"
  | .noConn => "noConn" | .none => "none"
def dS : DPhase → String | .deploying => "deploying" | .ok => "ok" | .failed => "failed"
def uS : UPhase → String | .none => "none" | .undeploying => "undeploying" | .done => "done"
def kindOf : Char → Option Kind
  | 'd' => some .deploy | 'u' => some .undeploy | 'x' => some .use | _ => none
end A

namespace B
open SFV.Chain
def opS : Op → String
  | .cfgSet n => s!"config_map.set {n}" | .evNew n => s!"events_map.set {n}" | .dgNew n => s!"dependency_graph.set {n}"
  | .depSet n => s!"deployments_map.set {n}" | .depDel n => s!"deployments_map.del {n}" | .depPop n => s!"deployments_map.pop {n}"
  | .cfgDel n => s!"config_map.del {n}" | .dgDel n => s!"dependency_graph.del {n}" | .depKeys => "deployments_map.keys *"
  | .evSet n => s!"ev-set {n}" | .evClear n => s!"ev-clear {n}" | .evPass n => s!"ev-pass {n}" | .evBlock n => s!"ev-block {n}"
  | .depsAdd o x => s!"deps.add {o}<{x}" | .depsDiscard o x => s!"deps.discard {o}<{x}"
  | .connDeployEnter n => s!"conn-deploy-enter {n}" | .connDeployExit n => s!"conn-deploy-exit {n}"
  | .connDeployFail n => s!"conn-deploy-fail {n}" | .connUndeployEnter n => s!"conn-undeploy-enter {n}"
  | .connUndeployExit n => s!"conn-undeploy-exit {n}" | .reqEnd ok => if ok then "req-end ok" else "req-end exc"
def parseDep (w : String) : Option Dep :=
  match w.splitOn ":" with
  | [a, l, k] =>
      let wr := if a = "w-" then some none else (a.drop 1).toNat?.map some
      match wr with
      | some wr => some ⟨wr, l = "1", k = "1"⟩
      | none => none
  | _ => none
end B

structure DS where
  a : SFV.Deploy.St
  b : SFV.Chain.St
  deps : List SFV.Chain.Dep

def actA (s : DS) (a : SFV.Deploy.Act) (p : Nat) : DS × String :=
  match SFV.Deploy.step Gen.deployCfg s.a a with
  | some t => ({ s with a := t }, "ok " ++ A.pcS (t.pc p))
  | none => (s, "disabled")

def actB (s : DS) (a : SFV.Chain.Act) : DS × String :=
  match SFV.Chain.step Gen.chainCfg s.deps s.b a with
  | some t => ({ s with b := t }, "ok " ++ ";".intercalate ((t.ops.drop s.b.ops.length).map B.opS))
  | none => (s, "disabled")

def handle (s : DS) : List String → DS × String
  | ["cfg"] => (s, s!"ownEvent={Gen.deployCfg.ownEvent} futWaits={Gen.deployCfg.futWaits} cleanupInside={Gen.chainCfg.cleanupInside} innerFailSetsEvent={Gen.chainCfg.innerFailSetsEvent}")
  | ["A", "reset", l, ks] =>
      let kinds := ks.toList.map A.kindOf
      ({ s with a := SFV.Deploy.init (l = "1") (fun p => if p = 0 then none else (kinds.getD (p - 1) none)) }, "ok")
  | ["A", "obj", o] =>
      match o.toNat? with
      | some o => (s, A.dS (s.a.objs o).dep ++ " " ++ A.uS (s.a.objs o).und)
      | none => (s, "bad-op")
  | ["A", op, p] =>
      match p.toNat? with
      | none => (s, "bad-op")
      | some p =>
        match op with
        | "start" => actA s (.start p) p
        | "wake" => actA s (.wake p) p
        | "ok" => actA s (.connOk p) p
        | "fail" => actA s (.connFail p) p
        | _ => (s, "bad-op")
  | "B" :: "reset" :: ds =>
      match ds.mapM B.parseDep with
      | some deps => ({ s with b := {}, deps := deps }, "ok")
      | none => (s, "bad-op")
  | ["B", "spawn", "all"] => ({ s with b := SFV.Chain.spawn s.b .undeployAll }, s!"ok {s.b.tasks.length}")
  | ["B", "spawn", k, n] =>
      match n.toNat?, k with
      | some n, "d" => ({ s with b := SFV.Chain.spawn s.b (.deploy n) }, s!"ok {s.b.tasks.length}")
      | some n, "u" => ({ s with b := SFV.Chain.spawn s.b (.undeploy n) }, s!"ok {s.b.tasks.length}")
      | _, _ => (s, "bad-op")
  | ["B", "run", t] =>
      match t.toNat? with
      | some t => actB s (.run t)
      | none => (s, "bad-op")
  | ["B", "ret", t, r] =>
      match t.toNat? with
      | some t => actB s (.callRet t (r = "ok"))
      | none => (s, "bad-op")
  | ["B", "ntasks"] => (s, toString s.b.tasks.length)
  | _ => (s, "bad-op")

def main : IO Unit := runStateful (⟨SFV.Deploy.init false (fun _ => none), {}, []⟩ : DS) handle
