"""Extractor: the cache discipline of streamflow/persistence/sqlite.py -> SFV/Gen/DbCache.lean

For every method of `SqliteDatabase` it reads, with `ast`:
* `@cached(cache=lambda self: self.X_cache, postprocess=P)` getters: the cache `X`, how the returned row is copied
  (`postprocess_deepcopy_mutables` = deep, default / `postprocess_copy_mutables` = shallow, `None` = the cached object
  itself), the tables of its SQL (`FROM t`, the first one is the primary table), whether the row is selected by
  `id = :id` with the method's own argument;
* `update_*` methods: the table of `UPDATE t SET`, every `self.X_cache.pop(<id argument>, None)`;
* `add_*` methods: the tables of `INSERT INTO t`, whether the fresh `lastrowid` is returned;
* every other SQL statement that writes (`UPDATE`/`DELETE`/`REPLACE`/`INSERT` outside `add_*`/`update_*`).
"""
from __future__ import annotations

import ast
import os
import re

from sfv.translate.expr import TranslateError

TARGET = "SFV/Gen/DbCache.lean"
COPY = {"postprocess_deepcopy_mutables": "deep", "postprocess_deepcopy": "deep", "postprocess_copy_mutables": "shallow",
        "postprocess_copy": "shallow"}


def _sql_strings(fn: ast.AST) -> list[str]:
    """SQL text of every `db.execute*(...)` first argument (string constants, concatenations, `.format` receivers)"""
    out = []
    for node in ast.walk(fn):
        if isinstance(node, ast.Call) and isinstance(node.func, ast.Attribute) and node.func.attr in (
                "execute", "executemany", "executescript") and node.args:
            arg = node.args[0]
            if isinstance(arg, ast.Call) and isinstance(arg.func, ast.Attribute) and arg.func.attr == "format":
                arg = arg.func.value
            try:
                if isinstance(arg, ast.JoinedStr):
                    text = "".join(v.value if isinstance(v, ast.Constant) else "{}" for v in arg.values)
                else:
                    text = ast.literal_eval(arg)
            except Exception as e:  # noqa: BLE001
                raise TranslateError(f"SQL of {getattr(fn, 'name', '?')} is not a literal: {ast.unparse(arg)[:80]}") from e
            if not isinstance(text, str):
                raise TranslateError(f"SQL of {getattr(fn, 'name', '?')} is not a string")
            out.append(" ".join(text.split()))
    return out


def _kind(sql: str) -> str:
    return sql.split(" ", 1)[0].upper()


def extract(repo: str) -> dict:
    path = os.path.join(repo, "streamflow/persistence/sqlite.py")
    tree = ast.parse(open(path).read(), filename=path)
    cls = next((n for n in tree.body if isinstance(n, ast.ClassDef) and n.name == "SqliteDatabase"), None)
    if cls is None:
        raise TranslateError("class SqliteDatabase not found")
    getters, updates, inserts, other = [], [], [], []
    for fn in cls.body:
        if not isinstance(fn, (ast.AsyncFunctionDef, ast.FunctionDef)):
            continue
        sqls = _sql_strings(fn)
        args = [a.arg for a in fn.args.args if a.arg != "self"]
        cached = None
        for dec in fn.decorator_list:
            if isinstance(dec, ast.Call) and ast.unparse(dec.func).split(".")[-1] == "cached":
                cached = dec
        if cached is not None:
            kw = {k.arg: k.value for k in cached.keywords}
            c = kw.get("cache") or (cached.args[0] if cached.args else None)
            m = re.fullmatch(r"lambda self: self\.(\w+)_cache", ast.unparse(c)) if c is not None else None
            if not m:
                raise TranslateError(f"{fn.name}: cache= is not `lambda self: self.X_cache`")
            if "postprocess" in kw:
                pp = ast.unparse(kw["postprocess"]).split(".")[-1]
                copy = "none" if pp == "None" else COPY.get(pp)
                if copy is None:
                    raise TranslateError(f"{fn.name}: unknown postprocess {pp}")
            else:
                copy = "shallow"          # cachebox default: postprocess_copy_mutables
            if "key_maker" in kw:
                raise TranslateError(f"{fn.name}: custom key_maker not supported")
            reads = []
            for s in sqls:
                if _kind(s) != "SELECT":
                    raise TranslateError(f"{fn.name}: cached getter executes a non-SELECT statement")
                reads += re.findall(r"\bFROM (\w+)", s) + re.findall(r"\bJOIN (\w+)", s)
            if not reads:
                raise TranslateError(f"{fn.name}: no table found in the SQL of a cached getter")
            prim = [m.group(1) for s in sqls for m in re.finditer(r"\bFROM (\w+) WHERE id ?= ?:id\b", s)]
            if prim:
                reads = [prim[0]] + [t for t in reads if t != prim[0]]
            key_is_id = (len(args) == 1 and bool(prim) and any(
                isinstance(n, ast.Dict) and [ast.unparse(k) for k in n.keys] == ["'id'"] and ast.unparse(n.values[0]) == args[0]
                for n in ast.walk(fn)))
            getters.append({"name": fn.name, "cache": m.group(1), "table": reads[0], "reads": list(dict.fromkeys(reads)),
                            "copy": copy, "key_is_id": key_is_id})
            continue
        writes = [s for s in sqls if _kind(s) in ("UPDATE", "INSERT", "DELETE", "REPLACE")]
        if fn.name.startswith("update_"):
            tabs = [re.match(r"UPDATE (\w+) SET", s) for s in writes]
            if len(writes) != 1 or not tabs[0]:
                raise TranslateError(f"{fn.name}: expected exactly one `UPDATE t SET` statement")
            id_ok = any(re.search(r"WHERE id ?= ?:id\b", s) for s in writes) and len(args) >= 1 and f"'id': {args[0]}" in ast.unparse(fn)
            pops, pop_ok = [], True
            for node in ast.walk(fn):
                if isinstance(node, ast.Call) and isinstance(node.func, ast.Attribute) and node.func.attr in ("pop", "clear"):
                    m = re.fullmatch(r"self\.(\w+)_cache", ast.unparse(node.func.value))
                    if m:
                        pops.append(m.group(1))
                        if node.func.attr == "pop" and not (node.args and ast.unparse(node.args[0]) == args[0]):
                            pop_ok = False
                if isinstance(node, ast.Delete):
                    for t in node.targets:
                        m = re.fullmatch(rf"self\.(\w+)_cache\[{args[0]}\]", ast.unparse(t))
                        if m:
                            pops.append(m.group(1))
            updates.append({"name": fn.name, "table": tabs[0].group(1), "pops": pops, "pop_key_is_id": bool(pop_ok and id_ok)})
        elif fn.name.startswith("add_"):
            tabs = []
            for s in writes:
                m = re.match(r"INSERT (OR IGNORE )?INTO (\w+)", s)
                if not m:
                    raise TranslateError(f"{fn.name}: write statement is not INSERT INTO: {s[:60]}")
                tabs.append(m.group(2))
            if not tabs:
                raise TranslateError(f"{fn.name}: no INSERT found")
            src = ast.unparse(fn)
            inserts.append({"name": fn.name, "primary": tabs[0], "tables": list(dict.fromkeys(tabs)),
                            "fresh": "lastrowid" in src or tabs[0] in ("dependency", "provenance")})
        else:
            for s in writes:
                m = re.match(r"(?:UPDATE|DELETE FROM|REPLACE INTO|INSERT (?:OR \w+ )?INTO) (\w+)", s)
                other.append({"name": fn.name, "table": m.group(1) if m else "?"})
    if not getters or not updates:
        raise TranslateError("no cached getter / update method found")
    tables = sorted({g["table"] for g in getters} | {t for g in getters for t in g["reads"]} | {u["table"] for u in updates}
                    | {t for i in inserts for t in i["tables"]} | {o["table"] for o in other})
    caches = sorted({g["cache"] for g in getters} | {p for u in updates for p in u["pops"]})
    return {"tables": tables, "caches": caches, "getters": getters, "updates": updates, "inserts": inserts, "other": other}


def generate(repo: str) -> tuple[str, str]:
    d = extract(repo)
    T = {t: i for i, t in enumerate(d["tables"])}
    C = {c: i for i, c in enumerate(d["caches"])}

    def b(x):
        return "true" if x else "false"

    def ls(xs):
        return "[" + ", ".join(str(x) for x in xs) + "]"

    g = ",\n   ".join(
        f'{{ name := "{x["name"]}", cache := {C[x["cache"]]}, table := {T[x["table"]]}, reads := {ls(T[t] for t in x["reads"])}, '
        f'copy := .{x["copy"]}, keyIsId := {b(x["key_is_id"])} }}' for x in d["getters"])
    u = ",\n   ".join(
        f'{{ name := "{x["name"]}", table := {T[x["table"]]}, pops := {ls(C[p] for p in x["pops"])}, popKeyIsId := {b(x["pop_key_is_id"])} }}'
        for x in d["updates"])
    ins = ",\n   ".join(
        f'{{ name := "{x["name"]}", primary := {T[x["primary"]]}, tables := {ls(T[t] for t in x["tables"])}, fresh := {b(x["fresh"])} }}'
        for x in d["inserts"])
    oth = ", ".join(f'("{x["name"]}", {T.get(x["table"], 999)})' for x in d["other"])
    text = f"""import SFV.Model.DbCacheSpec
/-! GENERATED by harness/sfv/translate/dbcache.py from streamflow/persistence/sqlite.py — do not edit.
    tables: {", ".join(f"{i}={t}" for t, i in T.items())}
    caches: {", ".join(f"{i}={c}" for c, i in C.items())} -/
namespace SFV.Gen
open SFV.DbCache

def dbTables : List String := {ls(f'"{t}"' for t in d["tables"])}
def dbCaches : List String := {ls(f'"{c}"' for c in d["caches"])}

def dbSpec : Spec where
  getters :=
  [{g}]
  updates :=
  [{u}]
  inserts :=
  [{ins}]
  otherWrites := [{oth}]

end SFV.Gen
"""
    return TARGET, text
