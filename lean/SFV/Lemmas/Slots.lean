import SFV.Model.Slots
import SFV.Lemmas.Ledger
/-! Invariant of the slot bookkeeping under the engine protocol (C10, slot-only locations). -/
namespace SFV.Slots
open SFV.Gen.Sched SFV.Ledger

/-- fireable / running jobs always pass the `_get_running_jobs` filter -/
theorem occupying_counts (st : Status) (a b : Nat) (c : Int) (h : occupying st = true) : countsAsRunning st a b c = true := by
  cases st <;> simp [occupying] at h <;> simp [countsAsRunning]

/-- a notification that respects the protocol never turns a non-occupying job into an occupying one -/
theorem proto_no_reoccupy (prev new : Status) (hp : protoOk prev new) (h : occupying (newStatus prev new) = true) :
    occupying prev = true := by
  revert hp h; cases prev <;> cases new <;> decide

theorem nodup_subset_length : ∀ (l₁ l₂ : List Nat), l₁.Nodup → (∀ x ∈ l₁, x ∈ l₂) → l₁.length ≤ l₂.length := by
  intro l₁
  induction l₁ with
  | nil => intro l₂ _ _; simp
  | cons a l ih =>
    intro l₂ hnd hsub
    have hnd' := List.nodup_cons.mp hnd
    have ha : a ∈ l₂ := hsub a (List.mem_cons_self ..)
    have := ih (l₂.erase a) hnd'.2 (fun x hx => by
      have hx2 := hsub x (List.mem_cons_of_mem _ hx)
      have hne : x ≠ a := fun e => hnd'.1 (e ▸ hx)
      exact (List.mem_erase_of_ne hne).mpr hx2)
    rw [List.length_erase_of_mem ha] at this
    have hpos : 0 < l₂.length := List.length_pos_of_mem ha
    simp only [List.length_cons]; omega

theorem filter_length_mono (l : List Nat) (p q : Nat → Bool) (h : ∀ k ∈ l, p k = true → q k = true) :
    (l.filter p).length ≤ (l.filter q).length := by
  induction l with
  | nil => simp
  | cons a l ih =>
    have ih' := ih (fun k hk => h k (List.mem_cons_of_mem _ hk))
    simp only [List.filter_cons]
    by_cases hp : p a = true
    · simp [hp, h a (List.mem_cons_self ..) hp]; exact ih'
    · by_cases hq : q a = true <;> simp [hp, hq] <;> omega

theorem filter_length_update (l : List Nat) (p q : Nat → Bool) (j : Nat) (hnd : l.Nodup) (hj : j ∈ l)
    (hne : ∀ k, k ≠ j → q k = p k) (hpj : p j = false) :
    (l.filter q).length = (l.filter p).length + (if q j = true then 1 else 0) := by
  induction l with
  | nil => simp at hj
  | cons a l ih =>
    have hnd' := List.nodup_cons.mp hnd
    simp only [List.filter_cons]
    by_cases ha : a = j
    · subst ha
      have : l.filter q = l.filter p := List.filter_congr (fun k hk => hne k (fun e => hnd'.1 (e ▸ hk)))
      rw [this, hpj]
      by_cases hq : q a = true <;> simp [hq]
    · have hj' : j ∈ l := by
        rcases List.mem_cons.mp hj with e | e
        · exact absurd e.symm ha
        · exact e
      rw [hne a ha]
      have := ih hnd'.2 hj'
      by_cases hp : p a = true <;> simp [hp, this] <;> omega

structure Inv (c : Cfg) (s : St) : Prop where
  nodup : s.ids.Nodup
  listedOk : ∀ j ∈ s.ids, occupying (s.status j) = true → ∀ ℓ ∈ s.placed j, j ∈ s.listed ℓ
  bound : ∀ ℓ, occCount s ℓ ≤ c.slots ℓ

theorem inv_init (c : Cfg) : Inv c init := ⟨by simp [init], by simp [init], by simp [init, occCount]⟩

/-- the counted jobs are all in the filtered job list -/
theorem occCount_le_running (c : Cfg) (s : St) (hI : Inv c s) (j : Job) (ℓ : Loc) : occCount s ℓ ≤ runningCount c s j ℓ := by
  unfold occCount runningCount
  apply nodup_subset_length
  · exact hI.nodup.sublist List.filter_sublist
  · intro x hx
    simp only [List.mem_filter, Bool.and_eq_true, List.contains_iff_mem] at hx
    obtain ⟨hxi, hocc, hpl⟩ := hx
    simp only [List.mem_filter]
    exact ⟨hI.listedOk x hxi hocc ℓ hpl, occupying_counts _ _ _ _ hocc⟩

theorem inv_step (c : Cfg) (s : St) (op : Op) (hI : Inv c s) (hok : OpOk s op) : Inv c (step c s op) := by
  cases op with
  | allocate j locs tops =>
    obtain ⟨hnocc, hnd⟩ := hok
    simp only [step]
    split
    · rename_i hg
      simp only [List.all_eq_true, slotFree, decide_eq_true_eq] at hg
      have hnotocc : j ∈ s.ids → occupying (s.status j) = false := by
        intro hj
        cases h : occupying (s.status j) with
        | false => rfl
        | true => exact absurd ⟨hj, h⟩ hnocc
      -- the predicate counted before / after
      let p : Loc → Nat → Bool := fun ℓ k => occupying (s.status k) && (s.placed k).contains ℓ
      let q : Loc → Nat → Bool := fun ℓ k => occupying (update s.status j allocStatus k) && (update s.placed j locs k).contains ℓ
      have hqk : ∀ ℓ k, k ≠ j → q ℓ k = p ℓ k := by intro ℓ k hk; simp [p, q, update, hk]
      have hqj : ∀ ℓ, q ℓ j = locs.contains ℓ := by intro ℓ; simp [q, update, allocStatus_occupying]
      have hcount : ∀ ℓ, ((if j ∈ s.ids then s.ids else j :: s.ids).filter (q ℓ)).length =
          occCount s ℓ + (if locs.contains ℓ = true then 1 else 0) := by
        intro ℓ
        by_cases hj : j ∈ s.ids
        · rw [if_pos hj, filter_length_update s.ids (p ℓ) (q ℓ) j hI.nodup hj (hqk ℓ) (by simp [p, hnotocc hj]), hqj]
          rfl
        · rw [if_neg hj]
          have : s.ids.filter (q ℓ) = s.ids.filter (p ℓ) :=
            List.filter_congr (fun k hk => hqk ℓ k (fun e => hj (e ▸ hk)))
          simp only [List.filter_cons, hqj, this]
          by_cases hc : ℓ ∈ locs <;> simp [hc, occCount, p]
      refine ⟨?_, ?_, ?_⟩
      · by_cases hj : j ∈ s.ids
        · simp only [hj, if_true]; exact hI.nodup
        · simp only [hj, if_false]; exact List.nodup_cons.mpr ⟨hj, hI.nodup⟩
      · intro k hk hocc ℓ hℓ
        by_cases e : k = j
        · subst e
          simp only [update, if_true] at hℓ
          simp only [hℓ, if_true]; simp
        · simp only [update, e, if_false] at hocc hℓ
          have hk' : k ∈ s.ids := by
            by_cases hj : j ∈ s.ids
            · simpa [hj] using hk
            · simp only [hj, if_false, List.mem_cons] at hk
              rcases hk with h | h
              · exact absurd h e
              · exact h
          have := hI.listedOk k hk' hocc ℓ hℓ
          by_cases hl : ℓ ∈ locs <;> simp [hl, this]
      · intro ℓ
        show ((if j ∈ s.ids then s.ids else j :: s.ids).filter (q ℓ)).length ≤ c.slots ℓ
        rw [hcount ℓ]
        by_cases hc : locs.contains ℓ = true
        · have hl : ℓ ∈ locs := by simpa using hc
          have h1 := hg ℓ hl
          have h2 := occCount_le_running c s hI j ℓ
          simp only [hc, if_true]; omega
        · simp only [hc]; exact hI.bound ℓ
    · exact hI
  | notify j new =>
    have hp : protoOk (s.status j) new := hok
    simp only [step]
    by_cases hj : j ∈ s.ids
    case neg => simp only [hj, if_false]; exact hI
    simp only [hj, if_true]
    let st' : Job → Status := if statusStored (s.status j) new = true then update s.status j new else s.status
    have hst'j : st' j = newStatus (s.status j) new := by
      simp only [st', newStatus]
      by_cases hs : statusStored (s.status j) new = true <;> simp [hs, update]
    have hst'k : ∀ k, k ≠ j → st' k = s.status k := by
      intro k hk; simp only [st']
      by_cases hs : statusStored (s.status j) new = true <;> simp [hs, update, hk]
    have hocc' : ∀ k, occupying (st' k) = true → occupying (s.status k) = true := by
      intro k h
      by_cases e : k = j
      · subst e; rw [hst'j] at h; exact proto_no_reoccupy _ _ hp h
      · rw [hst'k k e] at h; exact h
    by_cases hun : unlists new = true
    · have hno : occupying (st' j) = false := by rw [hst'j]; exact unlist_not_occupying _ _ hp hun
      simp only [hun, if_true]
      refine ⟨hI.nodup, ?_, ?_⟩
      · intro k hk hocc ℓ hℓ
        have e : k ≠ j := by intro e; subst e; rw [hno] at hocc; cases hocc
        simp only [update, e, if_false] at hℓ
        have hm := hI.listedOk k hk (hocc' k hocc) ℓ hℓ
        show k ∈ (if ℓ ∈ s.tops j then (s.listed ℓ).erase j else s.listed ℓ)
        by_cases ht : ℓ ∈ s.tops j
        · simp only [ht, if_true]; exact (List.mem_erase_of_ne e).mpr hm
        · simp only [ht, if_false]; exact hm
      · intro ℓ
        refine Nat.le_trans ?_ (hI.bound ℓ)
        apply filter_length_mono
        intro k _ h
        simp only [Bool.and_eq_true] at h ⊢
        obtain ⟨h1, h2⟩ := h
        have e : k ≠ j := by intro e; subst e; rw [hno] at h1; cases h1
        simp only [update, e, if_false] at h2
        exact ⟨hocc' k h1, h2⟩
    · simp only [hun]
      refine ⟨hI.nodup, ?_, ?_⟩
      · intro k hk hocc ℓ hℓ
        exact hI.listedOk k hk (hocc' k hocc) ℓ hℓ
      · intro ℓ
        refine Nat.le_trans ?_ (hI.bound ℓ)
        apply filter_length_mono
        intro k _ h
        simp only [Bool.and_eq_true] at h ⊢
        exact ⟨hocc' k h.1, h.2⟩

theorem inv_run (c : Cfg) (ops : List Op) (s : St) (hI : Inv c s) (hok : HistoryOk c s ops) : Inv c (run c s ops) := by
  induction ops generalizing s with
  | nil => exact hI
  | cons op ops ih => exact ih _ (inv_step c s op hI hok.1) hok.2

end SFV.Slots
