import SFV.Lemmas.JsDeps
/-! C31: the top level of a handled fragment (statements that change the listener's names). -/
namespace SFV.JsDeps
open Frag

theorem add_inner_nil {n : Names} (h : n.inner = []) (x : String) :
    (n.add x).inner = [] ∧ (∀ y, y ≠ x → (n.add x).glob.contains y = n.glob.contains y) ∧
    (n.add x).glob.contains x = true := by
  unfold Names.add
  rw [h]
  simp only
  by_cases hc : n.glob.contains x = true
  · rw [if_pos hc]; exact ⟨trivial, fun y _ => rfl, hc⟩
  · rw [if_neg hc]
    refine ⟨trivial, ?_, by simp⟩
    intro y hy
    simp [List.contains_cons, hy]

theorem del_inner_nil {n n' : Names} (h : n.inner = []) (x : String) (hd : n.del x = .ok n') :
    n'.inner = [] ∧ (∀ y, y ≠ x → n'.glob.contains y = n.glob.contains y) := by
  unfold Names.del at hd
  rw [h] at hd
  simp only [Except.ok.injEq] at hd
  subst hd
  refine ⟨rfl, ?_⟩
  intro y hy
  simp only
  have : (y ∈ n.glob.erase x) ↔ y ∈ n.glob := List.mem_erase_of_ne hy
  by_cases hm : y ∈ n.glob
  · simp [hm, this.mpr hm]
  · have h2 : y ∉ n.glob.erase x := fun hc => hm (this.mp hc)
    simp [hm, h2]

/-- the names after an assignment statement `x = e` at the top level -/
theorem onAssign_top {n n0 : Names} {x : String} {e : Js} (hin : n.inner = []) (h0 : onAssign n x e = .ok n0) :
    n0.inner = [] ∧
    (∀ z, z ≠ x → n0.glob.contains z = n.glob.contains z) ∧
    (∀ y, nameOf e = some y → n.has y = true → n0.glob.contains x = true) ∧
    ((∀ y, nameOf e = some y → n.has y = true ∨ n.has x = false) →
      n.glob.contains x = true → n0.glob.contains x = true) ∧
    (nameOf e = none → n0 = n) := by
  unfold onAssign at h0
  by_cases hx : n.has x = true
  · have hxg : n.glob.contains x = true := by rw [← has_of_inner_nil hin]; exact hx
    simp only [hx, if_true] at h0
    cases hn : nameOf e with
    | none =>
      rw [hn] at h0; simp only [Except.ok.injEq] at h0; subst h0
      exact ⟨hin, fun _ _ => rfl, fun y h => by simp at h, fun _ h => h, fun _ => rfl⟩
    | some y =>
      rw [hn] at h0; simp only at h0
      by_cases hy : n.has y = true
      · simp only [hy, if_true, Except.ok.injEq] at h0; subst h0
        exact ⟨hin, fun _ _ => rfl, fun _ _ _ => hxg, fun _ h => h, fun h => by simp at h⟩
      · have hy' : n.has y = false := by simpa using hy
        simp only [hy', Bool.false_eq_true, if_false] at h0
        obtain ⟨h1, h2⟩ := del_inner_nil hin x h0
        refine ⟨h1, h2, ?_, ?_, fun h => by simp at h⟩
        · intro y' hy1 hy2
          simp only [Option.some.injEq] at hy1; subst hy1
          rw [hy'] at hy2; simp at hy2
        · intro hall
          rcases hall y rfl with h | h
          · rw [hy'] at h; simp at h
          · rw [hx] at h; simp at h
  · have hx' : n.has x = false := by simpa using hx
    simp only [hx', Bool.false_eq_true, if_false] at h0
    cases hn : nameOf e with
    | none =>
      rw [hn] at h0; simp only [Except.ok.injEq] at h0; subst h0
      exact ⟨hin, fun _ _ => rfl, fun y h => by simp at h, fun _ h => h, fun _ => rfl⟩
    | some y =>
      rw [hn] at h0; simp only at h0
      by_cases hy : n.has y = true
      · simp only [hy, if_true, Except.ok.injEq] at h0; subst h0
        obtain ⟨h1, h2, h3⟩ := add_inner_nil hin x
        exact ⟨h1, h2, fun _ _ _ => h3, fun _ _ => h3, fun h => by simp at h⟩
      · have hy' : n.has y = false := by simpa using hy
        simp only [hy', Bool.false_eq_true, if_false, Except.ok.injEq] at h0; subst h0
        refine ⟨hin, fun _ _ => rfl, ?_, fun _ h => h, fun h => by simp at h⟩
        intro y' hy1 hy2
        simp only [Option.some.injEq] at hy1; subst hy1
        rw [hy'] at hy2; simp at hy2

theorem topOk_assign_pure {cnd : Bool} {n : Names} {x : String} {e : Js} (hn : nameOf e = none)
    (h : topOk cnd n (.assign x e) = true) : pureTop n e = true := by
  cases e <;> simp [nameOf] at hn <;> simpa [topOk] using h

/-- listening to a handled top-level statement keeps a single scope, and inside a conditional never forgets -/
theorem top_names : ∀ (s : Js) (cnd : Bool) (n n' : Names) (ks : List String),
    topOk cnd n s = true → n.inner = [] → listen n s = .ok (n', ks) →
    n'.inner = [] ∧ (cnd = true → ∀ x, n.glob.contains x = true → n'.glob.contains x = true) := by
  intro s
  induction s with
  | skip => intro cnd n n' ks _ hin hl; simp only [listen, Except.ok.injEq, Prod.mk.injEq] at hl; obtain ⟨rfl, _⟩ := hl; exact ⟨hin, fun _ _ h => h⟩
  | varDecl x => intro cnd n n' ks _ hin hl; simp only [listen, Except.ok.injEq, Prod.mk.injEq] at hl; obtain ⟨rfl, _⟩ := hl; exact ⟨hin, fun _ _ h => h⟩
  | varInit x e _ =>
    intro cnd n n' ks h hin hl
    simp only [topOk, pureTop] at h; simp only [listen] at hl
    have := pure_names_top h hl; subst this; exact ⟨hin, fun _ _ h => h⟩
  | ret e _ =>
    intro cnd n n' ks h hin hl
    simp only [topOk, pureTop] at h; simp only [listen] at hl
    have := pure_names_top h hl; subst this; exact ⟨hin, fun _ _ h => h⟩
  | assign x e _ =>
    intro cnd n n' ks h hin hl
    simp only [listen] at hl
    obtain ⟨n0, h0, hl'⟩ := bind_ok hl
    obtain ⟨h1, h2, h3, h4, h5⟩ := onAssign_top hin h0
    cases hn : nameOf e with
    | some y =>
      have := nameOf_some hn; subst this
      simp only [listen, Except.ok.injEq, Prod.mk.injEq] at hl'
      obtain ⟨rfl, _⟩ := hl'
      refine ⟨h1, ?_⟩
      intro hc z hz
      subst hc
      simp only [topOk, Bool.not_true, Bool.or_false, Bool.or_eq_true, Bool.not_eq_true'] at h
      by_cases hzx : z = x
      · subst hzx
        apply h4 _ hz
        intro y' hy'
        simp only [nameOf, Option.some.injEq] at hy'; subst hy'
        exact h
      · rw [h2 z hzx]; exact hz
    | none =>
      have := h5 hn; subst this
      have hp := topOk_assign_pure hn h
      have := pure_names_top hp hl'; subst this
      exact ⟨hin, fun _ _ h => h⟩
  | ite c t e _ iht ihe =>
    intro cnd n n' ks h hin hl
    simp only [topOk, Bool.and_eq_true, pureTop] at h
    simp only [listen] at hl
    obtain ⟨⟨n1, k1⟩, hl1, hl⟩ := bind_ok hl
    simp only at hl
    obtain ⟨⟨n2, k2⟩, hl2, hl⟩ := bind_ok hl
    simp only at hl
    obtain ⟨⟨n3, k3⟩, hl3, hl⟩ := bind_ok hl
    simp only [Except.ok.injEq, Prod.mk.injEq] at hl
    obtain ⟨rfl, _⟩ := hl
    have := pure_names_top h.1.1 hl1; subst this
    obtain ⟨hi2, hm2⟩ := iht true n1 n2 k2 h.1.2 hin hl2
    rw [hl2] at h
    obtain ⟨hi3, hm3⟩ := ihe true n2 n3 k3 h.2 hi2 hl3
    exact ⟨hi3, fun _ x hx => hm3 rfl x (hm2 rfl x hx)⟩
  | seq a b iha ihb =>
    intro cnd n n' ks h hin hl
    simp only [topOk, Bool.and_eq_true] at h
    simp only [listen] at hl
    obtain ⟨⟨n1, k1⟩, hl1, hl⟩ := bind_ok hl
    simp only at hl
    obtain ⟨⟨n2, k2⟩, hl2, hl⟩ := bind_ok hl
    simp only [Except.ok.injEq, Prod.mk.injEq] at hl
    obtain ⟨rfl, _⟩ := hl
    rw [hl1] at h
    obtain ⟨hi1, hm1⟩ := iha cnd n n1 k1 h.1 hin hl1
    obtain ⟨hi2, hm2⟩ := ihb cnd n1 n2 k2 h.2 hi1 hl2
    exact ⟨hi2, fun hc x hx => hm2 hc x (hm1 hc x hx)⟩
  | fdecl f ps body _ =>
    intro cnd n n' ks h hin hl
    simp only [topOk] at h
    simp only [listen] at hl
    obtain ⟨⟨n1, k1⟩, hl1, hl⟩ := bind_ok hl
    simp only [Except.ok.injEq, Prod.mk.injEq] at hl
    obtain ⟨rfl, _⟩ := hl
    have := body_names body _ ps n1 k1 h hl1; subst this
    rw [shadow_pop]; exact ⟨hin, fun _ _ h => h⟩
  | loop i k m body _ =>
    intro cnd n n' ks h hin hl
    simp only [topOk, Bool.and_eq_true] at h
    simp only [listen] at hl
    rw [hl] at h
    have : n' = n := by simpa using h.2
    subst this
    exact ⟨hin, fun _ _ h => h⟩
  | num m => intro cnd n n' ks h hin hl; simp only [topOk, pureTop] at h; have := pure_names_top h hl; subst this; exact ⟨hin, fun _ _ h => h⟩
  | str m => intro cnd n n' ks h hin hl; simp only [topOk, pureTop] at h; have := pure_names_top h hl; subst this; exact ⟨hin, fun _ _ h => h⟩
  | ident m => intro cnd n n' ks h hin hl; simp only [topOk, pureTop] at h; have := pure_names_top h hl; subst this; exact ⟨hin, fun _ _ h => h⟩
  | dot a k _ => intro cnd n n' ks h hin hl; simp only [topOk, pureTop] at h; have := pure_names_top h hl; subst this; exact ⟨hin, fun _ _ h => h⟩
  | idx a i _ _ => intro cnd n n' ks h hin hl; simp only [topOk, pureTop] at h; have := pure_names_top h hl; subst this; exact ⟨hin, fun _ _ h => h⟩
  | paren a _ => intro cnd n n' ks h hin hl; simp only [topOk, pureTop] at h; have := pure_names_top h hl; subst this; exact ⟨hin, fun _ _ h => h⟩
  | bin a c _ _ => intro cnd n n' ks h hin hl; simp only [topOk, pureTop] at h; have := pure_names_top h hl; subst this; exact ⟨hin, fun _ _ h => h⟩
  | cond a c d _ _ _ => intro cnd n n' ks h hin hl; simp only [topOk, pureTop] at h; have := pure_names_top h hl; subst this; exact ⟨hin, fun _ _ h => h⟩
  | call a c _ _ => intro cnd n n' ks h hin hl; simp only [topOk, pureTop] at h; have := pure_names_top h hl; subst this; exact ⟨hin, fun _ _ h => h⟩
  | fexpr ps c _ => intro cnd n n' ks h hin hl; simp only [topOk, pureTop] at h; have := pure_names_top h hl; subst this; exact ⟨hin, fun _ _ h => h⟩

def TopP (D : List String) (fuel : Nat) : Prop :=
  ∀ (s : Js) (cnd : Bool) (n : Names) (st : St) (r : Res) (st' : St) (n' : Names) (ks : List String),
    topOk cnd n s = true → n.inner = [] → EnvOk n [] true D [1, 0] st.heap →
    eval fuel [1, 0] s st = some (r, st') → listen n s = .ok (n', ks) → (∀ k, k ∈ ks → k ∈ D) →
    (∀ k, k ∈ st'.reads → k ∈ st.reads ∨ k ∈ D) ∧
    (∀ v, r = .normal v → EnvOk n' [] true D [1, 0] st'.heap)

/-- an expression statement at the top level -/
theorem top_of_pure {D : List String} {fuel : Nat} {n : Names} {e : Js} {st : St} {r : Res} {st' : St}
    {n' : Names} {ks : List String} (hp : pureTop n e = true) (henv : EnvOk n [] true D [1, 0] st.heap)
    (he : eval fuel [1, 0] e st = some (r, st')) (hl : listen n e = .ok (n', ks)) (hD : ∀ k, k ∈ ks → k ∈ D) :
    (∀ k, k ∈ st'.reads → k ∈ st.reads ∨ k ∈ D) ∧
    (∀ v, r = .normal v → EnvOk n' [] true D [1, 0] st'.heap) := by
  obtain ⟨rfl, hrel, _, hrd⟩ := (all_fuel D fuel).1 n e [] true [1, 0] st r st' n' ks hp henv he hl hD
  exact ⟨hrd, fun _ _ => henv.rel hrel⟩

theorem mono_of_contains {n n' : Names} (hi : n.inner = []) (hi' : n'.inner = [])
    (hm : ∀ x, n.glob.contains x = true → n'.glob.contains x = true) : ∀ x, n'.has x = false → n.has x = false := by
  intro x hx
  rw [has_of_inner_nil hi'] at hx
  rw [has_of_inner_nil hi]
  cases hc : n.glob.contains x with
  | false => rfl
  | true => rw [hm x hc] at hx; simp at hx

theorem top_step (D : List String) (fuel : Nat) (ih : TopP D fuel) : TopP D (fuel + 1) := by
  intro s cnd n st r st' n' ks h hin henv he hl hD
  have hP := (all_fuel D fuel).1
  cases s with
  | skip =>
    simp only [eval, Option.some.injEq, Prod.mk.injEq] at he; obtain ⟨rfl, rfl⟩ := he
    simp only [listen, Except.ok.injEq, Prod.mk.injEq] at hl; obtain ⟨rfl, rfl⟩ := hl
    exact ⟨fun k hk => Or.inl hk, fun _ _ => henv⟩
  | varDecl x =>
    simp only [eval, List.headD, Option.some.injEq, Prod.mk.injEq] at he; obtain ⟨rfl, rfl⟩ := he
    simp only [listen, Except.ok.injEq, Prod.mk.injEq] at hl; obtain ⟨rfl, rfl⟩ := hl
    exact ⟨fun k hk => Or.inl hk,
      fun _ _ => henv.upd (upd_declare (henv.len_ok rfl) (by intro w hw; simp at hw))⟩
  | varInit x e =>
    simp only [eval] at he
    cases h1 : eval fuel [1, 0] e st with
    | none => rw [h1] at he; simp at he
    | some p =>
      obtain ⟨r1, st1⟩ := p
      rw [h1] at he
      simp only [List.headD, Option.some.injEq, Prod.mk.injEq] at he
      obtain ⟨rfl, rfl⟩ := he
      simp only [topOk, pureTop] at h
      simp only [listen] at hl
      obtain ⟨rfl, hrel, ⟨v, rfl, hv, hvc⟩, hrd⟩ := hP n e [] true [1, 0] st r1 st1 n' ks h henv h1 hl hD
      have henv1 := henv.rel hrel
      exact ⟨hrd, fun _ _ => henv1.upd (upd_declare (henv1.len_ok rfl)
        (by intro w hw; simp only [Res.val, Option.some.injEq] at hw; subst hw; exact ⟨hv, hvc⟩))⟩
  | ret e =>
    simp only [eval] at he
    cases h1 : eval fuel [1, 0] e st with
    | none => rw [h1] at he; simp at he
    | some p =>
      obtain ⟨r1, st1⟩ := p
      rw [h1] at he
      simp only [Option.some.injEq, Prod.mk.injEq] at he
      obtain ⟨rfl, rfl⟩ := he
      simp only [topOk, pureTop] at h
      simp only [listen] at hl
      obtain ⟨rfl, _, _, hrd⟩ := hP n e [] true [1, 0] st r1 st1 n' ks h henv h1 hl hD
      exact ⟨hrd, fun v hv => by simp at hv⟩
  | assign x e =>
    simp only [eval] at he
    cases h1 : eval fuel [1, 0] e st with
    | none => rw [h1] at he; simp at he
    | some p =>
      obtain ⟨r1, st1⟩ := p
      rw [h1] at he; simp only at he
      cases h2 : assignVar st1.heap [1, 0] x r1.val with
      | none => rw [h2] at he; simp at he
      | some hp' =>
        rw [h2] at he
        simp only [Option.some.injEq, Prod.mk.injEq] at he
        obtain ⟨rfl, rfl⟩ := he
        simp only [listen] at hl
        obtain ⟨n0, h0, hl'⟩ := bind_ok hl
        obtain ⟨hi0, hoth, halias, _, hnone⟩ := onAssign_top hin h0
        cases hn : nameOf e with
        | some y =>
          have := nameOf_some hn; subst this
          obtain ⟨rfl, v, rfl, hv⟩ := eval_ident h1
          simp only [listen, Except.ok.injEq, Prod.mk.injEq] at hl'
          obtain ⟨rfl, rfl⟩ := hl'
          refine ⟨fun k hk => Or.inl hk, fun _ _ => ?_⟩
          have hlen := henv.len_ok rfl
          have hg : ∀ z, lookupVar hp' [1, 0] z = if z = x then some v else lookupVar st1.heap [1, 0] z :=
            fun z => glookup_assign st1.heap hp' x z v hlen h2
          refine ⟨fun _ _ _ hc => by simp at hc, ?_, ?_, fun _ => rfl,
            fun _ => by rw [length_assign _ _ _ _ _ h2]; exact hlen⟩
          · intro z w hz _ _ hh
            simp only at hz
            rw [hg z] at hz
            rw [has_of_inner_nil hi0] at hh
            by_cases hzx : z = x
            · subst hzx
              simp only [if_true, Option.some.injEq] at hz; subst hz
              cases hy : n.has y with
              | true => rw [halias y rfl hy] at hh; simp at hh
              | false => exact henv.free_clean y _ hv rfl rfl hy
            · simp only [hzx, if_false] at hz
              rw [hoth z hzx, ← has_of_inner_nil hin] at hh
              exact henv.free_clean z w hz rfl rfl hh
          · intro z w hz
            simp only at hz
            rw [hg z] at hz
            by_cases hzx : z = x
            · simp only [hzx, if_true, Option.some.injEq] at hz; subst hz
              exact henv.clo_ok y _ hv
            · simp only [hzx, if_false] at hz
              exact henv.clo_ok z w hz
        | none =>
          have := hnone hn; subst this
          have hp := topOk_assign_pure hn h
          obtain ⟨rfl, hrel, ⟨v, rfl, hv, hvc⟩, hrd⟩ := hP n0 e [] true [1, 0] st r1 st1 n' ks hp henv h1 hl' hD
          have henv1 := henv.rel hrel
          exact ⟨hrd, fun _ _ => henv1.upd (upd_assign (henv1.len_ok rfl) h2 ⟨hv, hvc⟩)⟩
  | ite c t e =>
    simp only [eval] at he
    cases h1 : eval fuel [1, 0] c st with
    | none => rw [h1] at he; simp at he
    | some p =>
      obtain ⟨rc, st1⟩ := p
      rw [h1] at he; simp only at he
      simp only [topOk, Bool.and_eq_true, pureTop] at h
      simp only [listen] at hl
      obtain ⟨⟨n1, k1⟩, hl1, hl⟩ := bind_ok hl
      simp only at hl
      obtain ⟨⟨n2, k2⟩, hl2, hl⟩ := bind_ok hl
      simp only at hl
      obtain ⟨⟨n3, k3⟩, hl3, hl⟩ := bind_ok hl
      simp only [Except.ok.injEq, Prod.mk.injEq] at hl
      obtain ⟨rfl, rfl⟩ := hl
      obtain ⟨rfl, hrel1, _, hrd1⟩ := hP n c [] true [1, 0] st rc st1 n1 k1 h.1.1 henv h1 hl1
        (fun k hk => hD k (List.mem_append_left _ (List.mem_append_left _ hk)))
      have henv1 := henv.rel hrel1
      obtain ⟨hi2, hm2⟩ := top_names t true n1 n2 k2 h.1.2 hin hl2
      rw [hl2] at h
      obtain ⟨hi3, hm3⟩ := top_names e true n2 n3 k3 h.2 hi2 hl3
      split at he
      · obtain ⟨hrd2, henv2⟩ := ih t true n1 st1 r st' n2 k2 h.1.2 hin henv1 he hl2
          (fun k hk => hD k (List.mem_append_left _ (List.mem_append_right _ hk)))
        exact ⟨reads_trans hrd1 hrd2, fun v hv => (henv2 v hv).mono (mono_of_contains hi2 hi3 (hm3 rfl))⟩
      · obtain ⟨hrd2, henv2⟩ := ih e true n2 st1 r st' n3 k3 h.2 hi2
          (henv1.mono (mono_of_contains hin hi2 (hm2 rfl))) he hl3
          (fun k hk => hD k (List.mem_append_right _ hk))
        exact ⟨reads_trans hrd1 hrd2, henv2⟩
  | seq a b =>
    simp only [topOk, Bool.and_eq_true] at h
    simp only [listen] at hl
    obtain ⟨⟨n1, k1⟩, hl1, hl⟩ := bind_ok hl
    simp only at hl
    obtain ⟨⟨n2, k2⟩, hl2, hl⟩ := bind_ok hl
    simp only [Except.ok.injEq, Prod.mk.injEq] at hl
    obtain ⟨rfl, rfl⟩ := hl
    rw [hl1] at h
    simp only [eval] at he
    cases h1 : eval fuel [1, 0] a st with
    | none => rw [h1] at he; simp at he
    | some p =>
      obtain ⟨ra, st1⟩ := p
      rw [h1] at he
      obtain ⟨hrd1, henv1⟩ := ih a cnd n st ra st1 n1 k1 h.1 hin henv h1 hl1
        (fun k hk => hD k (List.mem_append_left _ hk))
      cases ra with
      | returned v =>
        simp only [Option.some.injEq, Prod.mk.injEq] at he
        obtain ⟨rfl, rfl⟩ := he
        exact ⟨hrd1, fun v hv => by simp at hv⟩
      | normal v =>
        simp only at he
        obtain ⟨hi1, _⟩ := top_names a cnd n n1 k1 h.1 hin hl1
        obtain ⟨hrd2, henv2⟩ := ih b cnd n1 st1 r st' n2 k2 h.2 hi1 (henv1 v rfl) he hl2
          (fun k hk => hD k (List.mem_append_right _ hk))
        exact ⟨reads_trans hrd1 hrd2, henv2⟩
  | fdecl f ps body =>
    simp only [eval, List.headD, Option.some.injEq, Prod.mk.injEq] at he; obtain ⟨rfl, rfl⟩ := he
    simp only [topOk] at h
    simp only [listen] at hl
    obtain ⟨⟨n1, k1⟩, hl1, hl⟩ := bind_ok hl
    simp only [Except.ok.injEq, Prod.mk.injEq] at hl
    obtain ⟨rfl, rfl⟩ := hl
    have := body_names body _ ps n1 k1 h hl1; subst this
    rw [shadow_pop]
    refine ⟨fun k hk => Or.inl hk, fun _ _ => henv.upd (upd_declare (henv.len_ok rfl) ?_)⟩
    intro w hw
    simp only [Option.some.injEq] at hw; subst hw
    exact ⟨by simp, rfl, _, k1, hl1, h, hD⟩
  | loop i k m body =>
    simp only [topOk, Bool.and_eq_true] at h
    have hl0 := hl
    simp only [listen] at hl
    have hsame : n' = n := by
      have h2 := h.2; rw [hl] at h2; simpa using h2
    subst hsame
    simp only [eval, List.headD] at he
    have hupd : ∀ (v : Nat), EnvOk n' [] true D [1, 0] (declareVar st.heap 1 i (some (.num v))) :=
      fun v => henv.upd (upd_declare (henv.len_ok rfl) (by intro w hw; simp only [Option.some.injEq] at hw; subst hw; simp [CloOk]))
    split at he
    · simp only [Option.some.injEq, Prod.mk.injEq] at he
      obtain ⟨rfl, rfl⟩ := he
      exact ⟨fun k hk => Or.inl hk, fun _ _ => hupd m⟩
    · cases h1 : eval fuel [1, 0] body { st with heap := declareVar st.heap 1 i (some (.num k)) } with
      | none => rw [h1] at he; simp at he
      | some p =>
        obtain ⟨rb, st1⟩ := p
        rw [h1] at he
        obtain ⟨hrd1, henv1⟩ := ih body true n' _ rb st1 n' ks h.1 hin (hupd k) h1 hl hD
        cases rb with
        | returned v =>
          simp only [Option.some.injEq, Prod.mk.injEq] at he
          obtain ⟨rfl, rfl⟩ := he
          exact ⟨hrd1, fun v hv => by simp at hv⟩
        | normal v =>
          simp only at he
          have htop : topOk cnd n' (.loop i (k + 1) m body) = true := by
            simp only [topOk, Bool.and_eq_true]; exact h
          obtain ⟨hrd2, henv2⟩ := ih (.loop i (k + 1) m body) cnd n' st1 r st' n' ks htop hin (henv1 v rfl) he
            (by simp only [listen]; exact hl) hD
          exact ⟨reads_trans hrd1 hrd2, henv2⟩
  | num m => simp only [topOk] at h; exact top_of_pure h henv he hl hD
  | str m => simp only [topOk] at h; exact top_of_pure h henv he hl hD
  | ident m => simp only [topOk] at h; exact top_of_pure h henv he hl hD
  | dot a k => simp only [topOk] at h; exact top_of_pure h henv he hl hD
  | idx a i => simp only [topOk] at h; exact top_of_pure h henv he hl hD
  | paren a => simp only [topOk] at h; exact top_of_pure h henv he hl hD
  | bin a c => simp only [topOk] at h; exact top_of_pure h henv he hl hD
  | cond a c d => simp only [topOk] at h; exact top_of_pure h henv he hl hD
  | call a c => simp only [topOk] at h; exact top_of_pure h henv he hl hD
  | fexpr ps c => simp only [topOk] at h; exact top_of_pure h henv he hl hD

theorem top_all (D : List String) : ∀ fuel, TopP D fuel := by
  intro fuel
  induction fuel with
  | zero => intro s cnd n st r st' n' ks _ _ _ he; simp [eval] at he
  | succ fuel ih => exact top_step D fuel ih

end SFV.JsDeps
