import SFV.Model.DirReg
/-! Lemmas on the guarded registration loop (`SFV/Model/DirReg.lean`). -/
namespace SFV.DirReg
open SFV.JobDirs (Dir)

theorem regLoop_mono (same : Loc → Loc → Bool) (c : Cell) :
    ∀ (cs : List Cell) (reg : List Cell), c ∈ reg → c ∈ regLoop same reg cs
  | [], reg, h => by simpa [regLoop] using h
  | (l, d) :: cs, reg, h => by
    simp only [regLoop]
    split
    · exact regLoop_mono same c cs reg h
    · exact regLoop_mono same c cs _ (by simp [h])

theorem regLoop_complete (same : Loc → Loc → Bool) (hsame : ∀ l l', same l l' = true → l = l') (c : Cell) :
    ∀ (cs : List Cell) (reg : List Cell), c ∈ cs → c ∈ regLoop same reg cs
  | [], _, h => by cases h
  | (l, d) :: cs, reg, h => by
    simp only [regLoop]
    rcases List.mem_cons.mp h with rfl | h
    · split
      · rename_i hany
        obtain ⟨c', hc', hk⟩ := List.any_eq_true.mp hany
        simp only [Bool.and_eq_true, decide_eq_true_eq] at hk
        have h1 := hsame _ _ hk.1
        have : c' = (l, d) := by cases c'; simp_all
        exact regLoop_mono same _ cs reg (this ▸ hc')
      · exact regLoop_mono same _ cs _ (by simp)
    · split
      · exact regLoop_complete same hsame c cs reg h
      · exact regLoop_complete same hsame c cs _ h

end SFV.DirReg
