"""C29 — CWL workflows produce the same outputs as the reference runner."""
from __future__ import annotations

import json
import os
import random

from sfv.framework import Ctx, Inconclusive, Property
from sfv.rt import cwldiff as C
from sfv.rt import cwlgen_wf as G
from sfv.translate import cwlops


# ------------------------------------------------------------------------------------------------
# operator level: real transformer / combinator code vs the Lean model
# ------------------------------------------------------------------------------------------------
def _real_pick(mode: str, vals):
    from streamflow.core.exception import WorkflowExecutionException
    from streamflow.core.workflow import Token
    from streamflow.cwl.transformer import AllNonNullTransformer, FirstNonNullTransformer, OnlyNonNullTransformer
    from streamflow.workflow.token import ListToken

    tok = ListToken(value=[Token(value=v, tag="0") for v in vals], tag="0")
    cls = {"first": FirstNonNullTransformer, "only": OnlyNonNullTransformer, "all": AllNonNullTransformer}[mode]
    try:
        out = cls._transform(None, "x", tok)
    except WorkflowExecutionException as e:
        msg = str(e)
        return "err:allNull" if "All sources are null" in msg else ("err:multipleNonNull" if "only one" in msg else "err:" + msg)
    if mode == "all":
        return ",".join(str(t.value) for t in out.value) or "-"
    return f"ok:{out.value}"


def _real_flatten(srcs):
    """srcs: [(name, ('one', v) | ('many', [(tag, v)]))] with distinct names -> flattened values"""
    from streamflow.core.workflow import Token
    from streamflow.cwl.combinator import _flatten_token_list
    from streamflow.workflow.token import ListToken

    outs = []
    for _, (kind, payload) in srcs:
        if kind == "one":
            outs.append(Token(value=payload, tag="0"))
        else:
            outs.append(ListToken(value=[Token(value=v, tag="0." + ".".join(map(str, tag))) for tag, v in payload], tag="0"))
    return [t.value for t in _flatten_token_list(outs)]


def _tokval(t):
    from streamflow.workflow.token import ListToken

    return [_tokval(x) for x in t.value] if isinstance(t, ListToken) else t.value


async def _class_level(scratch: str, empties, merges):
    """the REAL CWLEmptyScatterConditionalStep (_eval / _on_false on a saved CWLWorkflow with a private database) and the REAL
    ListMergeCombinator.combine (inputs arriving in the given order)"""
    from sfv.rt.sfctx import close_context, make_context
    from streamflow.core.workflow import Token
    from streamflow.cwl.combinator import ListMergeCombinator
    from streamflow.cwl.step import CWLEmptyScatterConditionalStep
    from streamflow.cwl.workflow import CWLWorkflow
    from streamflow.workflow.token import ListToken

    context = make_context(scratch)
    out_e, out_m = [], []
    try:
        for k, (method, arrays) in enumerate(empties):
            wf = CWLWorkflow(context=context, name=f"w{k}", config={}, cwl_version="v1.2")
            step = wf.create_step(cls=CWLEmptyScatterConditionalStep, name="/s-empty-scatter-condition", scatter_method=method)
            inputs = {}
            for i, a in enumerate(arrays):
                step.add_input_port(f"p{i}", wf.create_port())
                step.add_output_port(f"p{i}", wf.create_port())
                inputs[f"p{i}"] = ListToken(value=[Token(value=x, tag=f"0.{j}") for j, x in enumerate(a)], tag="0")
            skip = wf.create_port()
            step.add_skip_port("o", skip)
            await wf.save(context.database)
            for t in inputs.values():
                await t.save(context.database, port_id=step.get_input_port("p0").persistent_id)
            if await step._eval(inputs):
                out_e.append("run")
            else:
                await step._on_false(inputs)
                out_e.append(_tokval(skip.token_list[0]))
        for names, srcs, flatten, order in merges:
            c = ListMergeCombinator(name="c", workflow=None, input_names=names, output_name="o", flatten=flatten)
            for nm in names:
                c.add_item(nm)
            toks = [Token(value=p, tag="0") if kind == "one" else
                    ListToken(value=[Token(value=v, tag="0." + ".".join(map(str, tag))) for tag, v in p], tag="0") for kind, p in srcs]
            got = []
            for i in order:
                async for schema in c.combine(names[i], toks[i]):
                    got.append(_tokval(schema["o"]["token"]))
            out_m.append(got)
    finally:
        await close_context(context)
    return out_e, out_m


def _ints(xs):
    return ",".join(map(str, xs)) if xs else "-"


def _parse(line: str):
    parts = dict(p.split(":", 1) for p in line.split(" ") if ":" in p)
    return parts.get("spec"), parts.get("sf")


def _unints(s):
    return [] if s == "-" else [int(x) for x in s.split(",")]


def _unrows(s):
    return [] if s == "_" else [_unints(r) for r in s.split(";")]


# ------------------------------------------------------------------------------------------------
# corpus documents: one operator each, with the protocol line that gives the model's answer
# ------------------------------------------------------------------------------------------------
def _wf(inputs, steps, outputs, reqs):
    return {"cwlVersion": "v1.2", "class": "Workflow", "inputs": inputs, "outputs": outputs, "steps": steps,
            "requirements": {r: {} for r in reqs}}


def corpus_docs():
    T = G.TOOLS
    A = {"type": "array", "items": "int"}
    AA = {"type": "array", "items": A}
    docs = []

    def scat(name, method, xs, ys, key=None):
        doc = _wf({"xs": "int[]", "ys": "int[]"},
                  {"s": {"run": T["add"](), "in": {"x": "xs", "y": "ys"}, "scatter": ["x", "y"], "scatterMethod": method, "out": ["o"]}},
                  {"o": {"type": AA if method == "nested_crossproduct" else A, "outputSource": "s/o"}}, ["ScatterFeatureRequirement"])
        op = {"dotproduct": "dot", "flat_crossproduct": "flat", "nested_crossproduct": "nested"}[method]
        docs.append({"name": name, "doc": doc, "job": {"xs": xs, "ys": ys}, "line": f"{op} {_ints(xs)} {_ints(ys)}", "out": "o",
                     "rows": method == "nested_crossproduct", "key": key})

    scat("flat-3x2", "flat_crossproduct", [1, 2, 3], [7, 8])
    scat("nested-2x3", "nested_crossproduct", [1, 2], [7, 8, 9])
    scat("dot-3", "dotproduct", [1, 2, 3], [4, 5, 6])
    scat("flat-empty-second", "flat_crossproduct", [1, 2], [])
    scat("dot-both-empty", "dotproduct", [], [])
    scat("nested-empty-second", "nested_crossproduct", [1, 2, 3], [], key="nested_crossproduct:one-input-empty")
    scat("nested-empty-first", "nested_crossproduct", [], [4, 5, 6], key="nested_crossproduct:one-input-empty")
    scat("dot-length-mismatch", "dotproduct", [1, 2], [3])
    docs.append({"name": "scatter-single-empty", "line": "single -", "out": "o", "key": None, "job": {"xs": []},
                 "doc": _wf({"xs": "int[]"}, {"s": {"run": T["inc"](), "in": {"x": "xs"}, "scatter": "x", "out": ["o"]}},
                            {"o": {"type": A, "outputSource": "s/o"}}, ["ScatterFeatureRequirement"])})
    docs.append({"name": "scatter-single-12", "line": "single " + _ints(list(range(12))), "out": "o", "key": None,
                 "job": {"xs": list(range(12))},
                 "doc": _wf({"xs": "int[]"}, {"s": {"run": T["inc"](), "in": {"x": "xs"}, "scatter": "x", "out": ["o"]}},
                            {"o": {"type": A, "outputSource": "s/o"}}, ["ScatterFeatureRequirement"])})
    # optional scattered input with a default next to another input: a null FOLLOWED by values (DefaultRetagTransformer)
    docs.append({"name": "scatter-default-over-nulls", "line": None, "out": "o", "key": None, "job": {"xs": [1, None, 3, None, 5], "k": 1},
                 "doc": _wf({"xs": {"type": {"type": "array", "items": ["null", "int"]}}, "k": "int"},
                            {"s": {"run": T["addk_default"](), "in": {"x": "xs", "k": "k"}, "scatter": "x", "out": ["o"]}},
                            {"o": {"type": A, "outputSource": "s/o"}}, ["ScatterFeatureRequirement"]),
                 "expect": [101, 107, 103, 107, 105]})
    # linkMerge
    docs.append({"name": "merge-nested-duplicate", "line": "mergen a=1 b=2 a=1", "out": "o", "key": "linkMerge:duplicate-source",
                 "job": {"a": 1, "b": 2},
                 "doc": _wf({"a": "int", "b": "int"},
                            {"s": {"run": T["aid"](), "in": {"xs": {"source": ["a", "b", "a"], "linkMerge": "merge_nested"}}, "out": ["o"]}},
                            {"o": {"type": A, "outputSource": "s/o"}}, ["MultipleInputFeatureRequirement"])})
    docs.append({"name": "merge-flattened-duplicate", "line": "mergef a=many:0:1/1:2 b=many:0:3 a=many:0:1/1:2", "out": "o",
                 "key": "linkMerge:duplicate-source", "job": {"a": [1, 2], "b": [3]},
                 "doc": _wf({"a": "int[]", "b": "int[]"},
                            {"s": {"run": T["aid"](), "in": {"xs": {"source": ["a", "b", "a"], "linkMerge": "merge_flattened"}}, "out": ["o"]}},
                            {"o": {"type": A, "outputSource": "s/o"}}, ["MultipleInputFeatureRequirement"])})
    docs.append({"name": "merge-flattened-plain", "line": "mergef a=many:0:1/1:2 b=many:0:3 c=many:", "out": "o", "key": None,
                 "job": {"a": [1, 2], "b": [3], "c": []},
                 "doc": _wf({"a": "int[]", "b": "int[]", "c": "int[]"},
                            {"s": {"run": T["aid"](), "in": {"xs": {"source": ["a", "b", "c"], "linkMerge": "merge_flattened"}}, "out": ["o"]}},
                            {"o": {"type": A, "outputSource": "s/o"}}, ["MultipleInputFeatureRequirement"])})
    # merge_flattened over the output of a flat_crossproduct scatter (elements tagged i.j)
    cross_vals = "/".join(f"{i}.{j}:{x * 100 + y}" for i, x in enumerate([1, 2]) for j, y in enumerate([7, 8]))
    docs.append({"name": "merge-flattened-of-crossproduct", "line": f"mergef s=many:{cross_vals} b=many:0:3", "out": "o",
                 "key": "merge_flattened:crossproduct-elements-reordered", "job": {"xs": [1, 2], "ys": [7, 8], "b": [3]},
                 "doc": _wf({"xs": "int[]", "ys": "int[]", "b": "int[]"},
                            {"c": {"run": T["add"](), "in": {"x": "xs", "y": "ys"}, "scatter": ["x", "y"], "scatterMethod": "flat_crossproduct",
                                   "out": ["o"]},
                             "s": {"run": T["aid"](), "in": {"xs": {"source": ["c/o", "b"], "linkMerge": "merge_flattened"}}, "out": ["o"]}},
                            {"o": {"type": A, "outputSource": "s/o"}}, ["MultipleInputFeatureRequirement", "ScatterFeatureRequirement"])})
    # pickValue + when: o1 = inc(x) when x even, o2 = inc(y) when y even
    for nm, mode, x, y in [("pick-first", "first_non_null", 3, 4), ("pick-first-all-null", "first_non_null", 1, 3),
                           ("pick-only", "the_only_non_null", 2, 3), ("pick-only-two", "the_only_non_null", 2, 4),
                           ("pick-all", "all_non_null", 2, 4), ("pick-all-none", "all_non_null", 1, 3)]:
        vals = [(v + 1) if v % 2 == 0 else None for v in (x, y)]
        m = {"first_non_null": "first", "the_only_non_null": "only", "all_non_null": "all"}[mode]
        sink = T["aid"]() if m == "all" else T["iid"]()
        port = "xs" if m == "all" else "x"
        docs.append({"name": nm, "line": f"pick {m} " + " ".join("n" if v is None else str(v) for v in vals), "out": "o", "key": None,
                     "job": {"x": x, "y": y}, "pick": m,
                     "doc": _wf({"x": "int", "y": "int"},
                                {"a": {"run": T["inc"](), "in": {"x": "x"}, "when": "$(inputs.x % 2 == 0)", "out": ["o"]},
                                 "b": {"run": T["inc"](), "in": {"x": "y"}, "when": "$(inputs.x % 2 == 0)", "out": ["o"]},
                                 "s": {"run": sink, "in": {port: {"source": ["a/o", "b/o"], "pickValue": mode}}, "out": ["o"]}},
                                {"o": {"type": A if m == "all" else "int", "outputSource": "s/o"}},
                                ["MultipleInputFeatureRequirement", "InlineJavascriptRequirement"])})
    return docs


def _expected(line_out: str, d: dict):
    """(spec value, sf-model value) as Python objects; 'error' strings mean the run must fail"""
    spec, sf = _parse(line_out)

    def conv(s):
        if s is None:
            return None
        if s == "error" or s.startswith("err:"):
            return "FAIL"
        if s.startswith("ok:"):
            return int(s[3:])
        if d.get("rows"):
            return _unrows(s)
        return _unints(s)

    return conv(spec), conv(sf)


class C29(Property):
    pid = "C29"
    title = "CWL workflows produce the same outputs as the reference runner"
    lean_targets = ["SFV.Props.C29"]
    props_files = ["SFV/Props/C29.lean"]
    drivers = ["Drivers/C29.lean"]
    translators = [cwlops.generate]
    quick_budget_s = 1500
    thorough_budget_s = 2400
    min_nontrivial = 20
    rule = ("(i) operator level: random lists of optional values through the real First/Only/AllNonNullTransformer._transform and random "
            "tagged sources through the real _flatten_token_list, against the Lean model and the Lean spec; class level: the real "
            "CWLEmptyScatterConditionalStep (_eval/_on_false on a saved workflow, 1-3 scatter inputs, every method) and the real "
            "ListMergeCombinator.combine (1-4 sources, random arrival order, flatten on/off) against the model; (ii) whole-runner "
            "differential: a corpus of single-operator workflows (scatter dot/flat/nested incl. empty inputs and a length mismatch, "
            "linkMerge nested/flattened incl. a duplicated source and a cross-product source, pickValue in its three modes incl. the "
            "error cases, when) and randomly generated CWL v1.2 workflows of 1..6 steps (ExpressionTools, container-free "
            "CommandLineTools, scatter x3 methods, linkMerge, pickValue, when, valueFrom, default, nested subworkflows, "
            "int/string/array/record/File values), each run by StreamFlow's cwl-runner entry point and by cwltool in fresh processes "
            "with private HOME/TMPDIR/database; compared: success/failure and the output object up to file locations; corpus outputs are "
            "also compared with the Lean model (StreamFlow) and the Lean spec (cwltool). Non-trivial = distinct document.")
    trusted_base = [
        "translator harness/sfv/translate/cwlops.py (ast patterns: CWLEmptyScatterConditionalStep._eval / _on_false, the sort key of "
        "_flatten_token_list -> SFV/Gen/CwlOpsGen.lean)",
        "cwltool 3.2 as the reference oracle; node v20 for its expressions",
        "differential validation (not proof) for everything above the operator layer: CWLTranslator, expression evaluation, file "
        "staging, the token engine (scatter/gather/combinator steps are properties C01/C02)",
        "the Lean spec of each operator is tied to the reference by comparing it with cwltool's output on the corpus documents",
    ]
    assumptions = [
        "CWL loops are not generated (cwltool implements them only as an extension with different syntax)",
        "the gather model assumes tokens are grouped by tag prefix and sorted numerically (C01/C33)",
    ]
    technique = ("Lean 4 operator-equals-standard theorems for every arrival order + negative witnesses + differential run of generated "
                 "workflows against cwltool")
    level_text = ("grade C (kernel): proof that the dataflow operators (scatter single/dot/flat/nested for every arrival order of the results, "
                  "empty-scatter short cut, linkMerge merge_nested/merge_flattened, pickValue x3 with errors, when) equal the CWL standard's "
                  "definitions, with the three deviations proved as negative witnesses; everything else in this property (translator, "
                  "expressions, files, whole documents) is differential validation against cwltool, not proof")
    level_note = ("Lean kernel, axioms within {propext, Classical.choice, Quot.sound}; operator models are hand-written and compared with the "
                  "real transformer/combinator code and with whole StreamFlow runs; cwltool is the oracle for whole documents")

    # ------------------------------------------------------------------------------------------
    def _operator_level(self, ctx: Ctx) -> None:
        rng = ctx.rng
        lines, real, meta = [], [], []
        n = 200 if ctx.tier == "quick" else 3000
        boundary = [("first", []), ("only", []), ("all", []), ("first", [None]), ("only", [None, None]), ("only", [5]), ("all", [None])]
        for i in range(n):
            if i < len(boundary):
                mode, vals = boundary[i]
            else:
                mode = rng.choice(["first", "only", "all"])
                vals = [rng.choice([None, None, rng.randint(0, 99)]) for _ in range(rng.randint(0, 5))]
            lines.append("pick " + mode + "".join(" " + ("n" if v is None else str(v)) for v in vals))
            real.append(_real_pick(mode, vals))
            meta.append(("pickValue", mode, vals))
        for i in range(n):
            srcs = []
            for k in range(rng.randint(1, 4)):
                if rng.random() < 0.4:
                    srcs.append((f"s{k}", ("one", rng.randint(0, 99))))
                else:
                    shape = rng.choice(["flat", "flat", "cross", "empty"])
                    if shape == "flat":
                        elems = [([j], rng.randint(0, 99)) for j in range(rng.randint(1, 12))]
                    elif shape == "cross":
                        elems = [([a, b], rng.randint(0, 99)) for a in range(rng.randint(1, 3)) for b in range(rng.randint(1, 3))]
                    else:
                        elems = []
                    srcs.append((f"s{k}", ("many", elems)))
            enc = []
            for nm, (kind, payload) in srcs:
                enc.append(f"{nm}=one:{payload}" if kind == "one" else f"{nm}=many:" + "/".join(".".join(map(str, t)) + f":{v}" for t, v in payload))
            lines.append("mergef " + " ".join(enc))
            real.append(_ints(_real_flatten(srcs)))
            meta.append(("merge_flattened", None, srcs))
        # ---- class level: CWLEmptyScatterConditionalStep and ListMergeCombinator as objects ----
        import asyncio

        ne = 24 if ctx.tier == "quick" else 300
        empties, merges = [], []
        for i in range(ne):
            method = rng.choice(["dotproduct", "flat_crossproduct", "nested_crossproduct"])
            arrays = [[rng.randint(0, 9) for _ in range(rng.choice([0, 0, 1, 2, 3]))] for _ in range(rng.randint(1, 3))]
            empties.append((method, arrays))
        for i in range(ne):
            k = rng.randint(1, 4)
            flatten = rng.random() < 0.6
            srcs = []
            for _ in range(k):
                if rng.random() < 0.5 or not flatten:
                    srcs.append(("one", rng.randint(0, 99)))
                else:
                    srcs.append(("many", [([j], rng.randint(0, 99)) for j in range(rng.randint(0, 12))]))
            order = list(range(k))
            rng.shuffle(order)
            merges.append(([f"s{j}" for j in range(k)], srcs, flatten, order))
        cdir = os.path.join(ctx.scratch, f"classlevel{ctx.mode}")
        os.makedirs(cdir, exist_ok=True)
        real_e, real_m = asyncio.run(asyncio.wait_for(_class_level(cdir, empties, merges), 300))
        clines = []
        for method, arrays in empties:
            clines.append(("empty nested " if method == "nested_crossproduct" else "empty flat ") + " ".join(str(len(a)) for a in arrays))
        for names, srcs, flatten, order in merges:
            if flatten:
                clines.append("mergef " + " ".join(f"{nm}=one:{p}" if kind == "one" else f"{nm}=many:" + "/".join(f"{t[0]}:{v}" for t, v in p)
                                                   for nm, (kind, p) in zip(names, srcs)))
            else:
                clines.append("mergen " + " ".join(f"{nm}={p}" for nm, (kind, p) in zip(names, srcs)))
        cgot = ctx.lean("Drivers/C29.lean", clines)
        for (method, arrays), r, g in zip(empties, real_e, cgot[:ne]):
            sf = g.split(":", 1)[1]
            exp = "run" if sf == "run" else (_unrows(sf) if method == "nested_crossproduct" else _unints(sf))
            ctx.case({"op": "empty-scatter", "method": method, "arrays": arrays, "real": r, "model": exp},
                     ("empty", method, json.dumps(arrays)), "class:CWLEmptyScatterConditionalStep")
            if r != exp:
                ctx.disagree("CWLEmptyScatterConditionalStep vs model", f"{method} {arrays}: code {r}, Lean model {exp}",
                             {"op": "operator", "line": clines[empties.index((method, arrays))]})
        for (names, srcs, flatten, order), r, g, ln in zip(merges, real_m, cgot[ne:], clines[ne:]):
            spec, sf = _parse(g)
            ctx.case({"op": "ListMergeCombinator", "flatten": flatten, "order": order, "real": r}, ("lmc", ln, tuple(order)),
                     "class:ListMergeCombinator")
            if r != [_unints(sf)]:
                ctx.disagree("ListMergeCombinator.combine vs model", f"{ln} arrival {order}: code {r}, Lean model {[_unints(sf)]}",
                             {"op": "operator", "line": ln})
            if [_unints(spec)] != r:
                ctx.fail("operator:ListMergeCombinator", f"{ln} arrival {order}: code {r}, standard {[_unints(spec)]}", {"op": "operator", "line": ln})
        got = ctx.lean("Drivers/C29.lean", lines)
        for ln, g, r, m in zip(lines, got, real, meta):
            spec, sf = _parse(g)
            cross = m[0] == "merge_flattened" and any(k == "many" and any(len(t) > 1 for t, _ in p) for _, (k, p) in m[2])
            ctx.case({"op": ln, "real": r, "model": sf, "spec": spec}, ("op", ln), "op:" + m[0])
            if r != sf:
                ctx.disagree(f"operator model vs {m[0]}", f"{ln}: code {r}, Lean model {sf}", {"op": "operator", "line": ln})
            if r != spec:
                if cross:
                    ctx.fail("merge_flattened:crossproduct-elements-reordered",
                             f"_flatten_token_list on {ln}: {r}, standard: {spec}", {"op": "operator", "line": ln})
                else:
                    ctx.fail("operator:" + m[0], f"{ln}: code {r}, standard {spec}", {"op": "operator", "line": ln})

    def _compare(self, ctx: Ctx, d: dict, res: dict, model_line: str | None) -> None:
        sf, ct = res["sf"], res["ct"]
        o1, o2 = C.outcome(sf), C.outcome(ct)
        case = {"op": "doc", "name": d["name"], "doc": d["doc"], "job": d["job"], "features": d.get("features")}
        ctx.case({"doc": d["name"], "features": d.get("features"), "streamflow": o1, "cwltool": o2,
                  "sf_out": sf.get("norm"), "ct_out": ct.get("norm")}, ("doc", json.dumps(d["doc"], sort_keys=True), json.dumps(d["job"], sort_keys=True)),
                 "corpus" if d.get("corpus") else "random")
        ctx.count(f"outcome:{o1}/{o2}")
        key = d.get("key") or ("random:disagreement" if not d.get("corpus") else f"corpus:{d['name']}:disagreement")
        if "timeout" in (o1, o2):   # cannot happen: run_cases_confirmed re-runs such cases alone or ends the check inconclusive
            raise Inconclusive(f"{d['name']}: runner did not finish ({o1}/{o2})")
        if o1 != o2:
            ctx.fail(key, f"{d['name']}: StreamFlow {o1}, cwltool {o2}; sf stderr: {sf['stderr'][-400:]} ct stderr: {ct['stderr'][-300:]}", case)
        elif o1 == "success" and sf["norm"] != ct["norm"]:
            diff = {k: (sf["norm"].get(k), ct["norm"].get(k)) for k in set(sf["norm"]) | set(ct["norm"]) if sf["norm"].get(k) != ct["norm"].get(k)}
            ctx.fail(key, f"{d['name']}: outputs differ (streamflow, cwltool): {json.dumps(diff)[:600]}", case)
        if "expect" in d:
            for who, o, side in (("StreamFlow", o1, sf), ("cwltool", o2, ct)):
                got = "FAIL" if o != "success" else side["norm"].get(d["out"])
                if got != d["expect"] and who == "StreamFlow":
                    ctx.fail(key, f"{d['name']}: StreamFlow gives {got}, the standard {d['expect']}", case)
        # the Lean model / spec on corpus documents
        if model_line is not None:
            spec, sfm = _expected(model_line, d)
            got_sf = "FAIL" if o1 != "success" else sf["norm"].get(d["out"])
            got_ct = "FAIL" if o2 != "success" else ct["norm"].get(d["out"])
            if got_sf != sfm:
                ctx.disagree("operator model vs StreamFlow run", f"{d['name']}: StreamFlow {got_sf}, Lean model {sfm}", case)
            if got_ct != spec:
                ctx.disagree("operator spec vs cwltool run", f"{d['name']}: cwltool {got_ct}, Lean spec {spec}", case)

    def explore(self, ctx: Ctx) -> None:
        C.enable_bytecode_cache()
        self._operator_level(ctx)
        C.warm_up()
        rng = ctx.rng
        corpus = corpus_docs()
        with_line = [d for d in corpus if d["line"] is not None]
        got = dict(zip([d["name"] for d in with_line], ctx.lean("Drivers/C29.lean", [d["line"] for d in with_line])))
        lines = [got.get(d["name"]) for d in corpus]
        cases, by_id = [], {}
        for i, (d, ln) in enumerate(zip(corpus, lines)):
            d["corpus"] = True
            dd = os.path.join(ctx.scratch, f"corpus{ctx.mode}{i}")
            os.makedirs(dd, exist_ok=True)
            json.dump(d["doc"], open(os.path.join(dd, "wf.cwl"), "w"), indent=1)
            json.dump(d["job"], open(os.path.join(dd, "job.json"), "w"))
            by_id[f"c{i}"] = (d, ln)
            cases.append({"id": f"c{i}", "dir": dd, "doc": "wf.cwl", "job": "job.json", "name": "wf", "timeout": 900})
        nrand = {"quick": 6, "thorough": 160}[ctx.tier] * (2 if ctx.mode == "search" else 1)
        for i in range(nrand):
            dd = os.path.join(ctx.scratch, f"rand{ctx.mode}{i}")
            desc = G.gen_workflow(rng, dd, G.SAFE_FEATURES)
            d = {"name": f"random-{i}", "doc": desc["doc"], "job": desc["job"], "features": desc["features"], "key": None}
            by_id[f"r{i}"] = (d, None)
            cases.append({"id": f"r{i}", "dir": dd, "doc": "wf.cwl", "job": "job.json", "name": "wf", "timeout": 900})
        ctx.corpus_replayed += len(corpus)
        done = 0
        chunk = 16
        budget = self.quick_budget_s if ctx.tier == "quick" else self.thorough_budget_s
        for start in range(0, len(cases), chunk):
            # adaptive plan: no new documents once 70 % of the budget is used (the corpus always runs)
            if start >= len(corpus) and ctx.time_left() < 0.3 * budget:
                ctx.notes.append(f"adaptive plan: {len(cases) - start} of {len(cases) - len(corpus)} random documents not run (70% of the budget used)")
                if done < len(corpus) + 4:
                    ctx.extra["incomplete"] = True
                break
            try:
                for case, res in C.run_cases_confirmed(cases[start:start + chunk], time_left=ctx.time_left):
                    d, ln = by_id[case["id"]]
                    done += 1
                    self._compare(ctx, d, res, ln)
            except C.Unconfirmed as e:
                raise Inconclusive(str(e)) from e
        ctx.extra["documents_planned"] = len(cases)
        ctx.extra["documents_run"] = done

    def replay(self, ctx: Ctx, data) -> None:
        r = data.get("replay") or {}
        if r.get("op") == "operator":
            out = ctx.lean("Drivers/C29.lean", [r["line"]])[0]
            print("model:", out)
            return
        if r.get("op") != "doc":
            return super().replay(ctx, data)
        C.warm_up()
        dd = os.path.join(ctx.scratch, "replay")
        os.makedirs(dd, exist_ok=True)
        json.dump(r["doc"], open(os.path.join(dd, "wf.cwl"), "w"), indent=1)
        json.dump(r["job"], open(os.path.join(dd, "job.json"), "w"))
        res = C.run_case({"dir": dd, "doc": "wf.cwl", "job": "job.json", "name": "wf", "timeout": 900})
        print("streamflow:", C.outcome(res["sf"]), json.dumps(res["sf"].get("norm")))
        print("cwltool:   ", C.outcome(res["ct"]), json.dumps(res["ct"].get("norm")))
        if C.outcome(res["sf"]) != C.outcome(res["ct"]) or res["sf"].get("norm") != res["ct"].get("norm"):
            ctx.fail(data.get("key", "doc"), "still differs", r)


PROPERTY = C29()
