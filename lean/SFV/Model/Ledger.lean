import SFV.Gen.SchedGuards
/-! One numeric component of the scheduler's bookkeeping (cores, or memory, or the size of one mount point) over all
locations at once — the part of `DefaultScheduler` that C10/C11 are about, for *every* configuration:

* `reserved ℓ`   : this component of `hardware_locations[ℓ]`;
* `alloc j`      : what `_allocate_job` added for job `j`, one entry `(location, amount)` per level of every selected
                   location (stacked locations and multi-location targets are just longer entry lists);
* `allocate`     : the critical section of `_process_target` when `_is_valid` held for the selected locations
                   (guard: at every entry `reserved + amount ≤ capacity`, checked against the state before the allocation,
                   as the code does);
* `notify`       : `notify_status`: store the status, release (`_free_resources` subtracts the job's amount and adds
                   the measured usage at every entry), clear the job's locations on ROLLBACK.
The status guards are the definitions generated from the source. `residual` is a ghost field (sum of measured usage
added by releases). The table is kept as functions over a duplicate-free id list. -/
namespace SFV.Ledger
open SFV.Gen.Sched

abbrev Loc := Nat
abbrev Job := Nat

/-- the statuses the property calls "fireable or running" -/
def occupying : Status → Bool
  | .fireable | .running => true
  | _ => false

def update {β} (f : Nat → β) (j : Nat) (v : β) : Nat → β := fun k => if k = j then v else f k

/-- total amount a list of entries gives to location `ℓ` -/
def amountAt : List (Loc × Rat) → Loc → Rat
  | [], _ => 0
  | (ℓ', v) :: rest, ℓ => (if ℓ' = ℓ then v else 0) + amountAt rest ℓ

structure St where
  reserved : Loc → Rat
  ids : List Job
  status : Job → Status
  alloc : Job → List (Loc × Rat)
  residual : Loc → Rat

def init : St := { reserved := fun _ => 0, ids := [], status := fun _ => .waiting, alloc := fun _ => [], residual := fun _ => 0 }

inductive Op
  | allocate (j : Job) (entries : List (Loc × Rat))
  | notify (j : Job) (new : Status) (usage : List (Loc × Rat))   -- measured usage per location (0 for cores / memory)

/-- usage applied at the entries of a job: `+ storage_usage` once per entry -/
def usageAt (entries : List (Loc × Rat)) (usage : List (Loc × Rat)) : List (Loc × Rat) :=
  entries.map (fun e => (e.1, amountAt usage e.1))

def step (cap : Loc → Rat) (s : St) : Op → St
  | .allocate j entries =>
      if entries.all (fun e => decide (s.reserved e.1 + e.2 ≤ cap e.1)) then
        { s with reserved := fun ℓ => s.reserved ℓ + amountAt entries ℓ,
                 ids := if j ∈ s.ids then s.ids else j :: s.ids,
                 status := update s.status j allocStatus,
                 alloc := update s.alloc j entries }
      else s
  | .notify j new usage =>
      if j ∈ s.ids then
        let prev := s.status j
        let s1 := if statusStored prev new then { s with status := update s.status j new } else s
        let s2 := if releases prev new then
            { s1 with reserved := fun ℓ => s1.reserved ℓ - amountAt (s.alloc j) ℓ + amountAt (usageAt (s.alloc j) usage) ℓ,
                      residual := fun ℓ => s1.residual ℓ + amountAt (usageAt (s.alloc j) usage) ℓ }
          else s1
        if unlists new then { s2 with alloc := update s2.alloc j [] } else s2
      else s

def run (cap : Loc → Rat) (s : St) : List Op → St
  | [] => s
  | op :: ops => run cap (step cap s op) ops

/-- what the occupying jobs hold on location `ℓ` -/
def contrib (status : Job → Status) (alloc : Job → List (Loc × Rat)) (ℓ : Loc) (j : Job) : Rat :=
  if occupying (status j) then amountAt (alloc j) ℓ else 0

def sumOver (f : Job → Rat) : List Job → Rat
  | [] => 0
  | j :: js => f j + sumOver f js

/-- `Σ_{j occupying} amount of j on ℓ` -/
def occSum (s : St) (ℓ : Loc) : Rat := sumOver (contrib s.status s.alloc ℓ) s.ids

/-- **the engine's protocol** for one operation in state `s`:
    * a notification never moves a non-occupying job to an occupying status (FIREABLE → RUNNING and repetitions of the
      same status are the only notifications with an occupying target);
    * a job is (re-)allocated only while it is not occupying; the selected locations' levels are pairwise different
      locations, amounts and measured usages are not negative. -/
def OpOk (s : St) : Op → Prop
  | .allocate j entries =>
      ¬ (j ∈ s.ids ∧ occupying (s.status j) = true) ∧ (entries.map (·.1)).Nodup ∧ ∀ e ∈ entries, 0 ≤ e.2
  | .notify j new usage =>
      (occupying new = true → (s.status j = .fireable ∧ new = .running) ∨ s.status j = new) ∧ ∀ e ∈ usage, 0 ≤ e.2

/-- every operation of the history respects the protocol in the state it is applied to -/
def HistoryOk (cap : Loc → Rat) : St → List Op → Prop
  | _, [] => True
  | s, op :: ops => OpOk s op ∧ HistoryOk cap (step cap s op) ops

instance (s : St) (op : Op) : Decidable (OpOk s op) := by
  cases op <;> unfold OpOk <;> exact inferInstance

instance decHistoryOk (cap : Loc → Rat) : (s : St) → (ops : List Op) → Decidable (HistoryOk cap s ops)
  | _, [] => isTrue trivial
  | s, op :: ops => by
      unfold HistoryOk
      exact @instDecidableAnd _ _ _ (decHistoryOk cap (step cap s op) ops)

/-- no release of the history measured any usage (the case of cores and memory) -/
def ZeroUsage : List Op → Prop
  | [] => True
  | .allocate _ _ :: ops => ZeroUsage ops
  | .notify _ _ usage :: ops => (∀ e ∈ usage, e.2 = 0) ∧ ZeroUsage ops

end SFV.Ledger
