"""C16 — recovered runs produce the same outputs as failure-free runs."""
from __future__ import annotations

import json
import random
import re

from sfv.framework import Ctx, Property
from sfv.rt import recov
from sfv.rt.par import pmap

PHASES = ["schedule", "transfer", "execute"]
EXC_TYPES = ["ConnectionResetError", "OSError", "ValueError", "TimeoutError"]
K_SHARED = "workflow-fails-below-retry-limit:shared-producer-rolled-back-once-per-consumer-recovery"


def shapes(rng: random.Random, quick: bool) -> list[dict]:
    if quick:
        return [{"kind": "pipeline", "n": rng.choice([1, 2])}, {"kind": "pipeline", "n": rng.choice([3, 4, 5])},
                {"kind": "scatter", "m": rng.choice([1, 2, 3, 4])}, {"kind": "scatter", "m": rng.choice([5, 7])},
                {"kind": "loop", "k": rng.choice([0, 1])}, {"kind": "loop", "k": rng.choice([2, 3, 4])}, {"kind": "diamond"}]
    return ([{"kind": "pipeline", "n": n} for n in range(1, 6)] + [{"kind": "scatter", "m": m} for m in (1, 2, 3, 5, 8, 12)]
            + [{"kind": "loop", "k": k} for k in (0, 1, 2, 4, 6)] + [{"kind": "diamond"}])


def job_universe(shape: dict) -> list[tuple[str, str]]:
    k = shape["kind"]
    if k == "pipeline":
        return [(f"/s{i}", "0") for i in range(shape["n"])]
    if k == "scatter":
        return [("/a", "0")] + [("/b", f"0.{i}") for i in range(shape["m"])] + [("/c", "0")]
    if k == "diamond":
        return [("/a", "0"), ("/b1", "0"), ("/b2", "0"), ("/c", "0")]
    if k == "loop":
        return [("/body", f"0.{i}") for i in range(shape["k"])] + [("/increment", f"0.{i}") for i in range(shape["k"])]
    return []


def plans(rng: random.Random, shape: dict, quick: bool) -> list[list[dict]]:
    jobs = job_universe(shape)
    if not jobs:
        return []
    out = []
    n_single = 2 if quick else 6
    for _ in range(n_single):
        step, tag = rng.choice(jobs)
        kind = rng.choice(["soft", "failstop"])
        entry = {"step": step, "tag": tag, "phase": rng.choice(PHASES), "kind": kind, "count": rng.choice([1, 1, 2, 3])}
        if rng.random() < 0.35:      # the failure surfaces as a non-StreamFlow exception (connector / OS / plugin error)
            entry["exc"] = rng.choice(EXC_TYPES)
        if kind == "failstop" and rng.random() < 0.5 and shape["kind"] in ("pipeline", "scatter", "diamond"):
            idx = jobs.index((step, tag))
            anc = [j for j in jobs[:idx] if shape["kind"] != "scatter" or j[0] != step][-2:]
            entry["lose"] = [[step, tag]] + [list(a) for a in anc]
        out.append([entry])
    # several jobs failing (concurrently in scatter / diamond shapes)
    if len(jobs) >= 3:
        k = rng.randint(2, min(4, len(jobs)))
        picked = rng.sample(jobs, k)
        out.append([{"step": s, "tag": t, "phase": rng.choice(PHASES), "kind": rng.choice(["soft", "failstop"]), "count": rng.choice([1, 2])}
                    for s, t in picked])
    return out


def deps_of(shape: dict, names: list[str]) -> dict[str, list[str]]:
    """provenance between the jobs of a shape, by name"""
    k, d = shape["kind"], {}
    for n in names:
        step, tag = n.rsplit("/", 1)
        if k == "pipeline":
            i = int(step[2:])
            d[n] = [f"/s{i - 1}/0"] if i else []
        elif k == "scatter":
            d[n] = [] if step == "/a" else (["/a/0"] if step == "/b" else sorted(x for x in names if x.startswith("/b/")))
        elif k == "record":
            d[n] = {"/a": [], "/b": ["/a/0"]}[step]
        elif k == "diamond":
            d[n] = {"/a": [], "/b1": ["/a/0"], "/b2": ["/a/0"], "/c": ["/b1/0", "/b2/0"]}[step]
        else:
            it = int(tag.split(".")[-1])
            prev = f"{step}/0.{it - 1}"
            d[n] = [prev] if it and prev in names else []
    return d


def order(shape: dict, names: list[str]) -> list[str]:
    d = deps_of(shape, names)
    out, seen = [], set()

    def visit(n):
        if n in seen:
            return
        seen.add(n)
        for p in d[n]:
            visit(p)
        out.append(n)
    for n in sorted(names):
        visit(n)
    return out


class C16(Property):
    pid = "C16"
    title = "Recovered runs produce the same outputs as failure-free runs"
    lean_targets = ["SFV.Props.C16", "SFV.Model.Proto"]
    props_files = ["SFV/Props/C16.lean"]
    drivers = ["Drivers/C16.lean"]
    translators = []
    rule = ("real workflows built with the repo's RecoveryTranslator (pipelines 1..5, scatter/gather 1..12, loops 0..6, diamond) run with the rollback "
            "failure manager (max_retries 6) and OUR failure injectors: per shape a failure-free reference run, single failure points (job, phase in "
            "schedule/transfer/execute, soft | fail-stop with exactly the named jobs' directories deleted, count 1..3, raised as the repo's "
            "WorkflowExecutionException or as ConnectionResetError / OSError / ValueError / TimeoutError) and several jobs failing at once; "
            "compared: outputs (tags and file contents) with the reference run, all steps COMPLETED, no hang; and the observed sequence of stagings, "
            "executions, losses and failed attempts is replayed on the Lean job-step model (every action must be enabled, available values = "
            "failure-free values). Corpus: the known finding, scatter re-run inside a recovery workflow, and a forced interleaving (event gates) in which "
            "a second recovery attaches to a running one after the shared producer's re-run has emitted its output but before the scheduler sees it "
            "completed (hang = violation), and a producer whose output is a record of three files of which one is lost. Quick: ~7 shapes x 3-4 plans; thorough: 17 shapes x 7 plans.")
    trusted_base = ["recovery harness harness/sfv/rt/recov.py (own injectors; events logged at transfer / execute / deletion)",
                    "the abstract job-step model collapses schedule+transfer+execute, treats data as values and availability as a store; tags, "
                    "boundary rules, `restore` and the data manager are exercised by the real runs only"]
    assumptions = ["each job fails fewer times than the retry limit (counts 1..3, max_retries 6)"]
    technique = "Lean 4 invariant on an abstract deterministic job network (all failure/recovery sequences) + differential real recovery runs against the failure-free run + trace replay on the model"
    level_text = ("grade B, partial: `recovered_outputs_eq_partial` / `recovery_can_complete` / `recovered_run_outputs` proved on the abstract job-step model "
                  "for every failure and recovery sequence; that the engine's recovery is such a sequence is validated on real runs")
    level_note = "Lean kernel; the real recovery machinery (workflow reconstruction, inter-workflow ports, restore) is a runtime layer validated differentially"
    quick_budget_s = 2400        # room for one confirmation re-run of a timed-out case (5x its bound), see recov.run_confirmed
    thorough_budget_s = 6000
    min_nontrivial = 8

    def explore(self, ctx: Ctx) -> None:
        rng = ctx.rng
        quick = ctx.tier == "quick" and ctx.mode != "search"
        cases = []
        for sh in shapes(rng, quick):
            tagname = json.dumps(sh, sort_keys=True)
            cases.append({"name": f"ref {tagname}", "shape": sh, "plan": [], "max_retries": 6, "ref": True})
            for i, pl in enumerate(plans(rng, sh, quick)):
                cases.append({"name": f"{tagname} plan{i} {json.dumps(pl)}", "shape": sh, "plan": pl, "max_retries": 6})
        # corpus: the known finding (a producer shared by >= max_retries consumers, lost once)
        sh6 = {"kind": "scatter", "m": 6}
        if not any(c["shape"] == sh6 and c.get("ref") for c in cases):
            cases.append({"name": f"ref {json.dumps(sh6, sort_keys=True)}", "shape": sh6, "plan": [], "max_retries": 6, "ref": True})
        cases.append({"name": "corpus scatter6 one fail-stop transfer failure of b/0.0 deleting a", "shape": sh6, "max_retries": 6,
                      "plan": [{"step": "/b", "tag": "0.0", "phase": "transfer", "kind": "failstop", "count": 1, "lose": [["/b", "0.0"], ["/a", "0"]]}]})
        # corpus: a scatter (and its producer) re-run INSIDE a recovery workflow — exercises ScatterStep.restore(on_tokens=…)
        sh3 = {"kind": "scatter", "m": 3}
        if not any(c["shape"] == sh3 and c.get("ref") for c in cases):
            cases.append({"name": f"ref {json.dumps(sh3, sort_keys=True)}", "shape": sh3, "plan": [], "max_retries": 6, "ref": True})
        for ph in ("execute", "transfer"):
            cases.append({"name": f"corpus scatter3 fail-stop {ph} failure of b/0.1 deleting a (scatter re-run in the recovery workflow)",
                          "shape": sh3, "max_retries": 6,
                          "plan": [{"step": "/b", "tag": "0.1", "phase": ph, "kind": "failstop", "count": 1, "lose": [["/b", "0.1"], ["/a", "0"]]}]})
        # corpus: forced interleaving (gates of the harness) — b1's fail-stop failure loses a; the re-run of a has ALREADY put its output into
        # the port of the first recovery workflow but the scheduler does not yet see it COMPLETED when b2 fails: b2's recovery attaches to the
        # running recovery and must be handed the token that is already in the port (InterWorkflowPort.add_inter_port replays the port)
        shd = {"kind": "diamond"}
        if not any(c["shape"] == shd and c.get("ref") for c in cases):
            cases.append({"name": f"ref {json.dumps(shd, sort_keys=True)}", "shape": shd, "plan": [], "max_retries": 6, "ref": True})
        for b2kind in (["soft"] if quick else ["soft", "failstop"]):
            cases.append({"name": f"corpus diamond b2 fails ({b2kind}) after the re-run of a emitted its output, before it is seen COMPLETED (attach to a filled port)",
                          "shape": shd, "max_retries": 6, "trace_fm": True, "timeout": 45,
                          "plan": [{"step": "/b1", "tag": "0", "phase": "execute", "kind": "failstop", "count": 1, "lose": [["/b1", "0"], ["/a", "0"]]},
                                   {"step": "/b2", "tag": "0", "phase": "execute", "kind": b2kind, "count": 1}],
                          "gates": [{"job": "/b2/0", "attempt": 1, "wait": "a-emitted-again", "timeout": 30},
                                    {"job": "/a/0", "attempt": 2, "phase": "completed", "signal": "a-emitted-again", "wait": "synced:/b2/0",
                                     "timeout": 30}]})
        # corpus: failures that surface as NON-StreamFlow exceptions in each phase (the `recoverable` wrapper must hand every Exception to the
        # failure manager, not only WorkflowException): one failure, retry limit 5 => the run completes with the failure-free outputs
        shp = {"kind": "pipeline", "n": 3}
        if not any(c["shape"] == shp and c.get("ref") for c in cases):
            cases.append({"name": f"ref {json.dumps(shp, sort_keys=True)}", "shape": shp, "plan": [], "max_retries": 6, "ref": True})
        for ph, exc in zip(PHASES, ["ValueError", "OSError", "ConnectionResetError"]):
            cases.append({"name": f"corpus pipeline3 {ph} failure of s1 raising {exc}", "shape": shp, "max_retries": 5,
                          "plan": [{"step": "/s1", "tag": "0", "phase": ph, "kind": "soft", "count": 1, "exc": exc}]})
        # corpus: a's output is a RECORD (ObjectToken) of three files; b (which reads field f1) fails once fail-stop, losing its own
        # directories and ONE file of the record: the record is lost as a whole (every field must be available), a must be re-run
        shr = {"kind": "record"}
        cases.append({"name": f"ref {json.dumps(shr, sort_keys=True)}", "shape": shr, "plan": [], "max_retries": 6, "ref": True})
        for lost in ([["rec-f1"], ["rec-f0", "rec-f1", "rec-f2"]] if quick else [["rec-f0"], ["rec-f1"], ["rec-f2"], ["rec-f0", "rec-f1", "rec-f2"]]):
            # (the record is MIXED: three files and the integer field `threshold`, which always survives)
            cases.append({"name": f"corpus mixed record (3 files + int): b fails fail-stop, {'+'.join(lost)} of a's record lost", "shape": shr,
                          "max_retries": 4, "timeout": 90,
                          "plan": [{"step": "/b", "tag": "0", "phase": "execute", "kind": "failstop", "count": 1, "lose": [["/b", "0"]],
                                    "lose_files": [["/a", "0", f] for f in lost]}]})
        results = {}
        for case, status, r in recov.run_cases(cases, timeout=300, workers=6, ctx=ctx):
            results[case["name"]] = (case, status, r)
        lines, meta = [], []
        for name, (case, status, r) in results.items():
            replay = {"recovery": case}
            if status != "ok":
                ctx.fail("run:" + status, f"{name}: {str(r)[:300]}", replay)
                continue
            ctx.case({"case": name[:160], "outcome": r["outcome"], "attempts": r.get("attempts")}, ("c", name),
                     case["shape"]["kind"] + (":ref" if case.get("ref") else ":faults"))
            if r["outcome"] != "ok":
                # a producer that never failed itself reached max_retries because every consumer's recovery rolled it back again
                injected_jobs = {j for j, _, _ in r.get("injected", [])}
                limit = case.get("max_retries")
                worn = [j for j, v in r.get("versions", {}).items() if limit and v >= limit and j not in injected_jobs
                        and [e[0] for e in r.get("events", []) if e[1] == j].count("exec") - 1
                        > sum(1 for k, (a, b) in enumerate(zip([None] + [e[0] for e in r["events"] if e[1] == j], [e[0] for e in r["events"] if e[1] == j]))
                              if b == "lose" and a != "lose")]
                if r["outcome"].startswith("exc:") and worn:
                    ctx.fail(K_SHARED, f"{name}: the workflow failed although no job failed {limit} times: {worn} reached version {limit} — "
                             f"executed {[r['attempts'].get(j) for j in worn]} times for {[[e[0] for e in r['events'] if e[1] == j].count('lose') for j in worn]} "
                             f"loss(es) of its data, rolled back once per consumer recovery", replay)
                else:
                    ctx.fail(f"run:{r['outcome']}", f"{name}: {r.get('msg', '')[:300]}", replay)
                continue
            bad = {s: st for s, st in r["statuses"].items() if st not in ("COMPLETED", "SKIPPED")}
            if bad:
                ctx.fail("step-not-completed", f"{name}: {bad}", replay)
            if not case.get("ref"):
                refname = f"ref {json.dumps(case['shape'], sort_keys=True)}"
                ref = results.get(refname)
                if ref and ref[1] == "ok" and ref[2]["outcome"] == "ok":
                    if ref[2]["outputs"] != r["outputs"]:
                        ctx.fail("outputs-differ-from-failure-free-run", f"{name}: outputs {json.dumps(r['outputs'])[:300]} vs failure-free "
                                 f"{json.dumps(ref[2]['outputs'])[:300]}", replay)
                if r["plan_left"] and not case.get("ref"):
                    ctx.count("plan-not-fully-consumed")
            # replay the observed sequence on the model
            names = sorted(r["jobs"])
            if not names:
                continue
            ordn = order(case["shape"], names)
            idx = {n: i for i, n in enumerate(ordn)}
            d = deps_of(case["shape"], names)
            deps = " ".join(f"{idx[n]}:{','.join(str(idx[p]) for p in d[n])}" for n in ordn if d[n]) or "-"
            acts = []
            staged = set()
            for kind, job in r["events"]:
                if job not in idx:
                    continue
                j = idx[job]
                if kind == "stage":
                    acts.append(f"s{j}"); staged.add(j)
                elif kind == "exec":
                    if j not in staged:       # a job without input ports to transfer (none here) / first stage implied
                        acts.append(f"s{j}")
                    acts.append(f"e{j}")
                elif kind == "lose":
                    acts.append(f"l{j}"); staged.discard(j)
                elif kind == "fail":
                    acts.append(f"x{j}")
            lines.append(f"run {len(ordn)} | {deps} | {' '.join(acts) or 'x0'}")
            meta.append((case, r, len(ordn)))
        got = ctx.lean("Drivers/C16.lean", lines)
        for g, (case, r, n) in zip(got, meta):
            g = g.strip()
            if g.startswith("disabled"):
                i = int(g.split()[1])
                ctx.disagree("real recovery is not a run of the job-step model",
                             f"{case['name'][:200]}: action #{i} of the observed sequence is not enabled in the model (a job was staged/executed "
                             f"while a dependency was unavailable?); events {r['events'][:40]}", {"recovery": case})
            elif "agree=1" not in g:
                ctx.disagree("job-step model", f"{case['name'][:200]}: model values differ from the failure-free values: {g}", {"recovery": case})
            else:
                present = g.split("present=")[1].split(" ")[0]
                if len([x for x in present.split(",") if x]) != n:
                    ctx.disagree("job-step model", f"{case['name'][:200]}: the run completed but the model has not all outputs available: {g}",
                                 {"recovery": case})

    def replay(self, ctx: Ctx, data) -> None:
        rr = data.get("replay") or (data.get("no_longer_checks") or [{}])[0].get("case") or {}
        if "recovery" not in rr:
            return super().replay(ctx, data)
        case = rr["recovery"]
        r = recov.run_case(case)
        ref = recov.run_case(dict(case, plan=[]))
        print(json.dumps({k: r.get(k) for k in ("outcome", "msg", "outputs", "attempts", "injected", "deleted", "events")}, indent=1, default=str)[:6000])
        print("failure-free outputs:", json.dumps(ref.get("outputs"))[:2000])
        if r["outcome"] != "ok":
            ctx.fail(f"run:{r['outcome']}", r.get("msg", ""), rr)
        elif r["outputs"] != ref.get("outputs"):
            ctx.fail("outputs-differ-from-failure-free-run", "still differs", rr)


PROPERTY = C16()
