import SFV.Lemmas.JsDepsTop
/-! C31: on the handled fragment the listener never raises (the analysis is defined). -/
namespace SFV.JsDeps
open Frag

theorem bind_ok_intro {α β ε : Type} {x : Except ε α} {f : α → Except ε β} {a : α} {b : β}
    (h1 : x = .ok a) (h2 : f a = .ok b) : (x >>= f) = .ok b := by
  subst h1; exact h2

/-- value-position expressions are listened to without an exception (and without a change of names) -/
theorem pure_listen_ok (f : Names → List String → Js → Bool)
    (hf : ∀ nb ps body, f nb ps body = true → ∃ ks, listen nb body = .ok (nb, ks)) :
    ∀ (e : Js) (n : Names) (loc : List String) (top : Bool),
      pureOk n loc top f e = true → ∃ ks, listen n e = .ok (n, ks) := by
  intro e
  induction e with
  | num m => intro n loc top _; exact ⟨[], by simp [listen]⟩
  | str m => intro n loc top _; exact ⟨[], by simp [listen]⟩
  | ident m => intro n loc top _; exact ⟨[], by simp [listen]⟩
  | skip => intro n loc top _; exact ⟨[], by simp [listen]⟩
  | dot e k ih =>
    intro n loc top hp
    simp only [pureOk] at hp
    have h1 : ∃ k1, listen n e = .ok (n, k1) := by
      cases hn : nameOf e with
      | some x => have := nameOf_some hn; subst this; exact ⟨[], by simp [listen]⟩
      | none => rw [hn] at hp; exact ih n loc top hp
    obtain ⟨k1, h1⟩ := h1
    exact ⟨_, by simp only [listen]; exact bind_ok_intro h1 rfl⟩
  | idx e i ih1 ih2 =>
    intro n loc top hp
    simp only [pureOk] at hp
    have key : (∃ k0, idxKeys n e i = .ok k0) ∧ (∃ k1, listen n e = .ok (n, k1)) ∧ (∃ k2, listen n i = .ok (n, k2)) := by
      cases hn : nameOf e with
      | some x =>
        have := nameOf_some hn; subst this
        simp only [nameOf] at hp
        refine ⟨?_, ⟨[], by simp [listen]⟩, ?_⟩
        · simp only [idxKeys, nameOf]
          by_cases hg : n.isGlobal x = true
          · simp only [hg, if_true]
            by_cases hc : loc.contains x = true
            · simp only [hc, if_true, hg, Bool.and_eq_true] at hp
              cases i <;> simp at hp
              exact ⟨_, rfl⟩
            · have hc' : loc.contains x = false := by simpa using hc
              simp only [hc', Bool.false_eq_true, if_false, hg, if_true] at hp
              cases i <;> simp at hp
              exact ⟨_, rfl⟩
          · have hg' : n.isGlobal x = false := by simpa using hg
            simp only [hg', Bool.false_eq_true, if_false]; exact ⟨_, rfl⟩
        · by_cases hc : loc.contains x = true
          · simp only [hc, if_true, Bool.and_eq_true] at hp; exact ih2 n loc top hp.2
          · have hc' : loc.contains x = false := by simpa using hc
            simp only [hc', Bool.false_eq_true, if_false] at hp
            by_cases hg : n.isGlobal x = true
            · simp only [hg, if_true] at hp
              cases i <;> simp at hp
              exact ⟨[], by simp [listen]⟩
            · have hg' : n.isGlobal x = false := by simpa using hg
              simp only [hg', Bool.false_eq_true, if_false, Bool.and_eq_true] at hp
              exact ih2 n loc top hp.2
      | none =>
        rw [hn] at hp; simp only [Bool.and_eq_true] at hp
        exact ⟨⟨[], by simp [idxKeys, hn]⟩, ih1 n loc top hp.1, ih2 n loc top hp.2⟩
    obtain ⟨⟨k0, h0⟩, ⟨k1, h1⟩, ⟨k2, h2⟩⟩ := key
    exact ⟨_, by simp only [listen]; exact bind_ok_intro h0 (bind_ok_intro h1 (bind_ok_intro h2 rfl))⟩
  | paren e ih => intro n loc top hp; simp only [pureOk] at hp; simp only [listen]; exact ih n loc top hp
  | bin a b ih1 ih2 =>
    intro n loc top hp
    simp only [pureOk, Bool.and_eq_true] at hp
    obtain ⟨k1, h1⟩ := ih1 n loc top hp.1
    obtain ⟨k2, h2⟩ := ih2 n loc top hp.2
    exact ⟨_, by simp only [listen]; exact bind_ok_intro h1 (bind_ok_intro h2 rfl)⟩
  | seq a b ih1 ih2 =>
    intro n loc top hp
    simp only [pureOk, Bool.and_eq_true] at hp
    obtain ⟨k1, h1⟩ := ih1 n loc top hp.1
    obtain ⟨k2, h2⟩ := ih2 n loc top hp.2
    exact ⟨_, by simp only [listen]; exact bind_ok_intro h1 (bind_ok_intro h2 rfl)⟩
  | call a b ih1 ih2 =>
    intro n loc top hp
    simp only [pureOk, Bool.and_eq_true] at hp
    obtain ⟨k1, h1⟩ := ih1 n loc top hp.1.2
    obtain ⟨k2, h2⟩ := ih2 n loc top hp.2
    exact ⟨_, by simp only [listen]; exact bind_ok_intro h1 (bind_ok_intro h2 rfl)⟩
  | cond c a b ih1 ih2 ih3 =>
    intro n loc top hp
    simp only [pureOk, Bool.and_eq_true] at hp
    obtain ⟨k1, h1⟩ := ih1 n loc top hp.1.1
    obtain ⟨k2, h2⟩ := ih2 n loc top hp.1.2
    obtain ⟨k3, h3⟩ := ih3 n loc top hp.2
    exact ⟨_, by simp only [listen]; exact bind_ok_intro h1 (bind_ok_intro h2 (bind_ok_intro h3 rfl))⟩
  | fexpr ps body ih =>
    intro n loc top hp
    simp only [pureOk, Bool.and_eq_true] at hp
    simp only [listen]
    exact hf n ps body hp.2
  | _ => intro n loc top hp; simp [pureOk] at hp

theorem pure_listen_ok_false {n loc e} (hp : pureOk n loc false (fun _ _ _ => false) e = true) :
    ∃ ks, listen n e = .ok (n, ks) :=
  pure_listen_ok _ (by intro _ _ _ h; simp at h) e n loc false hp

theorem body_listen_ok : ∀ (s : Js) (nb : Names) (loc : List String),
    bodyOk nb loc s = true → ∃ ks, listen nb s = .ok (nb, ks) := by
  intro s
  induction s with
  | skip => intro nb loc _; exact ⟨[], by simp [listen]⟩
  | varDecl x => intro nb loc _; exact ⟨[], by simp [listen]⟩
  | varInit x e _ => intro nb loc hb; simp only [bodyOk] at hb; simp only [listen]; exact pure_listen_ok_false hb
  | ret e _ => intro nb loc hb; simp only [bodyOk] at hb; simp only [listen]; exact pure_listen_ok_false hb
  | assign x e _ =>
    intro nb loc hb
    simp only [bodyOk, Bool.and_eq_true] at hb
    obtain ⟨ks, h1⟩ := pure_listen_ok_false hb.1.2
    cases h0 : onAssign nb x e with
    | error err => rw [h0] at hb; simp at hb
    | ok n0 =>
      have := onAssign_same hb.2 h0; subst this
      exact ⟨ks, by simp only [listen]; exact bind_ok_intro h0 h1⟩
  | ite c t e _ iht ihe =>
    intro nb loc hb
    simp only [bodyOk, Bool.and_eq_true] at hb
    obtain ⟨k1, h1⟩ := pure_listen_ok_false hb.1.1
    obtain ⟨k2, h2⟩ := iht nb loc hb.1.2
    obtain ⟨k3, h3⟩ := ihe nb loc hb.2
    exact ⟨_, by simp only [listen]; exact bind_ok_intro h1 (bind_ok_intro h2 (bind_ok_intro h3 rfl))⟩
  | seq a b iha ihb =>
    intro nb loc hb
    obtain ⟨hba, hbb⟩ := bodyOk_seq hb
    obtain ⟨k1, h1⟩ := iha nb loc hba
    obtain ⟨k2, h2⟩ := ihb nb _ hbb
    exact ⟨_, by simp only [listen]; exact bind_ok_intro h1 (bind_ok_intro h2 rfl)⟩
  | fdecl f ps b _ => intro nb loc hb; simp [bodyOk] at hb
  | fexpr ps b _ => intro nb loc hb; simp [bodyOk] at hb
  | call f a _ _ => intro nb loc hb; simp [bodyOk] at hb
  | num m => intro nb loc hb; simp only [bodyOk] at hb; exact pure_listen_ok_false hb
  | str m => intro nb loc hb; simp only [bodyOk] at hb; exact pure_listen_ok_false hb
  | ident m => intro nb loc hb; simp only [bodyOk] at hb; exact pure_listen_ok_false hb
  | dot a k _ => intro nb loc hb; simp only [bodyOk] at hb; exact pure_listen_ok_false hb
  | idx a i _ _ => intro nb loc hb; simp only [bodyOk] at hb; exact pure_listen_ok_false hb
  | paren a _ => intro nb loc hb; simp only [bodyOk] at hb; exact pure_listen_ok_false hb
  | bin a c _ _ => intro nb loc hb; simp only [bodyOk] at hb; exact pure_listen_ok_false hb
  | cond a c d _ _ _ => intro nb loc hb; simp only [bodyOk] at hb; exact pure_listen_ok_false hb

theorem pure_listen_ok_top {n loc top e} (hp : pureOk n loc top bodyOk e = true) :
    ∃ ks, listen n e = .ok (n, ks) :=
  pure_listen_ok bodyOk (fun nb ps body h => body_listen_ok body nb ps h) e n loc top hp

theorem onAssign_ok_top {n : Names} (hin : n.inner = []) (x : String) (e : Js) : ∃ n0, onAssign n x e = .ok n0 := by
  unfold onAssign
  by_cases hx : n.has x = true
  · simp only [hx, if_true]
    cases nameOf e with
    | none => exact ⟨_, rfl⟩
    | some y =>
      simp only
      by_cases hy : n.has y = true
      · simp only [hy, if_true]; exact ⟨_, rfl⟩
      · have hy' : n.has y = false := by simpa using hy
        simp only [hy', Bool.false_eq_true, if_false]
        unfold Names.del
        rw [hin]
        simp only
        have : n.glob.contains x = true := by rw [← has_of_inner_nil hin]; exact hx
        rw [if_pos this]; exact ⟨_, rfl⟩
  · have hx' : n.has x = false := by simpa using hx
    simp only [hx', Bool.false_eq_true, if_false]
    cases nameOf e with
    | none => exact ⟨_, rfl⟩
    | some y => simp only; split <;> exact ⟨_, rfl⟩

/-- the listener raises no exception on a handled statement list -/
theorem top_listen_ok : ∀ (s : Js) (cnd : Bool) (n : Names), topOk cnd n s = true → n.inner = [] →
    ∃ n' ks, listen n s = .ok (n', ks) := by
  intro s
  induction s with
  | skip => intro cnd n _ _; exact ⟨n, [], by simp [listen]⟩
  | varDecl x => intro cnd n _ _; exact ⟨n, [], by simp [listen]⟩
  | varInit x e _ =>
    intro cnd n h _; simp only [topOk, pureTop] at h
    obtain ⟨ks, h1⟩ := pure_listen_ok_top h; exact ⟨n, ks, by simp only [listen]; exact h1⟩
  | ret e _ =>
    intro cnd n h _; simp only [topOk, pureTop] at h
    obtain ⟨ks, h1⟩ := pure_listen_ok_top h; exact ⟨n, ks, by simp only [listen]; exact h1⟩
  | assign x e _ =>
    intro cnd n h hin
    obtain ⟨n0, h0⟩ := onAssign_ok_top hin x e
    cases hn : nameOf e with
    | some y =>
      have := nameOf_some hn; subst this
      exact ⟨n0, [], by simp only [listen]; exact bind_ok_intro h0 (by simp [listen])⟩
    | none =>
      have := (onAssign_top hin h0).2.2.2.2 hn; subst this
      obtain ⟨ks, h1⟩ := pure_listen_ok_top (topOk_assign_pure hn h)
      exact ⟨n0, ks, by simp only [listen]; exact bind_ok_intro h0 h1⟩
  | ite c t e _ iht ihe =>
    intro cnd n h hin
    simp only [topOk, Bool.and_eq_true, pureTop] at h
    obtain ⟨k1, h1⟩ := pure_listen_ok_top h.1.1
    obtain ⟨n2, k2, h2⟩ := iht true n h.1.2 hin
    rw [h2] at h
    obtain ⟨hi2, _⟩ := top_names t true n n2 k2 h.1.2 hin h2
    obtain ⟨n3, k3, h3⟩ := ihe true n2 h.2 hi2
    exact ⟨n3, _, by simp only [listen]; exact bind_ok_intro h1 (bind_ok_intro h2 (bind_ok_intro h3 rfl))⟩
  | seq a b iha ihb =>
    intro cnd n h hin
    simp only [topOk, Bool.and_eq_true] at h
    obtain ⟨n1, k1, h1⟩ := iha cnd n h.1 hin
    rw [h1] at h
    obtain ⟨hi1, _⟩ := top_names a cnd n n1 k1 h.1 hin h1
    obtain ⟨n2, k2, h2⟩ := ihb cnd n1 h.2 hi1
    exact ⟨n2, _, by simp only [listen]; exact bind_ok_intro h1 (bind_ok_intro h2 rfl)⟩
  | fdecl f ps body _ =>
    intro cnd n h _
    simp only [topOk] at h
    obtain ⟨ks, h1⟩ := body_listen_ok body _ ps h
    exact ⟨_, ks, by simp only [listen]; exact bind_ok_intro h1 rfl⟩
  | num m => intro cnd n h _; simp only [topOk, pureTop] at h; obtain ⟨ks, h1⟩ := pure_listen_ok_top h; exact ⟨n, ks, h1⟩
  | str m => intro cnd n h _; simp only [topOk, pureTop] at h; obtain ⟨ks, h1⟩ := pure_listen_ok_top h; exact ⟨n, ks, h1⟩
  | ident m => intro cnd n h _; simp only [topOk, pureTop] at h; obtain ⟨ks, h1⟩ := pure_listen_ok_top h; exact ⟨n, ks, h1⟩
  | dot a k _ => intro cnd n h _; simp only [topOk, pureTop] at h; obtain ⟨ks, h1⟩ := pure_listen_ok_top h; exact ⟨n, ks, h1⟩
  | idx a i _ _ => intro cnd n h _; simp only [topOk, pureTop] at h; obtain ⟨ks, h1⟩ := pure_listen_ok_top h; exact ⟨n, ks, h1⟩
  | paren a _ => intro cnd n h _; simp only [topOk, pureTop] at h; obtain ⟨ks, h1⟩ := pure_listen_ok_top h; exact ⟨n, ks, h1⟩
  | bin a c _ _ => intro cnd n h _; simp only [topOk, pureTop] at h; obtain ⟨ks, h1⟩ := pure_listen_ok_top h; exact ⟨n, ks, h1⟩
  | cond a c d _ _ _ => intro cnd n h _; simp only [topOk, pureTop] at h; obtain ⟨ks, h1⟩ := pure_listen_ok_top h; exact ⟨n, ks, h1⟩
  | call a c _ _ => intro cnd n h _; simp only [topOk, pureTop] at h; obtain ⟨ks, h1⟩ := pure_listen_ok_top h; exact ⟨n, ks, h1⟩
  | fexpr ps c _ => intro cnd n h _; simp only [topOk, pureTop] at h; obtain ⟨ks, h1⟩ := pure_listen_ok_top h; exact ⟨n, ks, h1⟩

end SFV.JsDeps
