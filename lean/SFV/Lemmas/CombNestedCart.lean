import SFV.Lemmas.CombNested
/-! Nested shape `dot[cart₁[p0 … p(Pi-1)], plain ports …]`: the derived element stream is, up to order, a
    function of the input stream, well formed and admissible — so `nested_any_order_partial` applies. -/
namespace SFV.Comb
open SFV

/-! ### generic list facts -/

theorem nodup_cartConfigs {l : List (Nat × List Elem)} (h : ∀ x ∈ l, x.2.Nodup) : (cartConfigs l).Nodup := by
  induction l with
  | nil => simp [cartConfigs]
  | cons x r ih =>
    obtain ⟨k, vs⟩ := x
    have hvs : vs.Nodup := h (k, vs) (by simp)
    have hr := ih (fun y hy => h y (List.mem_cons_of_mem _ hy))
    simp only [cartConfigs]
    apply List.pairwise_flatMap.mpr
    constructor
    · intro v _
      exact List.Pairwise.map _ (fun a b hab e => hab (by simpa using e)) hr
    · refine hvs.imp ?_
      intro v v' hne x hx y hy
      simp only [List.mem_map] at hx hy
      obtain ⟨c, _, rfl⟩ := hx
      obtain ⟨c', _, rfl⟩ := hy
      intro e
      simp only [List.cons.injEq, Prod.mk.injEq, true_and] at e
      exact hne e.1

theorem mapM_eq_some_filterMap {α β : Type} (f : α → Option β) : ∀ (l : List α) (σ : List β),
    l.mapM f = some σ → σ = l.filterMap f ∧ ∀ a ∈ l, (f a).isSome := by
  intro l
  induction l with
  | nil => intro σ h; simp at h; subst h; simp
  | cons a l ih =>
    intro σ h
    rw [List.mapM_cons] at h
    cases hf : f a with
    | none => simp [hf] at h
    | some b =>
      cases hm : l.mapM f with
      | none => simp [hf, hm] at h
      | some bs =>
        simp [hf, hm] at h
        obtain ⟨h1, h2⟩ := ih bs hm
        subst h
        refine ⟨by simp [List.filterMap_cons, hf, h1], ?_⟩
        intro x hx
        rcases List.mem_cons.mp hx with rfl | hx
        · simp [hf]
        · exact h2 x hx

theorem filterMap_fst_eq {β : Type} (l : List Nat) (f : Nat → Option (Nat × β))
    (h : ∀ k ∈ l, ∃ y, f k = some y ∧ y.1 = k) : (l.filterMap f).map (·.1) = l := by
  induction l with
  | nil => rfl
  | cons a l ih =>
    obtain ⟨y, hy, hy1⟩ := h a (by simp)
    simp only [List.filterMap_cons, hy, List.map_cons, hy1]
    rw [ih (fun k hk => h k (List.mem_cons_of_mem _ hk))]

/-! ### the configurations of a canonical cell -/

/-- the tokens of a configuration of flat elements -/
def unlift (cfg : Cfg) : List (Nat × Tok) := cfg.filterMap (fun y => y.2.toks.head?)

/-- every entry of the configuration is a received token of its own port, filed under key `κ` -/
def CfgIn (depth : Nat) (S : List Ev) (κ : Tag) (cfg : Cfg) : Prop :=
  ∀ y ∈ cfg, ∃ t, y.2 = Elem.ofTok y.1 t ∧ (y.1, t) ∈ S ∧ cartKey depth t.tag = κ

theorem mem_canon_cfg {depth Pi : Nat} {S : List Ev} {κ : Tag} {cfg : Cfg}
    (h : cfg ∈ cartConfigs (canonCell depth Pi S κ)) :
    cfg.map (·.1) = List.range Pi ∧ CfgIn depth S κ cfg := by
  constructor
  · rw [keys_of_mem_cartConfigs h]
    simp [canonCell, List.map_map, Function.comp_def]
  · intro y hy
    obtain ⟨x, hx, hx1, hx2⟩ := elems_of_mem_cartConfigs h y hy
    simp only [canonCell, List.mem_map, List.mem_range] at hx
    obtain ⟨q, _, rfl⟩ := hx
    simp only at hx1 hx2
    simp only [bucket, List.mem_map, List.mem_filter, decide_eq_true_eq] at hx2
    obtain ⟨e, ⟨he, he1, he2⟩, heq⟩ := hx2
    refine ⟨e.2, ?_, ?_, he2⟩
    · rw [← heq, ← hx1, he1]
    · rw [← hx1, ← he1]; exact he

theorem unlift_cons_flat (k : Nat) (t : Tok) (cfg : Cfg) :
    unlift ((k, Elem.ofTok k t) :: cfg) = (k, t) :: unlift cfg := by
  simp [unlift, Elem.ofTok]

theorem unlift_props {depth : Nat} {S : List Ev} {κ : Tag} : ∀ {cfg : Cfg}, CfgIn depth S κ cfg →
    (unlift cfg).map (·.1) = cfg.map (·.1) ∧
    (∀ z ∈ unlift cfg, z ∈ S ∧ cartKey depth z.2.tag = κ) ∧
    (unlift cfg).map (fun z => (z.1, Elem.ofTok z.1 z.2)) = cfg ∧
    cfg.mapM (fun y => y.2.toks.head?) = some (unlift cfg) := by
  intro cfg
  induction cfg with
  | nil => intro _; simp [unlift]
  | cons y r ih =>
    intro h
    obtain ⟨t, h1, h2, h3⟩ := h y (by simp)
    obtain ⟨i1, i2, i3, i4⟩ := ih (fun z hz => h z (List.mem_cons_of_mem _ hz))
    obtain ⟨k, el⟩ := y
    simp only at h1 h2 h3
    subst h1
    rw [unlift_cons_flat]
    refine ⟨by simp [i1], ?_, by simp [i3], ?_⟩
    · intro z hz
      rcases List.mem_cons.mp hz with rfl | hz
      · exact ⟨h2, h3⟩
      · exact i2 z hz
    · rw [List.mapM_cons, i4]
      simp [Elem.ofTok]

theorem mapM_congr_mem {α β : Type} {f g : α → Option β} : ∀ {l : List α}, (∀ a ∈ l, f a = g a) →
    l.mapM f = l.mapM g := by
  intro l
  induction l with
  | nil => intro _; rfl
  | cons a l ih =>
    intro h
    rw [List.mapM_cons, List.mapM_cons, h a (by simp), ih (fun b hb => h b (List.mem_cons_of_mem _ hb))]

theorem lookup_of_mem_nodup {β : Type} {l : List (Nat × β)} (hnd : (l.map (·.1)).Nodup) {y : Nat × β} (hy : y ∈ l) :
    l.lookup y.1 = some y.2 := by
  induction l with
  | nil => cases hy
  | cons x r ih =>
    obtain ⟨q, v⟩ := x
    simp only [List.map_cons, List.nodup_cons] at hnd
    rcases List.mem_cons.mp hy with rfl | hy'
    · simp [List.lookup]
    · have hne : y.1 ≠ q := fun e => hnd.1 (e ▸ List.mem_map.mpr ⟨y, hy', rfl⟩)
      have hb : (y.1 == q) = false := by simpa using hne
      simp only [List.lookup, hb]
      exact ih hnd.2 hy'

/-- on a configuration in item order, `for key in self.items: schema[key] = config[key]` just reads the entries -/
theorem cartSchema_in_order {items : List Nat} {cfg : Cfg} (hk : cfg.map (·.1) = items) (hnd : items.Nodup) :
    cartSchema items cfg = cfg.mapM (fun y => y.2.toks.head?) := by
  unfold cartSchema
  rw [← hk, List.mapM_map]
  apply mapM_congr_mem
  intro y hy
  simp only [Function.comp]
  rw [lookup_of_mem_nodup (by rw [hk]; exact hnd) hy]
  rfl

theorem rcfgs_canon {depth Pi : Nat} (S : List Ev) (κ : Tag) :
    rcfgs (cartSchema (List.range Pi)) (canonCell depth Pi S κ) =
      (cartConfigs (canonCell depth Pi S κ)).map unlift := by
  unfold rcfgs
  rw [← List.filterMap_eq_map]
  apply CF.filterMap_congr'
  intro cfg hcfg
  obtain ⟨h1, h2⟩ := mem_canon_cfg hcfg
  rw [cartSchema_in_order h1 List.nodup_range, (unlift_props h2).2.2.2]
  rfl

/-! ### the specified schemas of a depth-1 cartesian product, analysed -/

/-- the specified configurations before retagging -/
def preCart (depth Pi : Nat) (S : List Ev) : List (List (Nat × Tok)) :=
  (dedup (S.map (fun e => cartKey depth e.2.tag))).flatMap
    (fun κ => (cartConfigs (canonCell depth Pi S κ)).map unlift)

theorem specCart_eq_pre (depth Pi : Nat) (S : List Ev) : specCart depth Pi S = (preCart depth Pi S).map specRetag := by
  unfold specCart preCart
  have hkk : (fun e : Ev => specKey depth e.2.tag) = (fun e : Ev => cartKey depth e.2.tag) := by
    funext e; exact (cartKey_eq_specKey depth e.2.tag).symm
  rw [hkk]
  congr 1
  apply flatMap_congr'
  intro κ _
  exact rcfgs_canon S κ

theorem mem_preCart {depth Pi : Nat} {S : List Ev} {σ : List (Nat × Tok)} (h : σ ∈ preCart depth Pi S) :
    ∃ κ, σ.map (·.1) = List.range Pi ∧ ∀ z ∈ σ, z ∈ S ∧ cartKey depth z.2.tag = κ := by
  simp only [preCart, List.mem_flatMap, List.mem_map] at h
  obtain ⟨κ, _, cfg, hcfg, rfl⟩ := h
  obtain ⟨h1, h2⟩ := mem_canon_cfg hcfg
  obtain ⟨i1, i2, _, _⟩ := unlift_props h2
  exact ⟨κ, by rw [i1, h1], i2⟩

theorem bucket_nodup {depth : Nat} {S : List Ev} (hnd : S.Nodup) (κ : Tag) (q : Nat) : (bucket depth S κ q).Nodup := by
  unfold bucket
  refine List.Pairwise.map _ ?_ (hnd.filter _)
  intro a b hne e
  apply hne
  simp only [Elem.ofTok, Elem.mk.injEq, List.cons.injEq, Prod.mk.injEq, and_true] at e
  obtain ⟨a1, a2⟩ := a
  obtain ⟨b1, b2⟩ := b
  simp only at e
  rw [e.2.1, e.2.2]

theorem preCart_nodup {depth Pi : Nat} (hPi : 0 < Pi) {S : List Ev} (hnd : S.Nodup) : (preCart depth Pi S).Nodup := by
  unfold preCart
  apply List.pairwise_flatMap.mpr
  constructor
  · intro κ _
    apply List.pairwise_map.mpr
    have hcc : (cartConfigs (canonCell depth Pi S κ)).Nodup := by
      apply nodup_cartConfigs
      intro x hx
      simp only [canonCell, List.mem_map] at hx
      obtain ⟨q, _, rfl⟩ := hx
      exact bucket_nodup hnd κ q
    refine List.Pairwise.imp_of_mem ?_ hcc
    intro a b ha hb hne e
    have ha2 := (mem_canon_cfg ha).2
    have hb2 := (mem_canon_cfg hb).2
    apply hne
    rw [← (unlift_props ha2).2.2.1, ← (unlift_props hb2).2.2.1, e]
  · refine (nodup_dedup _).imp ?_
    intro κ κ' hne σ hσ σ' hσ' e
    simp only [List.mem_map] at hσ hσ'
    obtain ⟨cfg, hcfg, rfl⟩ := hσ
    obtain ⟨cfg', hcfg', rfl⟩ := hσ'
    obtain ⟨h1, h2⟩ := mem_canon_cfg hcfg
    obtain ⟨h1', h2'⟩ := mem_canon_cfg hcfg'
    obtain ⟨i1, i2, _, _⟩ := unlift_props h2
    obtain ⟨_, i2', _, _⟩ := unlift_props h2'
    have hne' : unlift cfg ≠ [] := by
      intro h0
      have := congrArg List.length i1
      rw [h0, h1] at this
      simp at this
      omega
    obtain ⟨z, hz⟩ := List.exists_mem_of_ne_nil _ hne'
    have k1 := (i2 z hz).2
    have k2 := (i2' z (e ▸ hz)).2
    exact hne (k1.symm.trans k2)

theorem length_filterMap_some {α β : Type} (f : α → Option β) : ∀ (l : List α), (∀ a ∈ l, (f a).isSome) →
    (l.filterMap f).length = l.length := by
  intro l
  induction l with
  | nil => intro _; rfl
  | cons a l ih =>
    intro h
    have h1 := h a (by simp)
    cases hf : f a with
    | none => rw [hf] at h1; cases h1
    | some b =>
      simp only [List.filterMap_cons, hf, List.length_cons]
      rw [ih (fun x hx => h x (List.mem_cons_of_mem _ hx))]

/-- two specified configurations with the same ports and the same last components are equal -/
theorem eq_of_same_lasts {S : List Ev} {κ : Tag}
    (hdist : ∀ e ∈ S, ∀ e' ∈ S, e.1 = e'.1 → e.2.tag = e'.2.tag → e = e')
    (hne : ∀ e ∈ S, e.2.tag ≠ []) :
    ∀ (σ σ' : List (Nat × Tok)), σ.map (·.1) = σ'.map (·.1) →
      σ.filterMap (fun y => y.2.tag.getLast?) = σ'.filterMap (fun y => y.2.tag.getLast?) →
      (∀ z ∈ σ, z ∈ S ∧ z.2.tag.dropLast = κ) → (∀ z ∈ σ', z ∈ S ∧ z.2.tag.dropLast = κ) → σ = σ' := by
  intro σ
  induction σ with
  | nil =>
    intro σ' h1 _ _ _
    cases σ' with
    | nil => rfl
    | cons _ _ => simp at h1
  | cons z r ih =>
    intro σ' h1 h2 h3 h4
    cases σ' with
    | nil => simp at h1
    | cons z' r' =>
      simp only [List.map_cons, List.cons.injEq] at h1
      obtain ⟨hz, hzk⟩ := h3 z (by simp)
      obtain ⟨hz', hzk'⟩ := h4 z' (by simp)
      have n1 := hne z hz
      have n2 := hne z' hz'
      rw [List.filterMap_cons, List.filterMap_cons, List.getLast?_eq_some_getLast n1,
        List.getLast?_eq_some_getLast n2] at h2
      simp only [List.cons.injEq] at h2
      have ht : z.2.tag = z'.2.tag := by
        rw [← List.dropLast_concat_getLast n1, ← List.dropLast_concat_getLast n2, hzk, hzk', h2.1]
      have : z = z' := hdist z hz z' hz' h1.1 ht
      subst this
      congr 1
      exact ih r' h1.2 h2.2 (fun y hy => h3 y (List.mem_cons_of_mem _ hy))
        (fun y hy => h4 y (List.mem_cons_of_mem _ hy))

/-- the members of a specified schema of a depth-1 cartesian product all carry the composite tag
    `key ++ last components`; the composite tag determines the schema -/
theorem specRetag_uniform {Pi L : Nat} {S : List Ev} (hwf : WFCart 1 Pi L S) (hroot : Rooted S)
    {σ : List (Nat × Tok)} (hσ : σ ∈ preCart 1 Pi S) :
    ∃ τ : Tag, τ.length = L - 1 + Pi ∧ τ.head? = some 0 ∧ specRetag σ ≠ [] ∧ (∀ y ∈ specRetag σ, y.2.tag = τ) ∧
      (specRetag σ).map (·.1) = List.range Pi ∧
      ∀ σ' ∈ preCart 1 Pi S, (∀ y ∈ specRetag σ', y.2.tag = τ) → σ' = σ := by
  obtain ⟨_, hPi, hnd, hports, hlen, hdist⟩ := hwf
  have hne : ∀ e ∈ S, e.2.tag ≠ [] := fun e he => rooted_ne hroot he
  have hdrop : ∀ t : Tag, cartKey 1 t = t.dropLast := fun t => by
    simp [cartKey, Gen.cartKey, List.dropLast_eq_take]
  -- shape of any member of preCart
  have shape : ∀ ρ ∈ preCart 1 Pi S, ∃ κ : Tag, κ.length = L - 1 ∧ ρ ≠ [] ∧ ρ.map (·.1) = List.range Pi ∧
      (∀ z ∈ ρ, z ∈ S ∧ z.2.tag.dropLast = κ) ∧
      ∀ y ∈ specRetag ρ, y.2.tag = κ ++ ρ.filterMap (fun y => y.2.tag.getLast?) := by
    intro ρ hρ
    obtain ⟨κ, h1, h2⟩ := mem_preCart hρ
    have hρne : ρ ≠ [] := by
      intro h0; rw [h0] at h1
      have := congrArg List.length h1; simp at this; omega
    have hmem : ∀ z ∈ ρ, z ∈ S ∧ z.2.tag.dropLast = κ := fun z hz => ⟨(h2 z hz).1, by rw [← hdrop]; exact (h2 z hz).2⟩
    obtain ⟨z0, hz0⟩ := List.exists_mem_of_ne_nil _ hρne
    have hκl : κ.length = L - 1 := by
      rw [← (hmem z0 hz0).2, List.length_dropLast, hlen z0 (hmem z0 hz0).1]
    refine ⟨κ, hκl, hρne, h1, hmem, ?_⟩
    intro y hy
    simp only [specRetag, List.mem_map] at hy
    obtain ⟨x, hx, rfl⟩ := hy
    simp only
    rw [(hmem x hx).2]
  obtain ⟨κ, hκl, hσne, hσk, hσm, hσt⟩ := shape σ hσ
  refine ⟨κ ++ σ.filterMap (fun y => y.2.tag.getLast?), ?_, ?_, ?_, hσt, ?_, ?_⟩
  · have hl : (σ.filterMap (fun y => y.2.tag.getLast?)).length = σ.length := by
      apply length_filterMap_some
      intro z hz
      rw [List.getLast?_eq_some_getLast (hne z (hσm z hz).1)]
      rfl
    have hσl : σ.length = Pi := by
      have := congrArg List.length hσk
      simpa using this
    rw [List.length_append, hl, hκl, hσl]
  · -- rooted
    obtain ⟨z0, r, rfl⟩ := List.exists_cons_of_ne_nil hσne
    obtain ⟨hz0, hz0k⟩ := hσm z0 (by simp)
    have n0 := hne z0 hz0
    have hr0 : z0.2.tag.head? = some 0 := hroot z0 hz0
    rw [List.filterMap_cons, List.getLast?_eq_some_getLast n0]
    rw [← List.dropLast_concat_getLast n0, hz0k] at hr0
    simpa [List.head?_append] using hr0
  · intro h0
    simp only [specRetag, List.map_eq_nil_iff] at h0
    exact hσne h0
  · simp only [specRetag, List.map_map, Function.comp_def]
    exact hσk
  · intro σ' hσ' hτ
    obtain ⟨κ', hκl', hσne', hσk', hσm', hσt'⟩ := shape σ' hσ'
    have hy' : specRetag σ' ≠ [] := by
      intro h0
      simp only [specRetag, List.map_eq_nil_iff] at h0
      exact hσne' h0
    obtain ⟨y, hy⟩ := List.exists_mem_of_ne_nil _ hy'
    have e1 := hσt' y hy
    have e2 := hτ y hy
    have := List.append_inj (e1.symm.trans e2) (by rw [hκl', hκl])
    obtain ⟨hk, hs⟩ := this
    subst hk
    exact eq_of_same_lasts hdist hne σ' σ (by rw [hσk', hσk]) hs hσm' hσm

/-! ### the nested shape `dot[cart₁[0 … Pi-1], plain ports]` -/

/-- an outer dot product whose items are the plain ports `A`, then an inner combinator of kind `k` over ports
    `0 … Pi-1`, then the plain ports `B` -/
def nestItemsAt (k : Kind) (Pi : Nat) (A B : List Nat) : List Item :=
  A.map Item.port ++ Item.sub k (List.range Pi) :: B.map Item.port

def nestItems (Pi : Nat) (plains : List Nat) : List Item := nestItemsAt (.cart 1) Pi [] plains

/-- what the proofs need to know about the item list: the inner combinator of kind `k` over ports `0 … Pi-1` sits at
    position `i0`, every plain port has its own position -/
structure Shape (items : List Item) (i0 : Nat) (k : Kind) (Pi : Nat) (plains : List Nat) : Prop where
  sub : ∀ p, findSub p items 0 = if p < Pi then some (i0, k, List.range Pi) else none
  pos : i0 < items.length
  port : ∀ p ∈ plains, ∃ j, findPort p items 0 = some j ∧ j ≠ i0 ∧ j < items.length

def isInner (Pi : Nat) (e : Ev) : Bool := decide (e.1 < Pi)

/-- an inner schema as the outer combinator files it: item `i0`, tag `get_tag` of its tokens -/
def mkI (i0 : Nat) (σ : Emit) : CF.Ev := (i0, ⟨schemaTag σ, σ⟩)

/-- a token of a plain port as the outer combinator files it: the position of the port in `items` -/
def plainEv (items : List Item) (e : Ev) : CF.Ev :=
  ((findPort e.1 items 0).getD items.length, Elem.ofTok e.1 e.2)

/-- **the element stream of the outer combinator as a function of the input stream** (up to order): the specified
    schemas of the inner cartesian product, and the tokens of the plain ports -/
def derivedSpec (items : List Item) (i0 Pi : Nat) (S : List Ev) : List CF.Ev :=
  (specCart 1 Pi (S.filter (isInner Pi))).map (mkI i0) ++
    (S.filter (fun e => !isInner Pi e)).map (plainEv items)

structure WFNest (Pi L : Nat) (plains : List Nat) (S : List Ev) : Prop where
  inner : WFCart 1 Pi L (S.filter (isInner Pi))
  rooted : Rooted S
  nodup : S.Nodup
  plainPorts : ∀ e ∈ S, ¬ e.1 < Pi → e.1 ∈ plains
  plainsNodup : plains.Nodup
  anti : ∀ e ∈ S, ∀ e' ∈ S, ¬ e.1 < Pi → e.1 = e'.1 → e.2.tag <+: e'.2.tag → e = e'

theorem findPort_ge (p : Nat) : ∀ (l : List Item) (i j : Nat), findPort p l i = some j → i ≤ j := by
  intro l
  induction l with
  | nil => intro i j h; simp [findPort] at h
  | cons x r ih =>
    intro i j h
    cases x with
    | port q =>
      simp only [findPort] at h
      split at h
      · cases h; exact Nat.le_refl _
      · exact Nat.le_trans (Nat.le_succ _) (ih _ _ h)
    | sub k ports =>
      simp only [findPort] at h
      exact Nat.le_trans (Nat.le_succ _) (ih _ _ h)

theorem findPort_ports (p : Nat) : ∀ (l : List Nat) (i : Nat), p ∈ l →
    ∃ j, findPort p (l.map Item.port) i = some j ∧ i ≤ j ∧ j < i + l.length := by
  intro l
  induction l with
  | nil => intro i h; cases h
  | cons q r ih =>
    intro i h
    simp only [List.map_cons, findPort]
    by_cases hq : q = p
    · exact ⟨i, by simp [hq], Nat.le_refl _, by simp⟩
    · have hr : p ∈ r := by
        rcases List.mem_cons.mp h with h | h
        · exact absurd h.symm hq
        · exact h
      obtain ⟨j, h1, h2, h3⟩ := ih (i + 1) hr
      exact ⟨j, by simp [hq, h1], by omega, by simp; omega⟩

theorem findPort_inj (p p' : Nat) : ∀ (l : List Nat) (i j : Nat),
    findPort p (l.map Item.port) i = some j → findPort p' (l.map Item.port) i = some j → p = p' := by
  intro l
  induction l with
  | nil => intro i j h; simp [findPort] at h
  | cons q r ih =>
    intro i j h h'
    simp only [List.map_cons, findPort] at h h'
    by_cases hq : q = p
    · by_cases hq' : q = p'
      · exact hq.symm.trans hq'
      · rw [if_pos hq] at h
        rw [if_neg hq'] at h'
        cases h
        have := findPort_ge p' _ _ _ h'
        omega
    · rw [if_neg hq] at h
      by_cases hq' : q = p'
      · rw [if_pos hq'] at h'
        cases h'
        have := findPort_ge p _ _ _ h
        omega
      · rw [if_neg hq'] at h'
        exact ih _ _ h h'

theorem findSub_ports (p : Nat) : ∀ (l : List Nat) (i : Nat), findSub p (l.map Item.port) i = none := by
  intro l
  induction l with
  | nil => intro i; rfl
  | cons q r ih => intro i; simp only [List.map_cons, findSub]; exact ih _

theorem findPort_inj_gen (p p' : Nat) : ∀ (l : List Item) (i j : Nat),
    findPort p l i = some j → findPort p' l i = some j → p = p' := by
  intro l
  induction l with
  | nil => intro i j h; simp [findPort] at h
  | cons x r ih =>
    intro i j h h'
    cases x with
    | sub k ports =>
      simp only [findPort] at h h'
      exact ih _ _ h h'
    | port q =>
      simp only [findPort] at h h'
      by_cases hq : q = p
      · by_cases hq' : q = p'
        · exact hq.symm.trans hq'
        · rw [if_pos hq] at h
          rw [if_neg hq'] at h'
          cases h
          have := findPort_ge p' _ _ _ h'
          omega
      · rw [if_neg hq] at h
        by_cases hq' : q = p'
        · rw [if_pos hq'] at h'
          cases h'
          have := findPort_ge p _ _ _ h
          omega
        · rw [if_neg hq'] at h'
          exact ih _ _ h h'

theorem findSub_append_ports (p : Nat) (rest : List Item) : ∀ (l : List Nat) (i : Nat),
    findSub p (l.map Item.port ++ rest) i = findSub p rest (i + l.length) := by
  intro l
  induction l with
  | nil => intro i; rfl
  | cons q r ih =>
    intro i
    simp only [List.map_cons, List.cons_append, findSub, List.length_cons]
    rw [ih]
    congr 1
    omega

theorem findPort_append_mem (p : Nat) (rest : List Item) : ∀ (l : List Nat) (i : Nat), p ∈ l →
    ∃ j, findPort p (l.map Item.port ++ rest) i = some j ∧ i ≤ j ∧ j < i + l.length := by
  intro l
  induction l with
  | nil => intro i h; cases h
  | cons q r ih =>
    intro i h
    simp only [List.map_cons, List.cons_append, findPort]
    by_cases hq : q = p
    · exact ⟨i, by simp [hq], Nat.le_refl _, by simp⟩
    · have hr : p ∈ r := by
        rcases List.mem_cons.mp h with h | h
        · exact absurd h.symm hq
        · exact h
      obtain ⟨j, h1, h2, h3⟩ := ih (i + 1) hr
      exact ⟨j, by simp [hq, h1], by omega, by simp; omega⟩

theorem findPort_append_not_mem (p : Nat) (rest : List Item) : ∀ (l : List Nat) (i : Nat), p ∉ l →
    findPort p (l.map Item.port ++ rest) i = findPort p rest (i + l.length) := by
  intro l
  induction l with
  | nil => intro i _; rfl
  | cons q r ih =>
    intro i h
    simp only [List.mem_cons, not_or] at h
    have hq : ¬ q = p := fun e => h.1 e.symm
    simp only [List.map_cons, List.cons_append, findPort, hq, if_false, List.length_cons]
    rw [ih _ h.2]
    congr 1
    omega

/-- the item list `A ++ [inner] ++ B` has the shape the proofs need -/
theorem shape_at (k : Kind) (Pi : Nat) (A B : List Nat) :
    Shape (nestItemsAt k Pi A B) A.length k Pi (A ++ B) := by
  refine ⟨?_, ?_, ?_⟩
  · intro p
    simp only [nestItemsAt]
    rw [findSub_append_ports]
    simp only [findSub, List.mem_range, Nat.zero_add]
    split
    · rfl
    · exact findSub_ports p B _
  · simp [nestItemsAt]
  · intro p hp
    simp only [nestItemsAt]
    by_cases hA : p ∈ A
    · obtain ⟨j, h1, _, h3⟩ := findPort_append_mem p (Item.sub k (List.range Pi) :: B.map Item.port) A 0 hA
      exact ⟨j, h1, by omega, by simp; omega⟩
    · have hB : p ∈ B := by
        rcases List.mem_append.mp hp with h | h
        · exact absurd h hA
        · exact h
      rw [findPort_append_not_mem p _ A 0 hA]
      simp only [findPort, Nat.zero_add]
      obtain ⟨j, h1, h2, h3⟩ := findPort_ports p B (A.length + 1) hB
      exact ⟨j, h1, by omega, by simp; omega⟩

theorem shape_first (Pi : Nat) (plains : List Nat) : Shape (nestItems Pi plains) 0 (.cart 1) Pi plains := by
  have := shape_at (.cart 1) Pi [] plains
  simpa [nestItems] using this

theorem schemaTag_uniform {σ : Emit} {τ : Tag} (hne : σ ≠ []) (hr : τ.head? = some 0)
    (h : ∀ y ∈ σ, y.2.tag = τ) : schemaTag σ = τ := by
  unfold schemaTag
  obtain ⟨y, hy⟩ := List.exists_mem_of_ne_nil _ hne
  have hτne : τ ≠ [] := by intro h0; rw [h0] at hr; simp at hr
  apply getTag_chain (d := τ)
  · exact List.mem_map.mpr ⟨y, hy, h y hy⟩
  · intro t ht
    obtain ⟨z, hz, rfl⟩ := List.mem_map.mp ht
    rw [h z hz]; exact hτne
  · intro t ht
    obtain ⟨z, hz, rfl⟩ := List.mem_map.mp ht
    rw [h z hz]; exact List.prefix_refl _
  · exact hr

theorem rooted_filter {S : List Ev} (h : Rooted S) (p : Ev → Bool) : Rooted (S.filter p) :=
  fun e he => h e (List.mem_filter.mp he).1

/-- what an inner event of the derived specification looks like -/
theorem mem_inner_part {Pi L : Nat} {plains : List Nat} {S : List Ev} (h : WFNest Pi L plains S) (i0 : Nat) {x : CF.Ev}
    (hx : x ∈ (specCart 1 Pi (S.filter (isInner Pi))).map (mkI i0)) :
    ∃ σ ∈ preCart 1 Pi (S.filter (isInner Pi)), x = mkI i0 (specRetag σ) ∧
      ∃ τ : Tag, τ.length = L - 1 + Pi ∧ τ.head? = some 0 ∧ specRetag σ ≠ [] ∧ (∀ y ∈ specRetag σ, y.2.tag = τ) ∧
        x.2.tag = τ ∧
        ∀ σ' ∈ preCart 1 Pi (S.filter (isInner Pi)), (∀ y ∈ specRetag σ', y.2.tag = τ) → σ' = σ := by
  rw [specCart_eq_pre, List.map_map] at hx
  obtain ⟨σ, hσ, rfl⟩ := List.mem_map.mp hx
  obtain ⟨τ, t1, t2, t3, t4, _, t6⟩ := specRetag_uniform h.inner (rooted_filter h.rooted _) hσ
  exact ⟨σ, hσ, rfl, τ, t1, t2, t3, t4, schemaTag_uniform t3 t2 t4, t6⟩

theorem derivedSpec_ok {Pi L : Nat} {plains : List Nat} {S : List Ev} (h : WFNest Pi L plains S)
    (items : List Item) (i0 : Nat) :
    ∀ x ∈ derivedSpec items i0 Pi S, ElemOK x.2 := by
  intro x hx
  rcases List.mem_append.mp hx with hx | hx
  · obtain ⟨σ, _, rfl, τ, _, t2, t3, t4, t5, _⟩ := mem_inner_part h i0 hx
    refine ⟨?_, t3, ?_⟩
    · rw [t5]; exact t2
    · intro y hy
      rw [t5]; exact t4 y hy
  · obtain ⟨e, he, rfl⟩ := List.mem_map.mp hx
    have heS := (List.mem_filter.mp he).1
    refine ⟨h.rooted e heS, by simp [plainEv, Elem.ofTok], ?_⟩
    intro y hy
    simp only [plainEv, Elem.ofTok, List.mem_singleton] at hy
    rw [hy]; rfl

theorem derivedSpec_wf {Pi L : Nat} {plains : List Nat} {S : List Ev} (h : WFNest Pi L plains S)
    {items : List Item} {i0 : Nat} {k : Kind} (hs : Shape items i0 k Pi plains) :
    CF.WF items.length (derivedSpec items i0 Pi S) := by
  have hplain : ∀ e ∈ S.filter (fun e => !isInner Pi e), e ∈ S ∧ ¬ e.1 < Pi ∧ e.1 ∈ plains := by
    intro e he
    obtain ⟨h1, h2⟩ := List.mem_filter.mp he
    have : ¬ e.1 < Pi := by simpa [isInner] using h2
    exact ⟨h1, this, h.plainPorts e h1 this⟩
  refine ⟨?_, ?_, ?_⟩
  · -- no repeated event
    apply List.nodup_append.mpr
    refine ⟨?_, ?_, ?_⟩
    · rw [specCart_eq_pre, List.map_map]
      apply List.pairwise_map.mpr
      refine List.Pairwise.imp_of_mem ?_ (preCart_nodup h.inner.2.1 h.inner.2.2.1)
      intro σ σ' hσ hσ' hne e
      apply hne
      obtain ⟨τ, _, _, _, t4, _, t6⟩ := specRetag_uniform h.inner (rooted_filter h.rooted _) hσ'
      have e' : specRetag σ = specRetag σ' := by
        simp only [Function.comp, mkI, Prod.mk.injEq, Elem.mk.injEq, true_and] at e
        exact e.2
      exact t6 σ hσ (fun y hy => t4 y (e' ▸ hy))
    · refine List.Pairwise.map _ ?_ (h.nodup.filter _)
      intro a b hne e
      apply hne
      simp only [plainEv, Elem.ofTok, Prod.mk.injEq, Elem.mk.injEq, List.cons.injEq, and_true] at e
      obtain ⟨a1, a2⟩ := a
      obtain ⟨b1, b2⟩ := b
      simp only at e
      rw [e.2.2.1, e.2.2.2]
    · intro a ha b hb hab
      obtain ⟨σ, _, rfl⟩ := List.mem_map.mp ha
      obtain ⟨e, he, rfl⟩ := List.mem_map.mp hb
      obtain ⟨j, hj, hj1, _⟩ := hs.port e.1 (hplain e he).2.2
      have := congrArg Prod.fst hab
      simp only [mkI, plainEv, hj, Option.getD_some] at this
      exact hj1 this.symm
  · intro x hx
    rcases List.mem_append.mp hx with hx | hx
    · obtain ⟨σ, _, rfl⟩ := List.mem_map.mp hx
      exact hs.pos
    · obtain ⟨e, he, rfl⟩ := List.mem_map.mp hx
      obtain ⟨j, hj, _, hj2⟩ := hs.port e.1 (hplain e he).2.2
      simp only [plainEv, hj, Option.getD_some]
      exact hj2
  · intro x hx x' hx' hitem hpre
    rcases List.mem_append.mp hx with hx | hx <;> rcases List.mem_append.mp hx' with hx' | hx'
    · obtain ⟨σ, hσ, rfl, τ, t1, _, _, t4, t5, _⟩ := mem_inner_part h i0 hx
      obtain ⟨σ', hσ', rfl, τ', t1', _, _, _, t5', t6'⟩ := mem_inner_part h i0 hx'
      rw [t5, t5'] at hpre
      have : τ = τ' := List.IsPrefix.eq_of_length_le (CF.pre_iff.mp hpre).1 (by omega)
      subst this
      rw [t6' σ hσ t4]
    · obtain ⟨σ, _, rfl⟩ := List.mem_map.mp hx
      obtain ⟨e, he, rfl⟩ := List.mem_map.mp hx'
      obtain ⟨j, hj, hj1, _⟩ := hs.port e.1 (hplain e he).2.2
      simp only [mkI, plainEv, hj, Option.getD_some] at hitem
      exact absurd hitem.symm hj1
    · obtain ⟨e, he, rfl⟩ := List.mem_map.mp hx
      obtain ⟨σ, _, rfl⟩ := List.mem_map.mp hx'
      obtain ⟨j, hj, hj1, _⟩ := hs.port e.1 (hplain e he).2.2
      simp only [mkI, plainEv, hj, Option.getD_some] at hitem
      exact absurd hitem hj1
    · obtain ⟨e, he, rfl⟩ := List.mem_map.mp hx
      obtain ⟨e', he', rfl⟩ := List.mem_map.mp hx'
      obtain ⟨heS, hni, hpl⟩ := hplain e he
      obtain ⟨heS', _, hpl'⟩ := hplain e' he'
      obtain ⟨j, hj, _, _⟩ := hs.port e.1 hpl
      obtain ⟨j', hj', _, _⟩ := hs.port e'.1 hpl'
      simp only [plainEv, hj, hj', Option.getD_some] at hitem
      subst hitem
      have hport : e.1 = e'.1 := findPort_inj_gen _ _ _ _ _ hj hj'
      have hpre' : e.2.tag <+: e'.2.tag := by
        have := (CF.pre_iff.mp hpre).1
        simpa [plainEv, Elem.ofTok] using this
      rw [h.anti e heS e' heS' hni hport hpre']

theorem runWith_shift (add : TV → Nat → Elem → Res) : ∀ (es : List Ev) (tv : TV) (out : List Emit),
    runWith add es tv out =
      ⟨(runWith add es tv []).tv, out ++ (runWith add es tv []).out, (runWith add es tv []).err⟩ := by
  intro es
  induction es with
  | nil => intro tv out; simp [runWith]
  | cons ev es ih =>
    obtain ⟨p, t⟩ := ev
    intro tv out
    simp only [runWith, List.nil_append]
    cases h : (add tv p (Elem.ofTok p t)).err with
    | some x => rfl
    | none =>
      simp only
      rw [ih _ (out ++ (add tv p (Elem.ofTok p t)).out), ih _ (add tv p (Elem.ofTok p t)).out]
      simp [List.append_assoc]

theorem lookup_map_replace (i : Nat) (tv : TV) : ∀ (r : List (Nat × TV)), r.any (fun x => decide (x.1 = i)) = true →
    (r.map (fun x => if x.1 = i then (i, tv) else x)).lookup i = some tv := by
  intro r
  induction r with
  | nil => intro h; simp at h
  | cons x r ih =>
    obtain ⟨k, v⟩ := x
    intro h
    by_cases hk : k = i
    · subst hk; simp [List.lookup]
    · have hb : (i == k) = false := by simpa using (fun e => hk e.symm)
      simp only [List.any_cons, hk, decide_false, Bool.false_or] at h
      simp only [List.map_cons, hk, if_false, List.lookup, hb]
      exact ih h

theorem lookup_append_new (i : Nat) (tv : TV) : ∀ (r : List (Nat × TV)), r.any (fun x => decide (x.1 = i)) = false →
    (r ++ [(i, tv)]).lookup i = some tv := by
  intro r
  induction r with
  | nil => intro _; simp [List.lookup]
  | cons x r ih =>
    obtain ⟨k, v⟩ := x
    intro h
    simp only [List.any_cons, Bool.or_eq_false_iff, decide_eq_false_iff_not] at h
    have hb : (i == k) = false := by simpa using (fun e => h.1 e.symm)
    simp only [List.cons_append, List.lookup, hb]
    exact ih h.2

theorem lookup_setI (inn : List (Nat × TV)) (i : Nat) (tv : TV) : (setI inn i tv).lookup i = some tv := by
  unfold setI
  cases h : inn.any (fun x => decide (x.1 = i)) with
  | true => simp only [if_true]; exact lookup_map_replace i tv inn h
  | false => simp only [Bool.false_eq_true, if_false]; exact lookup_append_new i tv inn h

/-- the element stream of the outer combinator is an interleaving of the inner combinator's emissions (in
    emission order) and the tokens of the plain ports -/
theorem derived_split {items : List Item} {i0 Pi : Nat} {plains : List Nat} (hs : Shape items i0 (.cart 1) Pi plains) :
    ∀ (es : List Ev) (inn : List (Nat × TV)),
    (runWith (cartAdd 1 (List.range Pi)) (es.filter (isInner Pi)) ((inn.lookup i0).getD []) []).err = none →
    (derived items es inn).Perm
      ((runWith (cartAdd 1 (List.range Pi)) (es.filter (isInner Pi)) ((inn.lookup i0).getD []) []).out.map (mkI i0)
        ++ (es.filter (fun e => !isInner Pi e)).map (plainEv items)) := by
  intro es
  induction es with
  | nil => intro inn _; simp [derived, runWith]
  | cons ev es ih =>
    obtain ⟨p, t⟩ := ev
    intro inn herr
    simp only [derived, hs.sub]
    by_cases hp : p < Pi
    · have hf1 : ((p, t) :: es).filter (isInner Pi) = (p, t) :: es.filter (isInner Pi) := by
        simp [List.filter_cons, isInner, hp]
      have hf2 : ((p, t) :: es).filter (fun e => !isInner Pi e) = es.filter (fun e => !isInner Pi e) := by
        simp [List.filter_cons, isInner, hp]
      rw [hf1] at herr ⊢
      rw [hf2]
      simp only [hp, if_true, innerAdd]
      simp only [runWith] at herr ⊢
      generalize hr : cartAdd 1 (List.range Pi) ((inn.lookup i0).getD []) p (Elem.ofTok p t) = r at herr ⊢
      cases hre : r.err with
      | some x => rw [hre] at herr; simp at herr
      | none =>
        rw [hre] at herr
        simp only at herr ⊢
        rw [runWith_shift] at herr
        simp only at herr
        have hl : ((setI inn i0 r.tv).lookup i0).getD [] = r.tv := by rw [lookup_setI]; rfl
        have := ih (setI inn i0 r.tv) (by rw [hl]; exact herr)
        rw [hl] at this
        rw [runWith_shift]
        simp only [List.nil_append, List.map_append, List.append_assoc]
        exact (List.perm_append_left_iff _).mpr this
    · have hf1 : ((p, t) :: es).filter (isInner Pi) = es.filter (isInner Pi) := by
        simp [List.filter_cons, isInner, hp]
      have hf2 : ((p, t) :: es).filter (fun e => !isInner Pi e) = (p, t) :: es.filter (fun e => !isInner Pi e) := by
        simp [List.filter_cons, isInner, hp]
      rw [hf1] at herr ⊢
      rw [hf2]
      simp only [hp, if_false, List.map_cons]
      refine (List.Perm.cons _ (ih inn herr)).trans ?_
      exact List.perm_middle.symm

theorem innerOK_cart {items : List Item} {i0 Pi : Nat} {plains : List Nat} (hs : Shape items i0 (.cart 1) Pi plains) :
    ∀ (es : List Ev) (inn : List (Nat × TV)),
    (runWith (cartAdd 1 (List.range Pi)) (es.filter (isInner Pi)) ((inn.lookup i0).getD []) []).err = none →
    InnerOK items es inn := by
  intro es
  induction es with
  | nil => intro inn _; trivial
  | cons ev es ih =>
    obtain ⟨p, t⟩ := ev
    intro inn herr
    simp only [InnerOK, hs.sub]
    by_cases hp : p < Pi
    · have hf1 : ((p, t) :: es).filter (isInner Pi) = (p, t) :: es.filter (isInner Pi) := by
        simp [List.filter_cons, isInner, hp]
      rw [hf1] at herr
      simp only [hp, if_true, innerAdd]
      simp only [runWith] at herr
      generalize hr : cartAdd 1 (List.range Pi) ((inn.lookup i0).getD []) p (Elem.ofTok p t) = r at herr ⊢
      cases hre : r.err with
      | some x => rw [hre] at herr; simp at herr
      | none =>
        rw [hre] at herr
        simp only at herr
        rw [runWith_shift] at herr
        simp only at herr
        have hl : ((setI inn i0 r.tv).lookup i0).getD [] = r.tv := by rw [lookup_setI]; rfl
        exact ⟨rfl, ih (setI inn i0 r.tv) (by rw [hl]; exact herr)⟩
    · have hf1 : ((p, t) :: es).filter (isInner Pi) = es.filter (isInner Pi) := by
        simp [List.filter_cons, isInner, hp]
      rw [hf1] at herr
      simp only [hp, if_false]
      exact ih inn herr

/-- **nested `dot[cart₁[p0 … p(Pi-1)], plain ports]`, any arrival order**: the schemas `runNested` emits are — each
    up to the order of its entries — exactly one combination per complete tag of the derived specification, which
    is a function of the input stream only -/
theorem nested_cart_any_order {Pi L : Nat} {plains : List Nat} {items : List Item} {i0 : Nat}
    (hs : Shape items i0 (.cart 1) Pi plains) (S es : List Ev) (h : WFNest Pi L plains S) (hp : es.Perm S) :
    (runNested items es).err = none ∧
    ∃ N, EmRel (runNested items es).out N ∧
      N.Perm (specE items.length (derivedSpec items i0 Pi S)) := by
  have hin : (es.filter (isInner Pi)).Perm (S.filter (isInner Pi)) := hp.filter _
  obtain ⟨herr, hout⟩ := runCart_any_order _ _ h.inner hin
  unfold runCart at herr hout
  have hsplit := derived_split hs es [] (by simpa using herr)
  simp only [List.lookup, Option.getD_none] at hsplit
  have hD : (derived items es []).Perm (derivedSpec items i0 Pi S) := by
    refine hsplit.trans ?_
    unfold derivedSpec
    exact (hout.map (mkI i0)).append ((hp.filter _).map _)
  have hres := dotElems_any_order _ _ (derivedSpec_wf h hs) (derivedSpec_ok h items i0) hD
  refine ⟨?_, ?_⟩
  · rw [runNested_err _ _ (innerOK_cart hs es [] (by simpa using herr))]
    exact hres.1
  · rw [runNested_out]
    exact hres.2

end SFV.Comb
