import SFV.Model.Binding
/-! Helper lemmas for C28: the trie built by `put`, the `propagate` loop, wraps chains. -/
namespace SFV.Binding

/-! ### prefixes and the trie invariant -/

theorem mem_prefixes {q p : Path} : q ∈ prefixes p ↔ q <+: p ∧ q ≠ [] := by
  induction p generalizing q with
  | nil => simp [prefixes]
  | cons x r ih =>
    simp only [prefixes, List.mem_cons, List.mem_map]
    constructor
    · rintro (rfl | ⟨a, ha, rfl⟩)
      · exact ⟨by simp, by simp⟩
      · exact ⟨by simpa using (ih.mp ha).1, by simp⟩
    · rintro ⟨hp, hne⟩
      cases q with
      | nil => exact absurd rfl hne
      | cons y q' =>
        have := List.cons_prefix_cons.mp hp
        obtain ⟨rfl, hq'⟩ := this
        by_cases hq : q' = []
        · left; rw [hq]
        · right; exact ⟨q', ih.mpr ⟨hq', hq⟩, rfl⟩

/-- the nodes are prefix closed and attributes live on existing nodes only -/
structure WF {V} (t : Trie V) : Prop where
  closed : ∀ p ∈ t.nodes, ∀ q, q <+: p → q ≠ [] → q ∈ t.nodes
  attrs : ∀ k p, t.attr k p ≠ none → p ∈ t.nodes

theorem wf_empty {V} : WF (Trie.empty : Trie V) := ⟨by simp [Trie.empty], by simp [Trie.empty]⟩

theorem wf_put {V} {t : Trie V} (h : WF t) (path : Path) (hne : path ≠ []) (k : Kind) (v : V) :
    WF (t.put path k v) := by
  constructor
  · intro p hp q hq hqne
    simp only [Trie.put, List.mem_append] at hp ⊢
    rcases hp with hp | hp
    · exact Or.inl (h.closed p hp q hq hqne)
    · right; rw [mem_prefixes] at hp ⊢
      exact ⟨List.IsPrefix.trans hq hp.1, hqne⟩
  · intro k' p hattr
    simp only [Trie.put, List.mem_append] at hattr ⊢
    split at hattr
    · rename_i hc; right; rw [hc.2, mem_prefixes]; exact ⟨List.prefix_refl _, hne⟩
    · exact Or.inl (h.attrs k' p hattr)

/-! ### the `propagate` loop -/

/-- no binding below `cur` on the way: the value is unchanged -/
theorem propLoop_none {V} (t : Trie V) (k : Kind) (cur : Path) (rest : List String) (v : Option V)
    (h : ∀ r, r <+: rest → r ≠ [] → t.attr k (cur ++ r) = none) : propLoop t k cur rest v = v := by
  induction rest generalizing cur with
  | nil => rfl
  | cons x rest ih =>
    simp only [propLoop]
    split
    · have h1 : t.attr k (cur ++ [x]) = none := h [x] (by simp) (by simp)
      rw [h1]
      simp only [pick]
      apply ih
      intro r hr hne
      have := h (x :: r) (by simpa using hr) (by simp)
      simpa using this
    · rfl

/-- the deepest binding on the way wins -/
theorem propLoop_found {V} (t : Trie V) (hW : WF t) (k : Kind) (cur : Path) (r1 r2 : List String)
    (v : Option V) (w : Option V) (hne : r1 ≠ []) (hattr : t.attr k (cur ++ r1) = some w)
    (hbelow : ∀ r, r <+: r2 → r ≠ [] → t.attr k (cur ++ r1 ++ r) = none) :
    propLoop t k cur (r1 ++ r2) v = w := by
  induction r1 generalizing cur v with
  | nil => exact absurd rfl hne
  | cons x r1 ih =>
    have hnode : cur ++ x :: r1 ∈ t.nodes := hW.attrs k _ (by rw [hattr]; simp)
    have hx : cur ++ [x] ∈ t.nodes :=
      hW.closed _ hnode _ (by simp [List.prefix_append_right_inj]) (by simp)
    simp only [List.cons_append, propLoop, hx, if_true]
    by_cases hr1 : r1 = []
    · subst hr1
      simp only [List.nil_append]
      have : t.attr k (cur ++ [x]) = some w := by simpa using hattr
      rw [this]
      simp only [pick]
      apply propLoop_none
      intro r hr hne'
      have := hbelow r hr hne'
      simpa using this
    · apply ih (cur ++ [x]) _ hr1
      · simpa using hattr
      · intro r hr hne'
        have := hbelow r hr hne'
        simpa using this

/-! ### the trie built from the bindings -/

/-- the configuration of the last binding of kind `k` declared exactly on `p` -/
def lastBinding (bs : List Binding) (k : Kind) (p : Path) : Option BConfig :=
  (bs.reverse.find? (fun b => b.kind = k ∧ b.path = p)).map (fun b => ⟨b.targets, b.filters⟩)

theorem lastBinding_append_single (bs : List Binding) (b : Binding) (k : Kind) (p : Path) :
    lastBinding (bs ++ [b]) k p =
      if b.kind = k ∧ b.path = p then some ⟨b.targets, b.filters⟩ else lastBinding bs k p := by
  simp only [lastBinding, List.reverse_append, List.reverse_cons, List.reverse_nil, List.nil_append,
    List.cons_append, List.find?_cons]
  by_cases h : b.kind = k ∧ b.path = p <;> simp [h]

theorem lastBinding_cons (b : Binding) (bs : List Binding) (k : Kind) (p : Path) :
    lastBinding (b :: bs) k p =
      match lastBinding bs k p with
      | some c => some c
      | none => if b.kind = k ∧ b.path = p then some ⟨b.targets, b.filters⟩ else none := by
  simp only [lastBinding, List.reverse_cons, List.find?_append]
  cases h : bs.reverse.find? (fun b => b.kind = k ∧ b.path = p) with
  | some c => simp
  | none => by_cases hb : b.kind = k ∧ b.path = p <;> simp [hb]

theorem lastBinding_some_mem {bs : List Binding} {k : Kind} {p : Path} {c : BConfig}
    (h : lastBinding bs k p = some c) : ∃ b ∈ bs, b.kind = k ∧ b.path = p := by
  simp only [lastBinding, Option.map_eq_some_iff] at h
  obtain ⟨b, hb, _⟩ := h
  have h1 := List.find?_some hb
  have h2 := List.mem_of_find?_eq_some hb
  exact ⟨b, by simpa using h2, by simpa using h1⟩

theorem lastBinding_none {bs : List Binding} {k : Kind} {p : Path}
    (h : ∀ b ∈ bs, b.kind = k → b.path ≠ p) : lastBinding bs k p = none := by
  simp only [lastBinding, Option.map_eq_none_iff, List.find?_eq_none]
  intro b hb; simp at hb ⊢; exact fun hk => h b hb hk

theorem processBinding_ok {F : List String} {t t' : Trie BConfig} {b : Binding}
    (h : processBinding F t b = .ok t') :
    t' = t.put b.path b.kind ⟨b.targets, b.filters⟩ ∧ isAbsolute b.path = true := by
  unfold processBinding at h
  split at h
  · cases h
  · split at h
    · cases h
    · split at h
      · cases h
      · rename_i ha
        simp at ha
        injection h with h
        exact ⟨h.symm, ha⟩

theorem isAbsolute_ne_nil {p : Path} (h : isAbsolute p = true) : p ≠ [] := by
  intro e; subst e; simp [isAbsolute] at h

/-- what `__init__`'s binding loop builds -/
theorem processAll_spec {F : List String} (bs : List Binding) (t t' : Trie BConfig) (hW : WF t)
    (h : processAll F t bs = .ok t') :
    WF t' ∧ (∀ b ∈ bs, isAbsolute b.path = true) ∧
    ∀ k p, t'.attr k p = match lastBinding bs k p with
                          | some c => some (some c)
                          | none => t.attr k p := by
  induction bs generalizing t with
  | nil =>
    simp only [processAll] at h; injection h with h; subst h
    exact ⟨hW, by simp, by simp [lastBinding]⟩
  | cons b bs ih =>
    simp only [processAll] at h
    split at h
    · rename_i t1 hb
      obtain ⟨ht1, habs⟩ := processBinding_ok hb
      have hW1 : WF t1 := ht1 ▸ wf_put hW _ (isAbsolute_ne_nil habs) _ _
      obtain ⟨hW', hall, hattr⟩ := ih t1 hW1 h
      refine ⟨hW', ?_, ?_⟩
      · intro b' hb'
        rcases List.mem_cons.mp hb' with rfl | hb'
        · exact habs
        · exact hall b' hb'
      · intro k p
        rw [hattr, lastBinding_cons]
        cases lastBinding bs k p with
        | some c => rfl
        | none =>
          simp only [ht1, Trie.put]
          by_cases hc : b.kind = k ∧ b.path = p
          · simp [hc]
          · have : ¬ (k = b.kind ∧ p = b.path) := fun ⟨a, b⟩ => hc ⟨a.symm, b.symm⟩
            simp [hc, this]
    · cases h

/-! ### wraps chains -/

/-- the deployment wrapped by `d`, when it is defined -/
def next (deps : List Deployment) (d : Deployment) : Option Deployment := d.wraps.bind (lookup deps)

/-- the `i`-th deployment on the wraps chain of `d` -/
def chain (deps : List Deployment) (d : Deployment) : Nat → Option Deployment
  | 0 => some d
  | n + 1 => (chain deps d n).bind (next deps)

theorem chain_succ' (deps : List Deployment) (d : Deployment) (n : Nat) :
    chain deps d (n + 1) = (next deps d).bind (fun d' => chain deps d' n) := by
  induction n with
  | zero => simp [chain]
  | succ n ih =>
    rw [chain, ih]
    cases next deps d with
    | none => simp
    | some d' => simp [chain]

theorem chain_none_mono (deps : List Deployment) (d : Deployment) {i j : Nat} (hij : i ≤ j)
    (h : chain deps d i = none) : chain deps d j = none := by
  induction hij with
  | refl => exact h
  | step _ ih => simp [chain, ih]

/-- some wraps chain starting at `d` visits a deployment name twice -/
def Cyclic (deps : List Deployment) (d : Deployment) : Prop :=
  ∃ i j a b, i < j ∧ chain deps d i = some a ∧ chain deps d j = some b ∧ a.name = b.name

/-- a `wraps` on the chain refers to an undefined deployment -/
def Dangling (deps : List Deployment) (d : Deployment) : Prop :=
  ∃ i a w, chain deps d i = some a ∧ a.wraps = some w ∧ lookup deps w = none

theorem lookup_mem {deps : List Deployment} {w : String} {d : Deployment} (h : lookup deps w = some d) :
    d ∈ deps := List.mem_of_find?_eq_some h

/-- the loop never exhausts its fuel: the visited names are distinct deployment names -/
theorem checkChain_fuel (deps : List Deployment) (fuel : Nat) (d : Deployment) (visited : List String)
    (hnd : visited.Nodup) (hsub : ∀ n ∈ visited, n ∈ deps.map (·.name))
    (hf : deps.length < fuel + visited.length) : checkChain deps fuel d visited ≠ .error .outOfFuel := by
  induction fuel generalizing d visited with
  | zero =>
    exfalso
    have := List.Nodup.length_le_of_subset hnd (fun n hn => hsub n hn)
    simp at this hf; omega
  | succ fuel ih =>
    simp only [checkChain]
    split
    · simp
    · split
      · simp
      · rename_i w d' hl
        split
        · simp
        · rename_i hnv
          apply ih
          · exact List.nodup_cons.mpr ⟨hnv, hnd⟩
          · intro n hn
            rcases List.mem_cons.mp hn with rfl | hn
            · exact List.mem_map.mpr ⟨d', lookup_mem hl, rfl⟩
            · exact hsub n hn
          · simp; omega

/-- invariant of the `while` loop of `_check_stacked_deployments`, started at `d0` -/
structure ChainInv (deps : List Deployment) (d0 d : Deployment) (visited : List String) (m : Nat) : Prop where
  cur : chain deps d0 m = some d
  vis : ∀ n, n ∈ visited ↔ ∃ i a, i ≤ m ∧ chain deps d0 i = some a ∧ a.name = n
  distinct : ∀ i j a b, i < j → j ≤ m → chain deps d0 i = some a → chain deps d0 j = some b → a.name ≠ b.name

theorem checkChain_spec (deps : List Deployment) (d0 : Deployment) (fuel : Nat) (d : Deployment)
    (visited : List String) (m : Nat) (hI : ChainInv deps d0 d visited m) :
    (checkChain deps fuel d visited = .ok () → ¬ Cyclic deps d0 ∧ ¬ Dangling deps d0 ∧
        ∃ k a, k < m + fuel ∧ chain deps d0 k = some a ∧ a.wraps = none) ∧
    (checkChain deps fuel d visited = .error .circular → Cyclic deps d0) ∧
    (checkChain deps fuel d visited = .error .keyError → Dangling deps d0) := by
  induction fuel generalizing d visited m with
  | zero => simp [checkChain]
  | succ fuel ih =>
    cases hw : d.wraps with
    | none =>
      have hend : chain deps d0 (m + 1) = none := by simp [chain, hI.cur, next, hw]
      simp only [checkChain, hw]
      refine ⟨fun _ => ⟨?_, ?_, m, d, by omega, hI.cur, hw⟩, (fun h => by cases h), (fun h => by cases h)⟩
      · rintro ⟨i, j, a, b, hij, hi, hj, hab⟩
        by_cases hjm : j ≤ m
        · exact hI.distinct i j a b hij hjm hi hj hab
        · have := chain_none_mono deps d0 (by omega : m + 1 ≤ j) hend
          rw [this] at hj; cases hj
      · rintro ⟨i, a, w, hi, haw, hlw⟩
        by_cases him : i ≤ m
        · rcases Nat.lt_or_eq_of_le him with hlt | rfl
          · -- a proper predecessor on the chain has a defined successor
            have hsucc : chain deps d0 (i + 1) ≠ none := by
              intro hn
              have := chain_none_mono deps d0 (by omega : i + 1 ≤ m) hn
              rw [hI.cur] at this; cases this
            apply hsucc
            simp [chain, hi, next, haw, hlw]
          · rw [hI.cur] at hi; cases hi; rw [hw] at haw; cases haw
        · have := chain_none_mono deps d0 (by omega : m + 1 ≤ i) hend
          rw [this] at hi; cases hi
    | some w =>
      cases hl : lookup deps w with
      | none =>
        simp only [checkChain, hw, hl]
        exact ⟨(fun h => by cases h), (fun h => by cases h), fun _ => ⟨m, d, w, hI.cur, hw, hl⟩⟩
      | some d' =>
        have hnext : chain deps d0 (m + 1) = some d' := by simp [chain, hI.cur, next, hw, hl]
        simp only [checkChain, hw, hl]
        by_cases hv : d'.name ∈ visited
        · rw [if_pos hv]
          obtain ⟨i, a, him, hi, ha⟩ := (hI.vis _).mp hv
          exact ⟨(fun h => by cases h), fun _ => ⟨i, m + 1, a, d', by omega, hi, hnext, ha⟩, (fun h => by cases h)⟩
        · rw [if_neg hv]
          have hI' : ChainInv deps d0 d' (d'.name :: visited) (m + 1) := by
            refine ⟨hnext, ?_, ?_⟩
            · intro n
              simp only [List.mem_cons, hI.vis]
              constructor
              · rintro (rfl | ⟨i, a, hi, hc, hn⟩)
                · exact ⟨m + 1, d', by omega, hnext, rfl⟩
                · exact ⟨i, a, by omega, hc, hn⟩
              · rintro ⟨i, a, hi, hc, hn⟩
                by_cases him : i ≤ m
                · exact Or.inr ⟨i, a, him, hc, hn⟩
                · have : i = m + 1 := by omega
                  subst this; rw [hnext] at hc; cases hc; exact Or.inl hn.symm
            · intro i j a b hij hj hi hjb
              by_cases hjm : j ≤ m
              · exact hI.distinct i j a b hij hjm hi hjb
              · have : j = m + 1 := by omega
                subst this; rw [hnext] at hjb; cases hjb
                intro hab
                exact hv ((hI.vis _).mpr ⟨i, a, by omega, hi, hab⟩)
          have := ih d' (d'.name :: visited) (m + 1) hI'
          refine ⟨?_, this.2.1, this.2.2⟩
          intro hok
          obtain ⟨h1, h2, k, a, hk, hc, ha⟩ := this.1 hok
          exact ⟨h1, h2, k, a, by omega, hc, ha⟩

theorem chainInv_init (deps : List Deployment) (d : Deployment) : ChainInv deps d d [d.name] 0 := by
  refine ⟨rfl, ?_, ?_⟩
  · intro n; simp only [List.mem_singleton]
    constructor
    · rintro rfl; exact ⟨0, d, by omega, rfl, rfl⟩
    · rintro ⟨i, a, hi, hc, hn⟩
      have : i = 0 := by omega
      subst this; simp [chain] at hc; subst hc; exact hn.symm
  · intro i j a b hij hj; omega

/-- the outer `for` loop -/
theorem checkFrom_spec (deps : List Deployment) (ds : List Deployment) :
    (checkFrom deps ds = .ok () ↔ ∀ d ∈ ds, checkChain deps (deps.length + 1) d [d.name] = .ok ()) ∧
    (∀ e, checkFrom deps ds = .error e → ∃ d ∈ ds, checkChain deps (deps.length + 1) d [d.name] = .error e) := by
  induction ds with
  | nil => simp [checkFrom]
  | cons d ds ih =>
    cases h : checkChain deps (deps.length + 1) d [d.name] with
    | ok u =>
      cases u
      simp only [checkFrom, h]
      constructor
      · rw [ih.1]; simp [h]
      · intro e he
        obtain ⟨d', hd', h'⟩ := ih.2 e he
        exact ⟨d', List.mem_cons_of_mem _ hd', h'⟩
    | error e =>
      simp only [checkFrom, h]
      constructor
      · constructor
        · intro h'; cases h'
        · intro h'; have := h' d (by simp); rw [h] at this; cases this
      · intro e' he'
        injection he' with he'
        subst he'
        exact ⟨d, by simp, h⟩

/-! ### `_get_workdir` -/

/-- the first workdir found along the wraps chain (declarative) -/
def FirstWorkdir (deps : List Deployment) (d : Deployment) (r : Option String) : Prop :=
  match r with
  | some w => ∃ m a, chain deps d m = some a ∧ a.workdir = some w ∧
                ∀ i b, i < m → chain deps d i = some b → b.workdir = none
  | none => ∀ m a, chain deps d m = some a → a.workdir = none

theorem getWorkdir_spec (deps : List Deployment) (fuel : Nat) (d : Deployment) (r : Option String)
    (h : getWorkdir deps fuel d = .ok r) : FirstWorkdir deps d r := by
  induction fuel generalizing d with
  | zero => simp [getWorkdir] at h
  | succ fuel ih =>
    simp only [getWorkdir] at h
    cases hwd : d.workdir with
    | some w =>
      simp only [hwd] at h; injection h with h; subst h
      exact ⟨0, d, rfl, hwd, by intro i b hi; omega⟩
    | none =>
      simp only [hwd] at h
      cases hw : d.wraps with
      | none =>
        simp only [hw] at h; injection h with h; subst h
        intro m a hc
        cases m with
        | zero => simp [chain] at hc; subst hc; exact hwd
        | succ m => rw [chain_succ'] at hc; simp [next, hw] at hc
      | some w =>
        simp only [hw] at h
        cases hl : lookup deps w with
        | none => simp [hl] at h
        | some d' =>
          simp only [hl] at h
          have hr := ih d' h
          have hn : next deps d = some d' := by simp [next, hw, hl]
          cases r with
          | some wd =>
            obtain ⟨m, a, hc, ha, hbefore⟩ := hr
            refine ⟨m + 1, a, by rw [chain_succ', hn]; simpa using hc, ha, ?_⟩
            intro i b hi hcb
            cases i with
            | zero => simp [chain] at hcb; subst hcb; exact hwd
            | succ i =>
              rw [chain_succ', hn] at hcb
              exact hbefore i b (by omega) (by simpa using hcb)
          | none =>
            intro m a hc
            cases m with
            | zero => simp [chain] at hc; subst hc; exact hwd
            | succ m =>
              rw [chain_succ', hn] at hc
              exact hr m a (by simpa using hc)

/-- on a chain that ends within the fuel and has no dangling reference, `_get_workdir` returns -/
theorem getWorkdir_ok (deps : List Deployment) (fuel : Nat) (d : Deployment) (k : Nat) (a : Deployment)
    (hk : k < fuel) (hc : chain deps d k = some a) (ha : a.wraps = none) :
    ∃ r, getWorkdir deps fuel d = .ok r := by
  induction fuel generalizing d k with
  | zero => omega
  | succ fuel ih =>
    simp only [getWorkdir]
    cases hwd : d.workdir with
    | some w => exact ⟨_, rfl⟩
    | none =>
      cases hw : d.wraps with
      | none => exact ⟨_, rfl⟩
      | some w =>
        simp only
        cases k with
        | zero => simp [chain] at hc; subst hc; rw [ha] at hw; cases hw
        | succ k =>
          rw [chain_succ'] at hc
          cases hl : lookup deps w with
          | none => simp [next, hw, hl] at hc
          | some d' =>
            have : chain deps d' k = some a := by simpa [next, hw, hl] using hc
            exact ih d' k (by omega) this

end SFV.Binding
