import SFV.Model.Match
/-! # C13 — jobs go to the first admissible declared target

Model: `SFV/Model/Match.lean`. The comparisons of `MatchingRule.eval`, the `any`, the container discipline of
`get_targets` (insertion-ordered dict since commit 34f81c4) and the task-per-target loop of `schedule()` are
regenerated from the source (`SFV/Gen/MatchGuards.lean`): the theorems below use those facts by `decide`, so an edit
that goes back to a set (`collectsInOrder = false`) or to `all` makes them fail to compile. -/
namespace SFV.C13
open SFV.Match SFV.Gen.Match

theorem evalPreds_true_iff (inputs : Inputs) (ps : List (Nat × Nat)) :
    evalPreds inputs ps = .ok true ↔ ∀ pm ∈ ps, lookupInput inputs pm.1 = some (.scalar pm.2) := by
  induction ps with
  | nil => simp [evalPreds]
  | cons pm rest ih =>
    obtain ⟨p, m⟩ := pm
    simp only [evalPreds, List.mem_cons, forall_eq_or_imp]
    cases h : lookupInput inputs p with
    | none => simp
    | some v =>
      cases v with
      | unsupported => simp
      | scalar v =>
        by_cases hv : m = v
        · subst hv; simp [valueMismatch, ih]
        · simp [valueMismatch, hv]; intro e; exact absurd e.symm hv

/-- `MatchingRule.eval` returns True exactly when the rule is for the target's deployment, names no service or the
    target's service, and every predicate equals `str(input value)` -/
theorem rule_eval_true_iff (r : Rule) (inputs : Inputs) (t : Target) :
    r.eval inputs t.deployment t.service = .ok true ↔ Matches r inputs t := by
  unfold Rule.eval Matches depMismatch serviceMismatch
  by_cases hd : t.deployment = r.deployment
  · by_cases hs : r.service = none
    · simp [hd, hs, evalPreds_true_iff]
    · by_cases hs' : r.service = t.service
      · simp [hd, hs', evalPreds_true_iff]
      · cases hrs : r.service with
        | none => exact absurd hrs hs
        | some x => simp [hd, hrs] at hs' ⊢; simp [hs']
  · simp [hd]; intro h; exact absurd h.symm hd

theorem anyRule_true (inputs : Inputs) (t : Target) (rules : List Rule) (h : anyRule inputs t rules = .ok true) :
    ∃ r ∈ rules, Matches r inputs t := by
  induction rules with
  | nil => simp [anyRule] at h
  | cons r rs ih =>
    simp only [anyRule] at h
    cases he : r.eval inputs t.deployment t.service with
    | error e => simp [he] at h
    | ok b =>
      cases b with
      | true => exact ⟨r, List.mem_cons_self .., (rule_eval_true_iff r inputs t).mp he⟩
      | false =>
        simp only [he] at h
        obtain ⟨r', hr', hm⟩ := ih h
        exact ⟨r', List.mem_cons_of_mem _ hr', hm⟩

theorem anyRule_false (inputs : Inputs) (t : Target) (rules : List Rule) (h : anyRule inputs t rules = .ok false) :
    ∀ r ∈ rules, ¬ Matches r inputs t := by
  induction rules with
  | nil => simp
  | cons r rs ih =>
    simp only [anyRule] at h
    cases he : r.eval inputs t.deployment t.service with
    | error e => simp [he] at h
    | ok b =>
      cases b with
      | true => simp [he] at h
      | false =>
        simp only [he] at h
        intro r' hr'
        rcases List.mem_cons.mp hr' with e | e
        · subst e; intro hm; rw [(rule_eval_true_iff r' inputs t).mpr hm] at he; cases he
        · exact ih h r' e

theorem collect_spec (rules : List Rule) (inputs : Inputs) (ts acc r : List Target)
    (h : collect rules inputs ts acc = .ok r) :
    (∃ kept, kept.Sublist ts ∧ r = acc ++ kept) ∧
    (∀ t ∈ r, t ∈ acc ∨ (t ∈ ts ∧ ∃ rule ∈ rules, Matches rule inputs t)) ∧
    (∀ t ∈ ts, (∃ rule ∈ rules, Matches rule inputs t) → ∃ t' ∈ r, t'.id = t.id) := by
  have hany : keepsIfAnyRule = true := by decide
  induction ts generalizing acc with
  | nil => simp only [collect] at h; cases h; exact ⟨⟨[], List.Sublist.refl _, by simp⟩, fun t ht => Or.inl ht, by simp⟩
  | cons t ts ih =>
    simp only [collect, keeps, hany, if_true] at h
    cases hk : anyRule inputs t rules with
    | error e => simp [hk] at h
    | ok b =>
      cases b with
      | false =>
        simp only [hk] at h
        obtain ⟨⟨kept, hs, he⟩, h2, h3⟩ := ih acc h
        refine ⟨⟨kept, List.Sublist.cons _ hs, he⟩, fun x hx => ?_, fun x hx hm => ?_⟩
        · rcases h2 x hx with a | ⟨a, b⟩
          · exact Or.inl a
          · exact Or.inr ⟨List.mem_cons_of_mem _ a, b⟩
        · rcases List.mem_cons.mp hx with e | e
          · subst e; obtain ⟨rule, hr, hm'⟩ := hm; exact absurd hm' (anyRule_false inputs x rules hk rule hr)
          · exact h3 x e hm
      | true =>
        simp only [hk] at h
        have hmt := anyRule_true inputs t rules hk
        split at h
        · rename_i hdup
          obtain ⟨⟨kept, hs, he⟩, h2, h3⟩ := ih acc h
          refine ⟨⟨kept, List.Sublist.cons _ hs, he⟩, fun x hx => ?_, fun x hx hm => ?_⟩
          · rcases h2 x hx with a | ⟨a, b⟩
            · exact Or.inl a
            · exact Or.inr ⟨List.mem_cons_of_mem _ a, b⟩
          · rcases List.mem_cons.mp hx with e | e
            · subst e
              simp only [Bool.and_eq_true, List.any_eq_true, beq_iff_eq] at hdup
              obtain ⟨_, y, hy, hid⟩ := hdup
              exact ⟨y, by rw [he]; exact List.mem_append_left _ hy, hid⟩
            · exact h3 x e hm
        · obtain ⟨⟨kept, hs, he⟩, h2, h3⟩ := ih (acc ++ [t]) h
          refine ⟨⟨t :: kept, List.Sublist.cons_cons _ hs, by rw [he]; simp⟩, fun x hx => ?_, fun x hx hm => ?_⟩
          · rcases h2 x hx with a | ⟨a, b⟩
            · rcases List.mem_append.mp a with a' | a'
              · exact Or.inl a'
              · simp at a'; subst a'; exact Or.inr ⟨List.mem_cons_self .., hmt⟩
            · exact Or.inr ⟨List.mem_cons_of_mem _ a, b⟩
          · rcases List.mem_cons.mp hx with e | e
            · subst e; exact ⟨x, by rw [he]; simp, rfl⟩
            · exact h3 x e hm

/-- **filter semantics**: when `get_targets` returns, a target is in the result iff it is one of the given targets
    and some rule matches it (targets are distinct objects; a second occurrence of the same object is dropped) -/
theorem filter_semantics (rules : List Rule) (inputs : Inputs) (targets r : List Target)
    (h : getTargets rules inputs targets = .ok r) :
    (∀ t ∈ r, t ∈ targets ∧ ∃ rule ∈ rules, Matches rule inputs t) ∧
    (∀ t ∈ targets, (∃ rule ∈ rules, Matches rule inputs t) → ∃ t' ∈ r, t'.id = t.id) ∧ r ≠ [] := by
  unfold getTargets at h
  cases hc : collect rules inputs targets [] with
  | error e => simp [hc] at h
  | ok r' =>
    simp only [hc] at h
    split at h
    · cases h
    · rename_i hne
      cases h
      obtain ⟨_, h2, h3⟩ := collect_spec rules inputs targets [] r hc
      refine ⟨fun t ht => ?_, h3, by intro e; simp [e] at hne⟩
      rcases h2 t ht with a | a
      · simp at a
      · exact a

/-- the raise branch: `get_targets` raises "no matching targets" exactly when the loop ran without exception and
    no rule matches any target -/
theorem filter_no_match (rules : List Rule) (inputs : Inputs) (targets : List Target)
    (h : getTargets rules inputs targets = .error .noMatch) (hc : ∃ r, collect rules inputs targets [] = .ok r) :
    ∀ t ∈ targets, ¬ ∃ rule ∈ rules, Matches rule inputs t := by
  obtain ⟨r, hr⟩ := hc
  unfold getTargets at h
  simp only [hr] at h
  split at h
  · rename_i he
    obtain ⟨_, _, h3⟩ := collect_spec rules inputs targets [] r hr
    intro t ht hm
    obtain ⟨t', ht', _⟩ := h3 t ht hm
    cases r with
    | nil => simp at ht'
    | cons a b => simp at he
  · cases h

/-- **the filter keeps the declared order** (the container is insertion-ordered in the source: `collectsInOrder`):
    the result is a sublist of the given targets -/
theorem filter_keeps_order (rules : List Rule) (inputs : Inputs) (targets r : List Target)
    (h : getTargets rules inputs targets = .ok r) : collectsInOrder = true ∧ r.Sublist targets := by
  refine ⟨by decide, ?_⟩
  unfold getTargets at h
  cases hc : collect rules inputs targets [] with
  | error e => simp [hc] at h
  | ok r' =>
    simp only [hc] at h
    split at h
    · cases h
    · cases h
      obtain ⟨⟨kept, hs, he⟩, _, _⟩ := collect_spec rules inputs targets [] r hc
      simpa [he] using hs

/-- chains of filters compose: the final list is a sublist of the declared targets -/
theorem filter_chain_keeps_order (inputs : Inputs) (filters : List (List Rule)) (targets r : List Target)
    (h : foldFilters inputs filters targets = .ok r) : r.Sublist targets := by
  induction filters generalizing targets with
  | nil => simp only [foldFilters] at h; cases h; exact List.Sublist.refl _
  | cons f fs ih =>
    simp only [foldFilters] at h
    cases hg : getTargets f inputs targets with
    | error e => simp [hg] at h
    | ok ts' =>
      simp only [hg] at h
      exact (ih ts' h).trans (filter_keeps_order f inputs targets ts' hg).2

/-- the scheduler caches filter objects by the NAME of their configuration (extracted from `_get_binding_filter`) -/
theorem filters_looked_up_by_name (name type : Nat) : filterCacheKey name type = name := rfl

/-- the cache agrees with a universe `U` of filter configurations: whatever is stored under a name is that
    configuration's own rule list -/
def EnvOk (U : List FilterCfg) (env : FilterEnv) : Prop :=
  ∀ c ∈ U, ∀ r, envGet env c.name = some r → r = c.rules

theorem envGet_append (env : FilterEnv) (k : Nat) (v : List Rule) (x : Nat) :
    envGet (env ++ [(k, v)]) x = match envGet env x with
      | some r => some r
      | none => if k = x then some v else none := by
  induction env with
  | nil => simp [envGet]
  | cons a rest ih =>
    obtain ⟨k', r'⟩ := a
    by_cases h : k' = x
    · simp [envGet, h]
    · simp only [List.cons_append, envGet, h, if_false, ih]

/-- **every job is filtered by its own filters, on a scheduler that has already served other jobs**: if configurations
    with the same name have the same rules (`U`) and the cache agrees with `U`, the filter loop of `schedule()` computes
    exactly the chain of the job's own filters, and the cache still agrees with `U` afterwards -/
theorem schedule_uses_own_filters (U : List FilterCfg) (hU : ∀ c ∈ U, ∀ c' ∈ U, c.name = c'.name → c.rules = c'.rules)
    (inputs : Inputs) (cfgs : List FilterCfg) (hsub : ∀ c ∈ cfgs, c ∈ U) (env : FilterEnv) (henv : EnvOk U env)
    (ts : List Target) :
    (scheduleFilters inputs env cfgs ts).2 = foldFilters inputs (cfgs.map (·.rules)) ts ∧
    EnvOk U (scheduleFilters inputs env cfgs ts).1 := by
  induction cfgs generalizing env ts with
  | nil => exact ⟨rfl, henv⟩
  | cons c cs ih =>
    have hc : c ∈ U := hsub c (List.mem_cons_self ..)
    have hrules : (getBindingFilter env c).2 = c.rules := by
      simp only [getBindingFilter, filters_looked_up_by_name]
      cases h : envGet env c.name with
      | none => rfl
      | some r => exact henv c hc r h
    have henv' : EnvOk U (getBindingFilter env c).1 := by
      simp only [getBindingFilter, filters_looked_up_by_name]
      cases h : envGet env c.name with
      | some r => exact henv
      | none =>
        intro c' hc' r hr
        simp only [envGet_append] at hr
        cases h' : envGet env c'.name with
        | some r' => simp only [h'] at hr; cases hr; exact henv c' hc' _ h'
        | none =>
          simp only [h'] at hr
          by_cases e : c.name = c'.name
          · simp only [e, if_true, Option.some.injEq] at hr
            rw [← hr]; exact hU c hc c' hc' e
          · simp [e] at hr
    simp only [scheduleFilters, List.map_cons, foldFilters, hrules]
    cases hg : getTargets c.rules inputs ts with
    | error e => exact ⟨rfl, henv'⟩
    | ok ts' => exact ih (fun x hx => hsub x (List.mem_cons_of_mem _ hx)) _ henv' ts'

/-- non-vacuity: two differently named matching filters on one scheduler, used by two jobs in both orders -/
example : (scheduleFilters [] [] [⟨7, 1, [⟨1, none, []⟩]⟩, ⟨8, 1, [⟨2, none, []⟩]⟩] [⟨0, 1, none⟩, ⟨1, 2, none⟩]).2
    = .error .noMatch := rfl
example : (scheduleFilters [] [(7, [⟨1, none, []⟩])] [⟨8, 1, [⟨2, none, []⟩]⟩] [⟨0, 1, none⟩, ⟨1, 2, none⟩]).2
    = .ok [⟨1, 2, none⟩] := rfl

/-- **the first admissible target wins**: `schedule()` starts one task per surviving target in list order
    (`tasksInTargetOrder`), asyncio runs them first-come first-served and each pass holds the scheduler lock, so the
    first passes happen in target order on the state `s` the request found: the job goes to the first target of the
    list that fits; no earlier target fitted -/
theorem first_admissible_wins {σ : Type} (fits : σ → Target → Bool) (alloc : σ → Target → σ) (s s' : σ)
    (ts : List Target) (t : Target) (h : firstPass fits alloc s ts = some (t, s')) :
    tasksInTargetOrder = true ∧
    ∃ pre post, ts = pre ++ t :: post ∧ (∀ x ∈ pre, fits s x = false) ∧ fits s t = true ∧ s' = alloc s t := by
  refine ⟨by decide, ?_⟩
  induction ts with
  | nil => simp [firstPass] at h
  | cons x xs ih =>
    simp only [firstPass] at h
    by_cases hx : fits s x = true
    · simp only [hx, if_true, Option.some.injEq, Prod.mk.injEq] at h
      obtain ⟨rfl, rfl⟩ := h
      exact ⟨[], xs, rfl, by simp, hx, rfl⟩
    · simp only [hx] at h
      obtain ⟨pre, post, he, h1, h2, h3⟩ := ih h
      exact ⟨x :: pre, post, by rw [he]; rfl, fun y hy => by
        rcases List.mem_cons.mp hy with e | e
        · subst e; simpa using hx
        · exact h1 y e, h2, h3⟩

/-- and if some target of the list fits, some target is chosen -/
theorem first_pass_some {σ : Type} (fits : σ → Target → Bool) (alloc : σ → Target → σ) (s : σ) (ts : List Target)
    (t : Target) (ht : t ∈ ts) (hf : fits s t = true) : ∃ r, firstPass fits alloc s ts = some r := by
  induction ts with
  | nil => simp at ht
  | cons x xs ih =>
    simp only [firstPass]
    by_cases hx : fits s x = true
    · simp [hx]
    · simp only [hx]
      rcases List.mem_cons.mp ht with e | e
      · subst e; exact absurd hf hx
      · exact ih e

/-! ### non-vacuity: four targets, two rules (one with a service), several survivors -/
def exRules : List Rule := [⟨1, none, [(10, 20)]⟩, ⟨2, some 5, []⟩]
def exTargets : List Target := [⟨0, 1, none⟩, ⟨1, 2, none⟩, ⟨2, 2, some 5⟩, ⟨3, 1, some 6⟩]
example : getTargets exRules [(10, .scalar 20)] exTargets = .ok [⟨0, 1, none⟩, ⟨2, 2, some 5⟩, ⟨3, 1, some 6⟩] := rfl
example : getTargets exRules [(10, .scalar 21)] exTargets = .ok [⟨2, 2, some 5⟩] := rfl
example : getTargets exRules [] exTargets = .error .missingInput := rfl
example : getTargets exRules [(10, .unsupported)] exTargets = .error .unsupportedType := rfl
example : getTargets exRules [(10, .scalar 21)] [⟨0, 1, none⟩] = .error .noMatch := rfl
example : firstPass (fun (_ : Unit) t => t.id ≥ 2) (fun s _ => s) () exTargets = some (⟨2, 2, some 5⟩, ()) := by decide

end SFV.C13
