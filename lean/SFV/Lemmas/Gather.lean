import SFV.Model.Gather
import SFV.Props.C33
/-! Helper lemmas for the gather / scatter model (C01; the order part is reused by C06). -/
namespace SFV.Gather
open SFV

/-! ### the emission guards, as generated from the source, decide equality of count and size -/

theorem sizeEmits_iff (count n : Nat) : Gen.gatherSizeEmits count n = true ↔ count = n := by
  simp [Gen.gatherSizeEmits]; omega

theorem elemEmits_iff (count : Nat) (o : Option Nat) : elemEmits count o = true ↔ o = some count := by
  cases o with
  | none => simp [elemEmits, Gen.gatherElemEmitsNone]
  | some n => simp [elemEmits, Gen.gatherElemEmitsSome]; omega

theorem keyOf_append (d : Nat) (p q : Tag) (h : q.length = d) : keyOf d (p ++ q) = p := by
  simp [keyOf, Gen.gatherDrop, h]

/-! ### `sorted(..., key=cmp_to_key(compare_tags))`: the sorted permutation is unique -/

/-- the order `_gather` sorts by -/
def tagLe {V} (a b : Tok V) : Bool := decide (Gen.gatherCmp a.tag b.tag ≤ 0)

theorem sortToks_def {V} (l : List (Tok V)) : sortToks l = l.mergeSort tagLe := rfl

theorem tagLe_iff {V} (a b : Tok V) : tagLe a b = true ↔ compareTags a.tag b.tag ≤ 0 := by
  unfold tagLe; rw [decide_eq_true_iff]; rfl

theorem tagLe_trans {V} (a b c : Tok V) : tagLe a b = true → tagLe b c = true → tagLe a c = true := by
  simp only [tagLe_iff]
  exact (C33.cmp_trans a.tag b.tag c.tag).2

theorem tagLe_total {V} (a b : Tok V) : (tagLe a b || tagLe b a) = true := by
  simp only [Bool.or_eq_true, tagLe_iff]
  have := C33.cmp_antisymm a.tag b.tag
  omega

theorem tagLe_antisymm_tag {V} (a b : Tok V) (h1 : tagLe a b = true) (h2 : tagLe b a = true) : a.tag = b.tag := by
  simp only [tagLe_iff] at h1 h2
  have := C33.cmp_antisymm a.tag b.tag
  exact (C33.cmp_eq_zero_iff a.tag b.tag).mp (by omega)

/-- strictly increasing tags -/
def StrictSorted {V} (l : List (Tok V)) : Prop := l.Pairwise (fun a b => compareTags a.tag b.tag < 0)

theorem StrictSorted.tags_inj {V} {l : List (Tok V)} (h : StrictSorted l) :
    ∀ a ∈ l, ∀ b ∈ l, a.tag = b.tag → a = b := by
  induction l with
  | nil => intro a ha; cases ha
  | cons x xs ih =>
    have hx := List.pairwise_cons.mp h
    intro a ha b hb hab
    have self0 : ∀ t : Tag, compareTags t t = 0 := fun t => (C33.cmp_eq_zero_iff t t).mpr rfl
    rcases List.mem_cons.mp ha with rfl | ha' <;> rcases List.mem_cons.mp hb with rfl | hb'
    · rfl
    · have := hx.1 b hb'; rw [hab, self0] at this; omega
    · have := hx.1 a ha'; rw [← hab, self0] at this; omega
    · exact ih hx.2 a ha' b hb' hab

/-- **Sorted permutation is unique**: sorting any permutation of a strictly sorted token list with the
    comparator of `_gather` returns that list. (`0.10` after `0.9` is `C33.cmp_numeric`, not a sample.) -/
theorem sortToks_perm_sorted {V} {l l' : List (Tok V)} (hp : l'.Perm l) (hs : StrictSorted l) : sortToks l' = l := by
  have h1 : (sortToks l').Pairwise (fun a b => tagLe a b = true) := List.pairwise_mergeSort tagLe_trans tagLe_total l'
  have h2 : l.Pairwise (fun a b => tagLe a b = true) := by
    refine hs.imp ?_
    intro a b hab
    simp only [tagLe_iff]; omega
  have hperm : (sortToks l').Perm l := (List.mergeSort_perm l' tagLe).trans hp
  refine List.Perm.eq_of_pairwise ?_ h1 h2 hperm
  intro a b ha hb hab hba
  exact hs.tags_inj a (hperm.subset ha) b hb (tagLe_antisymm_tag a b hab hba)

/-! ### scatter -/

theorem scatterFrom_length {V} (tag : Tag) (i : Nat) (xs : List V) : (scatterFrom tag i xs).length = xs.length := by
  induction xs generalizing i with
  | nil => rfl
  | cons x xs ih => simp [scatterFrom, ih]

theorem scatterFrom_getElem {V} (tag : Tag) (i : Nat) (xs : List V) (j : Nat) (h : j < xs.length) :
    (scatterFrom tag i xs)[j]'(by rw [scatterFrom_length]; exact h) = ⟨tag ++ [i + j], xs[j]⟩ := by
  induction xs generalizing i j with
  | nil => cases h
  | cons x xs ih =>
    cases j with
    | zero => simp [scatterFrom, Gen.scatterIdx]
    | succ j =>
      simp only [scatterFrom, List.getElem_cons_succ]
      rw [ih (i + 1) j (by simpa using h)]
      congr 2; simp; omega

theorem mem_scatterFrom {V} {tag : Tag} {i : Nat} {xs : List V} {t : Tok V} (h : t ∈ scatterFrom tag i xs) :
    ∃ j, i ≤ j ∧ t.tag = tag ++ [j] := by
  induction xs generalizing i with
  | nil => cases h
  | cons x xs ih =>
    simp only [scatterFrom, List.mem_cons] at h
    rcases h with rfl | h
    · exact ⟨i, Nat.le_refl _, by simp [Gen.scatterIdx]⟩
    · obtain ⟨j, hj, ht⟩ := ih h
      exact ⟨j, by omega, ht⟩

theorem scatterFrom_sorted {V} (tag : Tag) (i : Nat) (xs : List V) : StrictSorted (scatterFrom tag i xs) := by
  induction xs generalizing i with
  | nil => exact List.Pairwise.nil
  | cons x xs ih =>
    refine List.pairwise_cons.mpr ⟨?_, ih (i + 1)⟩
    intro t ht
    obtain ⟨j, hj, htag⟩ := mem_scatterFrom ht
    rw [htag]
    simp only [Gen.scatterIdx, Int.toNat_natCast]
    exact C33.cmp_numeric tag [] [] i j rfl (by omega)

theorem scatterFrom_key {V} (tag : Tag) (i : Nat) (xs : List V) : ∀ t ∈ scatterFrom tag i xs, keyOf 1 t.tag = tag := by
  intro t ht
  obtain ⟨j, _, htag⟩ := mem_scatterFrom ht
  rw [htag]; exact keyOf_append 1 tag [j] rfl

theorem scatterFrom_map {V W} (f : V → W) (tag : Tag) (i : Nat) (xs : List V) :
    scatterFrom tag i (xs.map f) = (scatterFrom tag i xs).map (fun t => ⟨t.tag, f t.val⟩) := by
  induction xs generalizing i with
  | nil => rfl
  | cons x xs ih => simp [scatterFrom, ih]

end SFV.Gather
