"""Delta debugging (ddmin) over operation sequences: shrink a failing history to a 1-minimal one."""
from __future__ import annotations

import time
from typing import Callable, Sequence, TypeVar

T = TypeVar("T")


def ddmin(seq: Sequence[T], fails: Callable[[list[T]], bool], budget_s: float = 20.0, max_tests: int = 400) -> list[T]:
    """smallest sub-sequence (order preserved) found for which `fails` still returns True.
    `fails` must be deterministic; exceptions inside it count as "does not fail"."""
    t0, tests = time.time(), 0

    def test(c: list[T]) -> bool:
        nonlocal tests
        tests += 1
        try:
            return bool(fails(c))
        except Exception:  # noqa: BLE001
            return False

    cur = list(seq)
    n = 2
    while len(cur) >= 2 and time.time() - t0 < budget_s and tests < max_tests:
        chunk = max(1, len(cur) // n)
        subsets = [cur[i:i + chunk] for i in range(0, len(cur), chunk)]
        reduced = False
        for i in range(len(subsets)):
            comp = [x for j, s in enumerate(subsets) if j != i for x in s]
            if comp and test(comp):
                cur, n, reduced = comp, max(n - 1, 2), True
                break
        if not reduced:
            if n >= len(cur):
                break
            n = min(len(cur), n * 2)
    return cur
