import SFV.Lemmas.DeployR
import SFV.Lemmas.DeployL2
import SFV.Gen.DeployGuards
/-! # C26 — deployments follow a safe lifecycle under concurrent requests

Part A (this section): theorems about the single-deployment protocol of `SFV/Model/Deploy.lean` — any number of
concurrent `deploy` / `undeploy` / *use* requests for one deployment (eager or lazy), every interleaving, connector
deploy calls that may fail. Part B (`SFV/Props/C26Chain.lean`, model `SFV/Model/DeployChain.lean`) covers wraps chains. -/
namespace SFV.C26
open SFV SFV.Deploy

/-- the manager and `FutureConnector` BEFORE the repairs e95b534 (`undeploy` sets the event it cleared) and 3778dfe
    (`FutureConnector.undeploy` waits for a deploy in progress): used only by the regression guards below -/
def oldCfg : Cfg := ⟨false, false⟩
/-- the manager and `FutureConnector` as they are in the source now -/
def codeCfg : Cfg := ⟨true, true⟩

/-- T tie: the source has both repairs (reverting e95b534 or 3778dfe makes this fail to build) -/
theorem gen_cfg_is_repaired : Gen.deployCfg = codeCfg := rfl

/-- the configuration read from the source is one of the variants of the model (trivially: every variant is) and the
    two models read the same `undeploy` -/
theorem gen_cfg_consistent : Gen.deployCfg.ownEvent = Gen.chainCfg.ownEvent := rfl

/-- **deploy at most once while live** (eager deployments; the code as it is and every repaired variant): in every
    reachable state at most one connector object is deploying-or-live (`deploy()` called and not failed, `undeploy()`
    not yet called) — whatever the interleaving of any number of requests and whichever deploy calls fail -/
theorem deploy_at_most_once_while_live {cfg : Cfg} {kinds s} (h : Reachable cfg false kinds s) (o o' : Nat)
    (ha : (s.objs o).active = true) (ha' : (s.objs o').active = true) : o = o' := by
  obtain ⟨_, _, h3, _, ⟨h4, _⟩, _⟩ := invE_reachable h
  have hl := lazy_reachable h
  exact h4 o o' (h3 o hl) (h3 o' hl) ha ha'

/-- the connector in `deployments_map` is that one, and a deployment that is not registered has none -/
theorem registered_connector_is_the_active_one {cfg : Cfg} {kinds s} (h : Reachable cfg false kinds s) :
    (∀ o, s.depmap = some (.eager o) → (s.objs o).active = true) ∧
    (s.config = false → ∀ o, (s.objs o).active = false) := by
  obtain ⟨_, _, h3, _, ⟨_, h4b⟩, _, h6, _⟩ := invE_reachable h
  have hl := lazy_reachable h
  refine ⟨h6, fun hc o => ?_⟩
  cases ha : (s.objs o).active with
  | false => rfl
  | true => have := h4b o (h3 o hl) ha; simp_all

/-- **undeploy at most once**: no connector object ever has `undeploy()` called twice (eager and lazy, every
    interleaving; `Bad.doubleUndeploy` is recorded by the model whenever `undeploy()` is entered on an object whose
    undeploy phase is not `none`) -/
theorem undeploy_at_most_once {cfg : Cfg} {lazy kinds s} (h : Reachable cfg lazy kinds s) (o : Nat) :
    Bad.doubleUndeploy o ∉ s.bad :=
  invB_reachable h o

/-- **lazy deploy once**: a `FutureConnector` creates (and deploys) at most one real connector however many
    first uses race; it does so only after its `deploying` flag is set -/
theorem lazy_deploy_once {cfg : Cfg} {lazy kinds s} (h : Reachable cfg lazy kinds s) (o o' f : Nat)
    (hf : (s.objs o).fut = some f) (hf' : (s.objs o').fut = some f) : o = o' ∧ (s.futs f).deploying = true := by
  obtain ⟨f0, f1, _⟩ := invF_reachable h
  exact ⟨f1 o o' f hf hf', f0 o f hf⟩

/-- … and a use that had to wait fails when that deploy failed (never proceeds without a connector, never hangs:
    `futDeployFail` wakes every waiter) -/
theorem lazy_waiters_fail_if_failed {cfg : Cfg} (s : St) (p q f o : Nat) (hp : s.pc p = .fConn f o)
    (hq : s.pc q = .fWait f) (hc : (s.futs f).conn = none) (hpq : p ≠ q) :
    ∃ s1 s2, step cfg s (.connFail p) = some s1 ∧ s1.pc p = .failed ∧ s1.pc q = .fWoken f ∧
      step cfg s1 (.wake q) = some s2 ∧ s2.pc q = .failed := by
  have h1 : step cfg s (.connFail p) = some (setPc (wakeFut (setFut (setObj s o { s.objs o with dep := .failed }) f
      { s.futs f with evSet := true }) f) p .failed) := by simp [step, hp]
  refine ⟨_, setPc (setPc (wakeFut (setFut (setObj s o { s.objs o with dep := .failed }) f
      { s.futs f with evSet := true }) f) p .failed) q .failed, h1, by simp, ?_, ?_, by simp⟩
  · simp [hq, Ne.symm hpq]
  · simp [step, hq, Ne.symm hpq, hc]

/-! ### a deploy request returns only after the connector is deployed — false of the code -/

def kindsA : Nat → Option Kind
  | 1 => some .deploy | 2 => some .undeploy | 3 => some .deploy | 4 => some .deploy | _ => none

/-- **regression guard — false before fix e95b534** (about the OLD `undeploy`, `oldCfg`): an `undeploy(D)` in flight, a
    re-`deploy(D)` that registers a *new* event, the undeploy finishing with `self.events_map[D].set()` — which then set the
    new event — and a third `deploy(D)` that found the event set: it returned while the new connector's `deploy()` was still
    running. Four requests over one eager deployment. -/
theorem deploy_returns_after_live_false_before_e95b534 :
    ∃ s, Reachable oldCfg false kindsA s ∧ s.pc 4 = .done ∧ s.depmap = some (.eager 1) ∧ (s.objs 1).dep = .deploying := by
  refine ⟨_, reachable_runActs Reachable.init [.start 1, .connOk 1, .start 2, .start 3, .connOk 2, .start 4] rfl, ?_, ?_, ?_⟩ <;> decide

/-- **after the fix** (the code as it is): on the same schedule request 4 waits on the new event until the new connector's
    `deploy()` completes, and then returns for a deployed connector -/
theorem deploy_returns_after_live_fixed_schedule :
    ∃ s, Reachable codeCfg false kindsA s ∧ s.pc 4 = .dWait 1 ∧
      (∃ s', runActs codeCfg s [.connOk 3, .wake 4] = some s' ∧ s'.pc 4 = .done ∧ (s'.objs 1).dep = .ok) := by
  refine ⟨_, reachable_runActs Reachable.init [.start 1, .connOk 1, .start 2, .start 3, .connOk 2, .start 4] rfl, by decide, _, rfl, by decide, by decide⟩

example : ∃ s, Reachable ⟨true, false⟩ false kindsA s ∧ s.pc 4 = .dWait 1 := by
  refine ⟨_, reachable_runActs Reachable.init [.start 1, .connOk 1, .start 2, .start 3, .connOk 2, .start 4] rfl, ?_⟩; decide

/-- **partial**: a request that performs the deployment itself returns only after its connector's `deploy()` succeeded,
    and one that finds the event already set of a deployment nobody is undeploying returns for a deployed connector:
    stated on single steps — `connOk` of the request's own connector is the only way out of `dConn` to `done`. -/
theorem deploy_returns_after_live_partial {cfg : Cfg} (s s' : St) (p o : Nat) (hp : s.pc p = .dConn o)
    (hs : step cfg s (.connOk p) = some s') : (s'.objs o).dep = .ok ∧ (s'.pc p = .done ∨ s'.pc p = .failed) := by
  simp only [step, hp] at hs
  split at hs
  · cases hs
    unfold finishDeploy
    split <;> simp
  · cases hs

/-- **partial — a deploy request returns only after the connector is deployed** when no undeploy request runs
    concurrently: any number of concurrent `deploy(D)` / use requests of an eager deployment, every interleaving, any
    failing `deploy()`: whenever a deploy request reaches `done` — at its start (it finds the event set), when woken from
    the event wait, or when its own connector call completes — the connector registered in `deployments_map` has finished
    `deploy()` successfully. (Without the hypothesis the statement was false before e95b534 — `deploy_returns_after_live_false_before_e95b534` — and is still false for SIX concurrent requests after it: two undeploy requests woken by the same event, the stale one undeploys the re-deployed connector; outside the property's bound of four requests, see design notes. Hence the `_no_undeploy` form stays the proved one.) -/
theorem deploy_returns_after_live_no_undeploy {cfg : Cfg} {kinds s} (hk : ∀ p, kinds p ≠ some .undeploy)
    (h : Reachable cfg false kinds s) (a : Act) (s' : St) (hs : step cfg s a = some s') (p : Nat)
    (ha : (a = .start p ∧ s.pc p = .idle .deploy) ∨ (a = .wake p ∧ s.pc p = .dWoken) ∨ (a = .connOk p ∧ ∃ o, s.pc p = .dConn o))
    (hdone : s'.pc p = .done) :
    ∃ o, s'.depmap = some (.eager o) ∧ (s'.objs o).dep = .ok := by
  have hR' := invR_reachable hk (Reachable.step h hs)
  have hE' := invE_reachable (Reachable.step h hs)
  have hl' := lazy_reachable (Reachable.step h hs)
  obtain ⟨r1, r2, r3, r4, r5, r6, r7, r8⟩ := invR_reachable hk h
  have hl := lazy_reachable h
  -- in the new state: the current event is set and a connector is registered
  have fin : ∀ (t : St), (finishDeploy t p).evmap = t.evmap ∧ (finishDeploy t p).evs = t.evs ∧ (finishDeploy t p).depmap = t.depmap := by
    intro t; unfold finishDeploy; split <;> exact ⟨rfl, rfl, rfl⟩
  have key : ∃ e, s'.evmap = some e ∧ s'.evs e = true ∧ s'.depmap ≠ none := by
    rcases ha with ⟨rfl, hp⟩ | ⟨rfl, hp⟩ | ⟨rfl, o, hp⟩
    · simp only [step, hp] at hs
      cases hs
      have hcfg : s.config = true := by
        cases hc : s.config with
        | true => rfl
        | false => simp [loopHead, hc, register, hl] at hdone
      cases hev : s.evmap with
      | none => simp [loopHead, hcfg, hev] at hdone
      | some e =>
        cases hset : s.evs e with
        | false => simp [loopHead, hcfg, hev, hset] at hdone
        | true =>
          cases hd : s.depmap with
          | none => simp [loopHead, hcfg, hev, hset, afterWait, hd] at hdone
          | some d =>
            have heq : loopHead s p = finishDeploy s p := by simp [loopHead, hcfg, hev, hset, afterWait, hd]
            rw [heq]
            obtain ⟨f1, f2, f3⟩ := fin s
            exact ⟨e, by rw [f1, hev], by rw [f2, hset], by rw [f3, hd]; simp⟩
    · simp only [step, hp] at hs
      cases hs
      obtain ⟨hcf, hevs⟩ := r6 p hp
      cases hev : s.evmap with
      | none => exact absurd hev (r8 hcf)
      | some e =>
        cases hd : s.depmap with
        | none => simp [afterWait, hd] at hdone
        | some d =>
          have heq : afterWait s p = finishDeploy s p := by simp [afterWait, hd, hcf]
          rw [heq]
          obtain ⟨f1, f2, f3⟩ := fin s
          exact ⟨e, by rw [f1, hev], by rw [f2, hevs e hev], by rw [f3, hd]; simp⟩
    · simp only [step, hp] at hs
      have hdm := r7 p o hp
      cases hev : s.evmap with
      | none => simp [hev] at hs
      | some e =>
        simp only [hev] at hs
        cases hs
        obtain ⟨f1, f2, f3⟩ := fin (setEvent (setObj s o { s.objs o with dep := .ok }) e)
        exact ⟨e, by rw [f1]; simpa using hev, by rw [f2]; simp, by rw [f3]; simp [hdm]⟩
  obtain ⟨e, he, hse, hd⟩ := key
  cases hdm : s'.depmap with
  | none => exact absurd hdm hd
  | some dm =>
    cases dm with
    | eager o => exact ⟨o, rfl, hR'.2.2.1 e o he hse hdm⟩
    | future f => have := hE'.2.1 f hdm; rw [hl'] at this; cases this

/-! ### a failed deployment makes waiting requests fail (no wrappers) -/

/-- the deployment failed: registered, no connector, event set -/
def FailedState (s : St) : Prop := s.config = true ∧ s.depmap = none ∧ ∃ e, s.evmap = some e ∧ s.evs e = true

/-- when the `deploy()` of the connector in `deployments_map` raises, the deployment enters `FailedState` and every request waiting on
    the event is woken -/
theorem failed_deploy_wakes_waiters_partial {cfg : Cfg} (s s' : St) (p o e : Nat) (hp : s.pc p = .dConn o)
    (hc : s.config = true) (he : s.evmap = some e) (hd : s.depmap = some (.eager o))
    (hs : step cfg s (.connFail p) = some s') :
    FailedState s' ∧ s'.pc p = .failed ∧ ∀ q, s.pc q = .dWait e → s'.pc q = .dWoken := by
  simp only [step, hp, he, hd, Option.isNone_some, Bool.false_eq_true, if_false] at hs
  cases hs
  refine ⟨⟨by simpa using hc, by simp, e, by simpa using he, by simp⟩, by simp, ?_⟩
  intro q hq
  have : q ≠ p := by rintro rfl; rw [hp] at hq; cases hq
  simp [this, hq]

/-- in `FailedState` every deploy request — starting now or woken from the wait — raises -/
theorem failed_state_requests_fail {cfg : Cfg} (s s' : St) (p : Nat) (hf : FailedState s) :
    (s.pc p = .idle .deploy → step cfg s (.start p) = some s' → s'.pc p = .failed) ∧
    (s.pc p = .dWoken → step cfg s (.wake p) = some s' → s'.pc p = .failed) := by
  obtain ⟨hc, hd, e, he, hs'⟩ := hf
  constructor
  · intro hp hs
    simp only [step, hp] at hs
    cases hs
    simp [loopHead, hc, he, hs', afterWait, hd]
  · intro hp hs
    simp only [step, hp] at hs
    cases hs
    simp [afterWait, hd]

/-- `FailedState` is absorbing: once the connector's `deploy()` failed, no action makes the deployment usable or
    re-registers it (`config_map` keeps the name, so every later request sees the failure) -/
theorem failed_state_absorbing {cfg : Cfg} (s s' : St) (a : Act) (hf : FailedState s) (hs : step cfg s a = some s') :
    s'.config = true ∧ s'.depmap = none := by
  obtain ⟨hc, hd, e, he, hs'⟩ := hf
  cases a <;> simp only [step] at hs <;> (repeat' split at hs) <;>
    first
    | (cases hs; done)
    | (cases hs
       simp [loopHead, afterWait, uBody, useStart, finishDeploy, callUndeploy, undeployEvent, hc, hd, he, hs']
       try (repeat' split) <;> simp_all [finishDeploy])

def kindsC : Nat → Option Kind
  | 1 => some .deploy | 2 => some .undeploy | 3 => some .deploy | _ => none

/-- **FALSE of the code as it is** (`failed_deploy_wakes_waiters`, no wrappers): `deploy(D)` fails while an `undeploy(D)`
    waits on the event; the woken undeploy strips the dependants, **clears the event** and only then hits the `KeyError`
    (`deployments_map[D]` is gone); a later `deploy(D)` finds the deployment registered with its event cleared and
    waits for ever — every other request is finished, nothing is enabled for it. Three requests, one eager deployment. -/
theorem failed_deploy_then_undeploy_hangs_false :
    ∃ s, Reachable codeCfg false kindsC s ∧ s.pc 1 = .failed ∧ s.pc 2 = .failed ∧ s.pc 3 = .dWait 0 ∧ s.evs 0 = false ∧
      (∀ a, a = .start 3 ∨ a = .wake 3 ∨ a = .connOk 3 ∨ a = .connFail 3 → step codeCfg s a = none) := by
  refine ⟨_, reachable_runActs Reachable.init [.start 1, .start 2, .connFail 1, .wake 2, .start 3] rfl, ?_, ?_, ?_, ?_, ?_⟩
  · decide
  · decide
  · decide
  · decide
  · intro a ha
    rcases ha with rfl | rfl | rfl | rfl <;> decide

/-! ### lazy deployments: a connector deployed while its `FutureConnector` is being undeployed is leaked — false of the code -/

def kindsB : Nat → Option Kind
  | 1 => some .deploy | 2 => some .use | 3 => some .undeploy | _ => none

/-- **regression guard — false before fix 3778dfe** (about the OLD `FutureConnector.undeploy`, `oldCfg`): a first use has
    started the real deploy, `undeploy(D)` ran `FutureConnector.undeploy` while `_connector is None` (a no-op) and dropped the
    FutureConnector, then the deploy completed: a live connector that no later `undeploy` / `undeploy_all` could reach. -/
theorem lazy_connector_leaked_false_before_3778dfe :
    ∃ s, Reachable oldCfg true kindsB s ∧ (s.objs 0).live = true ∧ s.depmap = none ∧ s.config = false ∧
      s.pc 1 = .done ∧ s.pc 2 = .done ∧ s.pc 3 = .done := by
  refine ⟨_, reachable_runActs Reachable.init [.start 1, .start 2, .start 3, .connOk 2] rfl, ?_, ?_, ?_, ?_, ?_, ?_⟩ <;> decide

/-- **after the fix** (the code as it is): on the same schedule the undeploy request waits for the deploy in flight and then
    undeploys the connector -/
theorem lazy_connector_undeployed_fixed_schedule :
    ∃ s, Reachable codeCfg true kindsB s ∧ (s.objs 0).und = .done ∧ s.pc 3 = .done ∧ s.depmap = none := by
  refine ⟨_, reachable_runActs Reachable.init [.start 1, .start 2, .start 3, .connOk 2, .wake 3, .connOk 3] rfl, ?_, ?_, ?_⟩ <;> decide

example : ∃ s, Reachable ⟨false, true⟩ true kindsB s ∧ (s.objs 0).und = .done ∧ s.pc 3 = .done := by
  refine ⟨_, reachable_runActs Reachable.init [.start 1, .start 2, .start 3, .connOk 2, .wake 3, .connOk 3] rfl, ?_, ?_⟩ <;> decide

/-- **no lazily deployed connector is leaked** — general statement for the repaired `FutureConnector.undeploy` (3778dfe), any
    number of concurrent deploy / undeploy / use requests, every interleaving (invariant `InvL`, `Lemmas/DeployL*.lean`): a
    connector object created by a `FutureConnector` that is active (its `deploy()` was called and has not failed, its
    `undeploy()` was not called) is always still within reach of an undeploy — either its future is the entry of
    `deployments_map`, or an undeploy request is waiting inside `FutureConnector.undeploy` for that very deploy and will
    undeploy the connector when it wakes -/
theorem lazy_connector_never_leaked {cfg : Cfg} (hw : cfg.futWaits = true) {lazy kinds s} (h : Reachable cfg lazy kinds s)
    (o f : Nat) (hf : (s.objs o).fut = some f) (ha : (s.objs o).active = true) :
    s.depmap = some (.future f) ∨ ∃ p e, s.pc p = .uFWait f e ∨ s.pc p = .uFWoken f e :=
  (invL_reachable hw h).2.2.2.2.2.2 o f hf ha

/-- at rest — the name is not deployed and no request is inside `FutureConnector.undeploy` — no connector created by a
    `FutureConnector` is active, for the code as it is (`Gen.deployCfg = codeCfg`); before 3778dfe the state of
    `lazy_connector_leaked_false_before_3778dfe` (all requests done, connector live, map empty) was reachable -/
theorem lazy_connector_not_leaked_at_rest {kinds s} (h : Reachable codeCfg true kinds s) (hd : s.depmap = none)
    (hq : ∀ p f e, s.pc p ≠ .uFWait f e ∧ s.pc p ≠ .uFWoken f e) (o f : Nat) (hf : (s.objs o).fut = some f) :
    (s.objs o).active = false := by
  cases ha : (s.objs o).active with
  | false => rfl
  | true =>
    rcases lazy_connector_never_leaked (cfg := codeCfg) rfl h o f hf ha with h1 | ⟨p, e, h2⟩
    · rw [hd] at h1; cases h1
    · have := hq p f e; rcases h2 with h2 | h2 <;> simp_all

/-- non-vacuity: the second alternative is used — after `[deploy, use (deploy in flight), undeploy]` the connector is active,
    the map is empty and request 3 waits for the deploy; and the at-rest theorem's hypotheses hold in the final state of the
    repaired schedule -/
example : ∃ s, Reachable codeCfg true kindsB s ∧ (s.objs 0).active = true ∧ (s.objs 0).fut = some 0 ∧ s.depmap = none ∧
    s.pc 3 = .uFWait 0 0 := by
  refine ⟨_, reachable_runActs Reachable.init [.start 1, .start 2, .start 3] rfl, ?_, ?_, ?_, ?_⟩ <;> decide


/-! ### open findings of the repaired code (witnesses; thorough tier of the correspondence check finds the same schedules) -/

/-- **open finding — false for the code as it is**: `undeploy` does not re-validate after its event wait. `deploy(D)` (1) in flight,
    `undeploy(D)` (2) and (3) wait for it; it completes and wakes both; (2) undeploys connector 0; `deploy(D)` (4) registers `D` anew and
    starts deploying connector 1; (3) — woken long ago — goes on without re-checking and calls `undeploy()` on connector 1, whose
    `deploy()` is still running -/
theorem stale_woken_undeploy_hits_redeployed_connector_false :
    ∃ s, Reachable codeCfg false (fun p => if p = 1 ∨ p = 4 then some .deploy else if p = 2 ∨ p = 3 then some .undeploy else none) s ∧
      Bad.undeployNotDeployed 1 ∈ s.bad ∧ (s.objs 1).dep = .deploying ∧ (s.objs 1).und = .undeploying := by
  refine ⟨_, reachable_runActs Reachable.init [.start 1, .start 2, .start 3, .connOk 1, .wake 2, .start 4, .wake 3] rfl, ?_, ?_, ?_⟩ <;>
    decide

/-- **open finding — false for the code as it is** (a consequence of repair 3778dfe): the repaired `FutureConnector.undeploy` defers the
    connector's undeploy until its deploy has finished, but the manager has already released the name. `deploy` (1) registers the
    future, `use` (2) starts the real deploy, `undeploy` (3) removes the future and waits, `deploy` (4) registers a new future, the first
    deploy completes, `use` (5) deploys a second connector through the new future while the first one is live and its undeploy is
    still pending -/
theorem lazy_redeploy_overlaps_deferred_undeploy_false :
    ∃ s, Reachable codeCfg true (fun p => if p = 1 ∨ p = 4 then some .deploy else if p = 2 ∨ p = 5 then some .use
                                           else if p = 3 then some .undeploy else none) s ∧
      (s.objs 0).live = true ∧ (s.objs 1).active = true ∧ s.pc 3 = .uFWoken 0 0 := by
  refine ⟨_, reachable_runActs Reachable.init [.start 1, .start 2, .start 3, .start 4, .connOk 2, .start 5] rfl, ?_, ?_, ?_⟩ <;> decide

/-! ### non-vacuity -/

/-- three racing eager deploys, one undeploy, a re-deploy: a run in which objects 0 and 1 are created in turn -/
example : ∃ s, Reachable oldCfg false kindsA s ∧ (s.objs 0).und = .done ∧ (s.objs 1).live = true ∧ s.pc 3 = .done := by
  refine ⟨_, reachable_runActs Reachable.init
    [.start 1, .start 3, .connOk 1, .wake 3, .start 2, .connOk 2, .start 4, .connOk 4] rfl, ?_, ?_, ?_⟩ <;> decide

/-- two racing first uses of a lazy deployment: one real deploy, the other waits and proceeds -/
example : ∃ s, Reachable codeCfg true (fun p => if p = 1 then some .deploy else if p ≤ 3 then some .use else none) s ∧
    (s.objs 0).live = true ∧ s.nObj = 1 ∧ s.pc 2 = .done ∧ s.pc 3 = .done := by
  refine ⟨_, reachable_runActs Reachable.init [.start 1, .start 2, .start 3, .connOk 2, .wake 3] rfl, ?_, ?_, ?_, ?_⟩ <;> decide


end SFV.C26
