import SFV.Model.Registry
/-! Helper lemmas for C21: invalidation only ever clears validity flags; a registration on a node that does not believe
    the path valid stores the new object there. -/
namespace SFV.Registry

/-- `s'` differs from `s` at most by cleared validity flags and a smaller `valid_paths` -/
structure Shrinks (s s' : St) : Prop where
  len : s'.heap.length = s.heap.length
  nodes : s'.nodes = s.nodes
  locs : s'.locs = s.locs
  valid : ∀ o, objValid s' o = true → objValid s o = true
  objPath : ∀ o, objPath s' o = objPath s o
  objLoc : ∀ o, objLoc s' o = objLoc s o

theorem shrinks_refl (s : St) : Shrinks s s := ⟨rfl, rfl, rfl, fun _ h => h, fun _ => rfl, fun _ => rfl⟩

theorem shrinks_trans {a b c : St} (h1 : Shrinks a b) (h2 : Shrinks b c) : Shrinks a c :=
  ⟨h2.len.trans h1.len, h2.nodes.trans h1.nodes, h2.locs.trans h1.locs, fun o h => h1.valid o (h2.valid o h),
   fun o => (h2.objPath o).trans (h1.objPath o), fun o => (h2.objLoc o).trans (h1.objLoc o)⟩

theorem modify_get (heap : List Obj) (o i : Nat) :
    (heap.modify o (fun x => { x with valid := false }))[i]? =
      if i = o then heap[i]?.map (fun x => { x with valid := false }) else heap[i]? := by
  rw [List.getElem?_modify]
  by_cases h : o = i
  · subst h; simp
  · have : ¬ i = o := fun e => h e.symm
    simp [h, this]

theorem shrinks_markStep (s : St) (p : Path) (l o : Nat) :
    Shrinks s { s with heap := s.heap.modify o (fun x => { x with valid := false }),
                       vpaths := upd s.vpaths p l ((s.vpaths p l).filter (· ≠ objPath s o)) } := by
  refine ⟨by simp, rfl, rfl, ?_, ?_, ?_⟩
  · intro i h
    simp only [objValid, modify_get] at h ⊢
    split at h
    · cases hh : s.heap[i]? <;> simp [hh] at h
    · exact h
  · intro i
    simp only [objPath, modify_get]
    split
    · cases s.heap[i]? <;> simp
    · rfl
  · intro i
    simp only [objLoc, modify_get]
    split
    · cases s.heap[i]? <;> simp
    · rfl

theorem shrinks_markLoop (p : Path) (l : Nat) (os : List Nat) (s : St) : Shrinks s (markLoop p l os s) := by
  induction os generalizing s with
  | nil => exact shrinks_refl s
  | cons o os ih =>
    simp only [markLoop]
    split
    · exact ih s
    · exact shrinks_trans (shrinks_markStep s p l o) (ih _)

theorem markLoop_invalid (p : Path) (l : Nat) (os : List Nat) (s : St) :
    ∀ o ∈ os, objValid (markLoop p l os s) o = false := by
  induction os generalizing s with
  | nil => simp
  | cons a os ih =>
    intro o ho
    simp only [markLoop]
    rcases List.mem_cons.mp ho with rfl | ho
    · split
      · rename_i hc
        cases hv : objValid (markLoop p l os s) o with
        | false => rfl
        | true => have := (shrinks_markLoop p l os s).valid o hv; rw [hc.1] at this; cases this
      · cases hv : objValid (markLoop p l os _) o with
        | false => rfl
        | true =>
          have := (shrinks_markLoop p l os _).valid o hv
          simp only [objValid, modify_get, if_true] at this
          cases hh : s.heap[o]? <;> simp [hh] at this
    · split
      · exact ih s o ho
      · exact ih _ o ho

theorem markLoop_vpaths_other (p : Path) (l : Nat) (os : List Nat) (s : St) (np : Path) (l' : Nat)
    (h : ¬ (np = p ∧ l' = l)) : (markLoop p l os s).vpaths np l' = s.vpaths np l' := by
  induction os generalizing s with
  | nil => rfl
  | cons o os ih =>
    simp only [markLoop]
    split
    · exact ih s
    · rw [ih]; simp [upd, h]

theorem markLoop_valid_other (p : Path) (l : Nat) (os : List Nat) (s : St) (o : Nat) (h : o ∉ os) :
    objValid (markLoop p l os s) o = objValid s o := by
  induction os generalizing s with
  | nil => rfl
  | cons a os ih =>
    have ha : o ≠ a := fun e => h (by simp [e])
    have hos : o ∉ os := fun hm => h (List.mem_cons_of_mem _ hm)
    simp only [markLoop]
    split
    · exact ih s hos
    · rw [ih _ hos]
      simp only [objValid, modify_get, ha, if_false]

/-- the structural walk only shrinks -/
theorem shrinks_invNode (depth : Nat) : ∀ s l p, Shrinks s (invNode depth s l p) := by
  induction depth with
  | zero => intro s l p; exact shrinks_markLoop p l _ s
  | succ d ih =>
    intro s l p
    simp only [invNode]
    have key : ∀ (cs : List Path) (s0 : St), Shrinks s0 (cs.foldl (fun s c => invNode d s l c) s0) := by
      intro cs
      induction cs with
      | nil => exact fun s0 => shrinks_refl s0
      | cons c cs ihc => intro s0; exact shrinks_trans (ih s0 l c) (ihc _)
    exact shrinks_trans (shrinks_markLoop p l _ s) (key _ _)

/-! ### `put` on a node that does not believe the path valid -/

theorem prefixes_snoc (p : Path) (hp : p ≠ []) :
    ∃ init, prefixes p = init ++ [p] ∧ ∀ q ∈ init, q.length < p.length := by
  induction p with
  | nil => exact absurd rfl hp
  | cons x r ih =>
    by_cases hr : r = []
    · subst hr; exact ⟨[], by simp [prefixes], by simp⟩
    · obtain ⟨init, he, hl⟩ := ih hr
      refine ⟨[x] :: init.map (x :: ·), by simp [prefixes, he], ?_⟩
      intro q hq
      rcases List.mem_cons.mp hq with rfl | hq
      · cases r with
        | nil => exact absurd rfl hr
        | cons y r' => simp
      · obtain ⟨q', hq', rfl⟩ := List.mem_map.mp hq
        have := hl q' hq'; simp; omega

/-- the loop over the ancestors leaves the entries of the node `path` and the existing objects alone -/
theorem putLoop_keeps (l o : Nat) (path : Path) (rest : List Path) (s : St) (hne : ∀ np ∈ rest, np ≠ path) :
    (putLoop l o path rest s).locs path l = s.locs path l ∧
    (∀ i, i < s.heap.length → (putLoop l o path rest s).heap[i]? = s.heap[i]?) := by
  induction rest generalizing s with
  | nil => exact ⟨rfl, fun _ _ => rfl⟩
  | cons np rest ih =>
    have hnp : np ≠ path := hne np (by simp)
    have hrest : ∀ q ∈ rest, q ≠ path := fun q hq => hne q (List.mem_cons_of_mem _ hq)
    simp only [putLoop, hnp, if_false]
    split
    · exact ⟨rfl, fun _ _ => rfl⟩
    · obtain ⟨h1, h2⟩ := ih _ hrest
      refine ⟨?_, ?_⟩
      · rw [h1]; simp [upd, hnp.symm]
      · intro i hi
        rw [h2 i (by simp; omega)]
        simp [List.getElem?_append_left hi]

end SFV.Registry
