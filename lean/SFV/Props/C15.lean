import SFV.Lemmas.JobDirs
import SFV.Lemmas.DirReg
import SFV.Gen.DirRegGuard
/-! # C15 — each scheduled job gets its own existing working directories (bookkeeping model; **partial**)

Proved on `SFV/Model/JobDirs.lean` for every sequence of scheduling requests. Partial: the real `mkdir`, `resolve` and
the data manager's registry are runtime (observed by the correspondence check on real scattered runs); uuid4 freshness
is the model's increasing name supply. -/
namespace SFV.C15
open SFV SFV.JobDirs

/-- nothing that exists or is registered is ever lost by later scheduling -/
theorem schedule_monotone (s : St) (r : Req) (c : Nat × Dir) :
    (c ∈ s.fs → c ∈ (schedule s r).fs) ∧ (c ∈ s.reg → c ∈ (schedule s r).reg) := by
  simp only [schedule]; constructor <;> intro h <;> simp [h]

/-- **dirs exist and are registered**: right after `_schedule`, on every allocated location each of the job's three
    directories exists and is registered -/
theorem dirs_exist_and_registered (s : St) (r : Req) (l : Nat) (hl : l ∈ r.locs) (d : Dir) (hd : d ∈ (dirsOf s r).1) :
    (l, d) ∈ (schedule s r).fs ∧ (l, d) ∈ (schedule s r).reg := by
  simp only [schedule]
  constructor <;> (simp only [List.mem_append, List.mem_flatMap, List.mem_map]; right; exact ⟨l, hl, d, hd, rfl⟩)

/-- **dirs distinct unless fixed**: a directory generated for a newly scheduled job differs from every directory of every
    job scheduled before, and the generated directories of one job differ from each other -/
theorem dirs_distinct_unless_fixed (s : St) (r : Req) (h : Below s) :
    (∀ w n, Dir.gen w n ∈ (dirsOf s r).1 → ∀ j ds, (j, ds) ∈ s.jobs → Dir.gen w n ∉ ds) ∧
    (r.fixIn = none → r.fixOut = none → r.fixTmp = none → ((dirsOf s r).1).Nodup) := by
  have p1 := pick_spec r.fixIn r.workdir s.next
  have p2 := pick_spec r.fixOut r.workdir (pick r.fixIn r.workdir s.next).2
  have p3 := pick_spec r.fixTmp r.workdir (pick r.fixOut r.workdir (pick r.fixIn r.workdir s.next).2).2
  constructor
  · intro w n hn j ds hj hmem
    have hb := h j ds hj w n hmem
    simp only [dirsOf, List.mem_cons, List.mem_nil_iff, or_false] at hn
    rcases hn with hn | hn | hn
    · have := (p1.2 w n hn.symm); omega
    · have := (p2.2 w n hn.symm); omega
    · have := (p3.2 w n hn.symm); omega
  · intro h1 h2 h3
    simp [dirsOf, pick, h1, h2, h3]
    omega

/-- non-vacuity: three jobs of a scattered step, the third with a fixed tmp directory shared with a fourth -/
example : (run [⟨0, [0], 7, none, none, none⟩, ⟨1, [0], 7, none, none, none⟩, ⟨2, [0, 1], 7, none, none, some 99⟩,
                ⟨3, [0], 7, none, none, some 99⟩]).jobs =
    [(0, [.gen 7 0, .gen 7 1, .gen 7 2]), (1, [.gen 7 3, .gen 7 4, .gen 7 5]), (2, [.gen 7 6, .gen 7 7, .fixed 99]),
     (3, [.gen 7 8, .gen 7 9, .fixed 99])] := by decide

/-! ## the "already registered?" guard of the registration loop (generated: `SFV.Gen.regSameKey`) -/

/-- **T**: the guard's query names both the deployment and the location, so only a registration on the SAME location answers it -/
theorem gen_registration_guard_is_per_location :
    ∀ l l' : DirReg.Loc, Gen.regSameKey l l' = true → l = l' := by
  intro ⟨a, b⟩ ⟨c, d⟩
  simp [Gen.regSameKey, Gen.regGuardByDeployment, Gen.regGuardByName]

/-- **registered on every allocated location**: after the guarded registration loop (with the repository's guard) every one of
    the job's directories is registered on every location of the allocation, whatever was registered before — also when
    several locations belong to one deployment -/
theorem dirs_registered_on_every_location (reg : List DirReg.Cell) (locs : List DirReg.Loc) (ds : List Dir)
    (l : DirReg.Loc) (hl : l ∈ locs) (d : Dir) (hd : d ∈ ds) :
    (l, d) ∈ DirReg.regLoop Gen.regSameKey reg (DirReg.cells locs ds) :=
  DirReg.regLoop_complete _ gen_registration_guard_is_per_location _ _ _
    (by simp only [DirReg.cells, List.mem_flatMap, List.mem_map]; exact ⟨l, hl, d, hd, rfl⟩)

/-- nothing registered before is lost -/
theorem registration_loop_monotone (reg cs : List DirReg.Cell) (c : DirReg.Cell) (h : c ∈ reg) :
    c ∈ DirReg.regLoop Gen.regSameKey reg cs := DirReg.regLoop_mono _ c cs reg h

/-- a guard that asks only for the deployment skips every location but the first of a deployment: job on locations 0 and 1
    of deployment 0 — the directory is registered on (0,0) only -/
theorem deployment_only_guard_skips_second_location :
    ((0, 1), Dir.gen 7 0) ∉ DirReg.regLoop (fun l l' => l.1 == l'.1) [] (DirReg.cells [(0, 0), (0, 1)] [Dir.gen 7 0]) := by
  decide

/-- non-vacuity: two locations of one deployment and one of another, three directories: nine registrations -/
example : (DirReg.regLoop Gen.regSameKey [] (DirReg.cells [(0, 0), (0, 1), (1, 0)] [Dir.gen 7 0, Dir.gen 7 1, Dir.gen 7 2])).length = 9 := by
  decide

end SFV.C15
