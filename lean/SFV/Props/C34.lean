import SFV.Lemmas.RunCrate
/-! # C34 — exported run provenance is self-contained and consistent (bookkeeping kernel)

Model: `SFV/Model/RunCrate.lean` — the three kinds of updates `RunCrateProvenanceManager` performs on its `graph` dict and
`files_map`, and the final write loop. Proved for **every history of updates**: identifiers in the emitted `@graph` are
unique and each entity sits under its own `@id`; every reference written resolves in the emitted graph provided its target
was put at some point of the history (the manager's pattern: `graph[x["@id"]] = x` next to every `{"@id": x["@id"]}`);
every file registered in `files_map` whose source exists is in the archive. Checksums, zip writing, the JSON-LD
vocabulary and the run itself are validated on real exports by the check (differential / monitor), not proved. -/
namespace SFV.C34
open SFV.RunCrate

/-- identifiers of the emitted `@graph` are unique, for every history of manager updates -/
theorem ids_unique (ops : List Op) : ((emitted (run ops)).map (·.id)).Nodup := by
  obtain ⟨h1, h2⟩ := run_keysOk ops
  have : (emitted (run ops)).map (·.id) = (run ops).graph.map (·.1) := by
    simp only [emitted, List.map_map]
    apply List.map_congr_left
    intro p hp
    exact h2 p hp
  rw [this]; exact h1

/-- every entity is stored under its own `@id` (the dict key) -/
theorem entity_under_own_id (ops : List Op) : ∀ p, p ∈ (run ops).graph → p.2.id = p.1 := (run_keysOk ops).2

/-- **references resolve**: if every reference written by the history targets an identifier that the history also
puts into the graph (or an external URL), no reference of the emitted graph dangles -/
theorem hasPart_closed (ops : List Op)
    (h : ∀ r, Declared ops r → isExternal r = true ∨ ∃ e, Op.put e ∈ ops ∧ e.id = r) :
    ∀ e, e ∈ emitted (run ops) → ∀ r, r ∈ e.refs → isExternal r = true ∨ ∃ e', e' ∈ emitted (run ops) ∧ e'.id = r := by
  intro e he r hr
  simp only [emitted, List.mem_map] at he
  obtain ⟨p, hp, rfl⟩ := he
  have hd : Declared ops r :=
    foldl_declared ops ops {} (fun _ h => h) (by intro p hp; simp at hp) p hp r hr
  rcases h r hd with hx | ⟨e0, he0, rfl⟩
  · exact Or.inl hx
  · right
    have hk : e0.id ∈ keys (run ops) := put_in_keys ops {} e0 he0
    simp only [keys, List.mem_map] at hk
    obtain ⟨q, hq, hqk⟩ := hk
    exact ⟨q.2, by simp only [emitted, List.mem_map]; exact ⟨q, hq, rfl⟩, by rw [(run_keysOk ops).2 q hq, hqk]⟩

/-- a reference to something never put into the graph does dangle (the hypothesis of `hasPart_closed` is needed) -/
theorem hasPart_closed_needs_put :
    refsClosed (emitted (run [.put { id := "./" }, .addRef "./" "ghost"])) = false := by decide

/-- every file registered in `files_map` whose source exists gets an archive entry under its recorded name -/
theorem file_entities_have_archive_entry (ops : List Op) (exists_ : String → Bool) (src dst : String)
    (h : (src, dst) ∈ (run ops).files) (hex : exists_ src = true) :
    dst ∈ archiveNames exists_ (run ops).files [] :=
  archiveNames_has exists_ _ [] src dst h hex

/-! ### non-vacuity: the shape of a real export (root, main entity, configuration file, an action with a result) -/
def exHistory : List Op :=
  [.put { id := "./" }, .put { id := "ro-crate-metadata.json", refs := ["./"] },
   .put { id := "wf.cwl", isFile := true }, .addRef "./" "wf.cwl", .mapFile "/run/wf.cwl" "wf.cwl",
   .mapFile "/run/streamflow.yml" "db96", .addRef "./" "db96", .put { id := "db96", isFile := true },
   .put { id := "#exec", refs := ["wf.cwl"] }, .addRef "./" "#exec", .put { id := "#pv1" }, .addRef "#exec" "#pv1",
   .put { id := "wf.cwl", isFile := true, refs := ["#pv1"] }]

example : idsUnique (emitted (run exHistory)) = true ∧ refsClosed (emitted (run exHistory)) = true ∧
    filesPresent (emitted (run exHistory)) (archiveNames (fun _ => true) (run exHistory).files []) = true := by decide
example : (emitted (run exHistory)).length = 6 := by decide

end SFV.C34
