#!/venv/bin/python
"""Regenerate the machine-written parts of DESIGN.md (§9.3 table, §9.4 seeded changes, §9.5 findings) between markers."""
import glob, importlib, json, os, re, sys
ROOT = os.path.dirname(os.path.dirname(os.path.abspath(__file__)))
sys.path[:0] = [os.path.join(ROOT, "harness"), "/repo"]
from sfv import framework  # noqa: E402


def props_table():
    rows = ["| id | Lean files (Props) | theorems | translators (T) | driver (K) | open findings | fixed | notes |", "|---|---|---|---|---|---|---|---|"]
    for i in range(1, 35):
        pid = f"C{i:02d}"
        try:
            P = importlib.import_module(f"sfv.props.{pid.lower()}").PROPERTY
        except Exception as e:  # noqa: BLE001
            rows.append(f"| {pid} | (no check: {e}) | | | | | | |")
            continue
        thms = sum(len(framework.props_theorems(f)) for f in P.props_files)
        open_, fixed = framework.load_known_findings(pid)
        trs = ", ".join(sorted({t.__module__.split('.')[-1] for t in P.translators})) or "—"
        drv = ", ".join(os.path.basename(d) for d in P.drivers) or "—"
        rows.append(f"| {pid} | {', '.join(os.path.basename(f) for f in P.props_files)} | {thms} | {trs} | {drv} | {len(open_)} | {len(fixed)} | design_notes/{pid}.md |")
    return "\n".join(rows)


def grades_table():
    import re
    rows = ["| id | grade claimed (first sentence of MANIFEST level_claimed.text) |", "|---|---|"]
    for i in range(1, 35):
        pid = f"C{i:02d}"
        try:
            P = importlib.import_module(f"sfv.props.{pid.lower()}").PROPERTY
        except Exception:  # noqa: BLE001
            continue
        txt = " ".join(P.level_text.split())
        rows.append(f"| {pid} | {txt[:330].replace('|', '/')}… |")
    return "\n".join(rows)


def seeded_table():
    rows = ["| seed | property | what it needs to manifest | result of the check |", "|---|---|---|---|"]
    for d in sorted(glob.glob(os.path.join(ROOT, "seeded", "*"))):
        m = os.path.join(d, "meta.json")
        if not os.path.exists(m):
            continue
        meta = json.load(open(m))
        rows.append(f"| {os.path.basename(d)} | {meta['property']} | {meta['needs_to_manifest'].replace('|', '/')} | {meta['check_result'].replace('|', '/')} |")
    ob = os.path.join(ROOT, "seeded", "OBSOLETE.json")
    if os.path.exists(ob):
        for k, v in sorted(json.load(open(ob)).items()):
            rows.append(f"| {k} | {k[:3]} | (no longer applies to /repo HEAD) | not run: {v} |")
    return "\n".join(rows)


def findings_list():
    out = []
    paths = [os.path.join(ROOT, "known_findings.jsonl")] + sorted(glob.glob(os.path.join(ROOT, "known_findings.d", "*.jsonl")))
    for p in paths:
        for line in open(p):
            line = line.strip()
            if not line:
                continue
            r = json.loads(line)
            pid = r.get("property") or "/".join(r.get("properties", []))
            st = r.get("status", "open")
            txt = r["line"].replace("\n", " ")
            out.append(f"* **{pid}** [{st}{' ' + r['commit'] if r.get('commit') else ''}] `{r['key']}` — {txt[:400]}")
    return "\n".join(out)


def main():
    path = os.path.join(ROOT, "DESIGN.md")
    s = open(path).read()
    for name, text in (("PROPS", props_table()), ("GRADES", grades_table()), ("SEEDED", seeded_table()), ("FINDINGS", findings_list())):
        a, b = f"<!-- BEGIN {name} -->", f"<!-- END {name} -->"
        if a in s and b in s:
            s = s[: s.index(a) + len(a)] + "\n" + text + "\n" + s[s.index(b):]
        else:
            print("marker missing", name)
    open(path, "w").write(s)
    print("DESIGN.md updated")


main()
