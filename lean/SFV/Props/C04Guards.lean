import SFV.Lemmas.StepGuards
/-! # C04 — the status logic of the model is the status logic of the source

`SFV/Gen/StepGuards.lean` is regenerated from /repo on every run by `harness/sfv/translate/stepguards.py`
(the `match` arms and final if-chain of `_reduce_statuses`, `BaseStep._get_status`, the statuses on which
`_wait_outputs` cancels and `run` raises). These theorems fail to compile as soon as the source stops meaning what
`SFV/Model/Exec.lean` says. -/
namespace SFV.C04
open SFV.Exec

/-- `Exec.reduce` is `_reduce_statuses` as written in the source (loop with early returns, skipped counter, final
if-chain), on every list of COMPLETED / SKIPPED / FAILED / CANCELLED statuses -/
theorem reduce_matches_source (l : List Status) : (reduce l).code = genReduce (l.map Status.code) :=
  reduce_code l

/-- `Exec.getStatus` is `BaseStep._get_status` as written in the source -/
theorem get_status_matches_source (s : Status) (anyEmpty : Bool) :
    (getStatus s anyEmpty).code = Gen.getStatusGen s.code anyEmpty :=
  getStatus_code s anyEmpty

/-- the statuses on which the executor cancels (`_wait_outputs`) and raises (`run`) are the model's `bad` statuses -/
theorem bad_matches_source (s : Status) : s.bad = Gen.finalBad s.code ∧ s.bad = Gen.cancelOn s.code :=
  bad_code s

example : (reduce [.completed, .skipped, .failed, .cancelled]).code = Gen.statusFailed := by decide
example : genReduce [3, 3] = 3 ∧ genReduce [3, 4] = 4 ∧ genReduce [4, 6, 5] = 6 := by decide

end SFV.C04
