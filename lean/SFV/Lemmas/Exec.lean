import SFV.Model.Exec
/-! Helper definitions and lemmas for the executor protocol (C04). -/
namespace SFV.Exec

/-! ## Definitions -/

/-- well-formed step graph: topologically ordered, outputs are steps, every step without consumer is the
    producer of a workflow output port, and there is at least one workflow output -/
structure ENet.WF (N : ENet) : Prop where
  topo   : ∀ i, i < N.n → ∀ j ∈ N.preds i, j < i
  outsLt : ∀ o ∈ N.outs, o < N.n
  reach  : ∀ i, i < N.n → i ∈ N.outs ∨ ∃ k, k < N.n ∧ i ∈ N.preds k
  outsNe : N.outs ≠ []

/-- run a list of actions; `none` as soon as one is not enabled -/
def runActs (fx : Bool) (N : ENet) : St → List Act → Option St
  | s, [] => some s
  | s, a :: as =>
    match step fx N s a with
    | none => none
    | some s' => runActs fx N s' as

/-- the state after a run from the initial state (the initial state if the run is not enabled) -/
def runD (fx : Bool) (N : ENet) (acts : List Act) : St := (runActs fx N St.init acts).getD St.init

def isStepAct : Act → Bool
  | .finish _ | .fail _ => true
  | _ => false

def NoFail (acts : List Act) : Prop := ∀ i, Act.fail i ∉ acts

/-- COMPLETED or SKIPPED -/
def Good (o : Option Status) : Prop := o = some .completed ∨ o = some .skipped

/-! ## Statuses -/

theorem bad_false_iff (x : Status) : x.bad = false ↔ x = .completed ∨ x = .skipped := by
  cases x <;> simp [Status.bad]

theorem reduce_not_bad (l : List Status) (h : ∀ x ∈ l, x.bad = false) : (reduce l).bad = false := by
  unfold reduce
  split
  · rename_i s hs
    have h1 := List.find?_some hs
    have h2 := List.mem_of_find?_eq_some hs
    rw [h _ h2] at h1; cases h1
  · split <;> rfl

theorem getStatus_not_bad (x : Status) (e : Bool) (h : x.bad = false) : (getStatus x e).bad = false := by
  cases x <;> cases e <;> simp_all [getStatus, Status.bad]

theorem mem_preds {N : ENet} {i j : Nat} : j ∈ N.preds i ↔ some j ∈ N.ins i := by
  simp [ENet.preds]

/-- a step whose producers all ended well (or are source ports) ends well when it terminates by itself -/
theorem finishStatus_not_bad (N : ENet) (s : St) (i : Nat)
    (h : ∀ j ∈ N.preds i, ∀ x, s.st j = some x → x.bad = false) : (finishStatus N s i).bad = false := by
  unfold finishStatus
  apply getStatus_not_bad
  have hr : (reduce ((N.ins i).map (fun p => match p with
      | none => Status.completed
      | some j => (s.st j).getD .completed))).bad = false := by
    apply reduce_not_bad
    intro x hx
    obtain ⟨p, hp, rfl⟩ := List.mem_map.mp hx
    cases p with
    | none => rfl
    | some j =>
      cases hj : s.st j with
      | none => simp only [hj]; rfl
      | some y => simp only [hj]; exact h j (mem_preds.mpr hp) y hj
  split
  · rfl
  · exact hr

/-! ## Fields after the state updates -/

@[simp] theorem setSt_st (s : St) (i : Nat) (x : Status) (j : Nat) :
    (s.setSt i x).st j = if j = i then some x else s.st j := rfl
@[simp] theorem setSt_pc (s : St) (i : Nat) (x : Status) : (s.setSt i x).pc = s.pc := rfl
@[simp] theorem setSt_received (s : St) (i : Nat) (x : Status) : (s.setSt i x).received = s.received := rfl
@[simp] theorem closeAll_pc (s : St) : s.closeAll.pc = .closed := rfl
@[simp] theorem closeAll_received (s : St) : s.closeAll.received = s.received := rfl
theorem closeAll_st (s : St) (j : Nat) :
    s.closeAll.st j = match s.st j with | none => some .cancelled | some x => some x := rfl
theorem closeAll_st_isSome (s : St) (j : Nat) : (s.closeAll.st j).isSome = true := by
  rw [closeAll_st]; split <;> rfl
theorem closeAll_st_of_some (s : St) (j : Nat) (x : Status) (h : s.st j = some x) : s.closeAll.st j = some x := by
  rw [closeAll_st, h]
theorem closeAll_st_of_ne_none (s : St) (j : Nat) (h : s.st j ≠ none) : s.closeAll.st j = s.st j := by
  rw [closeAll_st]; split
  · contradiction
  · rename_i x hx; exact hx.symm

/-! ## What an enabled action does -/

theorem step_finish_some {fx : Bool} {N : ENet} {s s' : St} {i : Nat} (h : step fx N s (.finish i) = some s') :
    i < N.n ∧ s.st i = none ∧ (∀ j ∈ N.preds i, (s.st j).isSome = true) ∧
      s' = s.setSt i (finishStatus N s i) := by
  simp only [step] at h
  split at h
  · rename_i hc
    cases h
    exact ⟨hc.1, hc.2.1, List.all_eq_true.mp hc.2.2, rfl⟩
  · cases h

theorem step_finish_enabled {fx : Bool} {N : ENet} {s : St} {i : Nat} (h1 : i < N.n) (h2 : s.st i = none)
    (h3 : ∀ j ∈ N.preds i, (s.st j).isSome = true) :
    step fx N s (.finish i) = some (s.setSt i (finishStatus N s i)) := by
  simp only [step]
  rw [if_pos ⟨h1, h2, List.all_eq_true.mpr h3⟩]

theorem step_fail_some {fx : Bool} {N : ENet} {s s' : St} {i : Nat} (h : step fx N s (.fail i) = some s') :
    i < N.n ∧ s.st i = none ∧ s' = s.setSt i .failed := by
  simp only [step] at h
  split at h
  · rename_i hc
    cases h
    exact ⟨hc.1, hc.2, rfl⟩
  · cases h

/-- the executor has read the (good) termination of every workflow output port -/
def covered (N : ENet) (rcv : List Nat) : Bool := (List.range N.outs.length).all (fun k' => rcv.contains k')

theorem step_read_some {fx : Bool} {N : ENet} {s s' : St} {k : Nat} (h : step fx N s (.read k) = some s') :
    s.pc = .running ∧ k ∉ s.received ∧ ∃ o x, N.outs[k]? = some o ∧ s.st o = some x ∧
      ((x.bad = true ∧ fx = true ∧ s' = ({ s with failedRead := some k } : St).closeAll) ∨
       (x.bad = true ∧ fx = false ∧ s' = { s with failedRead := some k, pc := .closed }) ∨
       (x.bad = false ∧ covered N (k :: s.received) = true ∧
          s' = ({ s with received := k :: s.received } : St).closeAll) ∨
       (x.bad = false ∧ covered N (k :: s.received) = false ∧ s' = { s with received := k :: s.received })) := by
  simp only [step] at h
  split at h
  · rename_i hc
    refine ⟨hc.1, hc.2, ?_⟩
    split at h
    · cases h
    · rename_i o ho
      split at h
      · cases h
      · rename_i x hx
        refine ⟨o, x, ho, hx, ?_⟩
        split at h
        · rename_i hb
          cases fx
          · cases h; exact Or.inr (Or.inl ⟨hb, rfl, rfl⟩)
          · cases h; exact Or.inl ⟨hb, rfl, rfl⟩
        · rename_i hb
          have hb' : x.bad = false := by cases hx' : x.bad <;> simp_all
          split at h
          · rename_i hcov
            cases h; exact Or.inr (Or.inr (Or.inl ⟨hb', hcov, rfl⟩))
          · rename_i hcov
            cases h
            refine Or.inr (Or.inr (Or.inr ⟨hb', ?_, rfl⟩))
            cases hc' : covered N (k :: s.received)
            · rfl
            · exact absurd hc' hcov
  · cases h

/-- some step `i < n` has a FAILED or CANCELLED status -/
def anyBad (N : ENet) (s : St) : Bool :=
  (List.range N.n).any (fun i => match s.st i with | some x => x.bad | none => false)

theorem anyBad_true {N : ENet} {s : St} : anyBad N s = true ↔ ∃ i x, i < N.n ∧ s.st i = some x ∧ x.bad = true := by
  unfold anyBad
  rw [List.any_eq_true]
  constructor
  · rintro ⟨i, hi, hb⟩
    cases hx : s.st i with
    | none => rw [hx] at hb; cases hb
    | some x => rw [hx] at hb; exact ⟨i, x, List.mem_range.mp hi, hx, hb⟩
  · rintro ⟨i, x, hi, hx, hb⟩
    refine ⟨i, List.mem_range.mpr hi, ?_⟩
    rw [hx]; exact hb

theorem step_final_some {fx : Bool} {N : ENet} {s s' : St} (h : step fx N s .final = some s') :
    s.pc = .closed ∧ ((anyBad N s = true ∧ s' = { s with pc := .raised }) ∨
                      (anyBad N s = false ∧ s' = { s with pc := .returned })) := by
  simp only [step] at h
  split at h
  · rename_i hc
    refine ⟨hc, ?_⟩
    split at h
    · rename_i hb
      cases h; exact Or.inl ⟨hb, rfl⟩
    · rename_i hb
      cases h
      refine Or.inr ⟨?_, rfl⟩
      cases hb' : anyBad N s
      · rfl
      · exact absurd hb' hb
  · cases h

theorem step_final_enabled {fx : Bool} {N : ENet} {s : St} (h : s.pc = .closed) :
    ∃ s', step fx N s .final = some s' := by
  simp only [step]
  rw [if_pos h]
  split <;> exact ⟨_, rfl⟩

/-! ## Runs -/

@[simp] theorem runActs_nil (fx : Bool) (N : ENet) (s : St) : runActs fx N s [] = some s := rfl

theorem runActs_cons {fx : Bool} {N : ENet} {s s'' : St} {a : Act} {as : List Act}
    (h : runActs fx N s (a :: as) = some s'') : ∃ s', step fx N s a = some s' ∧ runActs fx N s' as = some s'' := by
  simp only [runActs] at h
  split at h
  · cases h
  · rename_i s' hs; exact ⟨s', hs, h⟩

theorem runActs_append_one {fx : Bool} {N : ENet} {a : Act} {s' s'' : St} :
    ∀ {as : List Act} {s : St}, runActs fx N s as = some s' → step fx N s' a = some s'' →
      runActs fx N s (as ++ [a]) = some s''
  | [], s, h, h2 => by
    cases h
    simp only [List.nil_append, runActs, h2]
  | b :: as, s, h, h2 => by
    obtain ⟨s1, hs1, hr⟩ := runActs_cons h
    simp only [List.cons_append, runActs, hs1]
    exact runActs_append_one hr h2

/-- a property preserved by every enabled action allowed by `A` holds after every run of such actions -/
theorem runActs_inv {fx : Bool} {N : ENet} {P : St → Prop} {A : Act → Prop}
    (hstep : ∀ s a s', P s → A a → step fx N s a = some s' → P s') :
    ∀ (acts : List Act) (s s' : St), P s → (∀ a ∈ acts, A a) → runActs fx N s acts = some s' → P s'
  | [], s, s', hp, _, h => by cases h; exact hp
  | a :: as, s, s', hp, hA, h => by
    obtain ⟨s1, hs1, hr⟩ := runActs_cons h
    exact runActs_inv hstep as s1 s' (hstep s a s1 hp (hA a (List.mem_cons_self ..)) hs1)
      (fun b hb => hA b (List.mem_cons_of_mem _ hb)) hr

theorem reachable_runActs {fx : Bool} {N : ENet} {s s' : St} {acts : List Act} (hr : Reachable fx N s)
    (h : runActs fx N s acts = some s') : Reachable fx N s' :=
  runActs_inv (P := Reachable fx N) (A := fun _ => True) (fun _ _ _ hp _ hs => Reachable.step hp hs)
    acts s s' hr (fun _ _ => trivial) h

theorem reachable_iff {fx : Bool} {N : ENet} {s : St} :
    Reachable fx N s ↔ ∃ acts, runActs fx N St.init acts = some s := by
  constructor
  · intro h
    induction h with
    | init => exact ⟨[], rfl⟩
    | step _ hs ih =>
      obtain ⟨acts, ha⟩ := ih
      exact ⟨acts ++ [_], runActs_append_one ha hs⟩
  · rintro ⟨acts, h⟩
    exact reachable_runActs Reachable.init h

theorem reachable_runD {fx : Bool} {N : ENet} {acts : List Act} (h : (runActs fx N St.init acts).isSome = true) :
    Reachable fx N (runD fx N acts) := by
  unfold runD
  cases hr : runActs fx N St.init acts with
  | none => rw [hr] at h; cases h
  | some s => exact reachable_iff.mpr ⟨acts, hr⟩

/-! ## The number of steps that are not terminated -/

theorem filter_length_le (l : List Nat) (p q : Nat → Bool) (h : ∀ k ∈ l, q k = true → p k = true) :
    (l.filter q).length ≤ (l.filter p).length := by
  induction l with
  | nil => simp
  | cons a l ih =>
    have ih' := ih (fun k hk => h k (List.mem_cons_of_mem _ hk))
    have ha := h a (List.mem_cons_self ..)
    simp only [List.filter_cons]
    cases hq : q a <;> cases hp : p a <;> simp_all <;> omega

/-- switching the predicate off at one position of a duplicate-free list removes one element from the filter -/
theorem filter_length_update (l : List Nat) (p q : Nat → Bool) (i : Nat) (hnd : l.Nodup) (hi : i ∈ l)
    (hp : p i = true) (hq : q i = false) (hpq : ∀ k, k ≠ i → q k = p k) :
    (l.filter q).length + 1 = (l.filter p).length := by
  induction l with
  | nil => simp at hi
  | cons a l ih =>
    simp only [List.nodup_cons] at hnd
    simp only [List.filter_cons]
    by_cases ha : a = i
    · subst ha
      have : l.filter q = l.filter p := by
        apply List.filter_congr
        intro k hk
        exact hpq k (fun e => hnd.1 (e ▸ hk))
      simp [hp, hq, this]
    · have hi' : i ∈ l := by
        rcases List.mem_cons.mp hi with h | h
        · exact absurd h.symm ha
        · exact h
      have := ih hnd.2 hi'
      rw [hpq a ha]
      cases p a <;> simp <;> omega

theorem notDone_init (N : ENet) : notDone N St.init = N.n := by
  simp [notDone, St.init, List.filter_eq_self.mpr]

theorem notDone_setSt (N : ENet) (s : St) (i : Nat) (x : Status) (hi : i < N.n) (hn : s.st i = none) :
    notDone N (s.setSt i x) + 1 = notDone N s := by
  unfold notDone
  apply filter_length_update _ _ _ i List.nodup_range (List.mem_range.mpr hi)
  · simp [hn]
  · simp
  · intro k hk; simp [hk]

theorem notDone_le_of (N : ENet) (s s' : St) (h : ∀ i, s.st i ≠ none → s'.st i ≠ none) :
    notDone N s' ≤ notDone N s := by
  unfold notDone
  apply filter_length_le
  intro k _ hk
  cases h1 : s.st k with
  | none => rfl
  | some x =>
    have := h k (by rw [h1]; simp)
    cases h2 : s'.st k with
    | none => exact absurd h2 this
    | some y => rw [h2] at hk; cases hk

theorem notDone_closeAll (N : ENet) (s : St) : notDone N s.closeAll = 0 := by
  unfold notDone
  rw [List.length_eq_zero_iff, List.filter_eq_nil_iff]
  intro k _
  have := closeAll_st_isSome s k
  cases h : s.closeAll.st k with
  | none => rw [h] at this; cases this
  | some x => simp

theorem notDone_eq_zero {N : ENet} {s : St} (h : notDone N s = 0) : ∀ i, i < N.n → (s.st i).isSome = true := by
  unfold notDone at h
  rw [List.length_eq_zero_iff, List.filter_eq_nil_iff] at h
  intro i hi
  have := h i (List.mem_range.mpr hi)
  cases hs : s.st i with
  | none => rw [hs] at this; simp at this
  | some x => rfl

theorem step_decreases {fx : Bool} {N : ENet} {s s' : St} {a : Act} (h : step fx N s a = some s')
    (ha : isStepAct a = true) : notDone N s' + 1 = notDone N s := by
  cases a with
  | finish i =>
    obtain ⟨h1, h2, _, rfl⟩ := step_finish_some h
    exact notDone_setSt N s i _ h1 h2
  | fail i =>
    obtain ⟨h1, h2, rfl⟩ := step_fail_some h
    exact notDone_setSt N s i _ h1 h2
  | read k => cases ha
  | final => cases ha

theorem step_nonincreasing {fx : Bool} {N : ENet} {s s' : St} {a : Act} (h : step fx N s a = some s') :
    notDone N s' ≤ notDone N s := by
  cases a with
  | finish i => have := step_decreases h rfl; omega
  | fail i => have := step_decreases h rfl; omega
  | read k =>
    obtain ⟨_, _, o, x, _, _, h5⟩ := step_read_some h
    rcases h5 with ⟨_, _, rfl⟩ | ⟨_, _, rfl⟩ | ⟨_, _, rfl⟩ | ⟨_, _, rfl⟩
    · rw [notDone_closeAll]; exact Nat.zero_le _
    · exact Nat.le_refl _
    · rw [notDone_closeAll]; exact Nat.zero_le _
    · exact Nat.le_refl _
  | final =>
    obtain ⟨_, h2⟩ := step_final_some h
    rcases h2 with ⟨_, rfl⟩ | ⟨_, rfl⟩ <;> exact Nat.le_refl _

theorem run_steps_bounded {fx : Bool} {N : ENet} :
    ∀ (acts : List Act) (s s' : St), runActs fx N s acts = some s' →
      (acts.filter isStepAct).length + notDone N s' ≤ notDone N s
  | [], s, s', h => by cases h; simp
  | a :: as, s, s', h => by
    obtain ⟨s1, hs1, hr⟩ := runActs_cons h
    have ih := run_steps_bounded as s1 s' hr
    simp only [List.filter_cons]
    cases ha : isStepAct a
    · have := step_nonincreasing hs1
      simp; omega
    · have := step_decreases hs1 ha
      simp; omega

/-! ## Progress of the step network -/

theorem exists_unfinished_pred {N : ENet} {s : St} {i : Nat}
    (h : ¬ ∀ j ∈ N.preds i, (s.st j).isSome = true) : ∃ j, j ∈ N.preds i ∧ s.st j = none := by
  apply Classical.byContradiction
  intro hne
  apply h
  intro j hj
  cases hs : s.st j with
  | none => exact absurd ⟨j, hj, hs⟩ hne
  | some x => rfl

/-- below every non-terminated step there is a non-terminated step all of whose producers are terminated -/
theorem exists_enabled_finish {fx : Bool} {N : ENet} (hwf : N.WF) (s : St) :
    ∀ i, i < N.n → s.st i = none → ∃ i', i' ≤ i ∧ step fx N s (.finish i') = some (s.setSt i' (finishStatus N s i')) := by
  intro i
  induction i using Nat.strongRecOn with
  | _ i ih =>
    intro hi hn
    by_cases hall : ∀ j ∈ N.preds i, (s.st j).isSome = true
    · exact ⟨i, Nat.le_refl _, step_finish_enabled hi hn hall⟩
    · obtain ⟨j, hj, hjn⟩ := exists_unfinished_pred hall
      have hlt := hwf.topo i hi j hj
      obtain ⟨i', hle, hs⟩ := ih j hlt (Nat.lt_trans hlt hi) hjn
      exact ⟨i', by omega, hs⟩

theorem all_done_of_no_finish {fx : Bool} {N : ENet} (hwf : N.WF) (s : St)
    (h : ∀ i, step fx N s (.finish i) = none) : ∀ i, i < N.n → (s.st i).isSome = true := by
  intro i hi
  cases hs : s.st i with
  | some x => rfl
  | none =>
    obtain ⟨i', _, he⟩ := exists_enabled_finish (fx := fx) hwf s i hi hs
    rw [h i'] at he; cases he

/-! ## Coverage test of `_wait_outputs` -/

theorem covered_true {N : ENet} {r : List Nat} : covered N r = true ↔ ∀ k, k < N.outs.length → k ∈ r := by
  simp [covered]

theorem covered_false {N : ENet} {r : List Nat} : covered N r = false ↔ ∃ k, k < N.outs.length ∧ k ∉ r := by
  simp [covered]

theorem outs_getElem?_mem {N : ENet} {k o : Nat} (h : N.outs[k]? = some o) : o ∈ N.outs :=
  List.mem_of_getElem? h

/-! ## Invariant of every reachable state (with or without the repair) -/

def Inv (N : ENet) (s : St) : Prop :=
  (s.pc = .running → ∀ i, s.st i ≠ none → i < N.n) ∧
  (s.pc = .closed → (∀ i, i < N.n → s.st i ≠ none) ∨ anyBad N s = true) ∧
  (s.pc = .returned → ∀ i, i < N.n → ∃ x, s.st i = some x ∧ x.bad = false)

theorem anyBad_setSt {N : ENet} {s : St} {i : Nat} {x : Status} (hn : s.st i = none) (h : anyBad N s = true) :
    anyBad N (s.setSt i x) = true := by
  rw [anyBad_true] at h ⊢
  obtain ⟨j, y, hj, hy, hb⟩ := h
  refine ⟨j, y, hj, ?_, hb⟩
  have : j ≠ i := by intro e; subst e; rw [hn] at hy; cases hy
  simp [this, hy]

theorem inv_init (N : ENet) : Inv N St.init := by
  refine ⟨?_, ?_, ?_⟩ <;> simp [St.init]

theorem inv_setSt {N : ENet} {s : St} {i : Nat} {x : Status} (hI : Inv N s) (hi : i < N.n) (hn : s.st i = none) :
    Inv N (s.setSt i x) := by
  obtain ⟨h1, h2, h3⟩ := hI
  refine ⟨?_, ?_, ?_⟩
  · intro hp j hj
    simp only [setSt_pc] at hp
    simp only [setSt_st] at hj
    by_cases e : j = i
    · omega
    · rw [if_neg e] at hj; exact h1 hp j hj
  · intro hp
    simp only [setSt_pc] at hp
    rcases h2 hp with h | h
    · exact absurd hn (h i hi)
    · exact Or.inr (anyBad_setSt hn h)
  · intro hp
    simp only [setSt_pc] at hp
    obtain ⟨y, hy, _⟩ := h3 hp i hi
    rw [hn] at hy; cases hy

theorem inv_step {fx : Bool} {N : ENet} {s s' : St} {a : Act} (hI : Inv N s) (hs : step fx N s a = some s') :
    Inv N s' := by
  cases a with
  | finish i =>
    obtain ⟨hi, hn, _, rfl⟩ := step_finish_some hs
    exact inv_setSt hI hi hn
  | fail i =>
    obtain ⟨hi, hn, rfl⟩ := step_fail_some hs
    exact inv_setSt hI hi hn
  | read k =>
    obtain ⟨h1, h2, h3⟩ := hI
    obtain ⟨hp, _, o, x, ho, hx, h5⟩ := step_read_some hs
    have hcl : ∀ t : St, Inv N t.closeAll := by
      intro t
      refine ⟨?_, ?_, ?_⟩
      · simp
      · intro _; left; intro i _ h
        have := closeAll_st_isSome t i
        rw [h] at this; cases this
      · simp
    rcases h5 with ⟨_, _, rfl⟩ | ⟨hb, _, rfl⟩ | ⟨_, _, rfl⟩ | ⟨_, _, rfl⟩
    · exact hcl _
    · refine ⟨?_, ?_, ?_⟩
      · simp
      · intro _; right
        exact anyBad_true.mpr ⟨o, x, h1 hp o (by rw [hx]; simp), hx, hb⟩
      · simp
    · exact hcl _
    · exact ⟨h1, by simp [hp], by simp [hp]⟩
  | final =>
    obtain ⟨h1, h2, h3⟩ := hI
    obtain ⟨hp, h5⟩ := step_final_some hs
    rcases h5 with ⟨_, rfl⟩ | ⟨hb, rfl⟩
    · refine ⟨?_, ?_, ?_⟩ <;> simp
    · refine ⟨by simp, by simp, ?_⟩
      intro _ i hi
      rcases h2 hp with h | h
      · cases hx : s.st i with
        | none => exact absurd hx (h i hi)
        | some x =>
          refine ⟨x, rfl, ?_⟩
          cases hbx : x.bad with
          | false => rfl
          | true =>
            have := anyBad_true.mpr ⟨i, x, hi, hx, hbx⟩
            rw [hb] at this; cases this
      · rw [hb] at h; cases h

theorem inv_reachable {fx : Bool} {N : ENet} {s : St} (h : Reachable fx N s) : Inv N s := by
  induction h with
  | init => exact inv_init N
  | step _ hs ih => exact inv_step ih hs

/-! ## With the repaired `_cancel` -/

theorem fixed_inv_step {N : ENet} {s s' : St} {a : Act} (hI : s.pc ≠ .running → ∀ i, (s.st i).isSome = true)
    (hs : step true N s a = some s') : s'.pc ≠ .running → ∀ i, (s'.st i).isSome = true := by
  cases a with
  | finish i =>
    obtain ⟨_, _, _, rfl⟩ := step_finish_some hs
    intro hp j
    have := hI hp j
    simp only [setSt_st]; split <;> simp_all
  | fail i =>
    obtain ⟨_, _, rfl⟩ := step_fail_some hs
    intro hp j
    have := hI hp j
    simp only [setSt_st]; split <;> simp_all
  | read k =>
    obtain ⟨hp, _, o, x, _, _, h5⟩ := step_read_some hs
    rcases h5 with ⟨_, _, rfl⟩ | ⟨_, hf, rfl⟩ | ⟨_, _, rfl⟩ | ⟨_, _, rfl⟩
    · intro _ j; exact closeAll_st_isSome _ j
    · cases hf
    · intro _ j; exact closeAll_st_isSome _ j
    · intro h; exact absurd hp h
  | final =>
    obtain ⟨hp, h5⟩ := step_final_some hs
    have := hI (by rw [hp]; simp)
    rcases h5 with ⟨_, rfl⟩ | ⟨_, rfl⟩ <;> exact fun _ => this

theorem fixed_inv_reachable {N : ENet} {s : St} (h : Reachable true N s) :
    s.pc ≠ .running → ∀ i, (s.st i).isSome = true := by
  induction h with
  | init => intro h; exact absurd rfl h
  | step _ hs ih => exact fixed_inv_step ih hs

/-! ## While the executor collects outputs, one output is still pending -/

def Pending (N : ENet) (s : St) : Prop := s.pc = .running → ∃ k, k < N.outs.length ∧ k ∉ s.received

theorem pending_init {N : ENet} (h : N.outs ≠ []) : Pending N St.init := by
  intro _
  refine ⟨0, ?_, by simp [St.init]⟩
  cases ho : N.outs with
  | nil => exact absurd ho h
  | cons a l => simp

theorem pending_step {fx : Bool} {N : ENet} {s s' : St} {a : Act} (hI : Pending N s)
    (hs : step fx N s a = some s') : Pending N s' := by
  cases a with
  | finish i => obtain ⟨_, _, _, rfl⟩ := step_finish_some hs; exact hI
  | fail i => obtain ⟨_, _, rfl⟩ := step_fail_some hs; exact hI
  | read k =>
    obtain ⟨hp, _, o, x, _, _, h5⟩ := step_read_some hs
    rcases h5 with ⟨_, _, rfl⟩ | ⟨_, _, rfl⟩ | ⟨_, _, rfl⟩ | ⟨_, hc, rfl⟩
    · intro h; simp at h
    · intro h; simp at h
    · intro h; simp at h
    · intro _; exact covered_false.mp hc
  | final =>
    obtain ⟨hp, h5⟩ := step_final_some hs
    rcases h5 with ⟨_, rfl⟩ | ⟨_, rfl⟩ <;> (intro h; simp at h)

theorem pending_reachable {fx : Bool} {N : ENet} {s : St} (hne : N.outs ≠ []) (h : Reachable fx N s) :
    Pending N s := by
  induction h with
  | init => exact pending_init hne
  | step _ hs ih => exact pending_step ih hs

/-- an output whose producer is terminated can be read -/
theorem step_read_enabled {fx : Bool} {N : ENet} {s : St} {k o : Nat} {x : Status} (hp : s.pc = .running)
    (hk : k ∉ s.received) (ho : N.outs[k]? = some o) (hx : s.st o = some x) :
    ∃ s', step fx N s (.read k) = some s' := by
  simp only [step]
  rw [if_pos ⟨hp, hk⟩]
  simp only [ho, hx]
  split
  · exact ⟨_, rfl⟩
  · split <;> exact ⟨_, rfl⟩

/-! ## Runs without failing steps -/

/-- every step is terminated as soon as the producers of the workflow outputs are -/
theorem all_done_of_outs_done {N : ENet} (hwf : N.WF) (s : St)
    (hup : ∀ i, i < N.n → s.st i ≠ none → ∀ j ∈ N.preds i, s.st j ≠ none)
    (hout : ∀ o ∈ N.outs, s.st o ≠ none) : ∀ i, i < N.n → s.st i ≠ none := by
  have key : ∀ d i, N.n - i = d → i < N.n → s.st i ≠ none := by
    intro d
    induction d using Nat.strongRecOn with
    | _ d ih =>
      intro i hd hi
      rcases hwf.reach i hi with h | ⟨k, hk, hik⟩
      · exact hout i h
      · have hlt := hwf.topo k hk i hik
        exact hup k hk (ih (N.n - k) (by omega) k rfl hk) i hik
  intro i hi
  exact key _ i rfl hi

def InvNF (N : ENet) (s : St) : Prop :=
  (∀ i x, i < N.n → s.st i = some x → x.bad = false) ∧
  (∀ i, i < N.n → s.st i ≠ none → ∀ j ∈ N.preds i, s.st j ≠ none) ∧
  (∀ k ∈ s.received, ∃ o, N.outs[k]? = some o ∧ s.st o ≠ none) ∧
  (s.pc ≠ .running → ∀ i, i < N.n → s.st i ≠ none) ∧
  s.pc ≠ .raised

theorem invNF_init (N : ENet) : InvNF N St.init := by
  refine ⟨?_, ?_, ?_, ?_, ?_⟩ <;> simp [St.init]

theorem invNF_finish {N : ENet} (hwf : N.WF) {s : St} {i : Nat} (hI : InvNF N s) (hi : i < N.n)
    (hpr : ∀ j ∈ N.preds i, (s.st j).isSome = true) : InvNF N (s.setSt i (finishStatus N s i)) := by
  obtain ⟨g1, g2, g3, g4, g5⟩ := hI
  have hb : (finishStatus N s i).bad = false :=
    finishStatus_not_bad N s i (fun j hj x hx => g1 j x (Nat.lt_trans (hwf.topo i hi j hj) hi) hx)
  have hpr' : ∀ j ∈ N.preds i, s.st j ≠ none := by
    intro j hj h; have := hpr j hj; rw [h] at this; cases this
  refine ⟨?_, ?_, ?_, ?_, ?_⟩
  · intro j x hj hx
    simp only [setSt_st] at hx
    split at hx
    · cases hx; exact hb
    · exact g1 j x hj hx
  · intro i' hi' hn j hj
    simp only [setSt_st] at hn ⊢
    split
    · simp
    · split at hn
      · rename_i e; subst e; exact hpr' j hj
      · exact g2 i' hi' hn j hj
  · intro k hk
    obtain ⟨o, ho, hn⟩ := g3 k hk
    refine ⟨o, ho, ?_⟩
    simp only [setSt_st]; split
    · simp
    · exact hn
  · intro hp j hj
    simp only [setSt_st]; split
    · simp
    · exact g4 hp j hj
  · exact g5

theorem invNF_closeAll {N : ENet} {t : St} (hI : InvNF N t) (hall : ∀ i, i < N.n → t.st i ≠ none) :
    InvNF N t.closeAll := by
  obtain ⟨g1, g2, g3, g4, g5⟩ := hI
  have hsome : ∀ j, t.closeAll.st j ≠ none := by
    intro j h; have := closeAll_st_isSome t j; rw [h] at this; cases this
  refine ⟨?_, ?_, ?_, ?_, ?_⟩
  · intro i x hi hx
    rw [closeAll_st_of_ne_none t i (hall i hi)] at hx
    exact g1 i x hi hx
  · intro i _ _ j _; exact hsome j
  · intro k hk
    obtain ⟨o, ho, _⟩ := g3 k hk
    exact ⟨o, ho, hsome o⟩
  · intro _ i _; exact hsome i
  · simp

theorem invNF_step {fx : Bool} {N : ENet} (hwf : N.WF) {s s' : St} {a : Act} (hI : InvNF N s)
    (ha : ∀ i, a ≠ .fail i) (hs : step fx N s a = some s') : InvNF N s' := by
  cases a with
  | finish i =>
    obtain ⟨hi, _, hpr, rfl⟩ := step_finish_some hs
    exact invNF_finish hwf hI hi hpr
  | fail i => exact absurd rfl (ha i)
  | read k =>
    obtain ⟨hp, _, o, x, ho, hx, h5⟩ := step_read_some hs
    have hon : o < N.n := hwf.outsLt o (outs_getElem?_mem ho)
    have hgood : x.bad = false := hI.1 o x hon hx
    have hxn : s.st o ≠ none := by rw [hx]; simp
    have hrcv : InvNF N { s with received := k :: s.received } := by
      obtain ⟨g1, g2, g3, g4, g5⟩ := hI
      refine ⟨g1, g2, ?_, g4, g5⟩
      intro k' hk'
      rcases List.mem_cons.mp hk' with e | e
      · subst e; exact ⟨o, ho, hxn⟩
      · exact g3 k' e
    rcases h5 with ⟨hb, _, _⟩ | ⟨hb, _, _⟩ | ⟨_, hc, rfl⟩ | ⟨_, _, rfl⟩
    · rw [hgood] at hb; cases hb
    · rw [hgood] at hb; cases hb
    · apply invNF_closeAll hrcv
      apply all_done_of_outs_done hwf _ hrcv.2.1
      intro o' ho'
      obtain ⟨k', hk', rfl⟩ := List.getElem_of_mem ho'
      obtain ⟨o'', ho'', hn⟩ := hrcv.2.2.1 k' (covered_true.mp hc k' hk')
      rw [List.getElem?_eq_getElem hk'] at ho''
      cases ho''; exact hn
    · exact hrcv
  | final =>
    obtain ⟨hp, h5⟩ := step_final_some hs
    obtain ⟨g1, g2, g3, g4, g5⟩ := hI
    rcases h5 with ⟨hb, rfl⟩ | ⟨_, rfl⟩
    · obtain ⟨i, x, hi, hx, hbx⟩ := anyBad_true.mp hb
      rw [g1 i x hi hx] at hbx; cases hbx
    · refine ⟨g1, g2, g3, ?_, by simp⟩
      intro _; exact g4 (by rw [hp]; simp)

theorem noFail_ne {acts : List Act} (h : NoFail acts) : ∀ a ∈ acts, ∀ i, a ≠ .fail i := by
  intro a ha i e; subst e; exact h i ha

theorem invNF_run {fx : Bool} {N : ENet} (hwf : N.WF) {acts : List Act} {s : St}
    (hr : runActs fx N St.init acts = some s) (hnf : NoFail acts) : InvNF N s :=
  runActs_inv (P := InvNF N) (A := fun a => ∀ i, a ≠ .fail i)
    (fun _ _ _ hp hA hs => invNF_step hwf hp hA hs) acts St.init s (invNF_init N) (noFail_ne hnf) hr

/-! ## Length of a run -/

/-- number of workflow outputs whose termination was not read yet -/
def pend (N : ENet) (r : List Nat) : Nat := ((List.range N.outs.length).filter (fun k => !r.contains k)).length

/-- upper bound of the number of actions that can still happen -/
def budget (N : ENet) (s : St) : Nat :=
  notDone N s + (match s.pc with | .running => pend N s.received + 1 | .closed => 1 | _ => 0)

theorem pend_cons {N : ENet} {r : List Nat} {k : Nat} (hk : k < N.outs.length) (hr : k ∉ r) :
    pend N (k :: r) + 1 = pend N r := by
  unfold pend
  apply filter_length_update _ _ _ k List.nodup_range (List.mem_range.mpr hk)
  · simp [hr]
  · simp
  · intro j hj; simp [hj]

theorem budget_init (N : ENet) : budget N St.init = N.n + N.outs.length + 1 := by
  have h1 : pend N St.init.received = N.outs.length := by
    simp [St.init, pend, List.filter_eq_self.mpr]
  have h2 : St.init.pc = .running := rfl
  simp only [budget, h1, h2, SFV.Exec.notDone_init]; omega

theorem budget_step {fx : Bool} {N : ENet} {s s' : St} {a : Act} (hs : step fx N s a = some s') :
    budget N s' + 1 ≤ budget N s := by
  cases a with
  | finish i =>
    have := step_decreases hs rfl
    obtain ⟨_, _, _, rfl⟩ := step_finish_some hs
    simp only [budget, setSt_pc, setSt_received] at this ⊢; omega
  | fail i =>
    have := step_decreases hs rfl
    obtain ⟨_, _, rfl⟩ := step_fail_some hs
    simp only [budget, setSt_pc, setSt_received] at this ⊢; omega
  | read k =>
    have hle := step_nonincreasing hs
    obtain ⟨hp, hk, o, x, ho, _, h5⟩ := step_read_some hs
    obtain ⟨hlt, _⟩ := List.getElem?_eq_some_iff.mp ho
    have hpc := pend_cons hlt hk
    rcases h5 with ⟨_, _, rfl⟩ | ⟨_, _, rfl⟩ | ⟨_, _, rfl⟩ | ⟨_, _, rfl⟩ <;>
      simp only [budget, hp, closeAll_pc] at hle ⊢ <;> omega
  | final =>
    have hle := step_nonincreasing hs
    obtain ⟨hp, h5⟩ := step_final_some hs
    rcases h5 with ⟨_, rfl⟩ | ⟨_, rfl⟩ <;> simp only [budget, hp] at hle ⊢ <;> omega

theorem budget_run {fx : Bool} {N : ENet} :
    ∀ (acts : List Act) (s s' : St), runActs fx N s acts = some s' → acts.length + budget N s' ≤ budget N s
  | [], s, s', h => by cases h; simp
  | a :: as, s, s', h => by
    obtain ⟨s1, hs1, hr⟩ := runActs_cons h
    have ih := budget_run as s1 s' hr
    have := budget_step hs1
    simp only [List.length_cons]; omega

/-! ## Example nets -/

/-- two independent steps, each producing one workflow output -/
def N2 : ENet :=
  { n := 2, ins := fun _ => [none], outs := [0, 1], emptyOut := fun _ => false, dataIn := fun _ => false }

theorem N2_wf : N2.WF where
  topo := by intro i _ j hj; simp [ENet.preds, N2] at hj
  outsLt := by decide
  reach := by
    intro i hi
    left
    have : i = 0 ∨ i = 1 := by simp only [N2] at hi; omega
    rcases this with e | e <;> subst e <;> decide
  outsNe := by decide

/-- a diamond: 0 → 1, 0 → 2, (1, 2) → 3; step 3 produces the workflow output; step 2 has an empty output -/
def diamond : ENet :=
  { n := 4
    ins := fun i => match i with
      | 0 => [none]
      | 1 => [some 0]
      | 2 => [some 0, none]
      | 3 => [some 1, some 2]
      | _ => []
    outs := [3]
    emptyOut := fun i => i == 2
    dataIn := fun _ => false }

theorem diamond_wf : diamond.WF where
  topo := by
    intro i hi
    have : i = 0 ∨ i = 1 ∨ i = 2 ∨ i = 3 := by simp only [diamond] at hi; omega
    rcases this with e | e | e | e <;> subst e <;> decide
  outsLt := by decide
  reach := by
    intro i hi
    have : i = 0 ∨ i = 1 ∨ i = 2 ∨ i = 3 := by simp only [diamond] at hi; omega
    rcases this with e | e | e | e <;> subst e
    · exact Or.inr ⟨1, by decide, by decide⟩
    · exact Or.inr ⟨3, by decide, by decide⟩
    · exact Or.inr ⟨3, by decide, by decide⟩
    · exact Or.inl (by decide)
  outsNe := by decide

/-- a failure-free run of the diamond to `returned` (steps 1 and 2 in the non-topological order 2, 1) -/
def diamondRun : List Act := [.finish 0, .finish 2, .finish 1, .finish 3, .read 0, .final]

theorem runD_spec {fx : Bool} {N : ENet} {acts : List Act} (h : (runActs fx N St.init acts).isSome = true) :
    runActs fx N St.init acts = some (runD fx N acts) := by
  unfold runD
  cases hr : runActs fx N St.init acts with
  | none => rw [hr] at h; cases h
  | some s => rfl

end SFV.Exec
