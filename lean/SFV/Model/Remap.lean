import SFV.Model.Tag
import SFV.Gen.RemapKeys
/-! `remap_path` / `remap_token_value` of `streamflow/cwl/utils.py`, with the pieces of the standard library
    they call: `urllib.parse.unquote` (percent decoding of the ASCII runs, UTF-8 with replacement),
    `urllib.parse.urlsplit(..).scheme`, `posixpath.relpath` (via `abspath`/`normpath`) and `posixpath.join`.
    Strings are `List Char`. `none` stands for the `ValueError` of `relpath("")`. Core Lean only. -/
namespace SFV.Remap

abbrev Str := List Char

/-! ### `urllib.parse.unquote` -/

def hexVal? (c : Char) : Option Nat :=
  if '0' ≤ c ∧ c ≤ '9' then some (c.toNat - 48)
  else if 'a' ≤ c ∧ c ≤ 'f' then some (c.toNat - 87)
  else if 'A' ≤ c ∧ c ≤ 'F' then some (c.toNat - 55)
  else none

inductive PSt where
  | normal
  | pct                 -- a `%` was read
  | pct1 (a : Char)     -- `%` and one hex digit were read

/-- `_unquote_impl` on an ASCII run, one character at a time: the bytes of the run with every `%XX` (two hex
    digits) replaced by the byte; any other `%` stays -/
def pctGo : List Char → PSt → List Nat
  | [], .normal => []
  | [], .pct => [37]
  | [], .pct1 a => [37, a.toNat]
  | c :: tl, .normal => if c = '%' then pctGo tl .pct else c.toNat :: pctGo tl .normal
  | c :: tl, .pct =>
      if (hexVal? c).isSome then pctGo tl (.pct1 c)
      else if c = '%' then 37 :: pctGo tl .pct
      else 37 :: c.toNat :: pctGo tl .normal
  | c :: tl, .pct1 a =>
      match hexVal? a, hexVal? c with
      | some x, some y => (16 * x + y) :: pctGo tl .normal
      | _, _ =>
          if c = '%' then 37 :: a.toNat :: pctGo tl .pct
          else 37 :: a.toNat :: c.toNat :: pctGo tl .normal

def pctBytes (run : List Char) : List Nat := pctGo run .normal

def repl : Char := Char.ofNat 0xFFFD

inductive DSt where
  | idle
  /-- inside a multi-byte sequence: the next byte must lie in `[lo, hi]`, `n` bytes are still missing -/
  | need (lo hi n acc : Nat)

/-- what a byte does at the start of a sequence -/
def classify (b : Nat) : Option Char × DSt :=
  if b < 0x80 then (some (Char.ofNat b), .idle)
  else if 0xC2 ≤ b ∧ b ≤ 0xDF then (none, .need 0x80 0xBF 1 (b - 0xC0))
  else if b = 0xE0 then (none, .need 0xA0 0xBF 2 0)
  else if b = 0xED then (none, .need 0x80 0x9F 2 (b - 0xE0))
  else if 0xE1 ≤ b ∧ b ≤ 0xEF then (none, .need 0x80 0xBF 2 (b - 0xE0))
  else if b = 0xF0 then (none, .need 0x90 0xBF 3 0)
  else if b = 0xF4 then (none, .need 0x80 0x8F 3 (b - 0xF0))
  else if 0xF1 ≤ b ∧ b ≤ 0xF3 then (none, .need 0x80 0xBF 3 (b - 0xF0))
  else (some repl, .idle)

/-- `bytes.decode("utf-8", "replace")`: every maximal invalid prefix becomes one U+FFFD -/
def decodeGo : List Nat → DSt → List Char
  | [], .idle => []
  | [], .need .. => [repl]
  | b :: tl, .idle => (classify b).1.toList ++ decodeGo tl (classify b).2
  | b :: tl, .need lo hi n acc =>
      if lo ≤ b ∧ b ≤ hi then
        if n = 1 then Char.ofNat (acc * 64 + (b - 0x80)) :: decodeGo tl .idle
        else decodeGo tl (.need 0x80 0xBF (n - 1) (acc * 64 + (b - 0x80)))
      else repl :: ((classify b).1.toList ++ decodeGo tl (classify b).2)

def decodeUtf8 (bs : List Nat) : List Char := decodeGo bs .idle

/-- the loop of `_generate_unquoted_parts`: ASCII runs are percent-decoded, other characters pass -/
def unqGo : List Char → List Char → List Char
  | [], run => decodeUtf8 (pctBytes run)
  | c :: tl, run =>
      if c.toNat < 128 then unqGo tl (run ++ [c])
      else decodeUtf8 (pctBytes run) ++ c :: unqGo tl []

/-- `urllib.parse.unquote(s)` -/
def unquote (s : Str) : Str := if '%' ∈ s then unqGo s [] else s

/-! ### `urlsplit(path).scheme` and the `":/" in path` test -/

def containsColonSlash : Str → Bool
  | ':' :: '/' :: _ => true
  | _ :: tl => containsColonSlash tl
  | [] => false

def schemeChar (c : Char) : Bool :=
  ('a' ≤ c && c ≤ 'z') || ('A' ≤ c && c ≤ 'Z') || ('0' ≤ c && c ≤ '9') || c = '+' || c = '-' || c = '.'

def lowerAscii (c : Char) : Char := if 'A' ≤ c ∧ c ≤ 'Z' then Char.ofNat (c.toNat + 32) else c

/-- `i > 0 and url[0].isascii() and url[0].isalpha()` -/
def alphaFirst : Str → Bool
  | c :: _ => ('a' ≤ c && c ≤ 'z') || ('A' ≤ c && c ≤ 'Z')
  | [] => false

/-- `urlsplit(url).scheme` (default scheme `""`) -/
def scheme (url : Str) : Str :=
  let u := (url.dropWhile (fun c => c.toNat ≤ 0x20)).filter (fun c => c ≠ '\t' ∧ c ≠ '\r' ∧ c ≠ '\n')
  let pre := u.takeWhile (· ≠ ':')
  if decide (pre.length < u.length) && alphaFirst pre && pre.all schemeChar then pre.map lowerAscii
  else []

/-! ### `posixpath.relpath`, `posixpath.join` -/

/-- `normpath` of an absolute path, as its list of components (`..` at the root is dropped) -/
def normGo : List Str → List Str → List Str
  | [], st => st.reverse
  | c :: r, st =>
      if c = [] ∨ c = ['.'] then normGo r st
      else if c = ['.', '.'] then normGo r st.tail
      else normGo r (c :: st)

/-- `[x for x in abspath(p).split("/") if x]`; `cwd` = components of the current directory -/
def absComps (cwd : List Str) (p : Str) : List Str :=
  if p.head? = some '/' then normGo (splitSlash p) [] else normGo (cwd ++ splitSlash p) []

def commonLen : List Str → List Str → Nat
  | a :: as, b :: bs => if a = b then commonLen as bs + 1 else 0
  | _, _ => 0

/-- `relpath(p, start).split("/")`; `none` = `ValueError("no path specified")` -/
def relpath (cwd : List Str) (p start : Str) : Option (List Str) :=
  if p = [] then none
  else
    let sl := absComps cwd (if start = [] then ['.'] else start)
    let pl := absComps cwd p
    let i := commonLen sl pl
    let rel := List.replicate (sl.length - i) ['.', '.'] ++ pl.drop i
    some (if rel = [] then [['.']] else rel)

/-- `posixpath.join(a, *parts)` -/
def pjoin : Str → List Str → Str
  | path, [] => path
  | path, b :: r =>
      if b.head? = some '/' then pjoin b r
      else if path = [] ∨ path.getLast? = some '/' then pjoin (path ++ b) r
      else pjoin (path ++ '/' :: b) r

/-! ### `remap_path` -/

/-- the `"file://{}"` prefix of `remap_path` (from the source) -/
@[reducible] def fileUrl : Str := SFV.Gen.remapFilePrefix

/-- `remap_path(posixpath, path, old_dir, new_dir)` -/
def remapPath (cwd : List Str) (path old new : Str) : Option Str :=
  if containsColonSlash path then
    if scheme path = SFV.Gen.remapScheme then
      (relpath cwd (unquote (path.drop SFV.Gen.remapDrop)) old).map (fun rel => fileUrl ++ pjoin new rel)
    else some path
  else (relpath cwd (unquote path) old).map (fun rel => pjoin new rel)

/-! ### `remap_token_value` -/

/-- CWL values. Lists and objects are cons chains (`lnil`/`lcons`, `onil`/`ocons`) so that the type is not
    nested; an object is the chain of its `(key, value)` entries in dict order. -/
inductive Val where
  | null
  | str (s : Str)
  | num (n : Int)
  | lnil
  | lcons (hd tl : Val)
  | onil
  | ocons (key : Str) (v rest : Val)
deriving DecidableEq, Repr

/-! the keys and class names come from the source (`SFV/Gen/RemapKeys.lean`, regenerated on every run) -/
@[reducible] def kClass : Str := SFV.Gen.remapKClass
@[reducible] def kType : Str := SFV.Gen.remapKType
@[reducible] def kLocation : Str := SFV.Gen.remapPathKeyA
@[reducible] def kPath : Str := SFV.Gen.remapPathKeyB
@[reducible] def kSecondary : Str := SFV.Gen.remapListKeyA
@[reducible] def kListing : Str := SFV.Gen.remapListKeyB
@[reducible] def sFile : Str := SFV.Gen.remapClassA
@[reducible] def sDirectory : Str := SFV.Gen.remapClassB

/-- `d.get(key)` on an entry chain -/
def Val.lookup (k : Str) : Val → Option Val
  | .ocons k' v rest => if k' = k then some v else rest.lookup k
  | _ => none

/-- `get_token_class`: `value.get("class", value.get("type"))` -/
def classOf (v : Val) : Option Val :=
  match v.lookup kClass with
  | some c => some c
  | none => v.lookup kType

def isFileObj (v : Val) : Bool :=
  classOf v = some (.str sFile) || classOf v = some (.str sDirectory)

inductive Mode where | value | fileFields | objFields | list
deriving DecidableEq, Repr

/-- both parts of a rebuilt list cell / object entry must have been computed (no exception) -/
def combL (a b : Option Val) : Option Val :=
  match a, b with
  | some h', some t' => some (.lcons h' t')
  | _, _ => none
def combO (k : Str) (a b : Option Val) : Option Val :=
  match a, b with
  | some x', some rest' => some (.ocons k x' rest')
  | _, _ => none

/-- `value["location" | "path"] = remap_path(…)`; `":/" in path` on a non-string raises `TypeError` -/
def remapStrField (cwd : List Str) (old new : Str) : Val → Option Val
  | .str s => (remapPath cwd s old new).map .str
  | _ => none

/-- `remap_token_value`. `Mode.value` is the function itself; the other modes are its loops: over the entries of a
    File/Directory object (`location`, `path` remapped, `secondaryFiles` / `listing` element-wise, the rest kept),
    over the entries of another mapping, over the elements of a sequence. `none` = the call raises. -/
def remap (cwd : List Str) (old new : Str) : Mode → Val → Option Val
  | m, .lcons h t =>
      match m with
      | .value | .list => combL (remap cwd old new .value h) (remap cwd old new .list t)
      | _ => some (.lcons h t)
  | m, .ocons k x rest =>
      match m with
      | .value =>
          if isFileObj (.ocons k x rest) then
            combO k (if k = kLocation ∨ k = kPath then remapStrField cwd old new x
                     else if k = kSecondary ∨ k = kListing then remap cwd old new .list x
                     else some x)
              (remap cwd old new .fileFields rest)
          else combO k (remap cwd old new .value x) (remap cwd old new .objFields rest)
      | .fileFields =>
          combO k (if k = kLocation ∨ k = kPath then remapStrField cwd old new x
                   else if k = kSecondary ∨ k = kListing then remap cwd old new .list x
                   else some x)
            (remap cwd old new .fileFields rest)
      | .objFields => combO k (remap cwd old new .value x) (remap cwd old new .objFields rest)
      | .list => some (.ocons k x rest)
  | _, v => some v

/-- `remap_token_value(posixpath, old_dir, new_dir, value)` -/
def remapValue (cwd : List Str) (old new : Str) (v : Val) : Option Val := remap cwd old new .value v

end SFV.Remap
