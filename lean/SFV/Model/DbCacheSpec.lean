/-! The cache discipline of `SqliteDatabase` as data (filled in by `harness/sfv/translate/dbcache.py`).
    Tables and caches are indices into the generated name lists. -/
namespace SFV.DbCache

/-- how a cached getter hands out the cached row: `postprocess=` of `@cached` -/
inductive Copy where
  | deep      -- postprocess_deepcopy_mutables
  | shallow   -- cachebox default (postprocess_copy_mutables)
  | none      -- the cached object itself
deriving DecidableEq, Repr

structure Getter where
  name : String
  cache : Nat
  /-- the table the row is selected from by `id = :id` -/
  table : Nat
  /-- every table mentioned in the getter's SQL -/
  reads : List Nat
  copy : Copy
  /-- the cache key is the method's id argument and the row is selected by it -/
  keyIsId : Bool
deriving DecidableEq, Repr

structure Update where
  name : String
  table : Nat
  /-- caches popped at the updated id -/
  pops : List Nat
  popKeyIsId : Bool
deriving DecidableEq, Repr

structure Insert where
  name : String
  primary : Nat
  tables : List Nat
  /-- the row gets a fresh id (`lastrowid`) -/
  fresh : Bool
deriving DecidableEq, Repr

structure Spec where
  getters : List Getter
  updates : List Update
  inserts : List Insert
  /-- SQL writes outside `add_*` / `update_*`: (method, table) -/
  otherWrites : List (String × Nat)

/-- the discipline that makes cached reads equal uncached reads -/
def Spec.sound (s : Spec) : Bool :=
  -- every update of a table read by a cached getter pops that getter's cache at the updated id
  s.getters.all (fun g => s.updates.all (fun u => !(g.reads.contains u.table) || (u.pops.contains g.cache && u.popKeyIsId))) &&
  -- getters select by their own id argument and hand out deep copies
  s.getters.all (fun g => g.reads.contains g.table && g.keyIsId && g.copy == .deep) &&
  -- getters sharing a cache read the same table
  s.getters.all (fun g => s.getters.all (fun g' => g.cache != g'.cache || g.table == g'.table)) &&
  -- secondary tables of a getter are only written together with the fresh primary row
  s.getters.all (fun g => g.reads.all (fun t => t == g.table ||
      s.inserts.all (fun i => !(i.tables.contains t) || i.primary == g.table))) &&
  -- inserts create fresh ids, and nothing else writes
  s.inserts.all (·.fresh) && s.otherWrites.isEmpty

end SFV.DbCache
