import SFV.Lemmas.JsDepsOk
namespace SFV.JsDeps
open Js Frag

deriving instance DecidableEq for Except

def w1 : Js := seq (varInit "x" (ident "inputs")) (seq (ret (dot (ident "x") "foo")) skip)
example : resolve w1 = .ok [] := by decide
example : run 10 w1 = some ["foo"] := by decide
def ok1 : Js := seq (varDecl "x") (seq (assign "x" (ident "inputs"))
  (seq (fdecl "f" ["inputs"] (seq (ret (dot (ident "inputs") "a")) skip))
  (seq (ret (cond (dot (ident "x") "foo") (call (ident "f") (seq (dot (ident "inputs") "b") skip)) (num 0))) skip)))
example : handled ok1 = true := by decide
#eval resolve ok1
#eval run 20 ok1
end SFV.JsDeps
