import SFV.Lemmas.Registry
/-! C21: for histories of registrations and invalidations (no relations) every object lives in the node of its own path
    and the `valid_paths` cache says exactly what the objects say. -/
namespace SFV.Registry

/-- every stored object is stored at the node of its own path, under its own location, and exists -/
def Own (s : St) : Prop :=
  ∀ np l o, o ∈ s.locs np l → o < s.heap.length ∧ objPath s o = np ∧ objLoc s o = l

/-- the cache is exact: a path is believed valid at a node iff it is the node's path and a valid object is stored there -/
def CacheOK (s : St) : Prop :=
  ∀ np l p, p ∈ s.vpaths np l ↔ (p = np ∧ ∃ o ∈ s.locs np l, objValid s o = true)

structure RInv (s : St) : Prop where
  own : Own s
  cache : CacheOK s

theorem rinv_init : RInv St.init := ⟨by simp [Own, St.init], by simp [CacheOK, St.init]⟩

/-! ### heap append -/

theorem objValid_append (s : St) (x : Obj) (nodes : List Path) (o : Nat) (h : o < s.heap.length) :
    objValid { s with heap := s.heap ++ [x], nodes := nodes } o = objValid s o := by
  simp [objValid, List.getElem?_append_left h]

theorem objPath_append (s : St) (x : Obj) (nodes : List Path) (o : Nat) (h : o < s.heap.length) :
    objPath { s with heap := s.heap ++ [x], nodes := nodes } o = objPath s o := by
  simp [objPath, List.getElem?_append_left h]

theorem objLoc_append (s : St) (x : Obj) (nodes : List Path) (o : Nat) (h : o < s.heap.length) :
    objLoc { s with heap := s.heap ++ [x], nodes := nodes } o = objLoc s o := by
  simp [objLoc, List.getElem?_append_left h]

/-- allocating an object and touching the node list keeps the invariant -/
theorem rinv_alloc {s : St} (h : RInv s) (x : Obj) (nodes : List Path) :
    RInv { s with heap := s.heap ++ [x], nodes := nodes } := by
  constructor
  · intro np l o ho
    obtain ⟨h1, h2, h3⟩ := h.own np l o ho
    exact ⟨by simp; omega, by rw [objPath_append s x nodes o h1]; exact h2, by rw [objLoc_append s x nodes o h1]; exact h3⟩
  · intro np l p
    rw [show ({ s with heap := s.heap ++ [x], nodes := nodes } : St).vpaths = s.vpaths from rfl, h.cache np l p]
    constructor
    · rintro ⟨e, o, ho, hv⟩
      exact ⟨e, o, ho, by rw [objValid_append s x nodes o (h.own np l o ho).1]; exact hv⟩
    · rintro ⟨e, o, ho, hv⟩
      exact ⟨e, o, ho, by rw [objValid_append s x nodes o (h.own np l o ho).1] at hv; exact hv⟩

/-- storing a valid object `oid` (path `np`, location `l`) at the node `np`, which did not believe `np` valid -/
theorem rinv_store {s : St} (h : RInv s) (np : Path) (l oid : Nat) (hlt : oid < s.heap.length)
    (hp : objPath s oid = np) (hl : objLoc s oid = l) (hv : objValid s oid = true) (hnot : np ∉ s.vpaths np l) :
    RInv { s with locs := upd s.locs np l (s.locs np l ++ [oid]), vpaths := upd s.vpaths np l (s.vpaths np l ++ [np]) } := by
  constructor
  · intro np' l' o ho
    simp only [upd] at ho
    split at ho
    · rename_i hc
      rcases List.mem_append.mp ho with ho | ho
      · have := h.own np l o ho; rw [hc.1, hc.2]; exact this
      · simp at ho; subst ho; rw [hc.1, hc.2]; exact ⟨hlt, hp, hl⟩
    · exact h.own np' l' o ho
  · intro np' l' p
    simp only [upd]
    by_cases hc : np' = np ∧ l' = l
    · obtain ⟨rfl, rfl⟩ := hc
      simp only [and_self, if_true, List.mem_append, List.mem_singleton]
      constructor
      · rintro (hm | rfl)
        · exact absurd (((h.cache np' l' p).mp hm).1 ▸ hm) hnot
        · exact ⟨rfl, oid, Or.inr rfl, hv⟩
      · rintro ⟨rfl, _⟩; exact Or.inr rfl
    · simp only [hc, if_false]
      exact h.cache np' l' p

theorem rinv_nodes {s : St} (h : RInv s) (nodes : List Path) : RInv { s with nodes := nodes } :=
  ⟨h.own, h.cache⟩

/-- the bottom-up loop of `put` keeps the invariant when the object handed in is valid, exists and carries path `p` -/
theorem rinv_putLoop (l o : Nat) (p : Path) (nps : List Path) (s : St) (h : RInv s) (ho : o < s.heap.length)
    (hp : objPath s o = p) (hl : objLoc s o = l) (hv : objValid s o = true) : RInv (putLoop l o p nps s) := by
  induction nps generalizing s with
  | nil => exact h
  | cons np rest ih =>
    simp only [putLoop]
    have hop : (if np = p then objPath s o else np) = np := by
      split
      · rename_i e; rw [hp, e]
      · rfl
    rw [hop]
    split
    · exact h
    · rename_i hnot
      by_cases e : np = p
      · subst e
        simp only [if_true]
        exact ih _ (rinv_store h np l o ho hp hl hv hnot) ho hp hl hv
      · simp only [e, if_false]
        have h1 : RInv { s with heap := s.heap ++ [⟨l, np, true⟩] } := rinv_alloc h _ s.nodes
        have hnew : s.heap.length < (s.heap ++ [(⟨l, np, true⟩ : Obj)]).length := by simp
        have h2 := rinv_store (s := { s with heap := s.heap ++ [⟨l, np, true⟩] }) h1 np l s.heap.length hnew
          (by simp [objPath]) (by simp [objLoc]) (by simp [objValid]) hnot
        exact ih _ h2 (by simp; omega)
          (by simp only [objPath] at hp ⊢; simp [List.getElem?_append_left ho, hp])
          (by simp only [objLoc] at hl ⊢; simp [List.getElem?_append_left ho, hl])
          (by simp only [objValid] at hv ⊢; simp [List.getElem?_append_left ho, hv])

/-- `register_path` keeps the invariant -/
theorem rinv_register (s : St) (h : RInv s) (l : Nat) (p : Path) : RInv (register s l p).1 := by
  simp only [register, put]
  have h0 : RInv { s with heap := s.heap ++ [⟨l, p, true⟩] } := rinv_alloc h _ s.nodes
  have hloc : objLoc { s with heap := s.heap ++ [⟨l, p, true⟩] } s.heap.length = l := by simp [objLoc]
  rw [hloc]
  apply rinv_putLoop
  · exact rinv_nodes h0 _
  · simp
  · simp [objPath]
  · simp [objLoc]
  · simp [objValid]

/-! ### invalidation -/

/-- the invariant while the marking loop is at work on the node `p` for location `l` -/
structure MInv (p : Path) (l : Nat) (s : St) : Prop where
  own : Own s
  other : ∀ np' l' q, ¬ (np' = p ∧ l' = l) → (q ∈ s.vpaths np' l' ↔ (q = np' ∧ ∃ o ∈ s.locs np' l', objValid s o = true))
  here : ∀ q ∈ s.vpaths p l, q = p

theorem minv_of_rinv {s : St} (h : RInv s) (p : Path) (l : Nat) : MInv p l s :=
  ⟨h.own, fun np' l' q _ => h.cache np' l' q, fun q hq => ((h.cache p l q).mp hq).1⟩

/-- one assignment pair of the marking loop -/
def markStep (s : St) (p : Path) (l o : Nat) : St :=
  { s with heap := s.heap.modify o (fun x => { x with valid := false }),
           vpaths := upd s.vpaths p l ((s.vpaths p l).filter (· ≠ objPath s o)) }

theorem minv_markStep {p : Path} {l : Nat} {s : St} (h : MInv p l s) (o : Nat) (ho : o ∈ s.locs p l) :
    MInv p l (markStep s p l o) := by
  have hs : Shrinks s (markStep s p l o) := shrinks_markStep s p l o
  have hval : ∀ np' l', ¬ (np' = p ∧ l' = l) → ∀ o' ∈ s.locs np' l', objValid (markStep s p l o) o' = objValid s o' := by
    intro np' l' hne o' ho'
    have hne' : o' ≠ o := by
      intro e; subst e
      have a := h.own np' l' o' ho'
      have b := h.own p l o' ho
      exact hne ⟨a.2.1.symm.trans b.2.1, a.2.2.symm.trans b.2.2⟩
    simp only [markStep, objValid, modify_get, hne', if_false]
  constructor
  · intro np' l' o' ho'
    obtain ⟨h1, h2, h3⟩ := h.own np' l' o' ho'
    exact ⟨by rw [hs.len]; exact h1, by rw [hs.objPath]; exact h2, by rw [hs.objLoc]; exact h3⟩
  · intro np' l' q hne
    have hv : (markStep s p l o).vpaths np' l' = s.vpaths np' l' := by simp [markStep, upd, hne]
    rw [hv, h.other np' l' q hne]
    have hl : (markStep s p l o).locs = s.locs := rfl
    rw [hl]
    constructor
    · rintro ⟨e, o', ho', hv'⟩; exact ⟨e, o', ho', by rw [hval np' l' hne o' ho']; exact hv'⟩
    · rintro ⟨e, o', ho', hv'⟩; exact ⟨e, o', ho', by rw [hval np' l' hne o' ho'] at hv'; exact hv'⟩
  · intro q hq
    simp only [markStep, upd, and_self, if_true] at hq
    exact h.here q (List.mem_filter.mp hq).1

theorem minv_markLoop (p : Path) (l : Nat) (os : List Nat) (s : St) (h : MInv p l s) (hos : ∀ o ∈ os, o ∈ s.locs p l) :
    MInv p l (markLoop p l os s) := by
  induction os generalizing s with
  | nil => exact h
  | cons o os ih =>
    simp only [markLoop]
    split
    · exact ih s h (fun x hx => hos x (List.mem_cons_of_mem _ hx))
    · exact ih (markStep s p l o) (minv_markStep h o (hos o (by simp))) (fun x hx => hos x (List.mem_cons_of_mem _ hx))

/-- the believed-valid set of the node only shrinks while marking -/
theorem markLoop_vpaths_sub (p : Path) (l : Nat) (os : List Nat) (s : St) :
    ∀ q ∈ (markLoop p l os s).vpaths p l, q ∈ s.vpaths p l := by
  induction os generalizing s with
  | nil => exact fun _ h => h
  | cons o os ih =>
    intro q hq
    simp only [markLoop] at hq
    split at hq
    · exact ih s q hq
    · have := ih _ q hq
      simp only [upd, and_self, if_true] at this
      exact (List.mem_filter.mp this).1

/-- after marking a non-empty node its own path is no longer believed valid -/
theorem markLoop_drops (p : Path) (l : Nat) (os : List Nat) (s : St) (hne : os ≠ [])
    (hp : ∀ o ∈ os, objPath s o = p) : p ∉ (markLoop p l os s).vpaths p l := by
  cases os with
  | nil => exact absurd rfl hne
  | cons o os =>
    intro hq
    simp only [markLoop] at hq
    split at hq
    · rename_i hc
      have := markLoop_vpaths_sub p l os s p hq
      rw [hp o (by simp)] at hc
      exact hc.2 this
    · have := markLoop_vpaths_sub p l os _ p hq
      simp only [upd, and_self, if_true, hp o (by simp)] at this
      have := (List.mem_filter.mp this).2
      simp at this

theorem rinv_mark {s : St} (h : RInv s) (p : Path) (l : Nat) : RInv (markLoop p l (s.locs p l) s) := by
  have hm := minv_markLoop p l (s.locs p l) s (minv_of_rinv h p l) (fun _ ho => ho)
  have hs := shrinks_markLoop p l (s.locs p l) s
  refine ⟨hm.own, ?_⟩
  intro np' l' q
  by_cases hc : np' = p ∧ l' = l
  · obtain ⟨rfl, rfl⟩ := hc
    constructor
    · intro hq
      exfalso
      have e := hm.here q hq
      subst e
      by_cases hemp : s.locs q l' = []
      · rw [hemp] at hq
        simp only [markLoop] at hq
        obtain ⟨_, o, ho, _⟩ := (h.cache q l' q).mp hq
        rw [hemp] at ho; cases ho
      · exact markLoop_drops q l' (s.locs q l') s hemp (fun o ho => (h.own q l' o ho).2.1) hq
    · rintro ⟨_, o, ho, hv⟩
      rw [hs.locs] at ho
      rw [markLoop_invalid np' l' (s.locs np' l') s o ho] at hv
      cases hv
  · exact hm.other np' l' q hc

/-- `invalidate_location` keeps the invariant (when it returns) -/
theorem rinv_invalidate (fuel : Nat) :
    (∀ s l p s', RInv s → invalidate fuel s l p = .ok s' → RInv s') ∧
    (∀ s l cs s', RInv s → childLoop fuel s l cs = .ok s' → RInv s') ∧
    (∀ s l os s', RInv s → entryLoop fuel s l os = .ok s' → RInv s') := by
  induction fuel with
  | zero => simp [invalidate, childLoop, entryLoop]
  | succ f ih =>
    obtain ⟨iA, iB, iC⟩ := ih
    refine ⟨?_, ?_, ?_⟩
    · intro s l p s' hr h
      simp only [invalidate] at h
      split at h
      · cases h
      · exact iB _ _ _ _ (rinv_mark hr p l) h
    · intro s l cs s' hr h
      cases cs with
      | nil => simp only [childLoop] at h; injection h with h; subst h; exact hr
      | cons c cs =>
        simp only [childLoop] at h
        split at h
        · rename_i s1 h1
          exact iB _ _ _ _ (iC _ _ _ _ hr h1) h
        · rename_i hne
          exact absurd h (hne s')
    · intro s l os s' hr h
      cases os with
      | nil => simp only [entryLoop] at h; injection h with h; subst h; exact hr
      | cons o os =>
        simp only [entryLoop] at h
        split at h
        · split at h
          · rename_i s1 h1
            exact iC _ _ _ _ (iA _ _ _ _ hr h1) h
          · rename_i hne
            exact absurd h (hne s')
        · exact iC _ _ _ _ hr h

/-! ### histories without relations -/

/-- registrations and invalidations (a `KeyError` or an unfinished call leaves the state) -/
inductive ROp where
  | register (l : Nat) (p : Path)
  | invalidate (fuel : Nat) (l : Nat) (p : Path)

def applyR (s : St) : ROp → St
  | .register l p => (register s l p).1
  | .invalidate fuel l p => match invalidate fuel s l p with
                            | .ok s' => s'
                            | _ => s

def runR (ops : List ROp) : St := ops.foldl applyR St.init

theorem rinv_foldl (ops : List ROp) (s : St) (h : RInv s) : RInv (ops.foldl applyR s) := by
  induction ops generalizing s with
  | nil => exact h
  | cons op ops ih =>
    apply ih
    cases op with
    | register l p => exact rinv_register s h l p
    | invalidate fuel l p =>
      simp only [applyR]
      cases hr : invalidate fuel s l p with
      | ok s' => exact (rinv_invalidate fuel).1 s l p s' h hr
      | keyError => exact h
      | recursion => exact h

theorem rinv_runR (ops : List ROp) : RInv (runR ops) := rinv_foldl ops St.init rinv_init

end SFV.Registry
