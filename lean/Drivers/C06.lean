import SFV.Model.Loop
import SFV.Model.Proto
open SFV SFV.Proto SFV.Loop

/-- `d:<tag>:<id>` | `i:<tag>` | `t:<STATUS>` -/
def parseEv (w : String) : Option (Ev Nat) :=
  match w.splitOn ":" with
  | ["d", t, v] => do
      let tag ← parseTag t
      let n ← v.toNat?
      pure (.data ⟨tag, n⟩)
  | ["i", t] => do
      let tag ← parseTag t
      pure (.iterTerm tag)
  | ["t", st] => do
      let s ← Status.parse st
      pure (.term s)
  | _ => none

def renderTag' (t : Tag) : String := if t.isEmpty then "~" else renderTag t

def renderOut1 : Out Nat → String
  | .list t l => renderTag' t ++ "[" ++ ",".intercalate (l.map (fun x => renderTag' x.tag ++ ":" ++ toString x.val)) ++ "]"
  | .single t (some v) => renderTag' t ++ "=" ++ toString v
  | .single t none => renderTag' t ++ "=None"

def renderSt (s : St Nat) : String :=
  (if s.out.isEmpty then "-" else ";".intercalate (s.out.map renderOut1)) ++ "|term=" ++
    (match s.terminated with | some st => st.render | none => "-")

def parseCEv (w : String) : Option CEv :=
  match w.splitOn ":" with
  | ["d", t] => (parseTag t).map .data
  | ["i", t] => (parseTag t).map .iterTerm
  | ["t", st] => (Status.parse st).map .term
  | _ => none

/-- `<tag>` (arrival) | `r:<prefix>:<iteration>[,<prefix>:<iteration>…]` (restore) -/
def parseNEv (w : String) : Option NEv :=
  if w.startsWith "r:" then
    ((w.drop 2).toString.splitOn ",").mapM (fun (pr : String) => match pr.splitOn ":" with
      | [a, b] => do
          let x ← parseTag a
          let y ← parseTag b
          pure (x, y)
      | _ => none) |>.map NEv.restore
  else (parseTag w).map NEv.arrive

def handle : List String → String
  | "loopout" :: m :: evs =>
      match (if m = "all" then some Method.all else if m = "last" then some Method.last else none), evs.mapM parseEv with
      | some meth, some es => renderSt (run meth es)
      | _, _ => "bad-op"
  | "loopoutprov" :: m :: evs =>
      match (if m = "all" then some Method.all else if m = "last" then some Method.last else none), evs.mapM parseEv with
      | some meth, some es =>
          let ps := runProv meth {} es
          if ps.isEmpty then "-" else ";".intercalate (ps.map (fun p => renderTag' p.1 ++ "<-[" ++
            ",".intercalate (p.2.map (fun x => renderTag' x.tag ++ ":" ++ toString x.val)) ++ "]"))
      | _, _ => "bad-op"
  | "number" :: ts =>
      match ts.mapM parseNEv with
      | some l =>
          let out := numberEvs (fun _ => none) l
          if out.isEmpty then "-" else " ".intercalate (out.map renderTag)
      | none => "bad-op"
  | "checklist" :: evs =>
      match evs.mapM parseCEv with
      | some es =>
          -- after every event: is the port still read?  then the output port log and the termination status
          let (fin, trace) := es.foldl (fun (acc : LCSt × List String) e =>
            let s' := lcstep acc.1 e
            (s', acc.2 ++ [if s'.c.reading then "r" else "x"])) (({} : LCSt), [])
          (if trace.isEmpty then "-" else "".intercalate trace) ++ "|out=" ++
            (if fin.out.isEmpty then "-" else ",".intercalate (fin.out.map renderTag)) ++ "|term=" ++
            (match fin.terminated with | some st => st.render | none => "-")
      | none => "bad-op"
  | _ => "bad-op"

def main : IO Unit := runPure handle
