import SFV.Model.Registry
/-! C21: the state of the divergence witness (DESIGN §6 #21) and the facts about it that `invalidate_diverges` uses. -/
namespace SFV.C21
open SFV.Registry

def pe : Path := ["/", "e"]
def pef : Path := ["/", "e", "f"]

/-- register L:/e/f, register L:/e (not stored anywhere: `/e` is believed valid through the implicit parent entry),
relate the two -/
def s21 : St :=
  let s1 := register St.init 0 pef
  let s2 := register s1.1 0 pe
  relate s2.1 s1.2 s2.2

/-- the state after the first pass over the node `/e` -/
def s21m : St := markLoop pe 0 (s21.locs pe 0) s21

theorem s21m_facts :
    ¬ (pe ≠ [] ∧ pe ∉ s21.nodes) ∧ ¬ (pe ≠ [] ∧ pe ∉ s21m.nodes) ∧
    children s21 pe = [pef] ∧ children s21m pe = [pef] ∧
    s21m.locs pef 0 = [0, 3] ∧ objValid s21m 0 = false ∧ objValid s21m 3 = true ∧
    objLoc s21m 3 = 0 ∧ objPath s21m 3 = pe := by
  decide +kernel

/-- a second pass over the node changes nothing: the state is a fixed point of the marking loop -/
theorem s21m_fix : markLoop pe 0 (s21m.locs pe 0) s21m = s21m := by
  rfl

end SFV.C21
