import SFV.Model.Port
/-! Helper definitions and lemmas for ports (C03). -/
namespace SFV.Port

/-! ## Queues -/

@[simp] theorem Q.taskDone_recv (q : Q) : q.taskDone.recv = q.recv := by
  unfold Q.taskDone; split <;> rfl
@[simp] theorem Q.taskDone_items (q : Q) : q.taskDone.items = q.items := by
  unfold Q.taskDone; split <;> rfl
@[simp] theorem Q.taskDone_wait (q : Q) : q.taskDone.wait = q.wait := by
  unfold Q.taskDone; split <;> rfl

/-- what `deliver` does: nothing, or it pops the head of the queue into `recv` -/
theorem Q.deliver_cases (q : Q) :
    ((q.wait = none ∨ q.items = []) ∧ q.deliver = q) ∨
    (∃ f h r, q.wait = some f ∧ q.items = h :: r ∧
      q.deliver = (if f then ({ q with items := r, wait := none, recv := q.recv ++ [h] } : Q)
                   else ({ q with items := r, wait := none, recv := q.recv ++ [h] } : Q).taskDone)) := by
  unfold Q.deliver
  split
  · rename_i f h r hw hi
    exact Or.inr ⟨f, h, r, hw, hi, by cases f <;> rfl⟩
  · rename_i hne
    refine Or.inl ⟨?_, rfl⟩
    cases hw : q.wait with
    | none => exact Or.inl rfl
    | some f =>
      cases hi : q.items with
      | nil => exact Or.inr rfl
      | cons h r => exact (hne f h r hw hi).elim

theorem Q.deliver_recv_items (q : Q) : q.deliver.recv ++ q.deliver.items = q.recv ++ q.items := by
  rcases q.deliver_cases with ⟨_, h⟩ | ⟨f, h, r, hw, hi, hd⟩
  · rw [h]
  · rw [hd, hi]; cases f <;> simp

theorem Q.deliver_wait_items (q : Q) (h : q.deliver.wait.isSome) : q.deliver.items = [] := by
  rcases q.deliver_cases with ⟨h1 | h1, hd⟩ | ⟨f, h', r, hw, hi, hd⟩
  · rw [hd, h1] at h; cases h
  · rw [hd]; exact h1
  · rw [hd] at h; cases f <;> simp at h

/-! ## Plain port -/

@[simp] theorem Port.put_log (p : Port) (t : Tok) : (p.put t).log = p.log ++ [t] := rfl
@[simp] theorem Port.put_qs (p : Port) (t : Tok) (c : Nat) : (p.put t).qs c = (p.qs c).map (·.push t) := rfl
@[simp] theorem Port.setQ_log (p : Port) (c : Nat) (q : Q) : (p.setQ c q).log = p.log := rfl
@[simp] theorem Port.setQ_qs (p : Port) (c : Nat) (q : Q) (k : Nat) :
    (p.setQ c q).qs k = if k = c then some q else p.qs k := rfl
@[simp] theorem Port.get_log (p : Port) (c : Nat) : (p.get c).log = p.log := by
  unfold Port.get; split
  · rfl
  · split <;> rfl
@[simp] theorem Port.close_log (p : Port) (c : Nat) : (p.close c).log = p.log := by
  unfold Port.close; split <;> rfl

theorem Port.get_qs_ne (p : Port) (c k : Nat) (h : k ≠ c) : (p.get c).qs k = p.qs k := by
  unfold Port.get; split
  · simp [h]
  · split <;> simp [h]
theorem Port.close_qs_ne (p : Port) (c k : Nat) (h : k ≠ c) : (p.close c).qs k = p.qs k := by
  unfold Port.close; split <;> simp [h]

@[simp] theorem Port.run_nil (p : Port) : p.run [] = p := rfl
@[simp] theorem Port.run_cons (p : Port) (op : Op) (ops : List Op) :
    p.run (op :: ops) = (p.step op).run ops := rfl
theorem Port.run_append (p : Port) (a b : List Op) : p.run (a ++ b) = (p.run a).run b := by
  simp [Port.run, List.foldl_append]

/-- the payloads of the `put` operations, in order -/
def puts : List Op → List Tok
  | [] => []
  | .put t :: ops => t :: puts ops
  | _ :: ops => puts ops

/-- the payload of a `put` -/
def Op.payload : Op → Option Tok
  | .put t => some t
  | _ => none

theorem puts_eq_filterMap (ops : List Op) : puts ops = ops.filterMap Op.payload := by
  induction ops with
  | nil => rfl
  | cons op ops ih => cases op <;> simp [puts, ih, Op.payload, List.filterMap_cons]

@[simp] theorem Port.step_log (p : Port) (op : Op) : (p.step op).log = p.log ++ puts [op] := by
  cases op <;> simp [Port.step, puts]

theorem Port.run_log (p : Port) (ops : List Op) : (p.run ops).log = p.log ++ puts ops := by
  induction ops generalizing p with
  | nil => simp [puts]
  | cons op ops ih => cases op <;> simp [ih, Port.step, puts]

/-- every queue holds exactly the not yet received suffix of the log; a blocked consumer has an empty queue -/
def Inv (p : Port) : Prop :=
  ∀ c q, p.qs c = some q → q.recv ++ q.items = p.log ∧ (q.wait.isSome → q.items = [])

theorem inv_empty : Inv Port.empty := by
  intro c q h; cases h

theorem inv_put {p : Port} (hI : Inv p) (t : Tok) : Inv (p.put t) := by
  intro c q h
  simp only [Port.put_qs, Option.map_eq_some_iff] at h
  obtain ⟨q0, h0, rfl⟩ := h
  obtain ⟨h1, _⟩ := hI c q0 h0
  refine ⟨?_, Q.deliver_wait_items _⟩
  unfold Q.push
  rw [Q.deliver_recv_items]; simp [← h1]

theorem inv_get {p : Port} (hI : Inv p) (c : Nat) : Inv (p.get c) := by
  intro k q h
  rw [Port.get_log]
  unfold Port.get at h
  split at h
  · simp only [Port.setQ_qs] at h
    split at h
    · cases h
      exact ⟨by rw [Q.deliver_recv_items]; simp, Q.deliver_wait_items _⟩
    · exact hI k q h
  · rename_i q0 h0
    split at h
    · exact hI k q h
    · simp only [Port.setQ_qs] at h
      split at h
      · cases h
        exact ⟨by rw [Q.deliver_recv_items]; exact (hI c q0 h0).1, Q.deliver_wait_items _⟩
      · exact hI k q h

theorem inv_close {p : Port} (hI : Inv p) (c : Nat) : Inv (p.close c) := by
  intro k q h
  rw [Port.close_log]
  unfold Port.close at h
  split at h
  · exact hI k q h
  · rename_i q0 h0
    simp only [Port.setQ_qs] at h
    split at h
    · cases h
      simpa using hI c q0 h0
    · exact hI k q h

theorem inv_step {p : Port} (hI : Inv p) (op : Op) : Inv (p.step op) := by
  cases op with
  | put t => exact inv_put hI t
  | get c => exact inv_get hI c
  | close c => exact inv_close hI c

theorem inv_run {p : Port} (hI : Inv p) (ops : List Op) : Inv (p.run ops) := by
  induction ops generalizing p with
  | nil => exact hI
  | cons op ops ih => exact ih (inv_step hI op)

/-- consequences of the invariant for one consumer -/
theorem inv_fifo {p : Port} (hI : Inv p) (c : Nat) :
    p.recv c <+: p.log ∧ ((p.recv c).length = p.log.length → p.recv c = p.log) ∧
    ∀ q, p.qs c = some q → q.recv ++ q.items = p.log := by
  refine ⟨?_, ?_, fun q h => (hI c q h).1⟩
  · unfold Port.recv; split
    · exact List.nil_prefix
    · rename_i q h; exact ⟨q.items, (hI c q h).1⟩
  · unfold Port.recv; split
    · intro h; exact (List.eq_nil_of_length_eq_zero h.symm).symm
    · rename_i q h
      intro hl
      have := (hI c q h).1
      have h2 : q.items = [] := by
        have := congrArg List.length this
        simp only [List.length_append] at this
        exact List.eq_nil_of_length_eq_zero (by omega)
      rw [h2, List.append_nil] at this; exact this

theorem Q.deliver_cons (q : Q) {f : Bool} {h : Tok} {r : List Tok} (hw : q.wait = some f) (hi : q.items = h :: r) :
    q.deliver.recv = q.recv ++ [h] ∧ q.deliver.items = r ∧ q.deliver.wait = none := by
  rcases q.deliver_cases with ⟨h1 | h1, _⟩ | ⟨f', h', r', hw', hi', hd⟩
  · rw [h1] at hw; cases hw
  · rw [h1] at hi; cases hi
  · rw [hi] at hi'; cases hi'
    rw [hd]; cases f' <;> simp

theorem Q.deliver_nil (q : Q) (hi : q.items = []) : q.deliver = q := by
  rcases q.deliver_cases with ⟨_, hd⟩ | ⟨f', h', r', hw', hi', hd⟩
  · exact hd
  · rw [hi] at hi'; cases hi'

@[simp] theorem Q.deliver_mk_cons_recv (a : Tok) (r : List Tok) (u : Nat) (f : Bool) (rc : List Tok) (e : Bool) :
    ({ items := a :: r, unf := u, wait := some f, recv := rc, err := e } : Q).deliver.recv = rc ++ [a] := by
  cases f <;> simp [Q.deliver]
@[simp] theorem Q.deliver_mk_cons_items (a : Tok) (r : List Tok) (u : Nat) (f : Bool) (rc : List Tok) (e : Bool) :
    ({ items := a :: r, unf := u, wait := some f, recv := rc, err := e } : Q).deliver.items = r := by
  cases f <;> simp [Q.deliver]
@[simp] theorem Q.deliver_mk_cons_wait (a : Tok) (r : List Tok) (u : Nat) (f : Bool) (rc : List Tok) (e : Bool) :
    ({ items := a :: r, unf := u, wait := some f, recv := rc, err := e } : Q).deliver.wait = none := by
  cases f <;> simp [Q.deliver]
@[simp] theorem Q.deliver_mk_nil (u : Nat) (w : Option Bool) (rc : List Tok) (e : Bool) :
    ({ items := [], unf := u, wait := w, recv := rc, err := e } : Q).deliver =
      { items := [], unf := u, wait := w, recv := rc, err := e } := Q.deliver_nil _ rfl

@[simp] theorem Port.recv_setQ (p : Port) (c : Nat) (q : Q) : (p.setQ c q).recv c = q.recv := by
  simp [Port.recv]

/-- a non-blocked consumer with a token available receives the next token of the log -/
theorem get_recv_avail {p : Port} (hI : Inv p) (c : Nat) (hw : ∀ q, p.qs c = some q → q.wait = none)
    (hl : (p.recv c).length < p.log.length) :
    (p.get c).recv c = p.log.take ((p.recv c).length + 1) := by
  unfold Port.get
  cases h : p.qs c with
  | none =>
    simp only [Port.recv, h, List.length_nil] at hl ⊢
    cases hlog : p.log with
    | nil => rw [hlog] at hl; cases hl
    | cons a r => simp
  | some q =>
    have hq := (hI c q h).1
    have hwq := hw q h
    simp only [Port.recv, h] at hl ⊢
    simp only [hwq, Option.isSome_none, Bool.false_eq_true, if_false, Port.setQ_qs, if_true]
    cases hit : q.items with
    | nil => rw [hit, List.append_nil] at hq; rw [hq] at hl; omega
    | cons a r =>
      rw [← hq, hit, List.take_length_add_append]
      simp

/-- a non-blocked consumer that has received everything blocks: `get` returns nothing now -/
theorem get_recv_blocked {p : Port} (hI : Inv p) (c : Nat) (hw : ∀ q, p.qs c = some q → q.wait = none)
    (hl : (p.recv c).length = p.log.length) :
    (p.get c).recv c = p.recv c ∧ ∃ q, (p.get c).qs c = some q ∧ q.wait.isSome ∧ q.items = [] ∧ q.recv = p.log := by
  have hrl := (inv_fifo hI c).2.1 hl
  unfold Port.get
  cases h : p.qs c with
  | none =>
    simp only [Port.recv, h] at hrl
    simp [Port.recv, ← hrl, h]
  | some q =>
    have hq := (hI c q h).1
    have hwq := hw q h
    simp only [Port.recv, h] at hrl
    have hit : q.items = [] := by
      rw [hrl] at hq; exact List.append_right_eq_self.mp hq
    simp only [hwq, Option.isSome_none, Bool.false_eq_true, if_false, Port.setQ_qs, if_true, Port.recv, h]
    simp [hit, hrl]

/-- a `put` completes the blocked `get` of a consumer with an empty queue -/
theorem put_recv_waiting {p : Port} (c : Nat) (q : Q) (t : Tok) (hq : p.qs c = some q) (hw : q.wait.isSome)
    (hi : q.items = []) : (p.put t).recv c = q.recv ++ [t] := by
  simp only [Port.recv, Port.put_qs, hq, Option.map_some, Q.push]
  cases hwq : q.wait with
  | none => rw [hwq] at hw; cases hw
  | some f => simp [hi]

/-! ### Consumers stop reading at the termination token -/

/-- the history respects the consumer protocol: no `get` after a termination token was received -/
def Disciplined : Port → List Op → Prop
  | _, [] => True
  | p, op :: rest =>
      (match op with
        | .get c => (p.recv c).all (fun t => !t.term) = true
        | _ => True) ∧ Disciplined (p.step op) rest

instance Disciplined.dec : (ops : List Op) → (p : Port) → Decidable (Disciplined p ops)
  | [], _ => isTrue trivial
  | .get c :: rest, p =>
      have := Disciplined.dec rest (p.step (.get c))
      inferInstanceAs (Decidable ((p.recv c).all (fun t => !t.term) = true ∧ Disciplined (p.step (.get c)) rest))
  | .put t :: rest, p =>
      have := Disciplined.dec rest (p.step (.put t))
      inferInstanceAs (Decidable (True ∧ Disciplined (p.step (.put t)) rest))
  | .close c :: rest, p =>
      have := Disciplined.dec rest (p.step (.close c))
      inferInstanceAs (Decidable (True ∧ Disciplined (p.step (.close c)) rest))

/-- queue-local invariant: only the last received token may be a termination token, and not even that one
    while a `get` is pending -/
def Q.TermOk (q : Q) : Prop :=
  (∀ t ∈ q.recv.dropLast, t.term = false) ∧ (q.wait.isSome → ∀ t ∈ q.recv, t.term = false)

theorem Q.TermOk.taskDone {q : Q} (h : q.TermOk) : q.taskDone.TermOk := by
  simpa [Q.TermOk] using h

theorem Q.TermOk.deliver {q : Q} (h : q.TermOk) : q.deliver.TermOk := by
  rcases q.deliver_cases with ⟨_, hd⟩ | ⟨f, a, r, hw, hi, hd⟩
  · rw [hd]; exact h
  · have h2 := h.2 (by rw [hw]; rfl)
    rw [hd]
    cases f <;> simpa [Q.TermOk] using h2

def TermInv (p : Port) : Prop := ∀ c q, p.qs c = some q → q.TermOk

theorem termInv_empty : TermInv Port.empty := by
  intro c q h; cases h

theorem termInv_step {p : Port} (hI : TermInv p) (op : Op)
    (hd : match op with
        | .get c => (p.recv c).all (fun t => !t.term) = true
        | _ => True) : TermInv (p.step op) := by
  intro k q h
  cases op with
  | put t =>
    simp only [Port.step, Port.put_qs, Option.map_eq_some_iff] at h
    obtain ⟨q0, h0, rfl⟩ := h
    have h1 := hI k q0 h0
    unfold Q.push
    exact Q.TermOk.deliver (by simpa [Q.TermOk] using h1)
  | get c =>
    simp only [Port.step] at h
    unfold Port.get at h
    split at h
    · simp only [Port.setQ_qs] at h
      split at h
      · cases h
        exact Q.TermOk.deliver (by simp [Q.TermOk])
      · exact hI k q h
    · rename_i q0 h0
      split at h
      · exact hI k q h
      · simp only [Port.setQ_qs] at h
        split at h
        · cases h
          have h1 := hI c q0 h0
          simp only [Port.recv, h0, List.all_eq_true, Bool.not_eq_true'] at hd
          exact Q.TermOk.deliver ⟨h1.1, fun _ => hd⟩
        · exact hI k q h
  | close c =>
    simp only [Port.step] at h
    unfold Port.close at h
    split at h
    · exact hI k q h
    · rename_i q0 h0
      simp only [Port.setQ_qs] at h
      split at h
      · cases h
        exact (hI c q0 h0).taskDone
      · exact hI k q h

theorem termInv_run {p : Port} (hI : TermInv p) (ops : List Op) (hd : Disciplined p ops) :
    TermInv (p.run ops) := by
  induction ops generalizing p with
  | nil => exact hI
  | cons op ops ih => exact ih (termInv_step hI op hd.1) hd.2

/-! ### `task_done` bookkeeping -/

deriving instance DecidableEq for Op

/-- the history respects the `close` protocol: a consumer calls `close` at most once, and only if it never
    subscribed or after it received at least one token -/
def CloseDisc : Port → List Op → Prop
  | _, [] => True
  | p, op :: rest =>
      (match op with
        | .close c => (p.qs c = none ∨ p.recv c ≠ []) ∧ Op.close c ∉ rest
        | _ => True) ∧ CloseDisc (p.step op) rest

instance : (o : Option Q) → Decidable (o = none)
  | none => isTrue rfl
  | some _ => isFalse (fun h => by cases h)

instance CloseDisc.dec : (ops : List Op) → (p : Port) → Decidable (CloseDisc p ops)
  | [], _ => isTrue trivial
  | .close c :: rest, p =>
      have := CloseDisc.dec rest (p.step (.close c))
      inferInstanceAs (Decidable (((p.qs c = none ∨ p.recv c ≠ []) ∧ Op.close c ∉ rest) ∧
        CloseDisc (p.step (.close c)) rest))
  | .put t :: rest, p =>
      have := CloseDisc.dec rest (p.step (.put t))
      inferInstanceAs (Decidable (True ∧ CloseDisc (p.step (.put t)) rest))
  | .get c :: rest, p =>
      have := CloseDisc.dec rest (p.step (.get c))
      inferInstanceAs (Decidable (True ∧ CloseDisc (p.step (.get c)) rest))

/-- queue-local counting invariant; `L` = length of the log, `n` = number of `close` calls so far -/
def Q.CountOk (L n : Nat) (q : Q) : Prop :=
  q.err = false ∧ q.recv.length + q.items.length = L ∧ (q.wait = some true → q.recv = []) ∧
  (q.wait ≠ some true → q.recv ≠ []) ∧ q.unf + (q.recv.length - 1) + n = L ∧ n ≤ 1

theorem Q.CountOk.deliver {L n : Nat} {q : Q} (h : q.CountOk L n) : q.deliver.CountOk L n := by
  rcases q.deliver_cases with ⟨_, hd⟩ | ⟨f, a, r, hw, hi, hd⟩
  · rw [hd]; exact h
  · obtain ⟨h1, h2, h3, h4, h5, h6⟩ := h
    rw [hd]
    cases f with
    | true =>
      have := h3 hw
      simp only [if_true]
      refine ⟨h1, ?_, ?_, ?_, ?_, h6⟩ <;> simp_all <;> omega
    | false =>
      have hne := h4 (by rw [hw]; simp)
      have hl : 0 < q.recv.length := List.length_pos_iff.mpr hne
      rw [hi] at h2
      simp only [List.length_cons] at h2
      simp only [Bool.false_eq_true, if_false, Q.taskDone]
      rw [if_neg (by omega)]
      refine ⟨h1, ?_, ?_, ?_, ?_, h6⟩ <;> simp <;> omega

def CountInv (p : Port) (ncl : Nat → Nat) : Prop :=
  ∀ c, match p.qs c with
    | none => ncl c = 0
    | some q => q.CountOk p.log.length (ncl c)

theorem countInv_empty : CountInv Port.empty (fun _ => 0) := by
  intro c; rfl

theorem countInv_put {p : Port} {ncl : Nat → Nat} (hI : CountInv p ncl) (t : Tok) : CountInv (p.put t) ncl := by
  intro c
  have := hI c
  simp only [Port.put_qs, Port.put_log]
  cases h : p.qs c with
  | none => simpa [h] using this
  | some q =>
    simp only [h] at this
    obtain ⟨h1, h2, h3, h4, h5, h6⟩ := this
    simp only [Option.map_some, Q.push]
    apply Q.CountOk.deliver
    refine ⟨h1, ?_, h3, h4, ?_, h6⟩ <;> simp <;> omega

theorem countInv_get {p : Port} {ncl : Nat → Nat} (hI : CountInv p ncl) (c : Nat) : CountInv (p.get c) ncl := by
  intro k
  rw [Port.get_log]
  by_cases hk : k = c
  · subst hk
    have := hI k
    unfold Port.get
    cases h : p.qs k with
    | none =>
      simp only [h] at this
      simp only [Port.setQ_qs, if_true]
      apply Q.CountOk.deliver
      refine ⟨rfl, ?_, ?_, ?_, ?_, ?_⟩ <;> simp [this]
    | some q =>
      simp only [h] at this
      by_cases hw : q.wait.isSome = true
      · simpa [h, hw] using this
      · simp only [hw, Bool.false_eq_true, if_false, Port.setQ_qs, if_true]
        apply Q.CountOk.deliver
        obtain ⟨h1, h2, h3, h4, h5, h6⟩ := this
        refine ⟨h1, h2, ?_, ?_, h5, h6⟩
        · intro hh; cases hh
        · intro _; apply h4; intro hh; rw [hh] at hw; exact hw rfl
  · rw [Port.get_qs_ne p c k hk]; exact hI k

theorem close_none {p : Port} (c : Nat) (h : p.qs c = none) :
    p.close c = p := by
  unfold Port.close; rw [h]

theorem countInv_close_some {p : Port} {ncl : Nat → Nat} (hI : CountInv p ncl) (c : Nat) (q : Q)
    (h : p.qs c = some q) (hr : p.recv c ≠ []) (hn : ncl c = 0) :
    CountInv (p.close c) (fun k => if k = c then 1 else ncl k) := by
  intro k
  rw [Port.close_log]
  by_cases hk : k = c
  · subst hk
    have := hI k
    simp only [Port.recv, h] at hr
    simp only [h, hn] at this
    obtain ⟨h1, h2, h3, h4, h5, h6⟩ := this
    have hl : 0 < q.recv.length := List.length_pos_iff.mpr hr
    unfold Port.close
    simp only [h, Port.setQ_qs, if_true, Q.taskDone]
    rw [if_neg (by omega)]
    refine ⟨h1, h2, h3, h4, ?_, Nat.le_refl 1⟩
    simp; omega
  · rw [Port.close_qs_ne p c k hk]; simpa [hk] using hI k

theorem countInv_run (ops : List Op) : ∀ (p : Port) (ncl : Nat → Nat), CountInv p ncl → CloseDisc p ops →
    (∀ c, ncl c ≠ 0 → Op.close c ∉ ops) → ∃ ncl', CountInv (p.run ops) ncl' := by
  induction ops with
  | nil => intro p ncl hI _ _; exact ⟨ncl, hI⟩
  | cons op ops ih =>
    intro p ncl hI hd hc
    have hc' : ∀ c, ncl c ≠ 0 → Op.close c ∉ ops := fun c h hm => hc c h (List.mem_cons_of_mem _ hm)
    cases op with
    | put t => exact ih _ ncl (countInv_put hI t) hd.2 hc'
    | get c => exact ih _ ncl (countInv_get hI c) hd.2 hc'
    | close c =>
      obtain ⟨⟨hd1, hd2⟩, hd3⟩ := hd
      cases h : p.qs c with
      | none =>
        simp only [Port.run_cons, Port.step, close_none c h] at hd3 ⊢
        exact ih _ ncl hI hd3 hc'
      | some q =>
        have hn : ncl c = 0 := by
          apply Classical.byContradiction
          intro hne; exact hc c hne (List.mem_cons_self)
        have hr : p.recv c ≠ [] := by
          rcases hd1 with h' | h'
          · rw [h] at h'; cases h'
          · exact h'
        refine ih _ _ (countInv_close_some hI c q h hr hn) hd3 ?_
        intro k hk
        by_cases hkc : k = c
        · subst hkc; exact hd2
        · simp only [hkc, if_false] at hk; exact hc' k hk

theorem no_err_of_countInv {p : Port} {ncl : Nat → Nat} (hI : CountInv p ncl) (c : Nat) (q : Q)
    (h : p.qs c = some q) : q.err = false := by
  have := hI c
  simp only [h] at this
  exact this.1

/-! ## Filter port -/

theorem filterRun_log (keep : Tok → Bool) (p : Port) (ops : List Op) :
    (filterRun keep p ops).log = p.log ++ (puts ops).filter (fun t => t.term || keep t) := by
  induction ops generalizing p with
  | nil => simp [filterRun, puts]
  | cons op ops ih =>
    have ih' := fun p => ih p
    simp only [filterRun] at ih' ⊢
    rw [List.foldl_cons, ih']
    cases op with
    | put t =>
      simp only [filterStep, filterPut, puts]
      by_cases h : (t.term || keep t) = true
      · simp [h]
      · simp [h]
    | get c => simp [filterStep, puts]
    | close c => simp [filterStep, puts]

theorem inv_filterStep {keep : Tok → Bool} {p : Port} (hI : Inv p) (op : Op) : Inv (filterStep keep p op) := by
  cases op with
  | put t =>
    simp only [filterStep, filterPut]
    split
    · exact inv_put hI t
    · exact hI
  | get c => exact inv_get hI c
  | close c => exact inv_close hI c

theorem inv_filterRun {keep : Tok → Bool} {p : Port} (hI : Inv p) (ops : List Op) :
    Inv (filterRun keep p ops) := by
  induction ops generalizing p with
  | nil => exact hI
  | cons op ops ih => exact ih (inv_filterStep hI op)

/-! ## Inter-workflow port -/

/-- what a satisfied rule puts on its target for token `t` -/
def act (r : Rule) (t : Tok) : List Tok :=
  (if r.propagate then [t] else []) ++ (if r.terminate then [recoveredTok] else [])

/-- the tags still missing after having seen the tokens `ts` -/
def remaining (T : List Nat) (ts : List Tok) : List Nat := ts.foldl (fun T t => T.erase t.tag) T

/-- the tokens on which a rule with missing tags `T` fires when it sees the stream `ts` -/
def fire : List Nat → List Tok → List Tok
  | _, [] => []
  | T, t :: ts => (if (T.erase t.tag).isEmpty then [t] else []) ++ fire (T.erase t.tag) ts

/-- payloads of the `put`s of data tokens, in order -/
def dataPuts : List IWOp → List Tok
  | [] => []
  | .put t :: ops => if t.term then dataPuts ops else t :: dataPuts ops
  | _ :: ops => dataPuts ops

/-- payloads of all `put`s, in order -/
def allPuts : List IWOp → List Tok
  | [] => []
  | .put t :: ops => t :: allPuts ops
  | _ :: ops => allPuts ops

theorem dataPuts_eq_filter (ops : List IWOp) : dataPuts ops = (allPuts ops).filter (fun t => !t.term) := by
  induction ops with
  | nil => rfl
  | cons op ops ih =>
    cases op with
    | put t => cases h : t.term <;> simp [dataPuts, allPuts, ih, h]
    | add r => simpa [dataPuts, allPuts] using ih
    | get c => simpa [dataPuts, allPuts] using ih
    | close c => simpa [dataPuts, allPuts] using ih

@[simp] theorem act_removeTag (r : Rule) (x : Nat) (t : Tok) : act (r.removeTag x) t = act r t := rfl
@[simp] theorem act_removeTag_fn (r : Rule) (x : Nat) : act (r.removeTag x) = act r := rfl
@[simp] theorem removeTag_target (r : Rule) (x : Nat) : (r.removeTag x).target = r.target := rfl
@[simp] theorem removeTag_tags (r : Rule) (x : Nat) : (r.removeTag x).tags = r.tags.erase x := rfl

@[simp] theorem remaining_nil (T : List Nat) : remaining T [] = T := rfl
@[simp] theorem remaining_cons (T : List Nat) (t : Tok) (ts : List Tok) :
    remaining T (t :: ts) = remaining (T.erase t.tag) ts := rfl
theorem remaining_append (T : List Nat) (a b : List Tok) :
    remaining T (a ++ b) = remaining (remaining T a) b := by
  simp [remaining, List.foldl_append]
@[simp] theorem remaining_empty (ts : List Tok) : remaining [] ts = [] := by
  induction ts with
  | nil => rfl
  | cons t ts ih => simpa using ih

theorem fire_append (T : List Nat) (a b : List Tok) :
    fire T (a ++ b) = fire T a ++ fire (remaining T a) b := by
  induction a generalizing T with
  | nil => simp [fire]
  | cons t a ih => simp [fire, ih]

theorem fire_empty (ts : List Tok) : fire [] ts = ts := by
  induction ts with
  | nil => rfl
  | cons t ts ih => simp [fire, ih]

theorem fire_never (T : List Nat) (ts : List Tok) (h : remaining T ts ≠ []) : fire T ts = [] := by
  induction ts generalizing T with
  | nil => rfl
  | cons t ts ih =>
    simp only [remaining_cons] at h
    have hne : T.erase t.tag ≠ [] := by
      intro h0; rw [h0] at h; exact h (remaining_empty ts)
    simp [fire, ih _ h, hne]

theorem fire_at_completion (T : List Nat) (a b : List Tok) (t : Tok) (h1 : remaining T a ≠ [])
    (h2 : remaining T (a ++ [t]) = []) : fire T (a ++ t :: b) = t :: b := by
  rw [fire_append, fire_never T a h1]
  rw [remaining_append] at h2
  simp only [remaining_cons, remaining_nil] at h2
  simp [fire, h2, fire_empty]

/-! ### `putTarget`, `exec` -/

@[simp] theorem IW.putTarget_rules (s : IW) (tg : Target) (t : Tok) : (s.putTarget tg t).rules = s.rules := by
  cases tg <;> rfl

theorem IW.putTarget_own_log (s : IW) (tg : Target) (t : Tok) :
    (s.putTarget tg t).own.log = s.own.log ++ (if tg = .self then [t] else []) := by
  cases tg <;> simp [IW.putTarget]

theorem IW.putTarget_ext_log (s : IW) (tg : Target) (t : Tok) (k : Nat) :
    ((s.putTarget tg t).ext k).log = (s.ext k).log ++ (if tg = .ext k then [t] else []) := by
  cases tg with
  | self => simp [IW.putTarget]
  | ext j =>
    by_cases h : k = j
    · subst h; simp [IW.putTarget]
    · have h' : ¬ j = k := fun e => h e.symm
      simp [IW.putTarget, h, h']

theorem IW.putTarget_own_inv (s : IW) (tg : Target) (t : Tok) (h : Inv s.own) : Inv (s.putTarget tg t).own := by
  cases tg with
  | self => exact inv_put h t
  | ext j => exact h

@[simp] theorem IW.exec_rules (s : IW) (r : Rule) (t : Tok) : (s.exec r t).rules = s.rules := by
  unfold IW.exec; cases r.propagate <;> cases r.terminate <;> simp

theorem IW.exec_own_log (s : IW) (r : Rule) (t : Tok) :
    (s.exec r t).own.log = s.own.log ++ (if r.target = .self then act r t else []) := by
  unfold IW.exec act
  cases r.propagate <;> cases r.terminate <;> by_cases h : r.target = .self <;>
    simp [IW.putTarget_own_log, h]

theorem IW.exec_ext_log (s : IW) (r : Rule) (t : Tok) (k : Nat) :
    ((s.exec r t).ext k).log = (s.ext k).log ++ (if r.target = .ext k then act r t else []) := by
  unfold IW.exec act
  cases r.propagate <;> cases r.terminate <;> by_cases h : r.target = .ext k <;>
    simp [IW.putTarget_ext_log, h]

theorem IW.exec_own_inv (s : IW) (r : Rule) (t : Tok) (h : Inv s.own) : Inv (s.exec r t).own := by
  unfold IW.exec
  cases r.propagate <;> cases r.terminate <;> simp [IW.putTarget_own_inv, h]

/-! ### the loop of `put` -/

/-- the satisfied rules with target `tg` -/
def hits (tg : Target) (rs : List Rule) : List Rule := rs.filter (fun r => r.satisfied && r.target == tg)

@[simp] theorem hits_nil (tg : Target) : hits tg [] = [] := rfl
theorem hits_cons (tg : Target) (r : Rule) (rs : List Rule) :
    hits tg (r :: rs) = (if r.satisfied = true ∧ r.target = tg then [r] else []) ++ hits tg rs := by
  unfold hits
  by_cases h1 : r.satisfied = true <;> by_cases h2 : r.target = tg <;> simp [h1, h2]

theorem IW.putLoop_spec (t : Tok) (rs : List Rule) : ∀ (s : IW) (done : List Rule) (m : Bool),
    (IW.putLoop t rs s done m).2.1 = done ++ rs.map (·.removeTag t.tag) ∧
    (IW.putLoop t rs s done m).2.2 = (m || !(hits .self (rs.map (·.removeTag t.tag))).isEmpty) ∧
    (IW.putLoop t rs s done m).1.own.log =
      s.own.log ++ (hits .self (rs.map (·.removeTag t.tag))).flatMap (act · t) ∧
    (∀ k, ((IW.putLoop t rs s done m).1.ext k).log =
      (s.ext k).log ++ (hits (.ext k) (rs.map (·.removeTag t.tag))).flatMap (act · t)) ∧
    (Inv s.own → Inv (IW.putLoop t rs s done m).1.own) := by
  induction rs with
  | nil => intro s done m; simp [IW.putLoop]
  | cons r rs ih =>
    intro s done m
    simp only [IW.putLoop, List.map_cons, hits_cons]
    by_cases hs : (r.removeTag t.tag).satisfied = true
    · simp only [hs, if_true, true_and]
      obtain ⟨h1, h2, h3, h4, h5⟩ := ih (s.exec (r.removeTag t.tag) t) (done ++ [r.removeTag t.tag])
        (m || (r.removeTag t.tag).target == .self)
      refine ⟨by rw [h1]; simp, ?_, ?_, ?_, fun hI => h5 (IW.exec_own_inv _ _ _ hI)⟩
      · rw [h2]
        by_cases ht : r.target = .self
        · simp [ht]
        · simp [ht, beq_eq_false_iff_ne.mpr ht]
      · rw [h3, IW.exec_own_log]
        by_cases ht : r.target = .self <;> simp [ht]
      · intro k
        rw [h4, IW.exec_ext_log]
        by_cases ht : r.target = .ext k <;> simp [ht]
    · simp only [hs, Bool.false_eq_true, if_false, false_and, List.nil_append]
      obtain ⟨h1, h2, h3, h4, h5⟩ := ih s (done ++ [r.removeTag t.tag]) m
      exact ⟨by rw [h1]; simp, h2, h3, h4, h5⟩

/-- what a `put` of the data token `t` appends to the port's own log -/
def selfOut (rules : List Rule) (t : Tok) : List Tok :=
  if (hits .self (rules.map (·.removeTag t.tag))).isEmpty then [t]
  else (hits .self (rules.map (·.removeTag t.tag))).flatMap (act · t)

theorem IW.put_data (s : IW) (t : Tok) (ht : t.term = false) :
    (s.put t).rules = s.rules.map (·.removeTag t.tag) ∧
    (∀ k, ((s.put t).ext k).log =
      (s.ext k).log ++ (hits (.ext k) (s.rules.map (·.removeTag t.tag))).flatMap (act · t)) ∧
    (s.put t).own.log = s.own.log ++ selfOut s.rules t ∧
    (Inv s.own → Inv (s.put t).own) := by
  obtain ⟨h1, h2, h3, h4, h5⟩ := IW.putLoop_spec t s.rules s [] false
  unfold IW.put selfOut
  simp only [ht, Bool.false_eq_true, if_false]
  generalize IW.putLoop t s.rules s [] false = res at *
  obtain ⟨s1, rules, matched⟩ := res
  simp only [List.nil_append, Bool.false_or] at h1 h2 h3 h4 h5
  subst h1 h2
  by_cases hm : (hits .self (s.rules.map (·.removeTag t.tag))).isEmpty = true
  · simp only [hm, Bool.not_true, Bool.false_eq_true, if_false, if_true]
    refine ⟨trivial, h4, ?_, fun hI => inv_put (h5 hI) t⟩
    rw [Port.put_log, h3]
    rw [List.isEmpty_iff] at hm
    simp [hm]
  · simp only [hm, Bool.not_false, if_true]
    exact ⟨trivial, h4, h3, h5⟩

theorem IW.put_term (s : IW) (t : Tok) (ht : t.term = true) :
    s.put t = { s with own := s.own.put t } := by
  unfold IW.put; simp [ht]

/-! ### `add_inter_port` -/

theorem IW.replay_spec (ts : List Tok) : ∀ (s : IW) (r : Rule),
    (IW.replay ts s r).2 = { r with tags := remaining r.tags ts } ∧
    (IW.replay ts s r).1.rules = s.rules ∧
    (IW.replay ts s r).1.own.log =
      s.own.log ++ (if r.target = .self then (fire r.tags ts).flatMap (act r) else []) ∧
    (∀ k, ((IW.replay ts s r).1.ext k).log =
      (s.ext k).log ++ (if r.target = .ext k then (fire r.tags ts).flatMap (act r) else [])) ∧
    (Inv s.own → Inv (IW.replay ts s r).1.own) := by
  induction ts with
  | nil => intro s r; simp [IW.replay, fire]
  | cons t ts ih =>
    intro s r
    simp only [IW.replay, fire, remaining_cons]
    by_cases hs : (r.removeTag t.tag).satisfied = true
    · have hs' : (r.tags.erase t.tag).isEmpty = true := hs
      simp only [hs, hs', if_true]
      obtain ⟨h1, h2, h3, h4, h5⟩ := ih (s.exec (r.removeTag t.tag) t) (r.removeTag t.tag)
      simp only [removeTag_target, removeTag_tags, act_removeTag_fn] at h1 h3 h4
      refine ⟨h1, by rw [h2]; simp, ?_, ?_, fun hI => h5 (IW.exec_own_inv _ _ _ hI)⟩
      · rw [h3, IW.exec_own_log]
        by_cases ht : r.target = .self <;> simp [ht]
      · intro k
        rw [h4, IW.exec_ext_log]
        by_cases ht : r.target = .ext k <;> simp [ht]
    · have hs' : ¬ (r.tags.erase t.tag).isEmpty = true := hs
      simp only [hs, hs', Bool.false_eq_true, if_false, List.nil_append]
      obtain ⟨h1, h2, h3, h4, h5⟩ := ih s (r.removeTag t.tag)
      simp only [removeTag_target, removeTag_tags, act_removeTag_fn] at h1 h3 h4
      exact ⟨h1, h2, h3, h4, h5⟩

theorem IW.addRule_spec (s : IW) (r : Rule) :
    (s.addRule r).rules =
      s.rules ++ [{ r with tags := remaining r.tags (s.own.log.filter (fun t => !t.term)) }] ∧
    (s.addRule r).own.log = s.own.log ++
      (if r.target = .self then (fire r.tags (s.own.log.filter (fun t => !t.term))).flatMap (act r) else []) ∧
    (∀ k, ((s.addRule r).ext k).log = (s.ext k).log ++
      (if r.target = .ext k then (fire r.tags (s.own.log.filter (fun t => !t.term))).flatMap (act r) else [])) ∧
    (Inv s.own → Inv (s.addRule r).own) := by
  obtain ⟨h1, h2, h3, h4, h5⟩ := IW.replay_spec (s.own.log.filter (fun t => !t.term)) s r
  unfold IW.addRule
  dsimp only
  generalize IW.replay (s.own.log.filter (fun t => !t.term)) s r = res at *
  obtain ⟨s1, r'⟩ := res
  simp only at h1 h2 h3 h4 h5
  subst h1
  exact ⟨rfl, h3, h4, h5⟩

/-! ### one step, summarised -/

@[simp] theorem IW.run_nil (s : IW) : s.run [] = s := rfl
@[simp] theorem IW.run_cons (s : IW) (op : IWOp) (ops : List IWOp) :
    s.run (op :: ops) = (s.step op).run ops := rfl

theorem IW.step_own_inv (s : IW) (op : IWOp) (h : Inv s.own) : Inv (s.step op).own := by
  cases op with
  | put t =>
    cases ht : t.term with
    | true => simp only [IW.step, IW.put_term s t ht]; exact inv_put h t
    | false => exact (IW.put_data s t ht).2.2.2 h
  | add r => exact (IW.addRule_spec s r).2.2.2 h
  | get c => exact inv_get h c
  | close c => exact inv_close h c

theorem IW.run_own_inv (s : IW) (ops : List IWOp) (h : Inv s.own) : Inv (s.run ops).own := by
  induction ops generalizing s with
  | nil => exact h
  | cons op ops ih => exact ih _ (IW.step_own_inv s op h)

/-! ### histories -/

theorem hits_none (tg : Target) (rs : List Rule) (h : ∀ r ∈ rs, r.target ≠ tg) : hits tg rs = [] := by
  unfold hits
  rw [List.filter_eq_nil_iff]
  intro r hr
  simp [h r hr]

theorem hits_append (tg : Target) (a b : List Rule) : hits tg (a ++ b) = hits tg a ++ hits tg b := by
  simp [hits]

theorem hits_unique (tg : Target) (pre post : List Rule) (r : Rule) (h : ∀ r' ∈ pre ++ post, r'.target ≠ tg)
    (hr : r.target = tg) : hits tg (pre ++ r :: post) = if r.satisfied = true then [r] else [] := by
  rw [hits_append, hits_cons, hits_none tg pre (fun r' h' => h r' (List.mem_append_left _ h')),
    hits_none tg post (fun r' h' => h r' (List.mem_append_right _ h'))]
  simp [hr]

theorem map_removeTag_target (x : Nat) (tg : Target) (rs : List Rule) (h : ∀ r ∈ rs, r.target ≠ tg) :
    ∀ r ∈ rs.map (·.removeTag x), r.target ≠ tg := by
  intro r hr
  rw [List.mem_map] at hr
  obtain ⟨r0, h0, rfl⟩ := hr
  exact h r0 h0

/-- a rule that is the only one targeting the boundary port `k` determines what that port receives -/
theorem IW.run_ext_log (k : Nat) (ops : List IWOp) : ∀ (s : IW) (pre post : List Rule) (r : Rule),
    s.rules = pre ++ r :: post → r.target = .ext k → (∀ r' ∈ pre ++ post, r'.target ≠ .ext k) →
    (∀ r', IWOp.add r' ∈ ops → r'.target ≠ .ext k) →
    ((s.run ops).ext k).log = (s.ext k).log ++ (fire r.tags (dataPuts ops)).flatMap (act r) := by
  induction ops with
  | nil => intro s pre post r _ _ _ _; simp [dataPuts, fire]
  | cons op ops ih =>
    intro s pre post r hrules hr hothers hadds
    have hadds' : ∀ r', IWOp.add r' ∈ ops → r'.target ≠ .ext k :=
      fun r' h' => hadds r' (List.mem_cons_of_mem _ h')
    rw [IW.run_cons]
    cases op with
    | put t =>
      cases ht : t.term with
      | true =>
        simp only [IW.step, IW.put_term s t ht, dataPuts, ht, if_true]
        exact ih _ pre post r hrules hr hothers hadds'
      | false =>
        obtain ⟨h1, h2, _, _⟩ := IW.put_data s t ht
        have hothers' : ∀ r' ∈ pre.map (·.removeTag t.tag) ++ post.map (·.removeTag t.tag), r'.target ≠ .ext k := by
          rw [← List.map_append]; exact map_removeTag_target _ _ _ hothers
        have := ih (s.put t) (pre.map (·.removeTag t.tag)) (post.map (·.removeTag t.tag)) (r.removeTag t.tag)
          (by rw [h1, hrules]; simp) hr hothers' hadds'
        simp only [IW.step]
        rw [this, h2 k, hrules, List.map_append, List.map_cons, hits_unique (.ext k) _ _ (r.removeTag t.tag) hothers' hr]
        simp only [dataPuts, ht, Bool.false_eq_true, if_false, fire, List.flatMap_append, removeTag_tags,
          act_removeTag_fn, Rule.satisfied]
        by_cases he : (r.tags.erase t.tag).isEmpty = true <;> simp [he]
    | add r2 =>
      obtain ⟨h1, _, h3, _⟩ := IW.addRule_spec s r2
      have hne : r2.target ≠ .ext k := hadds r2 List.mem_cons_self
      have := ih (s.addRule r2) pre (post ++ [{ r2 with tags := remaining r2.tags (s.own.log.filter (fun t => !t.term)) }]) r
        (by rw [h1, hrules]; simp) hr
        (by
          intro r' hr'
          rw [← List.append_assoc, List.mem_append] at hr'
          rcases hr' with hr' | hr'
          · exact hothers r' hr'
          · rw [List.mem_singleton] at hr'; subst hr'; exact hne)
        hadds'
      simp only [IW.step, dataPuts]
      rw [this, h3 k]
      simp [hne]
    | get c => exact ih _ pre post r hrules hr hothers hadds'
    | close c => exact ih _ pre post r hrules hr hothers hadds'

theorem IW.add_run_ext_log (k : Nat) (s : IW) (r : Rule) (ops : List IWOp) (hr : r.target = .ext k)
    (hothers : ∀ r' ∈ s.rules, r'.target ≠ .ext k) (hadds : ∀ r', IWOp.add r' ∈ ops → r'.target ≠ .ext k) :
    ((s.run (.add r :: ops)).ext k).log =
      (s.ext k).log ++ (fire r.tags (s.own.log.filter (fun t => !t.term) ++ dataPuts ops)).flatMap (act r) := by
  obtain ⟨h1, _, h3, _⟩ := IW.addRule_spec s r
  have := IW.run_ext_log k ops (s.addRule r) s.rules []
    { r with tags := remaining r.tags (s.own.log.filter (fun t => !t.term)) } h1 hr
    (by simpa using hothers) hadds
  rw [IW.run_cons]
  simp only [IW.step]
  rw [this, h3 k, fire_append]
  simp only [hr, if_true, List.flatMap_append, List.append_assoc]
  rfl

/-- what the own log receives when `r` (missing tags `T`) is the only rule targeting the port itself -/
def ownSpec (r : Rule) : List Nat → List Tok → List Tok
  | _, [] => []
  | T, t :: ts =>
      if t.term then t :: ownSpec r T ts
      else (if (T.erase t.tag).isEmpty then act r t else [t]) ++ ownSpec r (T.erase t.tag) ts

theorem ownSpec_removeTag (r : Rule) (x : Nat) : ownSpec (r.removeTag x) = ownSpec r := by
  funext T ts
  induction ts generalizing T with
  | nil => rfl
  | cons t ts ih => simp [ownSpec, ih]

theorem IW.run_own_log_self (ops : List IWOp) : ∀ (s : IW) (pre post : List Rule) (r : Rule),
    s.rules = pre ++ r :: post → r.target = .self → (∀ r' ∈ pre ++ post, r'.target ≠ .self) →
    (∀ r', IWOp.add r' ∉ ops) →
    (s.run ops).own.log = s.own.log ++ ownSpec r r.tags (allPuts ops) := by
  induction ops with
  | nil => intro s pre post r _ _ _ _; simp [allPuts, ownSpec]
  | cons op ops ih =>
    intro s pre post r hrules hr hothers hadds
    have hadds' : ∀ r', IWOp.add r' ∉ ops := fun r' h' => hadds r' (List.mem_cons_of_mem _ h')
    rw [IW.run_cons]
    cases op with
    | put t =>
      cases ht : t.term with
      | true =>
        simp only [IW.step, IW.put_term s t ht, allPuts, ownSpec, ht, if_true]
        rw [ih { s with own := s.own.put t } pre post r hrules hr hothers hadds']
        simp
      | false =>
        obtain ⟨h1, _, h3, _⟩ := IW.put_data s t ht
        have hothers' : ∀ r' ∈ pre.map (·.removeTag t.tag) ++ post.map (·.removeTag t.tag), r'.target ≠ .self := by
          rw [← List.map_append]; exact map_removeTag_target _ _ _ hothers
        have := ih (s.put t) (pre.map (·.removeTag t.tag)) (post.map (·.removeTag t.tag)) (r.removeTag t.tag)
          (by rw [h1, hrules]; simp) hr hothers' hadds'
        simp only [IW.step]
        rw [this, h3, selfOut, hrules, List.map_append, List.map_cons,
          hits_unique .self _ _ (r.removeTag t.tag) hothers' hr]
        simp only [allPuts, ownSpec, ht, Bool.false_eq_true, if_false, removeTag_tags, ownSpec_removeTag,
          Rule.satisfied]
        by_cases he : (r.tags.erase t.tag).isEmpty = true <;> simp [he]
    | add r2 => exact (hadds r2 List.mem_cons_self).elim
    | get c =>
      have := ih { s with own := s.own.get c } pre post r hrules hr hothers hadds'
      simpa [IW.step, allPuts] using this
    | close c =>
      have := ih { s with own := s.own.close c } pre post r hrules hr hothers hadds'
      simpa [IW.step, allPuts] using this

theorem ownSpec_data (r : Rule) (hp : r.propagate = true) (T : List Nat) (ts : List Tok) :
    (ownSpec r T ts).filter (fun t => !t.term) = ts.filter (fun t => !t.term) := by
  induction ts generalizing T with
  | nil => rfl
  | cons t ts ih =>
    cases ht : t.term with
    | true => simp [ownSpec, ht, ih]
    | false =>
      by_cases he : (T.erase t.tag).isEmpty = true <;> cases hterm : r.terminate <;>
        simp [ownSpec, ht, ih, he, act, hp, hterm, recoveredTok]

theorem IW.run_own_log_noself (ops : List IWOp) : ∀ (s : IW), (∀ r' ∈ s.rules, r'.target ≠ .self) →
    (∀ r', IWOp.add r' ∈ ops → r'.target ≠ .self) →
    (s.run ops).own.log = s.own.log ++ allPuts ops := by
  induction ops with
  | nil => intro s _ _; simp [allPuts]
  | cons op ops ih =>
    intro s hrules hadds
    have hadds' : ∀ r', IWOp.add r' ∈ ops → r'.target ≠ .self :=
      fun r' h' => hadds r' (List.mem_cons_of_mem _ h')
    rw [IW.run_cons]
    cases op with
    | put t =>
      cases ht : t.term with
      | true =>
        simp only [IW.step, IW.put_term s t ht, allPuts]
        rw [ih { s with own := s.own.put t } hrules hadds']
        simp
      | false =>
        obtain ⟨h1, _, h3, _⟩ := IW.put_data s t ht
        have hr' := map_removeTag_target t.tag .self _ hrules
        simp only [IW.step, allPuts]
        rw [ih (s.put t) (by rw [h1]; exact hr') hadds', h3, selfOut, hits_none _ _ hr']
        simp
    | add r2 =>
      obtain ⟨h1, h2, _, _⟩ := IW.addRule_spec s r2
      have hne : r2.target ≠ .self := hadds r2 List.mem_cons_self
      simp only [IW.step, allPuts]
      rw [ih (s.addRule r2) (by
        rw [h1]; intro r' hr'
        rw [List.mem_append, List.mem_singleton] at hr'
        rcases hr' with hr' | hr'
        · exact hrules r' hr'
        · subst hr'; exact hne) hadds', h2]
      simp [hne]
    | get c =>
      have := ih { s with own := s.own.get c } hrules hadds'
      simpa [IW.step, allPuts] using this
    | close c =>
      have := ih { s with own := s.own.close c } hrules hadds'
      simpa [IW.step, allPuts] using this

end SFV.Port
