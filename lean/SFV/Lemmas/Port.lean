import SFV.Model.Port
/-! Helper definitions and lemmas for ports (C03). -/
namespace SFV.Port

/-! ## Queues -/

@[simp] theorem Q.taskDone_recv (q : Q) : q.taskDone.recv = q.recv := by
  unfold Q.taskDone; split <;> rfl
@[simp] theorem Q.taskDone_items (q : Q) : q.taskDone.items = q.items := by
  unfold Q.taskDone; split <;> rfl
@[simp] theorem Q.taskDone_wait (q : Q) : q.taskDone.wait = q.wait := by
  unfold Q.taskDone; split <;> rfl

/-- what `deliver` does: nothing, or it pops the head of the queue into `recv` -/
theorem Q.deliver_cases (q : Q) :
    ((q.wait = none ∨ q.items = []) ∧ q.deliver = q) ∨
    (∃ f h r, q.wait = some f ∧ q.items = h :: r ∧
      q.deliver = (if f then ({ q with items := r, wait := none, recv := q.recv ++ [h] } : Q)
                   else ({ q with items := r, wait := none, recv := q.recv ++ [h] } : Q).taskDone)) := by
  unfold Q.deliver
  split
  · rename_i f h r hw hi
    exact Or.inr ⟨f, h, r, hw, hi, by cases f <;> rfl⟩
  · rename_i hne
    refine Or.inl ⟨?_, rfl⟩
    cases hw : q.wait with
    | none => exact Or.inl rfl
    | some f =>
      cases hi : q.items with
      | nil => exact Or.inr rfl
      | cons h r => exact (hne f h r hw hi).elim

theorem Q.deliver_recv_items (q : Q) : q.deliver.recv ++ q.deliver.items = q.recv ++ q.items := by
  rcases q.deliver_cases with ⟨_, h⟩ | ⟨f, h, r, hw, hi, hd⟩
  · rw [h]
  · rw [hd, hi]; cases f <;> simp

theorem Q.deliver_wait_items (q : Q) (h : q.deliver.wait.isSome) : q.deliver.items = [] := by
  rcases q.deliver_cases with ⟨h1 | h1, hd⟩ | ⟨f, h', r, hw, hi, hd⟩
  · rw [hd, h1] at h; cases h
  · rw [hd]; exact h1
  · rw [hd] at h; cases f <;> simp at h

/-! ## Plain port -/

@[simp] theorem Port.put_log (p : Port) (t : Tok) : (p.put t).log = p.log ++ [t] := rfl
@[simp] theorem Port.put_qs (p : Port) (t : Tok) (c : Nat) : (p.put t).qs c = (p.qs c).map (·.push t) := rfl
@[simp] theorem Port.setQ_log (p : Port) (c : Nat) (q : Q) : (p.setQ c q).log = p.log := rfl
@[simp] theorem Port.setQ_qs (p : Port) (c : Nat) (q : Q) (k : Nat) :
    (p.setQ c q).qs k = if k = c then some q else p.qs k := rfl
@[simp] theorem Port.get_log (p : Port) (c : Nat) : (p.get c).log = p.log := by
  unfold Port.get; split
  · rfl
  · split <;> rfl
@[simp] theorem Port.close_log (p : Port) (c : Nat) : (p.close c).log = p.log := by
  unfold Port.close; split <;> rfl

theorem Port.get_qs_ne (p : Port) (c k : Nat) (h : k ≠ c) : (p.get c).qs k = p.qs k := by
  unfold Port.get; split
  · simp [h]
  · split <;> simp [h]
theorem Port.close_qs_ne (p : Port) (c k : Nat) (h : k ≠ c) : (p.close c).qs k = p.qs k := by
  unfold Port.close; split <;> simp [h]

@[simp] theorem Port.run_nil (p : Port) : p.run [] = p := rfl
@[simp] theorem Port.run_cons (p : Port) (op : Op) (ops : List Op) :
    p.run (op :: ops) = (p.step op).run ops := rfl
theorem Port.run_append (p : Port) (a b : List Op) : p.run (a ++ b) = (p.run a).run b := by
  simp [Port.run, List.foldl_append]

/-- the payloads of the `put` operations, in order -/
def puts : List Op → List Tok
  | [] => []
  | .put t :: ops => t :: puts ops
  | _ :: ops => puts ops

theorem puts_eq_filterMap (ops : List Op) :
    puts ops = ops.filterMap (fun op => match op with | .put t => some t | _ => none) := by
  induction ops with
  | nil => rfl
  | cons op ops ih => cases op <;> simp [puts, ih]

@[simp] theorem Port.step_log (p : Port) (op : Op) : (p.step op).log = p.log ++ puts [op] := by
  cases op <;> simp [Port.step, puts]

theorem Port.run_log (p : Port) (ops : List Op) : (p.run ops).log = p.log ++ puts ops := by
  induction ops generalizing p with
  | nil => simp [puts]
  | cons op ops ih => cases op <;> simp [ih, Port.step, puts]

/-- every queue holds exactly the not yet received suffix of the log; a blocked consumer has an empty queue -/
def Inv (p : Port) : Prop :=
  ∀ c q, p.qs c = some q → q.recv ++ q.items = p.log ∧ (q.wait.isSome → q.items = [])

theorem inv_empty : Inv Port.empty := by
  intro c q h; cases h

theorem inv_put {p : Port} (hI : Inv p) (t : Tok) : Inv (p.put t) := by
  intro c q h
  simp only [Port.put_qs, Option.map_eq_some_iff] at h
  obtain ⟨q0, h0, rfl⟩ := h
  obtain ⟨h1, _⟩ := hI c q0 h0
  refine ⟨?_, Q.deliver_wait_items _⟩
  unfold Q.push
  rw [Q.deliver_recv_items]; simp [← h1]

theorem inv_get {p : Port} (hI : Inv p) (c : Nat) : Inv (p.get c) := by
  intro k q h
  rw [Port.get_log]
  unfold Port.get at h
  split at h
  · simp only [Port.setQ_qs] at h
    split at h
    · cases h
      exact ⟨by rw [Q.deliver_recv_items]; simp, Q.deliver_wait_items _⟩
    · exact hI k q h
  · rename_i q0 h0
    split at h
    · exact hI k q h
    · simp only [Port.setQ_qs] at h
      split at h
      · cases h
        exact ⟨by rw [Q.deliver_recv_items]; exact (hI c q0 h0).1, Q.deliver_wait_items _⟩
      · exact hI k q h

theorem inv_close {p : Port} (hI : Inv p) (c : Nat) : Inv (p.close c) := by
  intro k q h
  rw [Port.close_log]
  unfold Port.close at h
  split at h
  · exact hI k q h
  · rename_i q0 h0
    simp only [Port.setQ_qs] at h
    split at h
    · cases h
      simpa using hI c q0 h0
    · exact hI k q h

theorem inv_step {p : Port} (hI : Inv p) (op : Op) : Inv (p.step op) := by
  cases op with
  | put t => exact inv_put hI t
  | get c => exact inv_get hI c
  | close c => exact inv_close hI c

theorem inv_run {p : Port} (hI : Inv p) (ops : List Op) : Inv (p.run ops) := by
  induction ops generalizing p with
  | nil => exact hI
  | cons op ops ih => exact ih (inv_step hI op)

/-- consequences of the invariant for one consumer -/
theorem inv_fifo {p : Port} (hI : Inv p) (c : Nat) :
    p.recv c <+: p.log ∧ ((p.recv c).length = p.log.length → p.recv c = p.log) ∧
    ∀ q, p.qs c = some q → q.recv ++ q.items = p.log := by
  refine ⟨?_, ?_, fun q h => (hI c q h).1⟩
  · unfold Port.recv; split
    · exact List.nil_prefix
    · rename_i q h; exact ⟨q.items, (hI c q h).1⟩
  · unfold Port.recv; split
    · intro h; exact (List.eq_nil_of_length_eq_zero h.symm).symm
    · rename_i q h
      intro hl
      have := (hI c q h).1
      have h2 : q.items = [] := by
        have := congrArg List.length this
        simp only [List.length_append] at this
        exact List.eq_nil_of_length_eq_zero (by omega)
      rw [h2, List.append_nil] at this; exact this

theorem Q.deliver_cons (q : Q) {f : Bool} {h : Tok} {r : List Tok} (hw : q.wait = some f) (hi : q.items = h :: r) :
    q.deliver.recv = q.recv ++ [h] ∧ q.deliver.items = r ∧ q.deliver.wait = none := by
  rcases q.deliver_cases with ⟨h1 | h1, _⟩ | ⟨f', h', r', hw', hi', hd⟩
  · rw [h1] at hw; cases hw
  · rw [h1] at hi; cases hi
  · rw [hi] at hi'; cases hi'
    rw [hd]; cases f' <;> simp

theorem Q.deliver_nil (q : Q) (hi : q.items = []) : q.deliver = q := by
  rcases q.deliver_cases with ⟨_, hd⟩ | ⟨f', h', r', hw', hi', hd⟩
  · exact hd
  · rw [hi] at hi'; cases hi'

@[simp] theorem Q.deliver_mk_cons_recv (a : Tok) (r : List Tok) (u : Nat) (f : Bool) (rc : List Tok) (e : Bool) :
    ({ items := a :: r, unf := u, wait := some f, recv := rc, err := e } : Q).deliver.recv = rc ++ [a] := by
  cases f <;> simp [Q.deliver]
@[simp] theorem Q.deliver_mk_cons_items (a : Tok) (r : List Tok) (u : Nat) (f : Bool) (rc : List Tok) (e : Bool) :
    ({ items := a :: r, unf := u, wait := some f, recv := rc, err := e } : Q).deliver.items = r := by
  cases f <;> simp [Q.deliver]
@[simp] theorem Q.deliver_mk_cons_wait (a : Tok) (r : List Tok) (u : Nat) (f : Bool) (rc : List Tok) (e : Bool) :
    ({ items := a :: r, unf := u, wait := some f, recv := rc, err := e } : Q).deliver.wait = none := by
  cases f <;> simp [Q.deliver]
@[simp] theorem Q.deliver_mk_nil (u : Nat) (w : Option Bool) (rc : List Tok) (e : Bool) :
    ({ items := [], unf := u, wait := w, recv := rc, err := e } : Q).deliver =
      { items := [], unf := u, wait := w, recv := rc, err := e } := Q.deliver_nil _ rfl

@[simp] theorem Port.recv_setQ (p : Port) (c : Nat) (q : Q) : (p.setQ c q).recv c = q.recv := by
  simp [Port.recv]

/-- a non-blocked consumer with a token available receives the next token of the log -/
theorem get_recv_avail {p : Port} (hI : Inv p) (c : Nat) (hw : ∀ q, p.qs c = some q → q.wait = none)
    (hl : (p.recv c).length < p.log.length) :
    (p.get c).recv c = p.log.take ((p.recv c).length + 1) := by
  unfold Port.get
  cases h : p.qs c with
  | none =>
    simp only [Port.recv, h, List.length_nil] at hl ⊢
    cases hlog : p.log with
    | nil => rw [hlog] at hl; cases hl
    | cons a r => simp
  | some q =>
    have hq := (hI c q h).1
    have hwq := hw q h
    simp only [Port.recv, h] at hl ⊢
    simp only [hwq, Option.isSome_none, Bool.false_eq_true, if_false, Port.setQ_qs, if_true]
    cases hit : q.items with
    | nil => rw [hit, List.append_nil] at hq; rw [hq] at hl; omega
    | cons a r =>
      rw [← hq, hit, List.take_length_add_append]
      simp

/-- a non-blocked consumer that has received everything blocks: `get` returns nothing now -/
theorem get_recv_blocked {p : Port} (hI : Inv p) (c : Nat) (hw : ∀ q, p.qs c = some q → q.wait = none)
    (hl : (p.recv c).length = p.log.length) :
    (p.get c).recv c = p.recv c ∧ ∃ q, (p.get c).qs c = some q ∧ q.wait.isSome ∧ q.items = [] ∧ q.recv = p.log := by
  have hrl := (inv_fifo hI c).2.1 hl
  unfold Port.get
  cases h : p.qs c with
  | none =>
    simp only [Port.recv, h] at hrl
    simp [Port.recv, ← hrl, h]
  | some q =>
    have hq := (hI c q h).1
    have hwq := hw q h
    simp only [Port.recv, h] at hrl
    have hit : q.items = [] := by
      rw [hrl] at hq; exact List.append_right_eq_self.mp hq
    simp only [hwq, Option.isSome_none, Bool.false_eq_true, if_false, Port.setQ_qs, if_true, Port.recv, h]
    simp [hit, hrl]

/-- a `put` completes the blocked `get` of a consumer with an empty queue -/
theorem put_recv_waiting {p : Port} (c : Nat) (q : Q) (t : Tok) (hq : p.qs c = some q) (hw : q.wait.isSome)
    (hi : q.items = []) : (p.put t).recv c = q.recv ++ [t] := by
  simp only [Port.recv, Port.put_qs, hq, Option.map_some, Q.push]
  cases hwq : q.wait with
  | none => rw [hwq] at hw; cases hw
  | some f => simp [hi]

/-! ### Consumers stop reading at the termination token -/

/-- the history respects the consumer protocol: no `get` after a termination token was received -/
def Disciplined : Port → List Op → Prop
  | _, [] => True
  | p, op :: rest =>
      (match op with
        | .get c => (p.recv c).all (fun t => !t.term) = true
        | _ => True) ∧ Disciplined (p.step op) rest

/-- queue-local invariant: only the last received token may be a termination token, and not even that one
    while a `get` is pending -/
def Q.TermOk (q : Q) : Prop :=
  (∀ t ∈ q.recv.dropLast, t.term = false) ∧ (q.wait.isSome → ∀ t ∈ q.recv, t.term = false)

theorem Q.TermOk.taskDone {q : Q} (h : q.TermOk) : q.taskDone.TermOk := by
  simpa [Q.TermOk] using h

theorem Q.TermOk.deliver {q : Q} (h : q.TermOk) : q.deliver.TermOk := by
  rcases q.deliver_cases with ⟨_, hd⟩ | ⟨f, a, r, hw, hi, hd⟩
  · rw [hd]; exact h
  · have h2 := h.2 (by rw [hw]; rfl)
    rw [hd]
    cases f <;> simpa [Q.TermOk] using h2

def TermInv (p : Port) : Prop := ∀ c q, p.qs c = some q → q.TermOk

theorem termInv_empty : TermInv Port.empty := by
  intro c q h; cases h

theorem termInv_step {p : Port} (hI : TermInv p) (op : Op)
    (hd : match op with
        | .get c => (p.recv c).all (fun t => !t.term) = true
        | _ => True) : TermInv (p.step op) := by
  intro k q h
  cases op with
  | put t =>
    simp only [Port.step, Port.put_qs, Option.map_eq_some_iff] at h
    obtain ⟨q0, h0, rfl⟩ := h
    have h1 := hI k q0 h0
    unfold Q.push
    exact Q.TermOk.deliver (by simpa [Q.TermOk] using h1)
  | get c =>
    simp only [Port.step] at h
    unfold Port.get at h
    split at h
    · simp only [Port.setQ_qs] at h
      split at h
      · cases h
        exact Q.TermOk.deliver (by simp [Q.TermOk])
      · exact hI k q h
    · rename_i q0 h0
      split at h
      · exact hI k q h
      · simp only [Port.setQ_qs] at h
        split at h
        · cases h
          have h1 := hI c q0 h0
          simp only [Port.recv, h0, List.all_eq_true, Bool.not_eq_true'] at hd
          exact Q.TermOk.deliver ⟨h1.1, fun _ => hd⟩
        · exact hI k q h
  | close c =>
    simp only [Port.step] at h
    unfold Port.close at h
    split at h
    · exact hI k q h
    · rename_i q0 h0
      simp only [Port.setQ_qs] at h
      split at h
      · cases h
        exact (hI c q0 h0).taskDone
      · exact hI k q h

theorem termInv_run {p : Port} (hI : TermInv p) (ops : List Op) (hd : Disciplined p ops) :
    TermInv (p.run ops) := by
  induction ops generalizing p with
  | nil => exact hI
  | cons op ops ih => exact ih (termInv_step hI op hd.1) hd.2

/-! ### `task_done` bookkeeping -/

deriving instance DecidableEq for Op

/-- the history respects the `close` protocol: a consumer calls `close` at most once, and only if it never
    subscribed or after it received at least one token -/
def CloseDisc : Port → List Op → Prop
  | _, [] => True
  | p, op :: rest =>
      (match op with
        | .close c => (p.qs c = none ∨ p.recv c ≠ []) ∧ Op.close c ∉ rest
        | _ => True) ∧ CloseDisc (p.step op) rest

/-- queue-local counting invariant; `L` = length of the log, `n` = number of `close` calls so far -/
def Q.CountOk (L n : Nat) (q : Q) : Prop :=
  q.err = false ∧ q.recv.length + q.items.length = L ∧ (q.wait = some true → q.recv = []) ∧
  (q.wait ≠ some true → q.recv ≠ []) ∧ q.unf + (q.recv.length - 1) + n = L ∧ n ≤ 1

theorem Q.CountOk.deliver {L n : Nat} {q : Q} (h : q.CountOk L n) : q.deliver.CountOk L n := by
  rcases q.deliver_cases with ⟨_, hd⟩ | ⟨f, a, r, hw, hi, hd⟩
  · rw [hd]; exact h
  · obtain ⟨h1, h2, h3, h4, h5, h6⟩ := h
    rw [hd]
    cases f with
    | true =>
      have := h3 hw
      simp only [if_true]
      refine ⟨h1, ?_, ?_, ?_, ?_, h6⟩ <;> simp_all <;> omega
    | false =>
      have hne := h4 (by rw [hw]; simp)
      have hl : 0 < q.recv.length := List.length_pos_iff.mpr hne
      rw [hi] at h2
      simp only [List.length_cons] at h2
      simp only [Bool.false_eq_true, if_false, Q.taskDone]
      rw [if_neg (by omega)]
      refine ⟨h1, ?_, ?_, ?_, ?_, h6⟩ <;> simp <;> omega

def CountInv (p : Port) (ncl : Nat → Nat) : Prop :=
  ∀ c, match p.qs c with
    | none => ncl c = 0
    | some q => q.CountOk p.log.length (ncl c)

theorem countInv_empty : CountInv Port.empty (fun _ => 0) := by
  intro c; rfl

theorem countInv_put {p : Port} {ncl : Nat → Nat} (hI : CountInv p ncl) (t : Tok) : CountInv (p.put t) ncl := by
  intro c
  have := hI c
  simp only [Port.put_qs, Port.put_log]
  cases h : p.qs c with
  | none => simpa [h] using this
  | some q =>
    simp only [h] at this
    obtain ⟨h1, h2, h3, h4, h5, h6⟩ := this
    simp only [Option.map_some, Q.push]
    apply Q.CountOk.deliver
    refine ⟨h1, ?_, h3, h4, ?_, h6⟩ <;> simp <;> omega

theorem countInv_get {p : Port} {ncl : Nat → Nat} (hI : CountInv p ncl) (c : Nat) : CountInv (p.get c) ncl := by
  intro k
  rw [Port.get_log]
  by_cases hk : k = c
  · subst hk
    have := hI k
    unfold Port.get
    cases h : p.qs k with
    | none =>
      simp only [h] at this
      simp only [Port.setQ_qs, if_true]
      apply Q.CountOk.deliver
      refine ⟨rfl, ?_, ?_, ?_, ?_, ?_⟩ <;> simp [this]
    | some q =>
      simp only [h] at this
      by_cases hw : q.wait.isSome = true
      · simpa [h, hw] using this
      · simp only [hw, Bool.false_eq_true, if_false, Port.setQ_qs, if_true]
        apply Q.CountOk.deliver
        obtain ⟨h1, h2, h3, h4, h5, h6⟩ := this
        refine ⟨h1, h2, ?_, ?_, h5, h6⟩
        · intro hh; cases hh
        · intro _; apply h4; intro hh; rw [hh] at hw; exact hw rfl
  · rw [Port.get_qs_ne p c k hk]; exact hI k

theorem close_none {p : Port} (c : Nat) (h : p.qs c = none) :
    p.close c = p := by
  unfold Port.close; rw [h]

theorem countInv_close_some {p : Port} {ncl : Nat → Nat} (hI : CountInv p ncl) (c : Nat) (q : Q)
    (h : p.qs c = some q) (hr : p.recv c ≠ []) (hn : ncl c = 0) :
    CountInv (p.close c) (fun k => if k = c then 1 else ncl k) := by
  intro k
  rw [Port.close_log]
  by_cases hk : k = c
  · subst hk
    have := hI k
    simp only [Port.recv, h] at hr
    simp only [h, hn] at this
    obtain ⟨h1, h2, h3, h4, h5, h6⟩ := this
    have hl : 0 < q.recv.length := List.length_pos_iff.mpr hr
    unfold Port.close
    simp only [h, Port.setQ_qs, if_true, Q.taskDone]
    rw [if_neg (by omega)]
    refine ⟨h1, h2, h3, h4, ?_, Nat.le_refl 1⟩
    simp; omega
  · rw [Port.close_qs_ne p c k hk]; simpa [hk] using hI k

theorem countInv_run (ops : List Op) : ∀ (p : Port) (ncl : Nat → Nat), CountInv p ncl → CloseDisc p ops →
    (∀ c, ncl c ≠ 0 → Op.close c ∉ ops) → ∃ ncl', CountInv (p.run ops) ncl' := by
  induction ops with
  | nil => intro p ncl hI _ _; exact ⟨ncl, hI⟩
  | cons op ops ih =>
    intro p ncl hI hd hc
    have hc' : ∀ c, ncl c ≠ 0 → Op.close c ∉ ops := fun c h hm => hc c h (List.mem_cons_of_mem _ hm)
    cases op with
    | put t => exact ih _ ncl (countInv_put hI t) hd.2 hc'
    | get c => exact ih _ ncl (countInv_get hI c) hd.2 hc'
    | close c =>
      obtain ⟨⟨hd1, hd2⟩, hd3⟩ := hd
      cases h : p.qs c with
      | none =>
        simp only [Port.run_cons, Port.step, close_none c h] at hd3 ⊢
        exact ih _ ncl hI hd3 hc'
      | some q =>
        have hn : ncl c = 0 := by
          apply Classical.byContradiction
          intro hne; exact hc c hne (List.mem_cons_self)
        have hr : p.recv c ≠ [] := by
          rcases hd1 with h' | h'
          · rw [h] at h'; cases h'
          · exact h'
        refine ih _ _ (countInv_close_some hI c q h hr hn) hd3 ?_
        intro k hk
        by_cases hkc : k = c
        · subst hkc; exact hd2
        · simp only [hkc, if_false] at hk; exact hc' k hk

theorem no_err_of_countInv {p : Port} {ncl : Nat → Nat} (hI : CountInv p ncl) (c : Nat) (q : Q)
    (h : p.qs c = some q) : q.err = false := by
  have := hI c
  simp only [h] at this
  exact this.1

/-! ## Filter port -/

theorem filterRun_log (admits : Tok → Bool) (p : Port) (ops : List Op) :
    (filterRun admits p ops).log = p.log ++ (puts ops).filter (fun t => t.term || admits t) := by
  induction ops generalizing p with
  | nil => simp [filterRun, puts]
  | cons op ops ih =>
    have ih' := fun p => ih p
    simp only [filterRun] at ih' ⊢
    rw [List.foldl_cons, ih']
    cases op with
    | put t =>
      simp only [filterStep, filterPut, puts]
      by_cases h : (t.term || admits t) = true
      · simp [h]
      · simp [h]
    | get c => simp [filterStep, puts]
    | close c => simp [filterStep, puts]

theorem inv_filterStep {admits : Tok → Bool} {p : Port} (hI : Inv p) (op : Op) : Inv (filterStep admits p op) := by
  cases op with
  | put t =>
    simp only [filterStep, filterPut]
    split
    · exact inv_put hI t
    · exact hI
  | get c => exact inv_get hI c
  | close c => exact inv_close hI c

theorem inv_filterRun {admits : Tok → Bool} {p : Port} (hI : Inv p) (ops : List Op) :
    Inv (filterRun admits p ops) := by
  induction ops generalizing p with
  | nil => exact hI
  | cons op ops ih => exact ih (inv_filterStep hI op)

end SFV.Port
