import SFV.Model.Match
import SFV.Model.Proto
open SFV SFV.Match SFV.Proto

def parseOptNat (s : String) : Option (Option Nat) := if s = "-" then some none else s.toNat?.map some

def parseTarget (s : String) : Option Target :=
  match s.splitOn ":" with
  | [i, d, v] => do
      let i ← i.toNat?
      let d ← d.toNat?
      let v ← parseOptNat v
      pure { id := i, deployment := d, service := v }
  | _ => none

def parsePred (s : String) : Option (Nat × Nat) :=
  match s.splitOn "=" with
  | [p, m] => do pure ((← p.toNat?), (← m.toNat?))
  | _ => none

def parseRule (s : String) : Option Rule :=
  match s.splitOn ":" with
  | [d, v, ps] => do
      let d ← d.toNat?
      let v ← parseOptNat v
      let ps ← if ps = "-" then some [] else (ps.splitOn "+").mapM parsePred
      pure { deployment := d, service := v, predicates := ps }
  | _ => none

def parseList {α} (f : String → Option α) (sep : String) (s : String) : Option (List α) :=
  if s = "-" then some [] else (s.splitOn sep).mapM f

def parseInput (s : String) : Option (Nat × Input) :=
  match s.splitOn "=" with
  | [p, "U"] => do pure ((← p.toNat?), .unsupported)
  | [p, v] => do pure ((← p.toNat?), .scalar (← v.toNat?))
  | _ => none

def errStr : MErr → String
  | .missingInput => "missingInput"
  | .unsupportedType => "unsupportedType"
  | .noMatch => "noMatch"

def parseCfg (s : String) : Option FilterCfg :=
  match s.splitOn "@" with
  | [n, t, rs] => do
      let n ← n.toNat?
      let t ← t.toNat?
      let rs ← parseList parseRule "," rs
      pure { name := n, type := t, rules := rs }
  | _ => none

def resStr : Except MErr (List Target) → String
  | .ok r => "ok " ++ (if r.isEmpty then "-" else "+".intercalate (r.map (fun t => toString t.id)))
  | .error e => "err " ++ errStr e

/-- stateful part: the `binding_filter_map` of ONE scheduler; `sf` = the filter loop of one `schedule()` call -/
def step (env : FilterEnv) : List String → FilterEnv × String
  | ["sreset"] => ([], "ok")
  | ["sf", ts, cs, ins] =>
      match parseList parseTarget "," ts, parseList parseCfg ";" cs, parseList parseInput "," ins with
      | some ts, some cs, some ins =>
          let (env', r) := scheduleFilters ins env cs ts
          (env', resStr r)
      | _, _, _ => (env, "bad-op")
  | ws => (env, handle ws)
where handle : List String → String
  | ["gt", ts, fs, ins] =>
      match parseList parseTarget "," ts, parseList (parseList parseRule ",") ";" fs, parseList parseInput "," ins with
      | some ts, some fs, some ins =>
          match foldFilters ins fs ts with
          | .ok r => "ok " ++ (if r.isEmpty then "-" else "+".intercalate (r.map (fun t => toString t.id)))
          | .error e => "err " ++ errStr e
      | _, _, _ => "bad-op"
  | _ => "bad-op"

def main : IO Unit := runStateful ([] : FilterEnv) step
