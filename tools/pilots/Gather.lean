-- PILOT (round 0): Gather.lean (single key, any arrival order; 0.7 s)
namespace PilotG

inductive Ev (V : Type) where
  | elem (i : Nat) (v : V)
  | size (n : Nat)

structure St (V : Type) where
  size : Option Nat := none
  toks : List (Nat × V) := []
  out  : List (List (Nat × V)) := []

def sortToks {V} (l : List (Nat × V)) : List (Nat × V) :=
  l.mergeSort (fun a b => a.1 ≤ b.1)

def step {V} (s : St V) : Ev V → St V
  | .elem i v =>
      let toks := s.toks ++ [(i, v)]
      if s.size = some toks.length then { s with toks := toks, out := s.out ++ [sortToks toks] }
      else { s with toks := toks }
  | .size n =>
      if s.toks.length = n then { s with size := some n, out := s.out ++ [sortToks s.toks] }
      else { s with size := some n }

def run {V} (es : List (Ev V)) : St V := es.foldl step {}

def nS {V} : List (Ev V) → Nat
  | [] => 0
  | .elem _ _ :: r => nS r
  | .size _ :: r => nS r + 1
def elemsOf {V} : List (Ev V) → List (Nat × V)
  | [] => []
  | .elem i v :: r => (i, v) :: elemsOf r
  | .size _ :: r => elemsOf r

theorem nil_of_counts {V} (r : List (Ev V)) (h1 : nS r = 0) (h2 : (elemsOf r).length = 0) : r = [] := by
  cases r with
  | nil => rfl
  | cons e r' => cases e <;> simp [nS, elemsOf] at h1 h2

/-- The invariant: `A` = size not yet seen, exactly one size event pending;
    `B` = size seen, some element still pending. -/
def Pending {V} (n : Nat) (s : St V) (r : List (Ev V)) : Prop :=
  s.out = [] ∧ (∀ m, Ev.size m ∈ r → m = n) ∧ s.toks.length + (elemsOf r).length = n ∧
  ((s.size = none ∧ nS r = 1) ∨ (s.size = some n ∧ nS r = 0 ∧ 0 < (elemsOf r).length))

theorem run_aux {V} (n : Nat) (r : List (Ev V)) : ∀ (s : St V), Pending n s r →
    (r.foldl step s).out = [sortToks (s.toks ++ elemsOf r)] := by
  induction r with
  | nil =>
    intro s ⟨_, _, _, h⟩
    rcases h with ⟨_, h⟩ | ⟨_, _, h⟩ <;> simp [nS, elemsOf] at h
  | cons e r' ih =>
    intro s ⟨hout, hsz, hlen, hcase⟩
    have hsz' : ∀ m, Ev.size m ∈ r' → m = n := fun m hm => hsz m (List.mem_cons_of_mem _ hm)
    cases e with
    | elem i v =>
      simp only [elemsOf, List.length_cons] at hlen
      rcases hcase with ⟨hnone, hS⟩ | ⟨hsome, hS, _⟩
      · -- size not seen: no emission
        have : step s (.elem i v) = { s with toks := s.toks ++ [(i, v)] } := by
          simp [step, hnone]
        simp only [List.foldl_cons, this]
        rw [ih]
        · simp [elemsOf]
        · refine ⟨hout, hsz', ?_, Or.inl ⟨hnone, by simpa [nS] using hS⟩⟩
          simp; omega
      · by_cases hfull : s.toks.length + 1 = n
        · -- last element: emit, nothing remains
          have hE : (elemsOf r').length = 0 := by omega
          have hr' : r' = [] := nil_of_counts r' (by simpa [nS] using hS) hE
          subst hr'
          simp [step, hsome, hfull, hout, elemsOf]
        · have : step s (.elem i v) = { s with toks := s.toks ++ [(i, v)] } := by
            simp [step, hsome]; omega
          simp only [List.foldl_cons, this]
          rw [ih]
          · simp [elemsOf]
          · refine ⟨hout, hsz', ?_, Or.inr ⟨hsome, by simpa [nS] using hS, ?_⟩⟩
            · simp; omega
            · omega
    | size m =>
      have hm : m = n := hsz m (List.mem_cons_self ..)
      subst hm
      simp only [elemsOf] at hlen
      rcases hcase with ⟨hnone, hS⟩ | ⟨_, hS, _⟩
      · simp only [nS] at hS
        by_cases hfull : s.toks.length = m
        · have hE : (elemsOf r').length = 0 := by omega
          have hr' : r' = [] := nil_of_counts r' (by omega) hE
          subst hr'
          simp [step, hfull, hout, elemsOf]
        · have : step s (.size m) = { s with size := some m } := by simp [step, hfull]
          simp only [List.foldl_cons, this]
          rw [ih]
          · simp [elemsOf]
          · refine ⟨hout, hsz', by simpa using hlen, Or.inr ⟨rfl, by omega, by omega⟩⟩
      · simp [nS] at hS

/-- Any event list with exactly one size event carrying the number of element events
    produces exactly one output: the sorted collected elements. -/
theorem gather_once {V} (es : List (Ev V)) (n : Nat)
    (h1 : nS es = 1) (h2 : (elemsOf es).length = n) (h3 : ∀ m, Ev.size m ∈ es → m = n) :
    (run es).out = [sortToks (elemsOf es)] := by
  have := run_aux n es {} ⟨rfl, h3, by simpa using h2, Or.inl ⟨rfl, h1⟩⟩
  simpa [run] using this

end PilotG
#print axioms PilotG.gather_once
