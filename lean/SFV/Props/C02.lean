import SFV.Lemmas.CombDotSpec
import SFV.Lemmas.CombCartMain
import SFV.Lemmas.CombNested
import SFV.Lemmas.CombNestedCart
import SFV.Lemmas.CombNestedDot
import SFV.Lemmas.CombNoRaise
import SFV.Lemmas.CombStep
/-! # C02 — combinators emit exactly the right combinations, whatever the arrival order

Property theorems only. The statements are about the LOOP-FAITHFUL executable model of
`DotProductCombinator` / `CartesianProductCombinator` in `SFV/Model/Comb.lean` (the model the driver runs and
the correspondence check compares with the Python classes); guards, the side of `pop()`, `_is_parent_tag` and
the tag slices come from `SFV/Gen/CombGuards.lean`, `get_tag` from `SFV/Gen/TagGuards.lean`, both regenerated
from `/repo` on every run. Helper lemmas: `SFV/Lemmas/Comb*.lean`.

* `runDot P es` feeds the arrival sequence `es : List (port × token)` to a flat dot product over ports
  `0 … P-1`; `.out` is the list of emitted schemas (port ↦ retagged token, dict order), `.err` a Python exception.
* `normEmit P` sorts a schema by port; `specDot P S` is the specification (one combination for every received
  tag `κ` such that every port has a received token whose tag is a prefix of `κ`: those tokens, retagged `κ`).
* `WFDot P S`: no repeated event, ports below `P`, tags rooted at `0`, and on every port no tag is a prefix of
  another one (in particular the tags of a port are distinct).
* `runCart depth P es` is the flat cartesian product (`depth` = its `depth` attribute); its schemas are already in
  port order. `specCart depth P S`: for every key (tag minus its last `depth` components) the cross product, over
  ports `0 … P-1`, of the received tokens with that key (`cartConfigs` = `itertools.product`), every member retagged
  `own tag[:-1] ++ [last component of every member]`. `WFCart depth P L S`: `depth ≥ 1`, `P ≥ 1`, no repeated
  event, ports below `P`, all tags of the same length `L`, per port distinct tags.
* Nested combinators (`runNested`: outer dot product over ports and flat inner dot/cartesian products): the two
  trees the CWL translator builds are proved by composition (`nested_cart_any_order`, `nested_dot_any_order`,
  emitted schemas related to the specification up to the order of their entries, `EmRel`); for arbitrary items
  only the OUTER level is proved (`nested_any_order_partial`) — the rest of DESIGN §4's `nested_any_order`
  (inner cartesian depth ≥ 2, several inner combinators) is checked by correspondence and monitor only. -/
namespace SFV.C02
open SFV SFV.Comb

/-- **Dot product, any arrival order.** For every number of ports, every well-formed stream `S` and every
    arrival order `es` of it, `DotProductCombinator` raises nothing and the multiset of emitted
    (tag, per-port value) combinations is exactly the specification — hence the same for all orders. -/
theorem dot_any_order (P : Nat) (S es : List Ev) (hwf : WFDot P S) (hperm : es.Perm S) :
    (runDot P es).err = none ∧ ((runDot P es).out.map (normEmit P)).Perm (specDot P S) :=
  runDot_any_order S es hwf hperm

/-- two arrival orders of a well-formed stream emit the same multiset -/
theorem dot_order_independent (P : Nat) (S es es' : List Ev) (hwf : WFDot P S) (h : es.Perm S) (h' : es'.Perm S) :
    ((runDot P es).out.map (normEmit P)).Perm ((runDot P es').out.map (normEmit P)) :=
  (runDot_any_order S es hwf h).2.trans (runDot_any_order S es' hwf h').2.symm

/-- under well-formedness "some received token of the port has a prefix tag" is "exactly one has" -/
theorem dot_spec_member_unique (P : Nat) (S : List Ev) (hwf : WFDot P S) (κ : Tag) (e e' : Ev)
    (he : e ∈ S) (he' : e' ∈ S) (hq : e.1 = e'.1) (h : e.2.tag <+: κ) (h' : e'.2.tag <+: κ) : e = e' := by
  rcases List.prefix_or_prefix_of_prefix h h' with hp | hp
  · exact hwf.2.2.2 e he e' he' hq hp
  · exact (hwf.2.2.2 e' he' e he hq.symm hp).symm

/-- the specification's "every port has a received token with a prefix tag" is, on well-formed streams, the
    property's "every port has exactly one such token" -/
theorem dot_spec_exactly_one (P : Nat) (S : List Ev) (hwf : WFDot P S) (κ : Tag) :
    specComplete P S κ = specCompleteOne P S κ :=
  specComplete_eq_one hwf κ

/-- non-vacuity: the 3-port broadcast example (tags `0`, `0.1`, `0.1.0`) is well formed, its specification is
    the single combination tagged `0.1.0`, and the model emits it -/
example : WFDot 3 [(0, ⟨[0], 100⟩), (1, ⟨[0, 1], 200⟩), (2, ⟨[0, 1, 0], 300⟩)] := by
  unfold WFDot Rooted; decide
example : specDot 3 [(0, ⟨[0], 100⟩), (1, ⟨[0, 1], 200⟩), (2, ⟨[0, 1, 0], 300⟩)] =
    [[(0, ⟨[0, 1, 0], 100⟩), (1, ⟨[0, 1, 0], 200⟩), (2, ⟨[0, 1, 0], 300⟩)]] := by decide
example : (runDot 3 [(2, ⟨[0, 1, 0], 300⟩), (0, ⟨[0], 100⟩), (1, ⟨[0, 1], 200⟩)]).out =
    [[(2, ⟨[0, 1, 0], 300⟩), (0, ⟨[0, 1, 0], 100⟩), (1, ⟨[0, 1, 0], 200⟩)]] := by decide +kernel
/-- a stream with a two-digit component and two complete tags -/
example : WFDot 2 [(0, ⟨[0], 1⟩), (1, ⟨[0, 10], 2⟩), (1, ⟨[0, 9], 3⟩)] ∧
    (specDot 2 [(0, ⟨[0], 1⟩), (1, ⟨[0, 10], 2⟩), (1, ⟨[0, 9], 3⟩)]).length = 2 := by
  refine ⟨by unfold WFDot Rooted; decide, by decide⟩

/-- **Negative witness.** Port 0 carries `0` and its own descendant `0.0`: two arrival orders of the same
    stream emit a different number of combinations (1 and 2). Evaluated on the loop-faithful model by the kernel;
    reproduces on the real class (known finding). -/
theorem dot_counterexample :
    (runDot 2 [(0, ⟨[0], 100⟩), (1, ⟨[0], 7⟩), (0, ⟨[0, 0], 5⟩)]).out.length = 1 ∧
    (runDot 2 [(0, ⟨[0], 100⟩), (0, ⟨[0, 0], 5⟩), (1, ⟨[0], 7⟩)]).out.length = 2 := by
  decide +kernel

/-- **The dot product never raises** — for EVERY stream, well formed or not (true since fix 0672c9b: `_product` pops
    `num_items = min(len …)` elements from the deques of ONE cell; the loop variable `tag` is no longer overwritten). -/
theorem dot_never_raises (P : Nat) (es : List Ev) : (runDot P es).err = none :=
  runWith_dot_ok P es [] []

/-- Regression guard, FALSE BEFORE FIX 0672c9b: with the OLD definition (`prodIterOld`: the loop variable `tag`
    re-assigned by `tag = utils.get_tag(…)` inside `for _ in range(num_items)`) this 3-port stream without duplicate
    tags raised `IndexError` after five emissions; the repaired model (and class) emits six combinations. -/
theorem dot_index_error_before_fix_0672c9b :
    (runDotOld 3 [(0, ⟨[0, 0, 0, 0], 0⟩), (2, ⟨[0], 1⟩), (0, ⟨[0, 0, 0], 2⟩), (1, ⟨[0], 3⟩), (0, ⟨[0, 0], 4⟩),
      (1, ⟨[0, 0], 5⟩), (2, ⟨[0, 0, 0, 0], 6⟩)]).err = some Err.indexError ∧
    (runDot 3 [(0, ⟨[0, 0, 0, 0], 0⟩), (2, ⟨[0], 1⟩), (0, ⟨[0, 0, 0], 2⟩), (1, ⟨[0], 3⟩), (0, ⟨[0, 0], 4⟩),
      (1, ⟨[0, 0], 5⟩), (2, ⟨[0, 0, 0, 0], 6⟩)]).out.length = 6 := by
  decide +kernel

/-- the full-strength statement (every stream with distinct events, without the prefix-antichain condition) is
    FALSE of the code -/
theorem dot_any_order_full_false :
    ¬ (∀ (P : Nat) (S es es' : List Ev), S.Nodup → (∀ e ∈ S, e.1 < P) → Rooted S → es.Perm S → es'.Perm S →
        ((runDot P es).out.map (normEmit P)).Perm ((runDot P es').out.map (normEmit P))) := by
  intro h
  have := h 2 [(0, ⟨[0], 100⟩), (1, ⟨[0], 7⟩), (0, ⟨[0, 0], 5⟩)]
    [(0, ⟨[0], 100⟩), (1, ⟨[0], 7⟩), (0, ⟨[0, 0], 5⟩)] [(0, ⟨[0], 100⟩), (0, ⟨[0, 0], 5⟩), (1, ⟨[0], 7⟩)]
    (by decide) (by decide) (by unfold Rooted; decide) (List.Perm.refl _)
    (by decide)
  have hl := this.length_eq
  simp only [List.length_map] at hl
  rw [dot_counterexample.1, dot_counterexample.2] at hl
  exact absurd hl (by decide)

/-- **Cartesian product, any arrival order.** For every depth ≥ 1, every number of ports ≥ 1, every stream
    `S` whose tags all have the same length (per port distinct) and every arrival order `es` of it,
    `CartesianProductCombinator` raises nothing and the multiset of emitted schemas is exactly the full cross
    product per key with the composite tags — hence the same for all orders. -/
theorem cart_any_order (depth P L : Nat) (S es : List Ev) (hwf : WFCart depth P L S) (hperm : es.Perm S) :
    (runCart depth P es).err = none ∧ (runCart depth P es).out.Perm (specCart depth P S) :=
  runCart_any_order S es hwf hperm

/-- non-vacuity: two ports, two tokens each, one key: four combinations with composite tags; a two-digit
    component; depth 2 keeps the members' own middle component -/
example : WFCart 1 2 2 [(0, ⟨[0, 0], 1⟩), (0, ⟨[0, 10], 2⟩), (1, ⟨[0, 0], 3⟩), (1, ⟨[0, 1], 4⟩)] := by
  unfold WFCart; decide
example : specCart 1 2 [(0, ⟨[0, 0], 1⟩), (0, ⟨[0, 10], 2⟩), (1, ⟨[0, 0], 3⟩), (1, ⟨[0, 1], 4⟩)] =
    [[(0, ⟨[0, 0, 0], 1⟩), (1, ⟨[0, 0, 0], 3⟩)], [(0, ⟨[0, 0, 1], 1⟩), (1, ⟨[0, 0, 1], 4⟩)],
     [(0, ⟨[0, 10, 0], 2⟩), (1, ⟨[0, 10, 0], 3⟩)], [(0, ⟨[0, 10, 1], 2⟩), (1, ⟨[0, 10, 1], 4⟩)]] := by decide
example : WFCart 2 2 3 [(0, ⟨[0, 1, 2], 1⟩), (0, ⟨[0, 3, 4], 2⟩), (1, ⟨[0, 5, 6], 3⟩)] ∧
    specCart 2 2 [(0, ⟨[0, 1, 2], 1⟩), (0, ⟨[0, 3, 4], 2⟩), (1, ⟨[0, 5, 6], 3⟩)] =
    [[(0, ⟨[0, 1, 2, 6], 1⟩), (1, ⟨[0, 5, 2, 6], 3⟩)], [(0, ⟨[0, 3, 4, 6], 2⟩), (1, ⟨[0, 5, 4, 6], 3⟩)]] := by
  refine ⟨by unfold WFCart; decide, by decide⟩

/-- **Negative witness (cartesian).** Tokens of different depths (`0.0`, `0.1` on port 0; `0.0.1`, `0.0.2` on
    port 1, depth 1): two arrival orders emit a different number of schemas (2 and 3). Reproduces on the real
    class (known finding). -/
theorem cart_counterexample :
    (runCart 1 2 [(0, ⟨[0, 0], 1⟩), (1, ⟨[0, 0, 1], 2⟩), (1, ⟨[0, 0, 2], 3⟩), (0, ⟨[0, 1], 4⟩)]).out.length = 2 ∧
    (runCart 1 2 [(0, ⟨[0, 0], 1⟩), (1, ⟨[0, 0, 1], 2⟩), (0, ⟨[0, 1], 4⟩), (1, ⟨[0, 0, 2], 3⟩)]).out.length = 3 := by
  decide +kernel

/-- the full-strength statement (without "all tags have the same length") is FALSE of the code -/
theorem cart_any_order_full_false :
    ¬ (∀ (depth P : Nat) (S es es' : List Ev), 0 < depth → 0 < P → S.Nodup → (∀ e ∈ S, e.1 < P) →
        (∀ e ∈ S, ∀ e' ∈ S, e.1 = e'.1 → e.2.tag = e'.2.tag → e = e') → es.Perm S → es'.Perm S →
        (runCart depth P es).out.Perm (runCart depth P es').out) := by
  intro h
  have := h 1 2 [(0, ⟨[0, 0], 1⟩), (1, ⟨[0, 0, 1], 2⟩), (1, ⟨[0, 0, 2], 3⟩), (0, ⟨[0, 1], 4⟩)]
    [(0, ⟨[0, 0], 1⟩), (1, ⟨[0, 0, 1], 2⟩), (1, ⟨[0, 0, 2], 3⟩), (0, ⟨[0, 1], 4⟩)]
    [(0, ⟨[0, 0], 1⟩), (1, ⟨[0, 0, 1], 2⟩), (0, ⟨[0, 1], 4⟩), (1, ⟨[0, 0, 2], 3⟩)]
    (by decide) (by decide) (by decide) (by decide) (by decide) (List.Perm.refl _) (by decide)
  have hl := this.length_eq
  rw [cart_counterexample.1, cart_counterexample.2] at hl
  exact absurd hl (by decide)

/-- **Nested combinators, outer level (PARTIAL).** `runNested items es` is an outer dot product whose items are
    ports or flat inner combinators. `derived items es []` is the stream of elements the outer combinator is
    fed along the arrival sequence (tokens of plain ports; the schemas the inner combinators yield, filed under
    `get_tag` of their tokens). If that stream is — up to order — a well-formed stream `D` of admissible
    elements (items in range, per item a prefix antichain of rooted tags, every token of an element carrying
    the element's tag), then the nested combinator emits, schema by schema up to the order of the entries,
    exactly one combination `(κ, element of every item with an ancestor tag)` per complete tag `κ` of `D`.

    If moreover no inner combinator raises (`InnerOK`), the nested run raises nothing.

    This is the general (any item list) but conditional form; the hypotheses are DISCHARGED from well-formedness of the
    input stream for the two trees the CWL translator builds in `nested_cart_any_order` / `nested_dot_any_order`
    below. Still open: an inner cartesian product of depth ≥ 2 (its schemas are not admissible elements: the members
    carry different tags) and several inner combinators — covered by the correspondence check and the monitor only. -/
theorem nested_any_order_partial (items : List Item) (es : List Ev) (D : List CF.Ev)
    (hD : (derived items es []).Perm D) (hwf : CF.WF items.length D) (hok : ∀ x ∈ D, ElemOK x.2) :
    (InnerOK items es [] → (runNested items es).err = none) ∧
    ∃ N, EmRel (runNested items es).out N ∧ N.Perm (specE items.length D) := by
  have h := dotElems_any_order D _ hwf hok hD
  refine ⟨fun hin => ?_, ?_⟩
  · rw [runNested_err items es hin]; exact h.1
  · rw [runNested_out]; exact h.2

/-- non-vacuity: `dot[cart₁[p0, p1], p2]` with two tokens on p0 and p1 and the broadcast token `0` on p2: the derived
    stream (four inner schemas tagged `0.i.j`, one token) is well formed and admissible, four combinations are
    specified and the model emits four schemas -/
example :
    let items := [Item.sub (.cart 1) [0, 1], Item.port 2]
    let es : List Ev := [(0, ⟨[0, 0], 1⟩), (0, ⟨[0, 1], 2⟩), (1, ⟨[0, 0], 3⟩), (1, ⟨[0, 1], 4⟩), (2, ⟨[0], 5⟩)]
    CF.WF items.length (derived items es []) ∧ (∀ x ∈ derived items es [], ElemOK x.2) ∧
    (specE items.length (derived items es [])).length = 4 ∧ (runNested items es).out.length = 4 := by
  unfold CF.WF ElemOK
  decide +kernel

/-- **Nested `dot[plain ports…, cart₁[p0 … p(Pi-1)], plain ports…]`, any arrival order** (`Shape items i0 …`, see
    `nested_items_shape`) (the tree the CWL translator builds for a
    cross-product scatter plus non-scattered inputs). `WFNest Pi L plains S`: the tokens of the inner ports form a
    well-formed stream of the depth-1 cartesian product (`WFCart 1 Pi L`), all tags are rooted at `0`, no repeated
    event, the other tokens arrive on the listed plain ports, on every plain port no tag is a prefix of another.
    `derivedSpec Pi plains S` — a function of the stream only — lists the elements the outer dot product combines:
    the specified schemas of the inner cartesian product (`specCart`) and the tokens of the plain ports. For every
    arrival order the emitted schemas are, each up to the order of its entries, exactly one combination per
    complete tag of `derivedSpec` (`specE`): the composition of the two rules, the same multiset for every order.
    The nested run raises nothing. NOT covered here: an inner cartesian product of depth ≥ 2. -/
theorem nested_cart_any_order (Pi L : Nat) (plains : List Nat) (items : List Item) (i0 : Nat)
    (hs : Shape items i0 (.cart 1) Pi plains) (S es : List Ev) (hwf : WFNest Pi L plains S) (hperm : es.Perm S) :
    (runNested items es).err = none ∧
    ∃ N, EmRel (runNested items es).out N ∧
      N.Perm (specE items.length (derivedSpec items i0 Pi S)) :=
  Comb.nested_cart_any_order hs S es hwf hperm

/-- the item lists covered by the nested theorems: plain ports `A`, then the inner combinator (kind `k`, ports
    `0 … Pi-1` — a labelling convention: number the inner ports first), then plain ports `B`; the inner combinator
    sits at position `A.length` -/
theorem nested_items_shape (k : Kind) (Pi : Nat) (A B : List Nat) :
    Shape (nestItemsAt k Pi A B) A.length k Pi (A ++ B) :=
  shape_at k Pi A B

/-- the CWL translator never passes a depth: the inner cartesian product it builds has the default depth, which is the
    depth-1 case this theorem covers (for depth ≥ 2 see `nested_cart_depth2_counterexample`) -/
example : Gen.cartDefaultDepth = 1 := rfl

/-- non-vacuity: two inner ports with two tokens each, the broadcast token `0` on plain port 2 -/
example : WFNest 2 2 [2] [(0, ⟨[0, 0], 1⟩), (0, ⟨[0, 1], 2⟩), (1, ⟨[0, 0], 3⟩), (1, ⟨[0, 1], 4⟩), (2, ⟨[0], 5⟩)] := by
  constructor
  · unfold WFCart; decide
  · unfold Rooted; decide
  · decide
  · decide
  · decide
  · decide
example : (specE 2 (derivedSpec (nestItems 2 [2]) 0 2
    [(0, ⟨[0, 0], 1⟩), (0, ⟨[0, 1], 2⟩), (1, ⟨[0, 0], 3⟩), (1, ⟨[0, 1], 4⟩), (2, ⟨[0], 5⟩)])).map (·.1) =
    [[0, 0, 0], [0, 0, 1], [0, 1, 0], [0, 1, 1]] := by decide +kernel
/-- the inner combinator in the middle: `dot[p5, cart₁[p0, p1], p7]` — four combinations of four tokens each -/
example : ((runNested (nestItemsAt (.cart 1) 2 [5] [7])
    [(5, ⟨[0], 9⟩), (0, ⟨[0, 0], 1⟩), (0, ⟨[0, 1], 2⟩), (7, ⟨[0], 8⟩), (1, ⟨[0, 0], 3⟩), (1, ⟨[0, 1], 4⟩)]).out.map
      List.length) = [4, 4, 4, 4] := by decide +kernel

/-- **Nested `dot[plain ports…, dot[p0 … p(Pi-1)], plain ports…]`, any arrival order** (`Shape items i0 …`) (the tree the CWL translator builds for a
    dot-product scatter plus non-scattered inputs). `WFNestD Pi M plains S`: `Pi ≥ 1`, ports below `M`, the tokens of
    the inner ports form a well-formed stream of the dot product (`WFDot Pi`), all tags rooted at `0`, no repeated
    event, the other tokens arrive on the listed plain ports, on every plain port no tag is a prefix of another.
    `derivedSpecD items i0 Pi S` — a function of the stream only — lists the elements the outer dot product combines:
    the specified emissions of the inner dot product (entries in port order) and the plain tokens. For every arrival
    order the nested run raises nothing and the emitted schemas are, each up to the order of its entries (the inner
    schemas reach the outer combinator in dict order), exactly one combination per complete tag of `derivedSpecD`
    (`specE`): the composition of the two rules, the same multiset for every order. -/
theorem nested_dot_any_order (Pi M : Nat) (plains : List Nat) (items : List Item) (i0 : Nat)
    (hs : Shape items i0 .dot Pi plains) (S es : List Ev) (hwf : WFNestD Pi M plains S) (hperm : es.Perm S) :
    (runNested items es).err = none ∧
    ∃ N, EmRel (runNested items es).out N ∧ N.Perm (specE items.length (derivedSpecD items i0 Pi S)) :=
  Comb.nested_dot_any_order hs S es hwf hperm

/-- non-vacuity: inner dot product over ports 0, 1 (tags `0.0`, `0.1` on both), the broadcast token `0` on plain port 2 -/
example : WFNestD 2 3 [2] [(0, ⟨[0, 0], 1⟩), (0, ⟨[0, 1], 2⟩), (1, ⟨[0, 0], 3⟩), (1, ⟨[0, 1], 4⟩), (2, ⟨[0], 5⟩)] := by
  constructor
  · decide
  · decide
  · unfold WFDot Rooted; decide
  · unfold Rooted; decide
  · decide
  · decide
  · decide
  · decide
example : (specE 2 (derivedSpecD (nestItemsD 2 [2]) 0 2
    [(0, ⟨[0, 0], 1⟩), (0, ⟨[0, 1], 2⟩), (1, ⟨[0, 0], 3⟩), (1, ⟨[0, 1], 4⟩), (2, ⟨[0], 5⟩)])).map (·.1) =
    [[0, 0], [0, 1]] := by decide +kernel

/-- corollary: two arrival orders of a well-formed nested stream emit, up to the order of the entries inside a
    schema, the same multiset (`dot[…, cart₁[…], …]`) -/
theorem nested_cart_order_independent (Pi L : Nat) (plains : List Nat) (items : List Item) (i0 : Nat)
    (hs : Shape items i0 (.cart 1) Pi plains) (S es es' : List Ev) (hwf : WFNest Pi L plains S)
    (h : es.Perm S) (h' : es'.Perm S) :
    ∃ N N', EmRel (runNested items es).out N ∧ EmRel (runNested items es').out N' ∧ N.Perm N' := by
  obtain ⟨_, N, h1, h2⟩ := Comb.nested_cart_any_order hs S es hwf h
  obtain ⟨_, N', h1', h2'⟩ := Comb.nested_cart_any_order hs S es' hwf h'
  exact ⟨N, N', h1, h1', h2.trans h2'.symm⟩

/-- the same for `dot[…, dot[…], …]` -/
theorem nested_dot_order_independent (Pi M : Nat) (plains : List Nat) (items : List Item) (i0 : Nat)
    (hs : Shape items i0 .dot Pi plains) (S es es' : List Ev) (hwf : WFNestD Pi M plains S)
    (h : es.Perm S) (h' : es'.Perm S) :
    ∃ N N', EmRel (runNested items es).out N ∧ EmRel (runNested items es').out N' ∧ N.Perm N' := by
  obtain ⟨_, N, h1, h2⟩ := Comb.nested_dot_any_order hs S es hwf h
  obtain ⟨_, N', h1', h2'⟩ := Comb.nested_dot_any_order hs S es' hwf h'
  exact ⟨N, N', h1, h1', h2.trans h2'.symm⟩

/-- **Negative witness (inner cartesian product of depth 2).** `dot[cart₂[p0, p1], p2]`: the members of an inner
    schema carry different composite tags (`0.0.2.1` / `0.1.2.1`) and the schema is filed under `get_tag` of them, the
    first string-longest: two different inner schemas get the tag `0.0.2.1`, only one of them meets the token of
    `p2`, and which one depends on the arrival order (values 3 resp. 2 on port 1; the composition rule specifies
    both). Reproduces on the real classes (known finding); the translator only builds depth 1, for which
    `nested_cart_any_order` holds. -/
theorem nested_cart_depth2_counterexample :
    (runNested [Item.sub (.cart 2) [0, 1], Item.port 2]
      [(0, ⟨[0, 0, 2], 1⟩), (1, ⟨[0, 0, 1], 2⟩), (1, ⟨[0, 1, 1], 3⟩), (2, ⟨[0], 9⟩)]).out.map (fun e => e.map (·.2.val))
      = [[1, 3, 9]] ∧
    (runNested [Item.sub (.cart 2) [0, 1], Item.port 2]
      [(0, ⟨[0, 0, 2], 1⟩), (1, ⟨[0, 1, 1], 3⟩), (1, ⟨[0, 0, 1], 2⟩), (2, ⟨[0], 9⟩)]).out.map (fun e => e.map (·.2.val))
      = [[1, 2, 9]] := by
  decide +kernel

/-- **Output ports of a dot-product `CombinatorStep`.** `CombinatorStep.run` feeds every arriving token to `combine`
    and puts the tokens of every yielded schema on the output port of the same name (`portLog p out`; this step-level
    model is compared with the real step, ports + persistence + controlled interleaving, on every run). For every
    arrival order of a well-formed stream the log of output port `p` is, as a multiset, column `p` of the specification. -/
theorem step_dot_port_logs (P : Nat) (S es : List Ev) (hwf : WFDot P S) (hperm : es.Perm S) (p : Nat) (hp : p < P) :
    (portLog p (runDot P es).out).Perm (portLog p (specDot P S)) :=
  Comb.step_dot_port_logs S es hwf hperm p hp

/-- the same for a cartesian-product step -/
theorem step_cart_port_logs (depth P L : Nat) (S es : List Ev) (hwf : WFCart depth P L S) (hperm : es.Perm S) (p : Nat) :
    (portLog p (runCart depth P es).out).Perm (portLog p (specCart depth P S)) :=
  Comb.step_cart_port_logs S es hwf hperm p

/-- **Final status of a dot-product `CombinatorStep`** whose inputs all terminate with `COMPLETED`: `COMPLETED` exactly
    when the specification is not empty (else `SKIPPED`), for every arrival order of a well-formed stream. -/
theorem step_dot_status (P : Nat) (hP : 0 < P) (S es : List Ev) (hwf : WFDot P S) (hperm : es.Perm S) :
    stepStatus (List.range P) (runDot P es).out = .completed ↔ specDot P S ≠ [] :=
  Comb.step_dot_status hP S es hwf hperm

/-- non-vacuity: the specified log of output port 0 in the broadcast-to-two-children stream, and the step status -/
example : portLog 0 (specDot 2 [(0, ⟨[0], 1⟩), (1, ⟨[0, 10], 2⟩), (1, ⟨[0, 9], 3⟩)]) = [⟨[0, 10], 1⟩, ⟨[0, 9], 1⟩] := by decide
example : stepStatus [0, 1] (runDot 2 [(1, ⟨[0, 10], 2⟩), (0, ⟨[0], 1⟩), (1, ⟨[0, 9], 3⟩)]).out = .completed ∧
    stepStatus [0, 1] (runDot 2 [(1, ⟨[0, 10], 2⟩)]).out = .skipped := by decide +kernel

end SFV.C02
