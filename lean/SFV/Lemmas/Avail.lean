import SFV.Model.Avail
/-! `is_available` with the repository's quantifiers characterises "every leaf recoverable, every path has a surviving copy". -/
namespace SFV.Avail

theorem pathOk_iff (copies : List Bool) : pathOk codeCfg copies = true ↔ ∃ b, b ∈ copies ∧ b = true := by
  simp only [pathOk, quant, codeCfg, Bool.and_eq_true, Bool.not_eq_true', List.any_eq_true, id]
  constructor
  · rintro ⟨_, b, hb, h⟩; exact ⟨b, hb, h⟩
  · rintro ⟨b, hb, h⟩
    refine ⟨?_, b, hb, h⟩
    cases copies with
    | nil => cases hb
    | cons _ _ => rfl

mutual
  theorem avail_iff : ∀ t : Tok, avail codeCfg t = true ↔ Good t
    | .plain r => by simp [avail, Good]
    | .file r paths => by
      simp only [avail, Good, Bool.and_eq_true, List.all_eq_true]
      constructor
      · rintro ⟨hr, h⟩; exact ⟨hr, fun c hc => (pathOk_iff c).mp (h c hc)⟩
      · rintro ⟨hr, h⟩; exact ⟨hr, fun c hc => (pathOk_iff c).mpr (h c hc)⟩
    | .list items => by
      simp only [avail, Good, quant, codeCfg]
      exact availL_iff items
    | .record items => by
      simp only [avail, Good, quant, codeCfg]
      exact availL_iff items
  theorem availL_iff : ∀ ts : List Tok, (availL codeCfg ts).all id = true ↔ GoodL ts
    | [] => by simp [availL, GoodL]
    | t :: ts => by
      simp only [availL, GoodL, List.all_cons, id, Bool.and_eq_true]
      rw [avail_iff t, availL_iff ts]
end

end SFV.Avail
