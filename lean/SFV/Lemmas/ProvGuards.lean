import SFV.Model.Prov
import SFV.Gen.ProvRowGuards
/-! The persistence log re-assembled from what the source says (`SFV/Gen/ProvRowGuards.lean`, regenerated on every run). -/
namespace SFV.Prov

/-- the provenance row written for input id `i` when the new token has id `n`, as `add_provenance` writes it -/
def rowOf (i n : Nat) : Nat × Nat := if Gen.provRowDependeeIsInput then (i, n) else (n, i)

/-- `_persist_token` with the row orientation and the input check of the source -/
def stepSrc (db : DB) : Op → Option DB
  | .save => some { db with next := db.next + 1 }
  | .persist ins =>
      if Gen.persistRejectsUnpersistedInput && !(ins.all (fun i => decide (0 < i ∧ i < db.next))) then none
      else some { next := db.next + 1, edges := db.edges ++ ins.map (fun i => rowOf i db.next) }

theorem stepSrc_eq_step (db : DB) (op : Op) : stepSrc db op = step db op := by
  cases op with
  | save => rfl
  | persist ins =>
    cases h : ins.all (fun i => decide (0 < i ∧ i < db.next)) with
    | true =>
      simp only [stepSrc, step, rowOf, Gen.persistRejectsUnpersistedInput, Gen.provRowDependeeIsInput, h, Bool.true_and,
        Bool.not_true, Bool.false_eq_true, if_false, if_true]
    | false =>
      simp only [stepSrc, step, rowOf, Gen.persistRejectsUnpersistedInput, Gen.provRowDependeeIsInput, h, Bool.true_and,
        Bool.not_false, Bool.false_eq_true, if_false, if_true]

end SFV.Prov
