import SFV.Model.Mapper
import SFV.Lemmas.GraphOps
/-! Lemmas for `mapper_consistent` (`SFV.Props.C20`): dictionaries as association lists, the loop of `move_token_to_root`,
`remove_port`, `replace_token`. -/
namespace SFV.Mapper
open SFV.Graph

/-! ### dictionaries -/

theorem keys_pop {α : Type} (d : Dict α) (k x : Nat) : x ∈ (d.pop k).keys ↔ x ∈ d.keys ∧ x ≠ k := by
  simp only [Dict.pop, Dict.keys, List.mem_map, List.mem_filter, bne_iff_ne, ne_eq]
  constructor
  · rintro ⟨e, ⟨he, hne⟩, rfl⟩; exact ⟨⟨e, he, rfl⟩, hne⟩
  · rintro ⟨⟨e, he, rfl⟩, hne⟩; exact ⟨e, ⟨he, hne⟩, rfl⟩

theorem mem_pop {α : Type} (d : Dict α) (k : Nat) (e : Nat × α) : e ∈ d.pop k ↔ e ∈ d ∧ e.1 ≠ k := by
  simp [Dict.pop, List.mem_filter]

theorem keys_set {α : Type} (d : Dict α) (k : Nat) (v : α) (x : Nat) : x ∈ (d.set k v).keys ↔ x ∈ d.keys ∨ x = k := by
  unfold Dict.set
  split
  · rename_i h
    have hk : k ∈ d.keys := by
      simp only [List.any_eq_true, beq_iff_eq] at h
      obtain ⟨e, he, rfl⟩ := h
      exact List.mem_map.mpr ⟨e, he, rfl⟩
    have : Dict.keys (d.map (fun e => if e.1 == k then (k, v) else e)) = d.keys := by
      simp only [Dict.keys, List.map_map]
      apply List.map_congr_left
      intro e _
      simp only [Function.comp]
      split
      · rename_i h'; simp only [beq_iff_eq] at h'; exact h'.symm
      · rfl
    rw [this]
    constructor
    · exact Or.inl
    · rintro (h | rfl)
      · exact h
      · exact hk
  · simp [Dict.keys]

theorem keys_set_nodup {α : Type} (d : Dict α) (k : Nat) (v : α) (h : d.keys.Nodup) : (d.set k v).keys.Nodup := by
  unfold Dict.set
  split
  · have : Dict.keys (d.map (fun e => if e.1 == k then (k, v) else e)) = d.keys := by
      simp only [Dict.keys, List.map_map]
      apply List.map_congr_left
      intro e _
      simp only [Function.comp]
      split
      · rename_i h'; simp only [beq_iff_eq] at h'; exact h'.symm
      · rfl
    rw [this]; exact h
  · rename_i hn
    simp only [Dict.keys, List.map_append, List.map_cons, List.map_nil]
    apply List.nodup_append.mpr
    refine ⟨h, by simp, ?_⟩
    intro a ha b hb
    simp only [List.mem_singleton] at hb
    subst hb
    intro hab
    subst hab
    apply hn
    obtain ⟨e, he, hk⟩ := List.mem_map.mp ha
    simp only [List.any_eq_true, beq_iff_eq]
    exact ⟨e, he, hk⟩

theorem entry_unique {α : Type} (d : Dict α) (h : d.keys.Nodup) (e e' : Nat × α) (he : e ∈ d) (he' : e' ∈ d) (hk : e.1 = e'.1) :
    e = e' := by
  induction d with
  | nil => cases he
  | cons a d ih =>
    simp only [Dict.keys, List.map_cons, List.nodup_cons] at h
    rcases List.mem_cons.mp he with h1 | h1
    · rcases List.mem_cons.mp he' with h2 | h2
      · rw [h1, h2]
      · subst h1; exact (h.1 (List.mem_map.mpr ⟨e', h2, hk.symm⟩)).elim
    · rcases List.mem_cons.mp he' with h2 | h2
      · subst h2; exact (h.1 (List.mem_map.mpr ⟨e, h1, hk⟩)).elim
      · exact ih h.2 h1 h2

theorem get?_mem {α : Type} (d : Dict α) (k : Nat) (v : α) (h : d.get? k = some v) : (k, v) ∈ d := by
  induction d with
  | nil => cases h
  | cons a d ih =>
    obtain ⟨a1, a2⟩ := a
    simp only [Dict.get?] at h
    split at h
    · rename_i e; cases h; subst e; exact List.mem_cons_self
    · exact List.mem_cons_of_mem _ (ih h)

/-! ### `move_token_to_root` -/

theorem foldl_discard_mem (R : List Nat) (l : List Nat) (x : Nat) : x ∈ R.foldl discard l ↔ x ∈ l ∧ x ∉ R := by
  induction R generalizing l with
  | nil => simp
  | cons r R ih =>
    simp only [List.foldl_cons, ih, Graph.discard, List.mem_filter, bne_iff_ne, ne_eq, List.mem_cons, not_or]
    constructor
    · rintro ⟨⟨h1, h2⟩, h3⟩; exact ⟨h1, h2, h3⟩
    · rintro ⟨h1, h2, h3⟩; exact ⟨⟨h1, h2⟩, h3⟩

/-- what the loop over the removed tokens has done after the tokens `R` -/
structure DropSpec (m0 : M) (R : List Nat) (acc : M × List Nat) : Prop where
  toks : acc.1.toks = m0.toks
  ports : acc.1.ports = m0.ports
  avail : ∀ k, k ∈ acc.1.avail.keys ↔ k ∈ m0.avail.keys ∧ k ∉ R
  inst : ∀ k, k ∈ acc.1.inst.keys ↔ k ∈ m0.inst.keys ∧ k ∉ R
  pt : acc.1.portTokens = m0.portTokens.map (fun e => (e.1, R.foldl discard e.2))
  empties : ∀ p, p ∈ acc.2 ↔ ∃ e ∈ acc.1.portTokens, e.1 = p ∧ e.2 = []

theorem foldl_setAdd_mem (es : List (Nat × List Nat)) (acc : List Nat) (p : Nat) :
    p ∈ es.foldl (fun acc e => setAdd acc e.1) acc ↔ p ∈ acc ∨ ∃ e ∈ es, e.1 = p := by
  induction es generalizing acc with
  | nil => simp
  | cons a es ih =>
    simp only [List.foldl_cons, ih, List.mem_cons, exists_eq_or_imp]
    have : p ∈ setAdd acc a.1 ↔ p ∈ acc ∨ p = a.1 := by
      unfold setAdd; split
      · constructor
        · exact Or.inl
        · rintro (h | rfl)
          · exact h
          · assumption
      · simp
    rw [this]
    constructor
    · rintro ((h | h) | h)
      · exact Or.inl h
      · exact Or.inr (Or.inl h.symm)
      · exact Or.inr (Or.inr h)
    · rintro (h | h | h)
      · exact Or.inl (Or.inl h)
      · exact Or.inl (Or.inr h.symm)
      · exact Or.inr h

theorem dropToken_spec (m0 : M) (R : List Nat) (acc : M × List Nat) (r : Nat) (h : DropSpec m0 R acc) :
    DropSpec m0 (R ++ [r]) (acc.1.dropToken r acc.2) := by
  have hpt : (acc.1.dropToken r acc.2).1.portTokens = m0.portTokens.map (fun e => (e.1, (R ++ [r]).foldl discard e.2)) := by
    simp only [M.dropToken, h.pt, List.map_map, List.foldl_append, List.foldl_cons, List.foldl_nil]
    rfl
  refine ⟨h.toks, h.ports, ?_, ?_, hpt, ?_⟩
  · intro k
    simp only [M.dropToken, keys_pop, h.avail, List.mem_append, List.mem_singleton, not_or]
    constructor
    · rintro ⟨⟨a, b⟩, c⟩; exact ⟨a, b, c⟩
    · rintro ⟨a, b, c⟩; exact ⟨⟨a, b⟩, c⟩
  · intro k
    simp only [M.dropToken, keys_pop, h.inst, List.mem_append, List.mem_singleton, not_or]
    constructor
    · rintro ⟨⟨a, b⟩, c⟩; exact ⟨a, b, c⟩
    · rintro ⟨a, b, c⟩; exact ⟨⟨a, b⟩, c⟩
  · intro p
    have hE := h.empties p
    simp only [M.dropToken, foldl_setAdd_mem, List.mem_filter, List.isEmpty_iff]
    constructor
    · rintro (hp | ⟨e, ⟨he, hemp⟩, hk⟩)
      · obtain ⟨e, he, hk, hemp⟩ := hE.mp hp
        refine ⟨(e.1, discard e.2 r), List.mem_map.mpr ⟨e, he, rfl⟩, hk, ?_⟩
        simp [hemp, Graph.discard]
      · exact ⟨e, he, hk, hemp⟩
    · rintro ⟨e, he, hk, hemp⟩
      exact Or.inr ⟨e, ⟨he, hemp⟩, hk⟩

theorem dropTokens_spec (m0 : M) : ∀ (R done : List Nat) (acc : M × List Nat), DropSpec m0 done acc →
    DropSpec m0 (done ++ R) (dropTokens R acc) := by
  intro R
  induction R with
  | nil => intro done acc h; simpa [dropTokens] using h
  | cons r R ih =>
    intro done acc h
    have := ih (done ++ [r]) _ (dropToken_spec m0 done acc r h)
    simpa [dropTokens, List.append_assoc] using this

theorem removePort_sk (m : M) (hI : Inv m.ports) (p x : Nat) :
    x ∈ (m.removePort p).ports.sk ↔ x ∈ m.ports.sk ∧ x ≠ p := by
  have h := removeNodes_spec m.ports hI [p] false
  simp only [M.removePort]
  rw [h.keys, removeNodes_mem m.ports hI, closure_noprune]
  simp only [List.mem_singleton]
  constructor
  · rintro ⟨h1, h2⟩; exact ⟨h1, fun e => h2 ⟨e, h1⟩⟩
  · rintro ⟨h1, h2⟩; exact ⟨h1, fun e => h2 e.1⟩

/-- what the loop over the empty ports has done -/
structure PortsSpec (m0 : M) (E : List Nat) (m : M) : Prop where
  toks : m.toks = m0.toks
  avail : m.avail = m0.avail
  inst : m.inst = m0.inst
  inv : Inv m.ports
  sk : ∀ x, x ∈ m.ports.sk ↔ x ∈ m0.ports.sk ∧ x ∉ E
  pt : ∀ e, e ∈ m.portTokens ↔ e ∈ m0.portTokens ∧ e.1 ∉ E
  keys : m.portTokens.keys.Nodup

theorem keys_pop_nodup {α : Type} (d : Dict α) (k : Nat) (h : d.keys.Nodup) : (d.pop k).keys.Nodup := by
  unfold Dict.pop Dict.keys
  exact List.Nodup.sublist (List.Sublist.map _ (List.filter_sublist)) h

theorem foldl_removePort_spec (m0 : M) : ∀ (E done : List Nat) (m : M), PortsSpec m0 done m →
    PortsSpec m0 (done ++ E) (E.foldl M.removePort m) := by
  intro E
  induction E with
  | nil => intro done m h; simpa using h
  | cons p E ih =>
    intro done m h
    have hstep : PortsSpec m0 (done ++ [p]) (m.removePort p) := by
      refine ⟨h.toks, h.avail, h.inst, (removeNodes_spec m.ports h.inv [p] false).inv, ?_, ?_, ?_⟩
      · intro x
        rw [removePort_sk m h.inv, h.sk]
        simp only [List.mem_append, List.mem_singleton, not_or]
        constructor
        · rintro ⟨⟨a, b⟩, c⟩; exact ⟨a, b, c⟩
        · rintro ⟨a, b, c⟩; exact ⟨⟨a, b⟩, c⟩
      · intro e
        simp only [M.removePort, mem_pop, h.pt, List.mem_append, List.mem_singleton, not_or]
        constructor
        · rintro ⟨⟨a, b⟩, c⟩; exact ⟨a, b, c⟩
        · rintro ⟨a, b, c⟩; exact ⟨⟨a, b⟩, c⟩
      · exact keys_pop_nodup _ _ h.keys
    have := ih (done ++ [p]) _ hstep
    simpa [List.append_assoc] using this

theorem promote_sk (g : G) (hI : Inv g) (node x : Nat) :
    x ∈ (g.promote node).1.sk ↔ x ∈ g.sk ∧ x ∉ (g.promote node).2 := by
  unfold G.promote
  split
  · simp
  · have h := removeNodes_spec _ (inv_promoteLoop g hI node) (promoteLoop node (g.pred node) g []).2 true
    rw [h.keys, promoteLoop_sk]

theorem mem_tokensOf (m : M) (t : Nat) : t ∈ m.tokensOf ↔ ∃ e ∈ m.portTokens, t ∈ e.2 := by
  simp [M.tokensOf, List.mem_flatMap]

theorem keys_map_snd (d : Dict (List Nat)) (f : Nat × List Nat → List Nat) : Dict.keys (d.map (fun e => (e.1, f e))) = d.keys := by
  simp [Dict.keys, List.map_map, Function.comp_def]

theorem moveToRoot_consistent (m : M) (h : m.consistent) (t : Nat) : (m.moveToRoot t).consistent := by
  have hsk := promote_sk m.toks h.toks_inv t
  have hD := dropTokens_spec { m with toks := (m.toks.promote t).1 } (m.toks.promote t).2 []
    ({ m with toks := (m.toks.promote t).1 }, [])
    ⟨rfl, rfl, by simp, by simp, by simp, by
      intro p
      simp only [List.not_mem_nil, false_iff, not_exists, not_and]
      intro e he _ hemp
      exact h.nonempty e he hemp⟩
  simp only [List.nil_append] at hD
  have hkeys : (dropTokens (m.toks.promote t).2 ({ m with toks := (m.toks.promote t).1 }, [])).1.portTokens.keys.Nodup := by
    rw [hD.pt, keys_map_snd]; exact h.port_keys
  have hP := foldl_removePort_spec _ (dropTokens (m.toks.promote t).2 ({ m with toks := (m.toks.promote t).1 }, [])).2 [] _
    (⟨rfl, rfl, rfl, by rw [hD.ports]; exact h.ports_inv, by simp, by simp, hkeys⟩ :
      PortsSpec (dropTokens (m.toks.promote t).2 ({ m with toks := (m.toks.promote t).1 }, [])).1 []
        (dropTokens (m.toks.promote t).2 ({ m with toks := (m.toks.promote t).1 }, [])).1)
  simp only [List.nil_append] at hP
  -- names
  generalize hacc : dropTokens (m.toks.promote t).2 ({ m with toks := (m.toks.promote t).1 }, []) = acc at hD hP hkeys
  have hfin : m.moveToRoot t = acc.2.foldl M.removePort acc.1 := by
    simp only [M.moveToRoot, hacc]
  rw [hfin]
  generalize acc.2.foldl M.removePort acc.1 = fin at hP
  -- an entry of the result comes from an entry of `m`
  have horig : ∀ e ∈ fin.portTokens, ∃ e0 ∈ m.portTokens, e.1 = e0.1 ∧ (∀ x, x ∈ e.2 ↔ x ∈ e0.2 ∧ x ∉ (m.toks.promote t).2) ∧
      e.1 ∉ acc.2 := by
    intro e he
    obtain ⟨he1, he2⟩ := (hP.pt e).mp he
    rw [hD.pt] at he1
    obtain ⟨e0, he0, rfl⟩ := List.mem_map.mp he1
    exact ⟨e0, he0, rfl, fun x => foldl_discard_mem _ _ x, he2⟩
  refine ⟨?_, ?_, ?_, ?_, ?_, ?_, hP.keys, ?_, hP.inv⟩
  · intro x
    rw [hP.toks, hD.toks, hP.inst, hD.inst]
    simp only
    rw [hsk, h.nodes_inst]
  · intro x
    rw [hP.inst, hD.inst, hP.avail, hD.avail, h.inst_avail]
  · intro x
    rw [hP.inst, hD.inst, h.inst_ports, mem_tokensOf, mem_tokensOf]
    constructor
    · rintro ⟨⟨e0, he0, hx⟩, hxR⟩
      have hmem : (e0.1, (m.toks.promote t).2.foldl discard e0.2) ∈ acc.1.portTokens := by
        rw [hD.pt]; exact List.mem_map.mpr ⟨e0, he0, rfl⟩
      have hxe : x ∈ (m.toks.promote t).2.foldl discard e0.2 := (foldl_discard_mem _ _ x).mpr ⟨hx, hxR⟩
      refine ⟨_, (hP.pt _).mpr ⟨hmem, ?_⟩, hxe⟩
      intro hE
      obtain ⟨e', he', hk, hemp⟩ := (hD.empties _).mp hE
      have := entry_unique _ hkeys e' _ he' hmem hk
      rw [this] at hemp
      simp only at hemp
      rw [hemp] at hxe
      cases hxe
    · rintro ⟨e, he, hx⟩
      obtain ⟨e0, he0, _, hm, _⟩ := horig e he
      exact ⟨⟨e0, he0, ((hm x).mp hx).1⟩, ((hm x).mp hx).2⟩
  · intro e he hemp
    obtain ⟨he1, he2⟩ := (hP.pt e).mp he
    exact he2 ((hD.empties e.1).mpr ⟨e, he1, rfl, hemp⟩)
  · intro e he
    obtain ⟨e0, he0, hk, _, hE⟩ := horig e he
    rw [hP.sk, hD.ports]
    exact ⟨hk ▸ h.port_node e0 he0, hE⟩
  · intro e he e' he' x hx hx'
    obtain ⟨e0, he0, hk, hm, _⟩ := horig e he
    obtain ⟨e0', he0', hk', hm', _⟩ := horig e' he'
    rw [hk, hk']
    exact h.once e0 he0 e0' he0' x ((hm x).mp hx).1 ((hm' x).mp hx').1
  · rw [hP.toks, hD.toks]
    exact inv_promote m.toks h.toks_inv t

/-! ### `replace_token` -/

theorem mem_set {α : Type} (d : Dict α) (k : Nat) (v : α) (e : Nat × α) :
    e ∈ d.set k v ↔ (e ∈ d ∧ e.1 ≠ k) ∨ e = (k, v) := by
  unfold Dict.set
  split
  · rename_i hany
    simp only [List.mem_map]
    constructor
    · rintro ⟨e0, he0, rfl⟩
      by_cases hk : e0.1 = k
      · right; simp [hk]
      · left; simp [hk, he0]
    · rintro (⟨he, hk⟩ | rfl)
      · exact ⟨e, he, by simp [hk]⟩
      · simp only [List.any_eq_true, beq_iff_eq] at hany
        obtain ⟨e0, he0, hk⟩ := hany
        exact ⟨e0, he0, by simp [hk]⟩
  · rename_i hany
    simp only [List.mem_append, List.mem_singleton]
    constructor
    · rintro (he | rfl)
      · left
        refine ⟨he, ?_⟩
        intro hk
        apply hany
        simp only [List.any_eq_true, beq_iff_eq]
        exact ⟨e, he, hk⟩
      · right; rfl
    · rintro (⟨he, _⟩ | rfl)
      · exact Or.inl he
      · exact Or.inr rfl

theorem get?_mapAt (d : Dict (List Nat)) (port : Nat) (g : List Nat → List Nat) :
    Dict.get? (d.map (fun e => if e.1 == port then (e.1, g e.2) else e)) port = (d.get? port).map g := by
  induction d with
  | nil => rfl
  | cons a d ih =>
    obtain ⟨a1, a2⟩ := a
    by_cases hk : a1 = port
    · subst hk; simp [Dict.get?]
    · have hb : (a1 == port) = false := by simpa using hk
      simp only [List.map_cons, hb, Bool.false_eq_true, if_false, Dict.get?, hk]
      exact ih

theorem mem_mapAt (d : Dict (List Nat)) (port : Nat) (g : List Nat → List Nat) (e : Nat × List Nat) (hk : e.1 ≠ port) :
    e ∈ d.map (fun e => if e.1 == port then (e.1, g e.2) else e) ↔ e ∈ d := by
  simp only [List.mem_map]
  constructor
  · rintro ⟨e0, he0, rfl⟩
    by_cases h0 : e0.1 = port
    · simp [h0] at hk
    · simpa [h0] using he0
  · intro he
    exact ⟨e, he, by simp [hk]⟩

theorem keys_mapAt (d : Dict (List Nat)) (port : Nat) (g : List Nat → List Nat) :
    Dict.keys (d.map (fun e => if e.1 == port then (e.1, g e.2) else e)) = d.keys := by
  simp only [Dict.keys, List.map_map]
  apply List.map_congr_left
  intro e _
  simp only [Function.comp]
  split <;> rfl

theorem replace_some (g g' : G) (old new : Nat) (h : g.replace old new = some g') (ho : old ∈ g.sk) :
    new ∉ g.sk ∧ g' = replaced g old new := by
  by_cases hn : new ∈ g.sk
  · simp [G.replace, ho, hn] at h
  · rw [replace_eq g old new ho hn] at h
    cases h
    exact ⟨hn, rfl⟩

theorem getEqual_mem (m : M) (port key old : Nat) (h : m.getEqual port key = some old) :
    ∃ ts, m.portTokens.get? port = some ts ∧ old ∈ ts := by
  unfold M.getEqual at h
  cases hg : m.portTokens.get? port with
  | none => simp [hg] at h
  | some ts =>
    simp only [hg, Option.getD_some] at h
    exact ⟨ts, rfl, List.mem_of_find?_eq_some h⟩

theorem replaceToken_consistent (m m' : M) (h : m.consistent) (port new key : Nat) (a : Bool)
    (hr : m.replaceToken port new key a = some m') : m'.consistent := by
  unfold M.replaceToken at hr
  cases hge : m.getEqual port key with
  | none => simp [hge] at hr
  | some old =>
    simp only [hge] at hr
    by_cases hon : old = new
    · simp only [hon, if_true] at hr
      split at hr
      · cases hr; exact h
      · cases hr
    · simp only [hon, if_false] at hr
      obtain ⟨ts, hts, hold⟩ := getEqual_mem m port key old hge
      have hpe : (port, ts) ∈ m.portTokens := get?_mem _ _ _ hts
      have holdT : old ∈ m.tokensOf := (mem_tokensOf m old).mpr ⟨_, hpe, hold⟩
      have holdK : old ∈ m.toks.sk := (h.nodes_inst old).mpr ((h.inst_ports old).mpr holdT)
      cases hrep : m.toks.replace old new with
      | none => simp [hrep] at hr
      | some g =>
        simp only [hrep, Option.some.injEq] at hr
        obtain ⟨hnew, hg⟩ := replace_some _ _ _ _ hrep holdK
        subst hg
        have hsk := replaced_sk_mem m.toks old new
        have hnewT : new ∉ m.tokensOf := fun hc => hnew ((h.nodes_inst new).mpr ((h.inst_ports new).mpr hc))
        -- the new list of the port
        have hget : Dict.get? (m.portTokens.map (fun e => if e.1 == port then (e.1, discard e.2 old) else e)) port = some (discard ts old) := by
          have : Dict.get? (m.portTokens.map (fun e => if e.1 == port then (e.1, discard e.2 old) else e)) port =
              (m.portTokens.get? port).map (fun l => discard l old) := get?_mapAt m.portTokens port (fun l => discard l old)
          rw [this, hts]; rfl
        have hL : ∀ x, x ∈ setAdd (discard ts old) new ↔ (x ∈ ts ∧ x ≠ old) ∨ x = new := by
          intro x
          unfold setAdd
          split
          · rename_i hmem
            simp only [Graph.discard, List.mem_filter, bne_iff_ne, ne_eq] at hmem ⊢
            constructor
            · exact Or.inl
            · rintro (hx | rfl)
              · exact hx
              · exact hmem
          · simp [Graph.discard, List.mem_filter]
        have hent : ∀ e, e ∈ m'.portTokens ↔ (e ∈ m.portTokens ∧ e.1 ≠ port) ∨ e = (port, setAdd (discard ts old) new) := by
          intro e
          rw [← hr]
          simp only [addTo, hget, Option.getD_some, mem_set]
          constructor
          · rintro (⟨he, hk⟩ | rfl)
            · exact Or.inl ⟨(mem_mapAt _ _ _ e hk).mp he, hk⟩
            · exact Or.inr rfl
          · rintro (⟨he, hk⟩ | rfl)
            · exact Or.inl ⟨(mem_mapAt _ _ _ e hk).mpr he, hk⟩
            · exact Or.inr rfl
        have htok : ∀ x, x ∈ m'.tokensOf ↔ (x ∈ m.tokensOf ∧ x ≠ old) ∨ x = new := by
          intro x
          rw [mem_tokensOf, mem_tokensOf]
          constructor
          · rintro ⟨e, he, hx⟩
            rcases (hent e).mp he with ⟨he0, hk⟩ | rfl
            · refine Or.inl ⟨⟨e, he0, hx⟩, ?_⟩
              intro hxo
              subst hxo
              exact hk (h.once e he0 _ hpe x hx hold)
            · rcases (hL x).mp hx with ⟨hx1, hx2⟩ | hx1
              · exact Or.inl ⟨⟨_, hpe, hx1⟩, hx2⟩
              · exact Or.inr hx1
          · rintro (⟨⟨e, he, hx⟩, hxo⟩ | rfl)
            · by_cases hk : e.1 = port
              · have := entry_unique _ h.port_keys e (port, ts) he hpe hk
                subst this
                exact ⟨_, (hent _).mpr (Or.inr rfl), (hL x).mpr (Or.inl ⟨hx, hxo⟩)⟩
              · exact ⟨e, (hent e).mpr (Or.inl ⟨he, hk⟩), hx⟩
            · exact ⟨_, (hent _).mpr (Or.inr rfl), (hL x).mpr (Or.inr rfl)⟩
        have hinst : ∀ x, x ∈ m'.inst.keys ↔ (x ∈ m.inst.keys ∧ x ≠ old) ∨ x = new := by
          intro x; rw [← hr]; simp only [keys_set, keys_pop]
        have havail : ∀ x, x ∈ m'.avail.keys ↔ (x ∈ m.avail.keys ∧ x ≠ old) ∨ x = new := by
          intro x; rw [← hr]; simp only [keys_set, keys_pop]
        have htoks : m'.toks = replaced m.toks old new := by rw [← hr]
        have hports : m'.ports = m.ports := by rw [← hr]
        refine ⟨?_, ?_, ?_, ?_, ?_, ?_, ?_, ?_, ?_⟩
        · intro x
          rw [htoks, hsk, hinst, h.nodes_inst]
          constructor
          · rintro ⟨h1 | h1, h2⟩
            · exact Or.inl ⟨h1, h2⟩
            · exact Or.inr h1
          · rintro (⟨h1, h2⟩ | h1)
            · exact ⟨Or.inl h1, h2⟩
            · exact ⟨Or.inr h1, fun e => hon (e.symm.trans h1)⟩
        · intro x; rw [hinst, havail, h.inst_avail]
        · intro x; rw [hinst, htok, h.inst_ports]
        · intro e he
          rcases (hent e).mp he with ⟨he0, _⟩ | rfl
          · exact h.nonempty e he0
          · intro hemp
            have := (hL new).mpr (Or.inr rfl)
            simp only at hemp
            rw [hemp] at this
            cases this
        · intro e he
          rw [hports]
          rcases (hent e).mp he with ⟨he0, _⟩ | rfl
          · exact h.port_node e he0
          · exact h.port_node (port, ts) hpe
        · intro e he e' he' x hx hx'
          rcases (hent e).mp he with ⟨he0, hk⟩ | rfl
          · rcases (hent e').mp he' with ⟨he0', hk'⟩ | rfl
            · exact h.once e he0 e' he0' x hx hx'
            · rcases (hL x).mp hx' with ⟨hx1, _⟩ | hx1
              · exact h.once e he0 (port, ts) hpe x hx hx1
              · subst hx1; exact absurd ((mem_tokensOf m x).mpr ⟨e, he0, hx⟩) hnewT
          · rcases (hent e').mp he' with ⟨he0', hk'⟩ | rfl
            · rcases (hL x).mp hx with ⟨hx1, _⟩ | hx1
              · exact h.once (port, ts) hpe e' he0' x hx1 hx'
              · subst hx1; exact absurd ((mem_tokensOf m x).mpr ⟨e', he0', hx'⟩) hnewT
            · rfl
        · rw [← hr]
          simp only [addTo]
          apply keys_set_nodup
          have : Dict.keys (m.portTokens.map (fun e => if e.1 == port then (e.1, discard e.2 old) else e)) = m.portTokens.keys :=
            keys_mapAt m.portTokens port (fun l => discard l old)
          rw [this]
          exact h.port_keys
        · rw [htoks]
          exact inv_replaced m.toks h.toks_inv old new hnew holdK
        · rw [hports]; exact h.ports_inv

/-! ### `add` of a single new token -/

theorem mem_get? {α : Type} (d : Dict α) (h : d.keys.Nodup) (k : Nat) (v : α) (hm : (k, v) ∈ d) : d.get? k = some v := by
  induction d with
  | nil => cases hm
  | cons a d ih =>
    obtain ⟨a1, a2⟩ := a
    simp only [Dict.keys, List.map_cons, List.nodup_cons] at h
    simp only [Dict.get?]
    rcases List.mem_cons.mp hm with h1 | h1
    · cases h1; simp
    · have : ¬ a1 = k := by
        intro e; subst e
        exact h.1 (List.mem_map.mpr ⟨(a1, v), h1, rfl⟩)
      simp only [this, if_false]
      exact ih h.2 h1

theorem add_single_consistent (m : M) (h : m.consistent) (a : Info) (hfresh : a.tok ∉ m.inst.keys)
    (hne : m.getEqual a.port a.key = none) : ∃ m', m.add a none = some m' ∧ m'.consistent := by
  have hge : ({ m with portIds := addTo m.portIds a.port a.portId, ports := m.ports.add a.port none } : M).getEqual a.port a.key = none := hne
  refine ⟨_, by simp only [M.add, M.updateToken, hge, Option.map_none]; rfl, ?_⟩
  have hfreshT : a.tok ∉ m.tokensOf := fun hc => hfresh ((h.inst_ports _).mpr hc)
  -- the list of the port after the insertion
  have hL : ∀ x, x ∈ setAdd ((m.portTokens.get? a.port).getD []) a.tok ↔ x ∈ (m.portTokens.get? a.port).getD [] ∨ x = a.tok := by
    intro x
    unfold setAdd
    split
    · rename_i hm
      constructor
      · exact Or.inl
      · rintro (hx | rfl)
        · exact hx
        · exact hm
    · simp
  have hold : ∀ x, x ∈ (m.portTokens.get? a.port).getD [] → ∃ ts, (a.port, ts) ∈ m.portTokens ∧ x ∈ ts := by
    intro x hx
    cases hg : m.portTokens.get? a.port with
    | none => simp [hg] at hx
    | some ts => simp only [hg, Option.getD_some] at hx; exact ⟨ts, get?_mem _ _ _ hg, hx⟩
  have hent : ∀ e, e ∈ addTo m.portTokens a.port a.tok ↔
      (e ∈ m.portTokens ∧ e.1 ≠ a.port) ∨ e = (a.port, setAdd ((m.portTokens.get? a.port).getD []) a.tok) := by
    intro e; simp only [addTo, mem_set]
  have htok : ∀ x, x ∈ (addTo m.portTokens a.port a.tok).flatMap (·.2) ↔ x ∈ m.tokensOf ∨ x = a.tok := by
    intro x
    rw [mem_tokensOf]
    simp only [List.mem_flatMap]
    constructor
    · rintro ⟨e, he, hx⟩
      rcases (hent e).mp he with ⟨he0, _⟩ | rfl
      · exact Or.inl ⟨e, he0, hx⟩
      · rcases (hL x).mp hx with hx1 | hx1
        · obtain ⟨ts, hts, hxts⟩ := hold x hx1
          exact Or.inl ⟨_, hts, hxts⟩
        · exact Or.inr hx1
    · rintro (⟨e, he, hx⟩ | rfl)
      · by_cases hk : e.1 = a.port
        · refine ⟨_, (hent _).mpr (Or.inr rfl), (hL x).mpr (Or.inl ?_)⟩
          obtain ⟨e1, e2⟩ := e
          simp only at hk
          subst hk
          rw [mem_get? _ h.port_keys _ _ he]
          exact hx
        · exact ⟨e, (hent e).mpr (Or.inl ⟨he, hk⟩), hx⟩
      · exact ⟨_, (hent _).mpr (Or.inr rfl), (hL _).mpr (Or.inr rfl)⟩
  refine ⟨?_, ?_, ?_, ?_, ?_, ?_, ?_, ?_, ?_⟩
  · intro x
    simp only [add_sk_mem, keys_set, h.nodes_inst]
    simp
  · intro x
    simp only [keys_set, h.inst_avail]
  · intro x
    simp only [M.tokensOf, keys_set, htok, h.inst_ports]
  · intro e he
    rcases (hent e).mp he with ⟨he0, _⟩ | rfl
    · exact h.nonempty e he0
    · intro hemp
      have := (hL a.tok).mpr (Or.inr rfl)
      simp only at hemp
      rw [hemp] at this
      cases this
  · intro e he
    simp only [add_sk_mem]
    rcases (hent e).mp he with ⟨he0, _⟩ | rfl
    · exact Or.inl (h.port_node e he0)
    · simp
  · intro e he e' he' x hx hx'
    rcases (hent e).mp he with ⟨he0, hk⟩ | rfl
    · rcases (hent e').mp he' with ⟨he0', hk'⟩ | rfl
      · exact h.once e he0 e' he0' x hx hx'
      · rcases (hL x).mp hx' with hx1 | hx1
        · obtain ⟨ts, hts, hxts⟩ := hold x hx1
          exact h.once e he0 (a.port, ts) hts x hx hxts
        · subst hx1; exact absurd ((mem_tokensOf m _).mpr ⟨e, he0, hx⟩) hfreshT
    · rcases (hent e').mp he' with ⟨he0', hk'⟩ | rfl
      · rcases (hL x).mp hx with hx1 | hx1
        · obtain ⟨ts, hts, hxts⟩ := hold x hx1
          exact h.once (a.port, ts) hts e' he0' x hxts hx'
        · subst hx1; exact absurd ((mem_tokensOf m _).mpr ⟨e', he0', hx'⟩) hfreshT
      · rfl
  · exact keys_set_nodup _ _ _ h.port_keys
  · exact inv_add m.toks h.toks_inv a.tok none
  · exact inv_add m.ports h.ports_inv a.port none

end SFV.Mapper
