import SFV.Gen.RetryGuard
/-! # Model of the retry accounting of `RollbackFailureManager` (streamflow/recovery/failure_manager.py)

One `RecoveryRequest` per job (`version`, initially `Gen.initialVersion`). When an execution of job `j` fails,
`recover → _recover → _synchronize_workflows` walks the requests of the jobs in the recovery graph — the producers
`needs` whose data was lost and which are not being recovered already, then `j` itself — and calls `_update_request`
on each: if `Gen.retryAllowed max version` the version is incremented (and the job is re-executed by the recovery
workflow), otherwise `FailureHandlingException` is raised: it is an `UnrecoverableWorkflowException`, the `recoverable`
wrapper re-raises it without recursing, and the workflow fails. Versions incremented before the raising request stay
incremented, but no recovery workflow runs. With the dummy failure manager the first failure fails the workflow. -/
namespace SFV.Retry

inductive Mgr | rollback | dummy
deriving DecidableEq, Repr

structure St where
  version : Nat → Nat
  execs : Nat → Nat
  failed : Bool

inductive Act
  | start (j : Nat)                     -- first execution of job `j`
  | fail (j : Nat) (needs : List Nat)   -- an execution of `j` fails; `needs` = producers to roll back with it
deriving Repr

def init : St := { version := fun _ => Gen.initialVersion, execs := fun _ => 0, failed := false }

def bump (f : Nat → Nat) (j : Nat) : Nat → Nat := fun k => if k = j then f k + 1 else f k

/-- `_update_request` on each request in turn: `none` = some request was exhausted (versions bumped so far are kept) -/
def updateAll (max : Option Nat) : List Nat → (Nat → Nat) → (Nat → Nat) × Bool
  | [], v => (v, true)
  | j :: js, v => if Gen.retryAllowed max (v j) then updateAll max js (bump v j) else (v, false)

def step (mgr : Mgr) (max : Option Nat) (s : St) : Act → Option St
  | .start j => if s.failed = false ∧ s.execs j = 0 then some { s with execs := bump s.execs j } else none
  | .fail j needs =>
      if s.failed = false ∧ 0 < s.execs j ∧ j ∉ needs ∧ needs.Nodup ∧ (∀ k, k ∈ needs → 0 < s.execs k) then
        match mgr with
        | .dummy => some { s with failed := true }
        | .rollback =>
            match updateAll max (needs ++ [j]) s.version with
            | (v, true) => some { s with version := v, execs := (needs ++ [j]).foldl bump s.execs }
            | (v, false) => some { s with version := v, failed := true }
      else none

inductive Reachable (mgr : Mgr) (max : Option Nat) : St → Prop
  | init : Reachable mgr max init
  | step {s a s'} : Reachable mgr max s → step mgr max s a = some s' → Reachable mgr max s'

def runActs (mgr : Mgr) (max : Option Nat) (s : St) : List Act → Option St
  | [] => some s
  | a :: as => match step mgr max s a with
    | some s' => runActs mgr max s' as
    | none => none

end SFV.Retry
