import SFV.Model.Loop
/-! LoopCombinator numbering and the LoopCombinatorStep checklist (C06). -/
namespace SFV.Loop
open SFV

/-! ### numbering -/

/-- an arrival at the loop combinator: `(p, none)` = the external inputs of instance `p` (tag `p`),
    `(p, some k)` = a back-edge arrival carrying the tag `p.k` of the iteration that just ran -/
abbrev Arr := Tag × Option Nat

def tagOf : Arr → Tag
  | (p, none) => p
  | (p, some k) => p ++ [k]

/-- causality: every instance of `P` starts once, with its external inputs; back-edge arrivals of an instance
    come after its start (they are produced by the loop body from the outputs of this very combinator) -/
def Causal (P : List Tag) : List Tag → List Arr → Prop
  | _, [] => True
  | st, (q, none) :: r => q ∈ P ∧ q ∉ st ∧ Causal P (q :: st) r
  | st, (q, some _) :: r => q ∈ st ∧ Causal P st r

/-- the tags given to the arrivals of instance `p`, in arrival order -/
def outsOf (p : Tag) : Counters → List Arr → List Tag
  | _, [] => []
  | m, a :: r =>
      if a.1 = p then (number m (tagOf a)).2 :: outsOf p (number m (tagOf a)).1 r
      else outsOf p (number m (tagOf a)).1 r

def nextIdx (m : Counters) (p : Tag) : Nat :=
  match m p with
  | none => 0
  | some c => c + 1

theorem range_succ_map (n : Nat) (f : Nat → Tag) :
    (List.range (n + 1)).map f = f 0 :: (List.range n).map (fun j => f (j + 1)) := by
  rw [List.range_succ_eq_map]; simp [List.map_map, Function.comp_def]

theorem numbering_aux (P : List Tag) (hsep : ∀ p ∈ P, p.dropLast ∉ P) (p : Tag) :
    ∀ (arr : List Arr) (st : List Tag) (m : Counters), (∀ x, (m x).isSome ↔ x ∈ st) → (∀ x ∈ st, x ∈ P) →
      Causal P st arr →
      outsOf p m arr = (List.range (arr.filter (fun a => a.1 = p)).length).map (fun j => p ++ [nextIdx m p + j]) := by
  intro arr
  induction arr with
  | nil => intro st m _ _ _; rfl
  | cons a r ih =>
    intro st m hm hst hc
    obtain ⟨q, o⟩ := a
    cases o with
    | none =>
      obtain ⟨hqP, hqst, hc'⟩ := hc
      have hdl : m q.dropLast = none := by
        cases h : m q.dropLast with
        | none => rfl
        | some c =>
          have : q.dropLast ∈ st := (hm _).mp (by simp [h])
          exact absurd (hst _ this) (hsep q hqP)
      have hnum : number m (tagOf (q, none)) = (setKey m q (some Gen.loopInit), q ++ [Gen.loopFirstSuffix]) := by
        simp [number, tagOf, hdl]
      have hm' : ∀ x, ((setKey m q (some Gen.loopInit)) x).isSome ↔ x ∈ q :: st := by
        intro x
        by_cases hx : x = q
        · subst hx; simp [setKey]
        · simp [setKey, hx, hm x]
      have hst' : ∀ x ∈ q :: st, x ∈ P := by
        intro x hx
        rcases List.mem_cons.mp hx with rfl | hx
        · exact hqP
        · exact hst x hx
      have ih' := ih (q :: st) _ hm' hst' hc'
      simp only [outsOf, hnum]
      by_cases hqp : q = p
      · subst hqp
        have hmq : m q = none := by
          cases h : m q with
          | none => rfl
          | some c => exact absurd ((hm q).mp (by simp [h])) hqst
        simp only [if_true, List.filter_cons, decide_true, List.length_cons]
        rw [range_succ_map, ih']
        simp [nextIdx, hmq, setKey, Gen.loopInit, Gen.loopFirstSuffix, Nat.add_comm, Nat.add_left_comm]
      · simp only [hqp, if_false, List.filter_cons, decide_false, Bool.false_eq_true]
        rw [ih']
        have : nextIdx (setKey m q (some Gen.loopInit)) p = nextIdx m p := by
          have hpq : ¬ p = q := fun e => hqp e.symm
          simp [nextIdx, setKey, hpq]
        rw [this]
    | some k =>
      obtain ⟨hqst, hc'⟩ := hc
      obtain ⟨c, hc0⟩ : ∃ c, m q = some c := by
        have := (hm q).mpr hqst
        cases h : m q with
        | none => simp [h] at this
        | some c => exact ⟨c, rfl⟩
      have hnum : number m (tagOf (q, some k)) = (setKey m q (some (c + Gen.loopIncr)), q ++ [c + Gen.loopIncr]) := by
        simp [number, tagOf, hc0]
      have hm' : ∀ x, ((setKey m q (some (c + Gen.loopIncr))) x).isSome ↔ x ∈ st := by
        intro x
        by_cases hx : x = q
        · subst hx; simp [setKey, hqst]
        · simp [setKey, hx, hm x]
      have ih' := ih st _ hm' hst hc'
      simp only [outsOf, hnum]
      by_cases hqp : q = p
      · subst hqp
        simp only [if_true, List.filter_cons, decide_true, List.length_cons]
        rw [range_succ_map, ih']
        simp [nextIdx, hc0, setKey, Gen.loopIncr, Nat.add_comm, Nat.add_left_comm]
      · simp only [hqp, if_false, List.filter_cons, decide_false, Bool.false_eq_true]
        rw [ih']
        have : nextIdx (setKey m q (some (c + Gen.loopIncr))) p = nextIdx m p := by
          have hpq : ¬ p = q := fun e => hqp e.symm
          simp [nextIdx, setKey, hpq]
        rw [this]

/-! ### checklist -/

def CEv.benign (p : Tag) : CEv → Prop
  | .data _ => True
  | .iterTerm tag => tag ≠ p
  | .term st => st = .completed

theorem cstep_keeps (s : CSt) (e : CEv) (p : Tag) (hp : p ∈ s.checklist) (hr : s.reading = true) (he : e.benign p) :
    p ∈ (cstep s e).checklist ∧ (cstep s e).reading = true := by
  have key : ∀ s1 : CSt, p ∈ s1.checklist →
      p ∈ ({ s1 with reading := !(s1.terminated && s1.checklist.isEmpty) } : CSt).checklist ∧
      ({ s1 with reading := !(s1.terminated && s1.checklist.isEmpty) } : CSt).reading = true := by
    intro s1 h1
    refine ⟨h1, ?_⟩
    have : s1.checklist.isEmpty = false := by
      cases hc : s1.checklist with
      | nil => rw [hc] at h1; cases h1
      | cons a l => rfl
    simp [this]
  unfold cstep
  simp only [hr, Bool.not_true, Bool.false_eq_true, if_false]
  apply key
  cases e with
  | data tag =>
    simp only
    split
    · exact hp
    · exact List.mem_cons_of_mem _ hp
  | iterTerm tag =>
    have : tag ≠ p := he
    simp only [List.mem_filter, hp, true_and, decide_eq_true_eq]
    exact fun e => this e.symm
  | term st =>
    have : st = .completed := he
    subst this
    simpa using hp

end SFV.Loop
