#!/venv/bin/python
import json, sys, os, glob
import jsonschema
root = os.path.dirname(os.path.dirname(os.path.abspath(__file__)))
schema = json.load(open("/root/.vp/EVIDENCE.schema.json"))
ids = sys.argv[1:] or [os.path.basename(p)[:-5] for p in sorted(glob.glob(os.path.join(root, "evidence", "C*.json")))]
bad = 0
for i in ids:
    try:
        ev = json.load(open(os.path.join(root, "evidence", f"{i}.json")))
        jsonschema.validate(ev, schema)
        c = ev["coverage"]
        assert c.get("obligations") == c.get("discharged"), "obligations != discharged"
        print(i, "ok", f"obligations={c.get('obligations')} evaluations={c.get('evaluations')} nontrivial={c.get('distinct_nontrivial')} wall={ev['wall_s']}")
    except Exception as e:
        bad += 1
        print(i, "INVALID", str(e)[:300])
sys.exit(1 if bad else 0)
