import SFV.Model.Net
/-! Shared definitions for the network lemmas (C05): the hypotheses under which a node's semantic function does
not depend on the order of the tokens on its input ports, and the notion of a consistent family of port logs. -/
namespace SFV.Net

/-- no two tokens of the list carry the same tag -/
def DistinctTags (l : List Tok) : Prop := l.Pairwise (fun a b => a.tag ≠ b.tag)

/-- no token's tag is a proper prefix of another token's tag -/
def Antichain (l : List Tok) : Prop := ∀ a ∈ l, ∀ b ∈ l, a.tag <+: b.tag → a.tag = b.tag

/-- the two environments hold the same tokens, up to order, on the given ports -/
def EnvPermOn (ps : List Nat) (e1 e2 : Env) : Prop := ∀ q ∈ ps, (e1.get q).Perm (e2.get q)

def Node.isDot : Node → Bool
  | .dot _ _ => true
  | _ => false

/-- the hypotheses on the input ports of a node under which `nodeOut` is order independent -/
structure NodeInputsOk (e : Env) (n : Node) : Prop where
  distinct : ∀ q ∈ n.ins, DistinctTags (e.get q)
  antichain : n.isDot = true → ∀ q ∈ n.ins, Antichain (e.get q)

/-- **Consistent logs.** `logs` is what the ports hold after some complete run: source ports hold their
pre-loaded token, and the output ports of every node hold, up to order, what the node's semantic function yields
on the logs of its input ports (C01 / C02 / the per-step order-independence theorems say that every interleaving
of a step's inputs makes the step emit exactly that, up to order). -/
structure Consistent (sp : Spec) (logs : Env) : Prop where
  src : ∀ p, (∀ n ∈ sp.nodes, p ∉ n.outs) → logs.get p = (srcEnv sp).get p
  node : ∀ n ∈ sp.nodes, ∀ (j o : Nat), n.outs[j]? = some o → (logs.get o).Perm ((nodeOut logs n)[j]?.getD [])

/-- the statement proved in `SFV/Lemmas/NetPerm.lean`: a node's outputs do not depend on the order of its inputs -/
def NodeOutPermStmt : Prop :=
  ∀ (n : Node) (e1 e2 : Env), EnvPermOn n.ins e1 e2 → NodeInputsOk e1 n →
    ∀ j : Nat, ((nodeOut e1 n)[j]?.getD []).Perm ((nodeOut e2 n)[j]?.getD [])

end SFV.Net
