/-! # File-system model with symbolic links and modes (C24, second layer)

`SFV/Model/FS.lean` (directories and files only) carries the `mkdir` / `rmtree` / `read_text` refinement. This layer adds what
`symlink_to`, `hardlink_to`, `chmod`, `size`, `checksum` and the `is_*` tests on links need: symbolic links (absolute targets,
leaf position only), file modes, and a finite listing of the entries (for `find` / `walk`).
Assumed (textbook, validated differentially): `test -e`, `-f`, `-d` follow links, `test -L` does not; `ln -s -n -f TARGET PATH` replaces an
existing non-directory `PATH` and creates `PATH/basename(TARGET)` when `PATH` is a real directory; `ln -n -f` likewise for hard links
(modelled as a copy of the file node: aliasing is not observable here); `chmod MODE PATH` follows links, GNU `chmod -h` is an error;
`find -L PATH -type f` selects every entry that is a regular file after following links, and `ls -ln` then prints the size of the
entry itself (for a link: the length of its text). -/
namespace SFV.FSL

abbrev Path := List String

inductive Node
  | dir
  | file (content : List Char) (mode : Nat)
  | link (target : Path) (textLen : Nat)   -- resolved target, and the length of the link's own text (its `st_size`)
deriving DecidableEq, Repr

abbrev FS := Path → Option Node

def set (fs : FS) (p : Path) (n : Option Node) : FS := fun q => if q = p then n else fs q

/-- follow the link at `p` (if any), at most `fuel` times: the path `stat` looks at -/
def resolve : Nat → FS → Path → Option Path
  | 0, _, _ => none                      -- ELOOP
  | fuel + 1, fs, p =>
      match fs p with
      | some (.link t _) => resolve fuel fs t
      | some _ => some p
      | none => none

def FUEL : Nat := 40   -- Linux follows at most 40 links

/-- `os.stat` / what `test -e` sees -/
def stat (fs : FS) (p : Path) : Option Node := (resolve FUEL fs p).bind fs
/-- `os.lstat` -/
def lstat (fs : FS) (p : Path) : Option Node := fs p

def isLink (fs : FS) (p : Path) : Bool := match lstat fs p with | some (.link _ _) => true | _ => false
def isDirL (fs : FS) (p : Path) : Bool := lstat fs p == some .dir

/-! ## the tests -/
def testE (fs : FS) (p : Path) : Bool := (stat fs p).isSome
def testF (fs : FS) (p : Path) : Bool := match stat fs p with | some (.file _ _) => true | _ => false
def testD (fs : FS) (p : Path) : Bool := stat fs p == some .dir
def testL (fs : FS) (p : Path) : Bool := isLink fs p

/-- `pathlib.Path.exists / is_file / is_dir / is_symlink` -/
def localExists (fs : FS) (p : Path) : Bool := (stat fs p).isSome
def localIsFile (fs : FS) (p : Path) : Bool := match stat fs p with | some (.file _ _) => true | _ => false
def localIsDir (fs : FS) (p : Path) : Bool := stat fs p == some .dir
def localIsSymlink (fs : FS) (p : Path) : Bool := match lstat fs p with | some (.link _ _) => true | _ => false

/-! ## `symlink_to` / `hardlink_to` -/

/-- the new node may be created at `p`: the parent is a real directory (or a link to one) -/
def parentOk (fs : FS) (p : Path) : Bool := p != [] && stat fs p.dropLast == some .dir

/-- `os.symlink(target, p)`: `FileExistsError` when anything (even a dangling link) is at `p` -/
def localSymlink (fs : FS) (p target : Path) (tlen : Nat) : Option FS :=
  if (lstat fs p).isSome then none
  else if parentOk fs p then some (set fs p (some (.link target tlen))) else none

/-- `ln -snf target p` -/
def remoteSymlink (fs : FS) (p target : Path) (tlen : Nat) (base : String) : Option FS :=
  if isDirL fs p then
    -- a real directory: the link is created inside it, replacing a non-directory of that name
    (if isDirL fs (p ++ [base]) then none else some (set fs (p ++ [base]) (some (.link target tlen))))
  else if parentOk fs p then some (set fs p (some (.link target tlen))) else none

/-- `os.link(target, p)`: the target must be an existing non-directory, `p` must not exist -/
def linkable : Option Node → Option Node
  | some (.file c m) => some (.file c m)
  | some (.link t n) => some (.link t n)     -- Linux hard-links the symbolic link itself
  | _ => none

def localHardlink (fs : FS) (p target : Path) : Option FS :=
  match linkable (lstat fs target) with
  | some nd =>
      if (lstat fs p).isSome then none
      else if parentOk fs p then some (set fs p (some nd)) else none
  | none => none

/-- `ln -nf target p` -/
def remoteHardlink (fs : FS) (p target : Path) (base : String) : Option FS :=
  match linkable (lstat fs target) with
  | some nd =>
      if isDirL fs p then
        (if isDirL fs (p ++ [base]) || p ++ [base] == target then none else some (set fs (p ++ [base]) (some nd)))
      else if p == target then none                      -- `ln: 'a' and 'a' are the same file`
      else if parentOk fs p then some (set fs p (some nd)) else none
  | none => none

/-! ## `chmod` -/

def chmodNode (fs : FS) (p : Path) (mode : Nat) : Option FS :=
  match resolve FUEL fs p with
  | some q =>
      match fs q with
      | some (.file c _) => some (set fs q (some (.file c mode)))
      | some .dir => some fs
      | _ => none
  | none => none

/-- `Path.chmod(mode, follow_symlinks)`: without following, Linux changes a non-link and refuses a link -/
def localChmod (fs : FS) (p : Path) (mode : Nat) (follow : Bool) : Option FS :=
  if follow then chmodNode fs p mode
  else match lstat fs p with
    | some (.link _ _) => none
    | some (.file c _) => some (set fs p (some (.file c mode)))
    | some .dir => some fs
    | none => none

/-- `chmod [-h] mode p` with GNU chmod (`-h` is not an option: error) -/
def remoteChmod (fs : FS) (p : Path) (mode : Nat) (follow : Bool) : Option FS :=
  if follow then chmodNode fs p mode else none

/-! ## `size` and `checksum` -/

def fileSize : Option Node → Nat
  | some (.file c _) => c.length
  | _ => 0

/-- `LocalStreamFlowPath.size`: a file counts unless it is reached through a link; a directory sums the regular files below
    it that are not links (`dom` lists the entries of the file system) -/
def localSize (fs : FS) (dom : List Path) (p : Path) : Nat :=
  if localIsFile fs p then (if localIsSymlink fs p then 0 else fileSize (lstat fs p))
  else ((dom.filter (fun q => p <+: q && q != p)).map (fun q => if isLink fs q then 0 else fileSize (lstat fs q))).sum

/-- what `ls -ln q` prints as size for an entry `find -L … -type f` selected: `find` follows links to decide that `q` is a regular
    file, `ls` (without `-L`) then shows the entry itself — for a link its own size, the length of its text -/
def lsSize (fs : FS) (q : Path) : Nat :=
  match stat fs q with
  | some (.file _ _) => (match lstat fs q with | some (.link _ n) => n | other => fileSize other)
  | _ => 0

/-- `find -L p -type f -exec ls -ln {} + | awk '{sum+=$5}'`: every entry at or below `p` that is a regular file after following links -/
def remoteSize (fs : FS) (dom : List Path) (p : Path) : Nat :=
  if testF fs p then lsSize fs p
  else ((dom.filter (fun q => p <+: q && q != p)).map (fun q => lsSize fs q)).sum

/-- `checksum()`: `h` stands for the SHA-1 of the bytes; `none` = Python `None` -/
def localChecksum (h : List Char → List Char) (fs : FS) (p : Path) : Option (List Char) :=
  match stat fs p with
  | some (.file c _) => some (h c)
  | _ => none

/-- `test -f p && sha1sum p | awk '{print $1}'`, then `result.strip()`: empty text when the test fails -/
def remoteChecksum (h : List Char → List Char) (fs : FS) (p : Path) : Option (List Char) :=
  match stat fs p with
  | some (.file c _) => some (h c)
  | _ => some []

end SFV.FSL
