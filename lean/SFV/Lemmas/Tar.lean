import SFV.Model.Tar
import SFV.Lemmas.Bytes
/-! Lemmas for C23: reads and seeks on a chunked stream are `take`/`drop`; peeling members off an archive. -/
namespace SFV.Tar
open SFV.Bytes

def mkReader (data : List Byte) (p : Nat → Nat → Nat) (pos : Nat) : Reader := { raw := { data := data, policy := p }, pos := pos }

theorem read_mk (data : List Byte) (p : Nat → Nat → Nat) (pos n : Nat) :
    (mkReader data p pos).read n = (data.take n, mkReader (data.drop n) p (pos + (data.take n).length)) := by
  simp [Reader.read, mkReader, tellRead_eq]

theorem seek_mk (data : List Byte) (p : Nat → Nat → Nat) (pos off : Nat) (h : pos ≤ off) :
    (mkReader data p pos).seek off = some (mkReader (data.drop (off - pos)) p off) := by
  unfold Reader.seek
  by_cases hgt : off > pos
  · simp only [mkReader, hgt, if_true]
    simp [Reader.read, tellRead_eq]
  · have : off = pos := by omega
    subst this
    simp [mkReader]

theorem seek_mk_back (data : List Byte) (p : Nat → Nat → Nat) (pos off : Nat) (h : off < pos) :
    (mkReader data p pos).seek off = none := by
  unfold Reader.seek
  have h1 : ¬ off > pos := by omega
  simp [mkReader, h1, h]

@[simp] theorem mkReader_pos (d : List Byte) (p : Nat → Nat → Nat) (pos : Nat) : (mkReader d p pos).pos = pos := rfl

theorem zeros_length (n : Nat) : (zeros n).length = n := by simp [zeros]

theorem zeros_all (n : Nat) : (zeros n).all (· == 0) = true := by
  simp only [zeros, List.all_eq_true]
  intro x hx
  have := List.eq_of_mem_replicate hx
  simp [this]

theorem zeros_add (a b : Nat) : zeros (a + b) = zeros a ++ zeros b := by
  simp [zeros, List.replicate_append_replicate]

theorem closing_eq (n : Nat) :
    closing n = zeros 512 ++ (zeros 512 ++ zeros ((10240 - (n + 1024) % 10240) % 10240)) := by
  unfold closing
  rw [show (1024 : Nat) = 512 + 512 from rfl, zeros_add, List.append_assoc]

/-- a member the codec can represent: the (truncated) name and size fit the ordinary header; a longer name contains no NUL
    and its length fits a long-name header -/
def MValid (c : Codec) (m : Member) : Prop :=
  c.valid (m.name.take 100) m.data.length ∧
  (100 < m.name.length →
    (c.pax = false → c.validLong (m.name.length + 1) ∧ ∀ b ∈ m.name, b ≠ 0) ∧
    (c.pax = true → c.validPax (paxPayload c m.name).length))

/-- bytes in front of a member's data: the long-name record (if any) and the ordinary header -/
def headLen (c : Codec) (m : Member) : Nat := (longRecord c m.name).length + 512

theorem longRecord_length (c : Codec) (name : List Byte) :
    (longRecord c name).length = if name.length ≤ 100 then 0
      else if c.pax then 512 + blockLen (paxPayload c name).length else 512 + blockLen (name.length + 1) := by
  unfold longRecord blockLen
  split
  · rfl
  · split
    · simp only [List.length_append, c.encPax_len, zeros_length]
    · simp only [List.length_append, c.encLong_len, zeros_length, List.length_cons, List.length_nil]

theorem encMember_length (c : Codec) (m : Member) :
    (encMember c m).length = headLen c m + m.data.length + padLen m.data.length := by
  simp only [encMember, headLen, List.length_append, c.enc_len, zeros_length]; omega

theorem writeMembers_cons (c : Codec) (m : Member) (ms : List Member) :
    writeMembers c (m :: ms) = encMember c m ++ writeMembers c ms := by
  simp [writeMembers]

theorem writeMembers_length_ge (c : Codec) (ms : List Member) : 512 * ms.length ≤ (writeMembers c ms).length := by
  induction ms with
  | nil => simp [writeMembers]
  | cons m r ih =>
    rw [writeMembers_cons, List.length_append, encMember_length]
    simp only [List.length_cons, headLen]
    omega

theorem classify_enc (c : Codec) (n : List Byte) (s : Nat) (h : c.valid n s) : classify c.dec (c.enc n s) = .hdr n s := by
  unfold classify
  simp [c.enc_len, c.enc_nonzero n s h, c.dec_enc n s h]

theorem classify_encLong (c : Codec) (n : Nat) (h : c.validLong n) : classify c.dec (c.encLong n) = .longname n := by
  unfold classify
  simp [c.encLong_len, c.encLong_nonzero n h, c.dec_encLong n h]

theorem classify_encPax (c : Codec) (n : Nat) (h : c.validPax n) : classify c.dec (c.encPax n) = .paxhdr n := by
  unfold classify
  simp [c.encPax_len, c.encPax_nonzero n h, c.dec_encPax n h]

theorem applyPath_single (name x : List Byte) : applyPath [(pathKey, name)] x = name := by
  simp [applyPath, lookupLast]

theorem classify_zeros (dec : Dec) : classify dec (zeros 512) = .eof := by
  unfold classify
  have h1 : (zeros 512).length = 512 := zeros_length 512
  simp only [h1, zeros_all]
  simp

theorem nts_name (name : List Byte) (k : Nat) (h : ∀ b ∈ name, b ≠ 0) : nts (name ++ [0] ++ zeros k) = name := by
  unfold nts
  induction name with
  | nil => simp
  | cons a r ih =>
    have ha : a ≠ 0 := h a (List.mem_cons_self ..)
    simp only [List.cons_append, List.takeWhile_cons, bne_iff_ne, ne_eq, ha, not_false_eq_true, if_true]
    congr 1
    exact ih (fun b hb => h b (List.mem_cons_of_mem _ hb))

/-- the first thing `next()` does is the seek -/
theorem readMembers_seek (dec : Dec) (p : Nat → Nat → Nat) (fuel : Nat) (data : List Byte) (pos offset : Nat)
    (acc : List Member) (h : pos ≤ offset) :
    readMembers dec fuel (mkReader data p pos) offset acc
      = readMembers dec fuel (mkReader (data.drop (offset - pos)) p offset) offset acc := by
  cases fuel with
  | zero => rfl
  | succ f =>
    have h2 := seek_mk (data.drop (offset - pos)) p offset offset (Nat.le_refl _)
    simp only [Nat.sub_self, List.drop_zero] at h2
    simp only [readMembers, seek_mk data p pos offset h, h2]

/-- **one member**: header(s), data; the padding is skipped by the next seek -/
theorem readMembers_member (c : Codec) (p : Nat → Nat → Nat) (m : Member) (rest : List Byte) (off f : Nat)
    (acc : List Member) (hv : MValid c m) :
    readMembers c.dec (f + 1) (mkReader (encMember c m ++ rest) p off) off acc
      = readMembers c.dec f (mkReader (zeros (padLen m.data.length) ++ rest) p (off + headLen c m + m.data.length))
          (off + headLen c m + blockLen m.data.length) (acc ++ [m]) := by
  have hs := seek_mk (encMember c m ++ rest) p off off (Nat.le_refl _)
  simp only [Nat.sub_self, List.drop_zero] at hs
  obtain ⟨hval, hlong⟩ := hv
  by_cases hshort : m.name.length ≤ 100
  · -- ordinary header
    have hname : m.name.take 100 = m.name := List.take_of_length_le hshort
    rw [hname] at hval
    have hE : encMember c m ++ rest
        = c.enc m.name m.data.length ++ (m.data ++ (zeros (padLen m.data.length) ++ rest)) := by
      simp [encMember, longRecord, hshort, hname, List.append_assoc]
    have hH : headLen c m = 512 := by simp [headLen, longRecord, hshort]
    rw [hE] at hs ⊢
    have t1 : (c.enc m.name m.data.length ++ (m.data ++ (zeros (padLen m.data.length) ++ rest))).take 512
        = c.enc m.name m.data.length := List.take_left' (c.enc_len _ _)
    have d1 : (c.enc m.name m.data.length ++ (m.data ++ (zeros (padLen m.data.length) ++ rest))).drop 512
        = m.data ++ (zeros (padLen m.data.length) ++ rest) := List.drop_left' (c.enc_len _ _)
    have t2 : (m.data ++ (zeros (padLen m.data.length) ++ rest)).take m.data.length = m.data := List.take_left' rfl
    have d2 : (m.data ++ (zeros (padLen m.data.length) ++ rest)).drop m.data.length
        = zeros (padLen m.data.length) ++ rest := List.drop_left' rfl
    simp only [readMembers, hs, read_mk, t1, d1, classify_enc c _ _ hval, c.enc_len, t2, d2, mkReader_pos, hH]
  · -- an extension record, then the ordinary header
    have hgt : 100 < m.name.length := by omega
    obtain ⟨hgnu, hpax⟩ := hlong hgt
    cases hfmt : c.pax with
    | false =>
      obtain ⟨hvl, hnz⟩ := hgnu hfmt
      have hnbl : (m.name ++ [0] ++ zeros (padLen (m.name.length + 1))).length = blockLen (m.name.length + 1) := by
        simp only [List.length_append, zeros_length, List.length_cons, List.length_nil, blockLen]
      have hE : encMember c m ++ rest
          = c.encLong (m.name.length + 1) ++ ((m.name ++ [0] ++ zeros (padLen (m.name.length + 1))) ++
              (c.enc (m.name.take 100) m.data.length ++ (m.data ++ (zeros (padLen m.data.length) ++ rest)))) := by
        simp [encMember, longRecord, hshort, hfmt, List.append_assoc]
      have hH : headLen c m = 512 + blockLen (m.name.length + 1) + 512 := by
        simp only [headLen, longRecord_length, hshort, hfmt, if_false, Bool.false_eq_true]
      rw [hE] at hs ⊢
      have t0 : (c.encLong (m.name.length + 1) ++ ((m.name ++ [0] ++ zeros (padLen (m.name.length + 1))) ++
              (c.enc (m.name.take 100) m.data.length ++ (m.data ++ (zeros (padLen m.data.length) ++ rest))))).take 512
          = c.encLong (m.name.length + 1) := List.take_left' (c.encLong_len _)
      have d0 : (c.encLong (m.name.length + 1) ++ ((m.name ++ [0] ++ zeros (padLen (m.name.length + 1))) ++
              (c.enc (m.name.take 100) m.data.length ++ (m.data ++ (zeros (padLen m.data.length) ++ rest))))).drop 512
          = (m.name ++ [0] ++ zeros (padLen (m.name.length + 1))) ++
              (c.enc (m.name.take 100) m.data.length ++ (m.data ++ (zeros (padLen m.data.length) ++ rest))) :=
        List.drop_left' (c.encLong_len _)
      have tn : ((m.name ++ [0] ++ zeros (padLen (m.name.length + 1))) ++
              (c.enc (m.name.take 100) m.data.length ++ (m.data ++ (zeros (padLen m.data.length) ++ rest)))).take (blockLen (m.name.length + 1))
          = m.name ++ [0] ++ zeros (padLen (m.name.length + 1)) := List.take_left' hnbl
      have dn : ((m.name ++ [0] ++ zeros (padLen (m.name.length + 1))) ++
              (c.enc (m.name.take 100) m.data.length ++ (m.data ++ (zeros (padLen m.data.length) ++ rest)))).drop (blockLen (m.name.length + 1))
          = c.enc (m.name.take 100) m.data.length ++ (m.data ++ (zeros (padLen m.data.length) ++ rest)) := List.drop_left' hnbl
      have t1 : (c.enc (m.name.take 100) m.data.length ++ (m.data ++ (zeros (padLen m.data.length) ++ rest))).take 512
          = c.enc (m.name.take 100) m.data.length := List.take_left' (c.enc_len _ _)
      have d1 : (c.enc (m.name.take 100) m.data.length ++ (m.data ++ (zeros (padLen m.data.length) ++ rest))).drop 512
          = m.data ++ (zeros (padLen m.data.length) ++ rest) := List.drop_left' (c.enc_len _ _)
      have t2 : (m.data ++ (zeros (padLen m.data.length) ++ rest)).take m.data.length = m.data := List.take_left' rfl
      have d2 : (m.data ++ (zeros (padLen m.data.length) ++ rest)).drop m.data.length
          = zeros (padLen m.data.length) ++ rest := List.drop_left' rfl
      simp only [readMembers, hs, read_mk, t0, d0, classify_encLong c _ hvl, c.encLong_len, tn, dn, hnbl, t1, d1,
        classify_enc c _ _ hval, c.enc_len, t2, d2, mkReader_pos, hH, nts_name m.name _ hnz]
      have e1 : off + 512 + blockLen (m.name.length + 1) + 512 + m.data.length
          = off + (512 + blockLen (m.name.length + 1) + 512) + m.data.length := by omega
      have e2 : off + 512 + blockLen (m.name.length + 1) + 512 + blockLen m.data.length
          = off + (512 + blockLen (m.name.length + 1) + 512) + blockLen m.data.length := by omega
      rw [e1, e2]
    | true =>
      have hvp := hpax hfmt
      -- abbreviations for the records block
      have hpl : (paxPayload c m.name ++ zeros (padLen (paxPayload c m.name).length)).length = blockLen (paxPayload c m.name).length := by
        simp only [List.length_append, zeros_length, blockLen]
      have hE : encMember c m ++ rest
          = c.encPax (paxPayload c m.name).length ++ ((paxPayload c m.name ++ zeros (padLen (paxPayload c m.name).length)) ++
              (c.enc (m.name.take 100) m.data.length ++ (m.data ++ (zeros (padLen m.data.length) ++ rest)))) := by
        simp [encMember, longRecord, hshort, hfmt, List.append_assoc]
      have hH : headLen c m = 512 + blockLen (paxPayload c m.name).length + 512 := by
        simp only [headLen, longRecord_length, hshort, hfmt, if_false, if_true]
      rw [hE] at hs ⊢
      have t0 : (c.encPax (paxPayload c m.name).length ++ ((paxPayload c m.name ++ zeros (padLen (paxPayload c m.name).length)) ++
              (c.enc (m.name.take 100) m.data.length ++ (m.data ++ (zeros (padLen m.data.length) ++ rest))))).take 512
          = c.encPax (paxPayload c m.name).length := List.take_left' (c.encPax_len _)
      have d0 : (c.encPax (paxPayload c m.name).length ++ ((paxPayload c m.name ++ zeros (padLen (paxPayload c m.name).length)) ++
              (c.enc (m.name.take 100) m.data.length ++ (m.data ++ (zeros (padLen m.data.length) ++ rest))))).drop 512
          = (paxPayload c m.name ++ zeros (padLen (paxPayload c m.name).length)) ++
              (c.enc (m.name.take 100) m.data.length ++ (m.data ++ (zeros (padLen m.data.length) ++ rest))) :=
        List.drop_left' (c.encPax_len _)
      have tn : ((paxPayload c m.name ++ zeros (padLen (paxPayload c m.name).length)) ++
              (c.enc (m.name.take 100) m.data.length ++ (m.data ++ (zeros (padLen m.data.length) ++ rest)))).take (blockLen (paxPayload c m.name).length)
          = paxPayload c m.name ++ zeros (padLen (paxPayload c m.name).length) := List.take_left' hpl
      have dn : ((paxPayload c m.name ++ zeros (padLen (paxPayload c m.name).length)) ++
              (c.enc (m.name.take 100) m.data.length ++ (m.data ++ (zeros (padLen m.data.length) ++ rest)))).drop (blockLen (paxPayload c m.name).length)
          = c.enc (m.name.take 100) m.data.length ++ (m.data ++ (zeros (padLen m.data.length) ++ rest)) := List.drop_left' hpl
      have tp : (paxPayload c m.name ++ zeros (padLen (paxPayload c m.name).length)).take (paxPayload c m.name).length
          = paxPayload c m.name := List.take_left' rfl
      have t1 : (c.enc (m.name.take 100) m.data.length ++ (m.data ++ (zeros (padLen m.data.length) ++ rest))).take 512
          = c.enc (m.name.take 100) m.data.length := List.take_left' (c.enc_len _ _)
      have d1 : (c.enc (m.name.take 100) m.data.length ++ (m.data ++ (zeros (padLen m.data.length) ++ rest))).drop 512
          = m.data ++ (zeros (padLen m.data.length) ++ rest) := List.drop_left' (c.enc_len _ _)
      have t2 : (m.data ++ (zeros (padLen m.data.length) ++ rest)).take m.data.length = m.data := List.take_left' rfl
      have d2 : (m.data ++ (zeros (padLen m.data.length) ++ rest)).drop m.data.length
          = zeros (padLen m.data.length) ++ rest := List.drop_left' rfl
      have hrec : c.dec.recs (paxPayload c m.name) = [(pathKey, m.name)] := c.dec_encRecs _
      simp only [readMembers, hs, read_mk, t0, d0, classify_encPax c _ hvp, c.encPax_len, tn, dn, hpl, tp, hrec, applyPath_single,
        t1, d1, classify_enc c _ _ hval, c.enc_len, t2, d2, mkReader_pos, hH]
      have e1 : off + 512 + blockLen (paxPayload c m.name).length + 512 + m.data.length
          = off + (512 + blockLen (paxPayload c m.name).length + 512) + m.data.length := by omega
      have e2 : off + 512 + blockLen (paxPayload c m.name).length + 512 + blockLen m.data.length
          = off + (512 + blockLen (paxPayload c m.name).length + 512) + blockLen m.data.length := by omega
      rw [e1, e2]

/-- **peeling**: reading an archive that starts (at the current offset) with the blocks of `ms` extracts exactly `ms` and goes
    on with what follows — for every chunking policy `p` -/
theorem readMembers_peel (c : Codec) (p : Nat → Nat → Nat) (k : Nat) (tail : List Byte) :
    ∀ (ms : List Member) (off : Nat) (acc : List Member), (∀ m ∈ ms, MValid c m) →
      readMembers c.dec (ms.length + k) (mkReader (writeMembers c ms ++ tail) p off) off acc
        = readMembers c.dec k (mkReader tail p (off + (writeMembers c ms).length))
            (off + (writeMembers c ms).length) (acc ++ ms) := by
  intro ms
  induction ms with
  | nil => intro off acc _; simp [writeMembers]
  | cons m ms ih =>
    intro off acc hv
    have hfuel : (m :: ms).length + k = (ms.length + k) + 1 := by simp only [List.length_cons]; omega
    rw [hfuel, writeMembers_cons, List.append_assoc, readMembers_member c p m _ off _ acc (hv m (List.mem_cons_self ..))]
    rw [readMembers_seek _ _ _ _ _ _ _ (by unfold blockLen; omega)]
    have hd : (zeros (padLen m.data.length) ++ (writeMembers c ms ++ tail)).drop
        (off + headLen c m + blockLen m.data.length - (off + headLen c m + m.data.length)) = writeMembers c ms ++ tail := by
      have : off + headLen c m + blockLen m.data.length - (off + headLen c m + m.data.length) = padLen m.data.length := by
        unfold blockLen; omega
      rw [this]; exact List.drop_left' (zeros_length _)
    rw [hd, ih _ _ (fun x hx => hv x (List.mem_cons_of_mem _ hx))]
    have hl : (encMember c m ++ writeMembers c ms).length = headLen c m + blockLen m.data.length + (writeMembers c ms).length := by
      rw [List.length_append, encMember_length]; unfold blockLen; omega
    rw [hl]
    have e1 : off + headLen c m + blockLen m.data.length + (writeMembers c ms).length
        = off + (headLen c m + blockLen m.data.length + (writeMembers c ms).length) := by omega
    rw [e1]
    simp

/-- the result of reading an archive does not depend on the chunking policy -/
theorem readMembers_policy (dec : Dec) (p p' : Nat → Nat → Nat) :
    ∀ (fuel : Nat) (data : List Byte) (pos offset : Nat) (acc : List Member),
      readMembers dec fuel (mkReader data p pos) offset acc = readMembers dec fuel (mkReader data p' pos) offset acc := by
  intro fuel
  induction fuel with
  | zero => intro _ _ _ _; rfl
  | succ fuel ih =>
    intro data pos offset acc
    by_cases h : pos ≤ offset
    · simp only [readMembers, seek_mk _ _ _ _ h, read_mk, mkReader_pos]
      cases classify dec (List.take 512 (List.drop (offset - pos) data)) with
      | longname n =>
        simp only
        cases classify dec (List.take 512 (List.drop (blockLen n) (List.drop 512 (List.drop (offset - pos) data)))) <;> simp only [ih]
      | paxhdr n =>
        simp only
        cases classify dec (List.take 512 (List.drop (blockLen n) (List.drop 512 (List.drop (offset - pos) data)))) <;> simp only [ih]
      | _ => simp only [ih]
    · simp only [readMembers, seek_mk_back _ _ _ _ (Nat.lt_of_not_le h)]

/-- after the members: an exhausted stream ends the iteration silently (anywhere but at offset 0) -/
theorem readMembers_at_end (dec : Dec) (p : Nat → Nat → Nat) (k off : Nat) (acc : List Member) (h : off ≠ 0) :
    readMembers dec k (mkReader [] p off) off acc = .ok acc := by
  cases k with
  | zero => rfl
  | succ k =>
    have hs := seek_mk [] p off off (Nat.le_refl _)
    simp only [Nat.sub_self, List.drop_zero] at hs
    simp [readMembers, hs, read_mk, classify, h]

end SFV.Tar
