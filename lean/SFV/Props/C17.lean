import SFV.Lemmas.Retry
/-! # C17 — retries are bounded and exhausted retries fail the workflow

Theorems about the retry accounting model `SFV/Model/Retry.lean`; the bound test `Gen.retryAllowed` and the initial
version are regenerated from `failure_manager.py` / `core/recovery.py` on every run. Quantified over every sequence of
job starts and failures, every set of producers rolled back with a failing job, every `max_retries ≥ 1`.
Abstracted: what makes an execution fail and which producers are needed (C18), the recovery workflow itself (C16);
`execs j` counts executions *started*, as the `execution` table and our injector's log do. -/
namespace SFV.C17
open SFV SFV.Retry

/-- the guard and the initial version as the source has them -/
theorem gen_guard_is_strict (m v : Nat) : Gen.retryAllowed (some m) v = true ↔ v < m := by
  simp [Gen.retryAllowed]
theorem gen_guard_unbounded (v : Nat) : Gen.retryAllowed none v = true := rfl
theorem gen_initial_version : Gen.initialVersion = 1 := rfl

def Inv (max : Option Nat) (s : St) : Prop :=
  (∀ j, s.execs j ≤ s.version j) ∧
  (∀ m, max = some m → 1 ≤ m → ∀ j, s.version j ≤ m) ∧
  (s.failed = false → ∀ j, 0 < s.execs j → s.execs j = s.version j) ∧
  (∀ j, 1 ≤ s.version j) ∧ (∀ j, s.execs j = 0 → s.version j = 1)

theorem inv_init (max) : Inv max init := by
  refine ⟨?_, ?_, ?_, ?_, ?_⟩ <;> simp [init, gen_initial_version]

theorem inv_step {mgr max s a s'} (h : Inv max s) (hs : step mgr max s a = some s') : Inv max s' := by
  obtain ⟨h1, h2, h3, h4, h5⟩ := h
  cases a with
  | start j =>
    simp only [step] at hs
    split at hs
    · rename_i hg
      cases hs
      refine ⟨?_, ?_, ?_, ?_, ?_⟩ <;> dsimp only
      · intro k; simp only [bump]; split
        · rename_i e; subst e; have := h5 k hg.2; omega
        · exact h1 k
      · exact h2
      · intro hf k hk
        simp only [bump] at hk ⊢
        split
        · rename_i e; subst e; have := h5 k hg.2; omega
        · rename_i e; simp only [e, if_false] at hk; exact h3 hg.1 k hk
      · exact h4
      · intro k hk
        simp only [bump] at hk
        split at hk
        · omega
        · exact h5 k hk
    · cases hs
  | fail j needs =>
    simp only [step] at hs
    split at hs
    · rename_i hg
      obtain ⟨hnf, hj, hjn, hnd, hneeds⟩ := hg
      have hnodup : (needs ++ [j]).Nodup := by
        rw [List.nodup_append]; refine ⟨hnd, by simp, ?_⟩
        intro a ha b hb; simp at hb; subst hb; intro e; subst e; exact hjn ha
      cases mgr with
      | dummy =>
        cases hs
        exact ⟨h1, h2, by intro hf; simp at hf, h4, h5⟩
      | rollback =>
        simp only at hs
        split at hs
        · rename_i v hu
          cases hs
          obtain ⟨u1, u2⟩ := updateAll_ok hnodup hu
          have hstarted : ∀ k, k ∈ needs ++ [j] → 0 < s.execs k := by
            intro k hk; simp at hk; rcases hk with hk | rfl
            · exact hneeds k hk
            · exact hj
          refine ⟨?_, ?_, ?_, ?_, ?_⟩ <;> dsimp only
          · intro k
            by_cases hk : k ∈ needs ++ [j]
            · rw [foldl_bump_mem hnodup hk, (u1 k hk).2]; have := h1 k; omega
            · rw [foldl_bump_not_mem hk, u2 k hk]; exact h1 k
          · intro m hm h1m k
            by_cases hk : k ∈ needs ++ [j]
            · have := (u1 k hk).1
              rw [hm, gen_guard_is_strict] at this
              rw [(u1 k hk).2]; omega
            · rw [u2 k hk]; exact h2 m hm h1m k
          · intro _ k hk
            by_cases hkm : k ∈ needs ++ [j]
            · rw [foldl_bump_mem hnodup hkm, (u1 k hkm).2, h3 hnf k (hstarted k hkm)]
            · rw [foldl_bump_not_mem hkm] at hk ⊢
              rw [u2 k hkm]; exact h3 hnf k hk
          · intro k
            by_cases hk : k ∈ needs ++ [j]
            · rw [(u1 k hk).2]; omega
            · rw [u2 k hk]; exact h4 k
          · intro k hk
            by_cases hkm : k ∈ needs ++ [j]
            · rw [foldl_bump_mem hnodup hkm] at hk; omega
            · rw [foldl_bump_not_mem hkm] at hk; rw [u2 k hkm]; exact h5 k hk
        · rename_i v hu
          cases hs
          have hle := updateAll_le hnodup hu
          refine ⟨?_, ?_, by intro hf; simp at hf, ?_, ?_⟩ <;> dsimp only
          · intro k; have := (hle k).1; have := h1 k; omega
          · intro m hm h1m k
            obtain ⟨a, b, c⟩ := hle k
            by_cases hb : v k = s.version k + 1
            · have := c hb; rw [hm, gen_guard_is_strict] at this; omega
            · have := h2 m hm h1m k; omega
          · intro k; have := (hle k).1; have := h4 k; omega
          · intro k hk
            have hs0 := h5 k hk
            -- a job that never started is in no request list (`needs` and `j` have started)
            have hnot : k ∉ needs ++ [j] := by
              intro hm; simp at hm
              rcases hm with hm | rfl
              · have := hneeds k hm; omega
              · omega
            have : ∀ {l : List Nat} {w w' : Nat → Nat} {b : Bool}, k ∉ l → updateAll max l w = (w', b) → w' k = w k := by
              intro l
              induction l with
              | nil => intro w w' b _ h; simp [updateAll] at h; obtain ⟨rfl, _⟩ := h; rfl
              | cons c l ih2 =>
                intro w w' b hk h
                simp only [updateAll] at h
                split at h
                · rw [ih2 (by intro hh; exact hk (List.mem_cons_of_mem _ hh)) h]
                  have : k ≠ c := by intro e; exact hk (e ▸ List.mem_cons_self ..)
                  simp [bump, this]
                · obtain ⟨rfl, _⟩ := Prod.mk.inj h; rfl
            rw [this hnot hu]; exact hs0
    · cases hs

theorem inv_reachable {mgr max s} (h : Reachable mgr max s) : Inv max s := by
  induction h with
  | init => exact inv_init max
  | step _ hs ih => exact inv_step ih hs

/-- **no job is executed more times than the retry limit** (any failure sequence, any producers rolled back) -/
theorem executions_le_max {mgr m s} (h : Reachable mgr (some m) s) (hm : 1 ≤ m) (j : Nat) : s.execs j ≤ m := by
  obtain ⟨h1, h2, _⟩ := inv_reachable h
  have := h1 j; have := h2 m rfl hm j; omega

/-- **executions = version** while the workflow has not failed: every re-execution was preceded by exactly one
    successful `_update_request` for the job -/
theorem version_counts_executions {mgr max s} (h : Reachable mgr max s) (hf : s.failed = false) (j : Nat)
    (hj : 0 < s.execs j) : s.execs j = s.version j :=
  (inv_reachable h).2.2.1 hf j hj

/-- **exhausted retries raise**: a job whose version has reached the limit fails the workflow at its next failure — and a
    failed workflow takes no further step (no loop, no further `_do_handle_failure`) -/
theorem exhausted_raises {m : Nat} (s s' : St) (j : Nat) (needs : List Nat) (hv : ¬ s.version j < m)
    (hs : step .rollback (some m) s (.fail j needs) = some s') :
    s'.failed = true ∧ ∀ a, step .rollback (some m) s' a = none := by
  have key : s'.failed = true := by
    simp only [step] at hs
    split at hs
    · rename_i hg
      split at hs
      · rename_i v hu
        exfalso
        have hnodup : (needs ++ [j]).Nodup := by
          rw [List.nodup_append]; refine ⟨hg.2.2.2.1, by simp, ?_⟩
          intro a ha b hb; simp at hb; subst hb; intro e; subst e; exact hg.2.2.1 ha
        have := ((updateAll_ok hnodup hu).1 j (by simp)).1
        rw [gen_guard_is_strict] at this
        exact hv this
      · cases hs; rfl
    · cases hs
  refine ⟨key, fun a => ?_⟩
  cases a <;> simp [step, key]

/-- with `max_retries = None` the bound is vacuous: no failure ever fails the workflow -/
theorem unbounded_when_none (s s' : St) (j : Nat) (needs : List Nat)
    (hs : step .rollback none s (.fail j needs) = some s') : s'.failed = s.failed := by
  simp only [step] at hs
  split at hs
  · have : ∀ (l : List Nat) (v : Nat → Nat), (updateAll none l v).2 = true := by
      intro l; induction l with
      | nil => intro v; rfl
      | cons a l ih => intro v; simp [updateAll, gen_guard_unbounded, ih]
    split at hs
    · cases hs; rfl
    · rename_i v hu; have := this (needs ++ [j]) s.version; rw [hu] at this; cases this
  · cases hs

/-- without a rollback failure manager the first job failure fails the workflow -/
theorem dummy_first_failure_fails (max : Option Nat) (s s' : St) (j : Nat) (needs : List Nat)
    (hs : step .dummy max s (.fail j needs) = some s') : s'.failed = true := by
  simp only [step] at hs
  split at hs
  · cases hs; rfl
  · cases hs

/-! ### non-vacuity -/
/-- limit 3: job 2 fails twice (dragging producer 1 along the first time) and completes; a third failure exhausts it -/
example : ∃ s, Reachable .rollback (some 3) s ∧ s.execs 2 = 3 ∧ s.execs 1 = 2 ∧ s.failed = false := by
  refine ⟨(runActs .rollback (some 3) init [.start 1, .start 2, .fail 2 [1], .fail 2 []]).get (by decide), ?_, ?_, ?_, ?_⟩
  · have : ∀ (as : List Act) (s s' : St), Reachable .rollback (some 3) s → runActs .rollback (some 3) s as = some s' →
        Reachable .rollback (some 3) s' := by
      intro as; induction as with
      | nil => intro s s' h e; simp [runActs] at e; exact e ▸ h
      | cons a as ih =>
        intro s s' h e; simp only [runActs] at e
        split at e
        · rename_i s1 hs1; exact ih s1 s' (Reachable.step h hs1) e
        · cases e
    exact this _ init _ Reachable.init (Option.some_get _).symm
  all_goals decide

end SFV.C17
