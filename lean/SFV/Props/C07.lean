import SFV.Lemmas.Prov
/-! # C07 — recorded provenance is complete and acyclic (persistence log)

Theorems about every history of `token.save` / `_persist_token` calls (model `SFV/Model/Prov.lean`). The edges each
step class records are modelled in `SFV/Model/Net.lean` (`nodeProv`, `prov`) and treated in `SFV/Props/C07Net.lean`. -/
namespace SFV.C07
open SFV.Prov

/-- **Ids increase along every provenance row**, in every reachable database: the dependee was handed out earlier
than the depender, and both ids exist. -/
theorem prov_ids_increase (ops : List Op) (db : DB) (h : run DB.empty ops = some db) :
    ∀ a b, (a, b) ∈ db.edges → 0 < a ∧ a < b ∧ b < db.next :=
  inv_run inv_empty h

/-- **Every dependee is persisted before its (transitive) dependers**: ids increase along every path. -/
theorem dependee_persisted_before (ops : List Op) (db : DB) (h : run DB.empty ops = some db) (a b : Nat)
    (p : Path db.edges a b) : a < b :=
  path_lt (fun a b hab => (inv_run inv_empty h a b hab).2.1) p

/-- **The provenance relation is acyclic.** -/
theorem prov_acyclic (ops : List Op) (db : DB) (h : run DB.empty ops = some db) (a : Nat) : ¬ Path db.edges a a := by
  intro p
  have := dependee_persisted_before ops db h a a p
  omega

/-- **One `_persist_token` records exactly its inputs**: the token gets the fresh id `db.next`, the new rows are
`(i, db.next)` for the given input ids and nothing else changes; in a reachable database the dependees of the new
token are exactly the inputs. -/
theorem prov_edges_exact (ops : List Op) (db db' : DB) (ins : List Nat) (h : run DB.empty ops = some db)
    (hs : step db (.persist ins) = some db') :
    db'.next = db.next + 1 ∧ db'.edges = db.edges ++ ins.map (fun i => (i, db.next)) ∧
    ∀ a, (a, db.next) ∈ db'.edges ↔ a ∈ ins := by
  refine ⟨next_mono_step hs, edges_step_persist hs, ?_⟩
  intro a
  rw [edges_step_persist hs]
  constructor
  · intro hm
    rcases List.mem_append.mp hm with h1 | h2
    · have := (inv_run inv_empty h a db.next h1).2.2; omega
    · obtain ⟨i, hi, heq⟩ := List.mem_map.mp h2
      have : i = a := congrArg Prod.fst heq
      exact this ▸ hi
  · intro ha
    exact List.mem_append_right _ (List.mem_map.mpr ⟨a, ha, rfl⟩)

/-- a `_persist_token` whose inputs contain an id that was never handed out raises (no row is written) -/
theorem persist_unknown_id_raises (db : DB) (ins : List Nat) (i : Nat) (hi : i ∈ ins) (hbad : db.next ≤ i) :
    step db (.persist ins) = none := by
  simp only [step]
  rw [if_neg]
  intro hall
  have := List.all_eq_true.mp hall i hi
  simp only [decide_eq_true_eq] at this
  omega

/-- saving a token without inputs (sources, list elements, forced size tokens) adds no row -/
theorem save_adds_no_edge (db db' : DB) (hs : step db .save = some db') : db'.edges = db.edges := by
  simp only [step, Option.some.injEq] at hs; subst hs; rfl

/-- a concrete history: two sources, a transformation of both, a scatter of the result into two elements and a size -/
example : (run DB.empty [.save, .save, .persist [1, 2], .persist [3], .persist [3], .persist [3]]).map (·.edges)
    = some [(1, 3), (2, 3), (3, 4), (3, 5), (3, 6)] := by decide

example : step ⟨3, []⟩ (.persist [1, 5]) = none := by decide

end SFV.C07
