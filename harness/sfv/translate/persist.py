"""Extractor: the `_save_additional_params` / `_load` pairs of StreamFlow's persistable classes -> SFV/Gen/Persist.lean

For every class of `streamflow/**/*.py` that defines one of the two methods it reads, with `ast`:
* the top-level keys of the dict `_save_additional_params` returns (dict literals, `super()… | {…}`, `{**…, …}`, a returned name
  assigned/updated in the body) and whether it extends `super()._save_additional_params`;
* the keys `_load` reads: `row["params"]["k"]`, `params["k"]` with `params = row["params"]` for entities loaded from a database
  row, `row["k"]` for entities whose `load` passes `row["params"]` down (combinators, commands, processors, …); `.get("k")` reads
  are optional; whether it calls `super()._load`;
* the base classes (by name), to resolve inherited halves of a pair.
"""
from __future__ import annotations

import ast
import os

from sfv.translate.expr import TranslateError

TARGET = "SFV/Gen/Persist.lean"
DB_COLUMNS = {"id", "name", "workflow", "status", "type", "params", "tag", "value", "port", "recoverable", "deployment", "locations",
              "service", "workdir", "config", "external", "lazy", "scheduling_policy", "wraps", "start_time", "end_time"}


def _const_key(node):
    return node.value if isinstance(node, ast.Constant) and isinstance(node.value, str) else None


class _SaveVisitor:
    def __init__(self, fn):
        self.fn = fn
        self.keys: list[str] = []
        self.super = False
        self.unknown: list[str] = []
        self.seen_names: set[str] = set()

    def collect(self, e):
        if isinstance(e, ast.Dict):
            for k, v in zip(e.keys, e.values):
                if k is None:
                    self.collect(v)
                elif _const_key(k) is not None:
                    self.keys.append(_const_key(k))
                else:
                    self.unknown.append(ast.unparse(k))
        elif isinstance(e, ast.BinOp) and isinstance(e.op, ast.BitOr):
            self.collect(e.left)
            self.collect(e.right)
        elif isinstance(e, ast.Await):
            self.collect(e.value)
        elif isinstance(e, ast.Call):
            f = ast.unparse(e.func)
            if f.endswith("cast") and len(e.args) == 2:
                self.collect(e.args[1])
            elif f == "super()._save_additional_params":
                self.super = True
            elif f == "dict" and not e.args:
                for kw in e.keywords:
                    if kw.arg:
                        self.keys.append(kw.arg)
            else:
                self.unknown.append(ast.unparse(e)[:60])
        elif isinstance(e, ast.Name):
            if e.id in self.seen_names:
                return
            self.seen_names.add(e.id)
            for n in ast.walk(self.fn):
                if isinstance(n, ast.Assign) and any(isinstance(t, ast.Name) and t.id == e.id for t in n.targets):
                    self.collect(n.value)
                if isinstance(n, ast.AnnAssign) and isinstance(n.target, ast.Name) and n.target.id == e.id and n.value is not None:
                    self.collect(n.value)
                if isinstance(n, (ast.Assign, ast.AugAssign)):
                    for t in (n.targets if isinstance(n, ast.Assign) else [n.target]):
                        if isinstance(t, ast.Subscript) and isinstance(t.value, ast.Name) and t.value.id == e.id:
                            k = _const_key(t.slice)
                            (self.keys if k is not None else self.unknown).append(k if k is not None else ast.unparse(t.slice))
                    if isinstance(n, ast.AugAssign) and isinstance(n.target, ast.Name) and n.target.id == e.id:
                        self.collect(n.value)
                if isinstance(n, ast.Call) and isinstance(n.func, ast.Attribute) and n.func.attr == "update" and isinstance(
                        n.func.value, ast.Name) and n.func.value.id == e.id and n.args:
                    self.collect(n.args[0])
        elif isinstance(e, ast.IfExp):
            self.collect(e.body)
            self.collect(e.orelse)
        else:
            self.unknown.append(ast.unparse(e)[:60])


def _save_info(fn):
    v = _SaveVisitor(fn)
    rets = [n for n in ast.walk(fn) if isinstance(n, ast.Return) and n.value is not None]
    if not rets:
        raise TranslateError(f"{fn.name}: no return value")
    for r in rets:
        v.collect(r.value)
    return list(dict.fromkeys(v.keys)), v.super, v.unknown


def _load_info(fn, params_passed: bool):
    """keys read by a `_load`; `params_passed` = the `row` argument is already the params dict"""
    argnames = [a.arg for a in fn.args.args]
    rowname = "row" if "row" in argnames else (argnames[-2] if len(argnames) >= 3 else "row")
    param_names = set()
    for n in ast.walk(fn):
        if isinstance(n, ast.Assign) and ast.unparse(n.value) in (f"{rowname}['params']", f'{rowname}["params"]'):
            for t in n.targets:
                if isinstance(t, ast.Name):
                    param_names.add(t.id)
    req, opt = [], []
    for n in ast.walk(fn):
        if isinstance(n, ast.Subscript) and _const_key(n.slice) is not None:
            base = ast.unparse(n.value)
            k = _const_key(n.slice)
            if base in (f"{rowname}['params']",) or base in param_names:
                req.append(k)
            elif base == rowname and params_passed:
                req.append(k)
        if isinstance(n, ast.Call) and isinstance(n.func, ast.Attribute) and n.func.attr == "get" and n.args and _const_key(n.args[0]):
            base = ast.unparse(n.func.value)
            if base in (f"{rowname}['params']",) or base in param_names or (base == rowname and params_passed):
                opt.append(_const_key(n.args[0]))
    sup = any(isinstance(n, ast.Call) and ast.unparse(n.func) in ("super()._load", "super(cls, cls)._load") for n in ast.walk(fn))
    # keys written into the dict before use are not reads of stored keys
    return list(dict.fromkeys(req)), list(dict.fromkeys(o for o in opt if o not in req)), sup


def extract(repo: str) -> list[dict]:
    classes: dict[str, dict] = {}
    root = os.path.join(repo, "streamflow")
    for base, _, files in os.walk(root):
        for fn in sorted(files):
            if not fn.endswith(".py"):
                continue
            path = os.path.join(base, fn)
            try:
                tree = ast.parse(open(path).read(), filename=path)
            except SyntaxError as e:
                raise TranslateError(f"cannot parse {path}: {e}") from e
            mod = os.path.relpath(path, repo)[:-3].replace("/", ".")
            for node in tree.body:
                if not isinstance(node, ast.ClassDef):
                    continue
                meths = {m.name: m for m in node.body if isinstance(m, (ast.FunctionDef, ast.AsyncFunctionDef))}
                for half in ("_save_additional_params", "_load"):
                    m = meths.get(half)
                    if m is not None and not any(isinstance(x, ast.Return) and x.value is not None for x in ast.walk(m)):
                        del meths[half]          # abstract declaration (`...`)
                classes.setdefault(node.name, {
                    "name": node.name, "module": mod, "bases": [ast.unparse(b).split(".")[-1].split("[")[0] for b in node.bases],
                    "save": meths.get("_save_additional_params"), "load": meths.get("_load"), "loadcall": meths.get("load")})
    # does `load` hand the params dict down?  (nearest ancestor defining `load` with a `._load(` call)
    def params_passed(name, depth=0):
        c = classes.get(name)
        if c is None or depth > 12:
            return None
        lc = c["loadcall"]
        if lc is not None:
            for n in ast.walk(lc):
                if isinstance(n, ast.Call) and isinstance(n.func, ast.Attribute) and n.func.attr == "_load" and n.args:
                    first = ast.unparse(n.args[0])
                    if "['params']" in first:
                        return True
                    return False
        for b in c["bases"]:
            r = params_passed(b, depth + 1)
            if r is not None:
                return r
        return None

    out = []
    for name, c in sorted(classes.items()):
        if c["save"] is None and c["load"] is None:
            continue
        pp = params_passed(name)
        rec = {"name": name, "module": c["module"], "bases": [b for b in c["bases"] if b in classes],
               "defines_save": c["save"] is not None, "saved": [], "saves_super": False, "save_unknown": [],
               "defines_load": c["load"] is not None, "read": [], "read_optional": [], "loads_super": False,
               "params_passed": bool(pp)}
        if c["save"] is not None:
            rec["saved"], rec["saves_super"], rec["save_unknown"] = _save_info(c["save"])
        if c["load"] is not None:
            rec["read"], rec["read_optional"], rec["loads_super"] = _load_info(c["load"], bool(pp))
            if not pp:
                rec["read"] = [k for k in rec["read"]]
        out.append(rec)
    # bases that matter must be in the table too (a class inheriting both halves is not listed: nothing to check)
    names = {r["name"] for r in out}
    for r in out:
        r["bases"] = [b for b in r["bases"] if b in names] or [bb for b in r["bases"] for bb in _ancestors(classes, b) if bb in names][:1]
    if len(out) < 20:
        raise TranslateError(f"only {len(out)} persistable classes found")
    return out


def _ancestors(classes, name, depth=0):
    c = classes.get(name)
    if c is None or depth > 12:
        return []
    res = []
    for b in c["bases"]:
        res.append(b)
        res += _ancestors(classes, b, depth + 1)
    return res


def step_save_shape(repo: str) -> dict:
    """`Step.save` / `Token.save` (streamflow/core/workflow.py): are the dependency rows written on EVERY save (outside the
    `if self.persistent_id is None` branch)?  does a second concurrent `Token.save` wait for the first one?"""
    path = os.path.join(repo, "streamflow/core/workflow.py")
    tree = ast.parse(open(path).read(), filename=path)

    def method(cls, name):
        for n in tree.body:
            if isinstance(n, ast.ClassDef) and n.name == cls:
                for m in n.body:
                    if isinstance(m, ast.AsyncFunctionDef) and m.name == name:
                        return m
        raise TranslateError(f"{cls}.{name} not found")

    save = method("Step", "save")
    guarded = []

    def walk(node, under_first_insert):
        for ch in ast.iter_child_nodes(node):
            u = under_first_insert
            if isinstance(ch, ast.If) and "persistent_id is None" in ast.unparse(ch.test):
                for b in ch.body:
                    walk_stmt(b, True)
                for b in ch.orelse:
                    walk_stmt(b, u)
                continue
            walk_stmt(ch, u)

    def walk_stmt(node, u):
        if isinstance(node, ast.Call) and isinstance(node.func, ast.Attribute) and node.func.attr == "add_dependency":
            guarded.append(u)
        walk(node, u)

    walk(save, False)
    if not guarded:
        raise TranslateError("Step.save: no add_dependency call found")
    tsave = method("Token", "save")
    src = ast.unparse(tsave)
    waits = "_saving.wait()" in src and "self._saving is not None" in src
    return {"deps_always": not any(guarded), "token_save_waits": waits}


def generate(repo: str) -> tuple[str, str]:
    recs = extract(repo)
    shape = step_save_shape(repo)

    def ls(xs):
        return "[" + ", ".join(f'"{x}"' for x in xs) + "]"

    def b(x):
        return "true" if x else "false"

    rows = ",\n   ".join(
        f'{{ name := "{r["name"]}", bases := {ls(r["bases"])}, definesSave := {b(r["defines_save"])}, saved := {ls(r["saved"])}, '
        f'savesSuper := {b(r["saves_super"])}, saveOpaque := {b(bool(r["save_unknown"]))}, definesLoad := {b(r["defines_load"])}, '
        f'read := {ls(r["read"])}, loadsSuper := {b(r["loads_super"])} }}' for r in recs)
    text = f"""import SFV.Model.PersistSpec
/-! GENERATED by harness/sfv/translate/persist.py from streamflow/**/*.py — do not edit.
    {len(recs)} classes defining `_save_additional_params` and/or `_load`. -/
namespace SFV.Gen
open SFV.Persist

def persistClasses : List PClass :=
  [{rows}]

/-- `Step.save`: the `add_dependency` rows are written on every save, not only when the step row is first inserted -/
def stepSaveDepsAlways : Bool := {b(shape["deps_always"])}
/-- `Token.save`: a save that finds another save of the same instance in progress waits for it (`await self._saving.wait()`) -/
def tokenSaveWaits : Bool := {b(shape["token_save_waits"])}

end SFV.Gen
"""
    return TARGET, text
