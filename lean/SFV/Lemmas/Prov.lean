import SFV.Model.Prov
namespace SFV.Prov

/-- every row goes from an id handed out earlier to a later one, below `next` -/
def Inv (db : DB) : Prop := ∀ a b, (a, b) ∈ db.edges → 0 < a ∧ a < b ∧ b < db.next

theorem inv_empty : Inv DB.empty := by
  intro a b h; simp [DB.empty] at h

theorem inv_step {db db' : DB} {op : Op} (hI : Inv db) (hs : step db op = some db') : Inv db' := by
  cases op with
  | save =>
    simp only [step, Option.some.injEq] at hs
    subst hs
    intro a b h
    obtain ⟨h1, h2, h3⟩ := hI a b h
    exact ⟨h1, h2, by simp only; omega⟩
  | persist ins =>
    simp only [step] at hs
    split at hs
    · rename_i hall
      simp only [Option.some.injEq] at hs
      subst hs
      intro a b h
      simp only [List.mem_append, List.mem_map] at h
      rcases h with h | ⟨i, hi, heq⟩
      · obtain ⟨h1, h2, h3⟩ := hI a b h
        exact ⟨h1, h2, by simp only; omega⟩
      · simp only [Prod.mk.injEq] at heq
        obtain ⟨rfl, rfl⟩ := heq
        have := List.all_eq_true.mp hall i hi
        simp only [decide_eq_true_eq] at this
        exact ⟨this.1, this.2, by simp only; omega⟩
    · cases hs

theorem inv_run {db db' : DB} {ops : List Op} (hI : Inv db) (hr : run db ops = some db') : Inv db' := by
  induction ops generalizing db with
  | nil => simp only [run, Option.some.injEq] at hr; subst hr; exact hI
  | cons op ops ih =>
    simp only [run] at hr
    split at hr
    · rename_i db1 h1; exact ih (inv_step hI h1) hr
    · cases hr

theorem next_mono_step {db db' : DB} {op : Op} (hs : step db op = some db') : db'.next = db.next + 1 := by
  cases op with
  | save => simp only [step, Option.some.injEq] at hs; subst hs; rfl
  | persist ins =>
    simp only [step] at hs
    split at hs
    · simp only [Option.some.injEq] at hs; subst hs; rfl
    · cases hs

theorem edges_step_persist {db db' : DB} {ins : List Nat} (hs : step db (.persist ins) = some db') :
    db'.edges = db.edges ++ ins.map (fun i => (i, db.next)) := by
  simp only [step] at hs
  split at hs
  · simp only [Option.some.injEq] at hs; subst hs; rfl
  · cases hs

theorem path_lt {edges : List (Nat × Nat)} (h : ∀ a b, (a, b) ∈ edges → a < b) {a b : Nat}
    (p : Path edges a b) : a < b := by
  induction p with
  | edge he => exact h _ _ he
  | trans _ _ ih1 ih2 => omega

end SFV.Prov
