import SFV.Lemmas.Refine
import SFV.Lemmas.Slots
/-! Whole-run link between the Hardware-level scheduler model (`Sched`) and the slot bookkeeping (`Slots`) on flat
configurations whose available locations are slot-only (no hardware information): every non-raising step of `Sched`
is a step of `Slots` under the relation `RelSl`; hence the number of fireable / running jobs placed on a location
never exceeds its slots in the Hardware-level model either. -/
namespace SFV.RefineSlots
open SFV.HW SFV.Sched SFV.Gen.Sched SFV.Refine

/-- static data of a configuration: the deployment of every location name, the slots, step and tag of every job -/
structure Cfg where
  depOf : Nat → Nat
  slots : Nat → Nat
  stepOf : Nat → Nat
  tagOf : Nat → Tag

def Cfg.toSlots (g : Cfg) : Slots.Cfg :=
  { slots := g.slots, stepOf := g.stepOf, tagCmp := fun x j => compareTags (g.tagOf x) (g.tagOf j) }

def namesOf (sel : List Stack) : List Nat := sel.filterMap (fun st => st.head?.map (·.name))

def listedOf (g : Cfg) (s : St) (ℓ : Nat) : List Nat := (assocGet s.locJobs (g.depOf ℓ, ℓ)).getD []

structure RelSl (g : Cfg) (s : St) (T : Slots.St) : Prop where
  ids : ∀ j, j ∈ T.ids ↔ (assocGet s.jobs j).isSome
  jobs : ∀ j a, assocGet s.jobs j = some a →
    T.status j = a.status ∧ T.placed j = namesOf a.locations ∧ T.tops j = namesOf a.locations ∧
    a.step = g.stepOf j ∧ a.tag = g.tagOf j ∧ (namesOf a.locations).Nodup ∧
    ∀ st ∈ a.locations, ∃ lvl, st = [lvl] ∧ lvl.dep = g.depOf lvl.name
  listed : ∀ ℓ, T.listed ℓ = listedOf g s ℓ
  known : ∀ ℓ, ∀ x ∈ listedOf g s ℓ, (assocGet s.jobs x).isSome

theorem relSl_init (g : Cfg) : RelSl g {} Slots.init :=
  ⟨fun j => by simp [Slots.init, assocGet], fun j a h => by simp [assocGet] at h,
   fun ℓ => by simp [Slots.init, listedOf, assocGet], fun ℓ x hx => by simp [listedOf, assocGet] at hx⟩

/-! ### the job lists after `_allocate_job` -/

theorem allocLevels_locJobs (reqs : List (LocKey × Hardware)) (job : Nat) (lvl : Level) (s s' : St)
    (h : allocLevels reqs job [lvl] s = (s', none)) :
    s'.jobs = s.jobs ∧ s'.locJobs = appendJob s.locJobs (lvl.dep, lvl.name) job := by
  simp only [allocLevels] at h
  cases hq : assocGet reqs (lvl.dep, lvl.name) with
  | none => simp only [hq, Prod.mk.injEq] at h; obtain ⟨rfl, _⟩ := h; exact ⟨rfl, rfl⟩
  | some hq' =>
    simp only [hq] at h
    cases hc : assocGet s.reserved lvl.name with
    | none =>
      simp only [hc] at h
      cases hn : hq'.normalized with
      | error e => simp [hn] at h
      | ok r => simp only [hn, Prod.mk.injEq] at h; obtain ⟨rfl, _⟩ := h; exact ⟨rfl, rfl⟩
    | some cur =>
      simp only [hc] at h
      cases ha : cur.add hq' with
      | error e => simp [ha] at h
      | ok r => simp only [ha, Prod.mk.injEq] at h; obtain ⟨rfl, _⟩ := h; exact ⟨rfl, rfl⟩

theorem listedOf_append (g : Cfg) (s : St) (lj : List (LocKey × List Nat)) (lvl : Level) (job : Nat)
    (hdep : lvl.dep = g.depOf lvl.name) (hs : lj = appendJob s.locJobs (lvl.dep, lvl.name) job) (s' : St) (hs' : s'.locJobs = lj)
    (ℓ : Nat) : listedOf g s' ℓ = if ℓ = lvl.name then listedOf g s ℓ ++ [job] else listedOf g s ℓ := by
  simp only [listedOf, hs', hs, appendJob]
  by_cases e : ℓ = lvl.name
  · subst e; simp [hdep, get_set_eq]
  · have : (g.depOf ℓ, ℓ) ≠ (lvl.dep, lvl.name) := fun h => e (Prod.mk.inj h).2
    simp [e, get_set_ne _ _ _ _ this]

/-- effect of `_allocate_job` on the job lists of flat selected locations with distinct names -/
theorem allocStacks_listed (g : Cfg) (reqs : List (LocKey × Hardware)) (job : Nat) (sel : List Stack) (s s' : St)
    (hflat : ∀ st ∈ sel, ∃ lvl, st = [lvl] ∧ lvl.dep = g.depOf lvl.name)
    (hres : allocStacks reqs job sel s = (s', none)) :
    s'.jobs = s.jobs ∧
    ∀ ℓ, listedOf g s' ℓ = listedOf g s ℓ ++ List.replicate ((namesOf sel).count ℓ) job := by
  induction sel generalizing s with
  | nil =>
    simp only [allocStacks, Prod.mk.injEq] at hres
    obtain ⟨rfl, _⟩ := hres
    exact ⟨rfl, fun ℓ => by simp [namesOf]⟩
  | cons st rest ih =>
    obtain ⟨lvl, rfl, hdep⟩ := hflat _ (List.mem_cons_self ..)
    simp only [allocStacks] at hres
    cases hl : allocLevels reqs job [lvl] s with
    | mk s1 err =>
      simp only [hl] at hres
      cases err with
      | some e => simp at hres
      | none =>
        simp only at hres
        obtain ⟨j1, l1⟩ := allocLevels_locJobs reqs job lvl s s1 hl
        obtain ⟨j2, l2⟩ := ih s1 (fun x hx => hflat x (List.mem_cons_of_mem _ hx)) hres
        refine ⟨j2.trans j1, fun ℓ => ?_⟩
        rw [l2 ℓ, listedOf_append g s _ lvl job hdep rfl s1 l1 ℓ]
        simp only [namesOf, List.filterMap_cons, List.head?_cons, Option.map_some, List.count_cons]
        by_cases e : ℓ = lvl.name
        · subst e; simp [List.append_assoc]
          rw [List.replicate_succ]
        · have hne : lvl.name ≠ ℓ := fun h => e h.symm
          simp [e, hne]

theorem count_nodup (l : List Nat) (a : Nat) (h : l.Nodup) : l.count a = if a ∈ l then 1 else 0 := by
  induction l with
  | nil => simp
  | cons x xs ih =>
    have hn := List.nodup_cons.mp h
    by_cases e : x = a
    · subst e; simp [List.count_cons, ih hn.2, hn.1]
    · have e' : a ≠ x := fun h => e h.symm
      simp [List.count_cons, ih hn.2, e, e']

/-! ### releases do not touch the job table or the job lists -/

theorem freeLevel_frame (env : Env) (hw : Hardware) (tops : List Level) (s s' : St) (o : Option SErr)
    (h : freeLevel env hw tops s = (s', o)) : s'.jobs = s.jobs ∧ s'.locJobs = s.locJobs := by
  induction tops generalizing s with
  | nil => simp only [freeLevel, Prod.mk.injEq] at h; obtain ⟨rfl, _⟩ := h; exact ⟨rfl, rfl⟩
  | cons lvl rest ih =>
    simp only [freeLevel] at h
    cases hc : assocGet s.reserved lvl.name with
    | none => simp only [hc] at h; exact ih s h
    | some cur =>
      simp only [hc] at h
      cases hu : (if probeFails env lvl.dep hw.storage then Except.ok [] else usageDisks env lvl.dep hw.storage) with
      | error e => simp only [hu, Prod.mk.injEq] at h; obtain ⟨rfl, _⟩ := h; exact ⟨rfl, rfl⟩
      | ok ust =>
        simp only [hu] at h
        cases hr : (cur.sub hw >>= fun d => d.add (mkHardware 0 0 ust)) with
        | error e => simp only [hr, Prod.mk.injEq] at h; obtain ⟨rfl, _⟩ := h; exact ⟨rfl, rfl⟩
        | ok r =>
          simp only [hr] at h
          obtain ⟨h1, h2⟩ := ih _ h
          exact ⟨h1, h2⟩

theorem freeLoop_frame (env : Env) (fuel : Nat) (stacks : List Stack) (hw : Hardware) (s s' : St) (o : Option SErr)
    (h : freeLoop env fuel stacks hw s = (s', o)) : s'.jobs = s.jobs ∧ s'.locJobs = s.locJobs := by
  induction fuel generalizing stacks hw s with
  | zero => simp only [freeLoop, Prod.mk.injEq] at h; obtain ⟨rfl, _⟩ := h; exact ⟨rfl, rfl⟩
  | succ fuel ih =>
    simp only [freeLoop] at h
    split at h
    · simp only [Prod.mk.injEq] at h; obtain ⟨rfl, _⟩ := h; exact ⟨rfl, rfl⟩
    · split at h
      · simp only [Prod.mk.injEq] at h; obtain ⟨rfl, _⟩ := h; exact ⟨rfl, rfl⟩
      · rename_i hw1 _
        cases hf : freeLevel env hw1 (stacks.filterMap List.head?) s with
        | mk s1 err =>
          obtain ⟨j1, l1⟩ := freeLevel_frame env hw1 _ s s1 err hf
          simp only [hf] at h
          cases err with
          | some e => simp only [Prod.mk.injEq] at h; obtain ⟨rfl, _⟩ := h; exact ⟨j1, l1⟩
          | none =>
            simp only at h
            split at h
            · simp only [Prod.mk.injEq] at h; obtain ⟨rfl, _⟩ := h; exact ⟨j1, l1⟩
            · split at h
              · simp only [Prod.mk.injEq] at h; obtain ⟨rfl, _⟩ := h; exact ⟨j1, l1⟩
              · obtain ⟨j2, l2⟩ := ih _ _ s1 h
                exact ⟨j2.trans j1, l2.trans l1⟩

/-! ### un-listing on ROLLBACK -/

theorem unlist_listed (g : Cfg) (job : Nat) (tops : List Stack) (lj : List (LocKey × List Nat))
    (hflat : ∀ st ∈ tops, ∃ lvl, st = [lvl] ∧ lvl.dep = g.depOf lvl.name) (hnd : (namesOf tops).Nodup) (ℓ : Nat) :
    (assocGet (unlist job tops lj) (g.depOf ℓ, ℓ)).getD [] =
      if ℓ ∈ namesOf tops then ((assocGet lj (g.depOf ℓ, ℓ)).getD []).erase job else (assocGet lj (g.depOf ℓ, ℓ)).getD [] := by
  induction tops generalizing lj with
  | nil => simp [unlist, namesOf]
  | cons st rest ih =>
    obtain ⟨lvl, rfl, hdep⟩ := hflat _ (List.mem_cons_self ..)
    have hnd' : lvl.name ∉ namesOf rest ∧ (namesOf rest).Nodup := by
      simpa [namesOf] using hnd
    have hrest := fun lj' => ih lj' (fun x hx => hflat x (List.mem_cons_of_mem _ hx)) hnd'.2
    simp only [unlist]
    have hmem : ℓ ∈ namesOf ([lvl] :: rest) ↔ ℓ = lvl.name ∨ ℓ ∈ namesOf rest := by simp [namesOf, eq_comm]
    cases hk : assocGet lj (lvl.dep, lvl.name) with
    | none =>
      simp only [hk]
      rw [hrest lj]
      by_cases e : ℓ = lvl.name
      · subst e
        have : assocGet lj (g.depOf lvl.name, lvl.name) = none := by rw [← hdep]; exact hk
        simp [hmem, hnd'.1, this]
      · simp [hmem, e]
    | some js =>
      simp only [hk]
      rw [hrest]
      by_cases e : ℓ = lvl.name
      · subst e
        have hk' : assocGet lj (g.depOf lvl.name, lvl.name) = some js := by rw [← hdep]; exact hk
        simp [hmem, hnd'.1, hdep, get_set_eq, hk']
      · have hne : (g.depOf ℓ, ℓ) ≠ (lvl.dep, lvl.name) := fun h => e (Prod.mk.inj h).2
        simp [hmem, e, get_set_ne _ _ _ _ hne]

/-- the `_get_running_jobs` count of the model is the count of the slot bookkeeping -/
theorem runningJobs_eq (g : Cfg) (s : St) (T : Slots.St) (hR : RelSl g s T) (job : Nat) (lvl : Level)
    (hdep : lvl.dep = g.depOf lvl.name) :
    (runningJobs s (g.stepOf job) (g.tagOf job) lvl).length = Slots.runningCount g.toSlots T job lvl.name := by
  simp only [runningJobs, Slots.runningCount, hR.listed lvl.name, listedOf, hdep]
  cases hl : assocGet s.locJobs (g.depOf lvl.name, lvl.name) with
  | none => simp
  | some js =>
    simp only [Option.getD_some]
    congr 1
    apply List.filter_congr
    intro x hx
    have hknown := hR.known lvl.name x (by simp [listedOf, hl, hx])
    cases ha : assocGet s.jobs x with
    | none => simp [ha] at hknown
    | some a =>
      obtain ⟨h1, _, _, h4, h5, _⟩ := hR.jobs x a ha
      simp [Cfg.toSlots, h1, h4, h5]

/-! ### the two steps -/

/-- slot-only flat available locations of configuration `g` -/
def slotStackB (g : Cfg) : Stack → Bool
  | [lvl] => lvl.hardware.isNone && decide (lvl.dep = g.depOf lvl.name) &&
             decide (lvl.slots.getD slotsDefault = g.slots lvl.name)
  | _ => false

theorem slotStackB_spec (g : Cfg) (st : Stack) (h : slotStackB g st = true) :
    ∃ lvl, st = [lvl] ∧ lvl.hardware = none ∧ lvl.dep = g.depOf lvl.name ∧ lvl.slots.getD slotsDefault = g.slots lvl.name := by
  match st, h with
  | [lvl], h =>
    simp only [slotStackB, Bool.and_eq_true, Option.isNone_iff_eq_none, decide_eq_true_eq] at h
    exact ⟨lvl, rfl, h.1.1, h.1.2, h.2⟩

def SlotAvail (g : Cfg) (av : List Stack) : Prop := av.all (slotStackB g) = true ∧ (namesOf av).Nodup

instance (g : Cfg) (av : List Stack) : Decidable (SlotAvail g av) := by unfold SlotAvail; exact inferInstance

theorem isValid_slot (s : St) (reqs : List (LocKey × Hardware)) (step : Nat) (tag : Tag) (lvl : Level)
    (hh : lvl.hardware = none) (h : isValid s reqs step tag [lvl] = .ok true) :
    (runningJobs s step tag lvl).length < lvl.slots.getD slotsDefault := by
  simp only [isValid] at h
  cases hr : assocGet reqs (lvl.dep, lvl.name) with
  | none => simp [hr] at h
  | some q =>
    simp only [hr, hh, slotFree] at h
    by_cases hlt : (runningJobs s step tag lvl).length < lvl.slots.getD slotsDefault
    · exact hlt
    · simp [hlt, pure, Except.pure] at h

theorem tryAllocate_refines (g : Cfg) (env : Env) (s s' : St) (T : Slots.St) (job : Nat) (req : Hardware)
    (target wanted : Nat) (avail : List Stack) (names : List Nat) (hR : RelSl g s T) (hav : SlotAvail g avail)
    (h : tryAllocate env s job (g.stepOf job) (g.tagOf job) req target wanted avail = (s', .allocated names)) :
    ∃ locs, locs.Nodup ∧ RelSl g s' (Slots.step g.toSlots T (.allocate job locs locs)) := by
  obtain ⟨hflatB, hnn⟩ := hav
  have hflat : ∀ st ∈ avail, ∃ lvl, st = [lvl] ∧ lvl.hardware = none ∧ lvl.dep = g.depOf lvl.name ∧
      lvl.slots.getD slotsDefault = g.slots lvl.name :=
    fun st hst => slotStackB_spec g st (List.all_eq_true.mp hflatB st hst)
  unfold tryAllocate at h
  cases hra : resolveAll env req avail [] with
  | error e => simp [hra] at h
  | ok reqs =>
    simp only [hra] at h
    cases hvs : validStacks s reqs (g.stepOf job) (g.tagOf job) avail with
    | error e => simp [hvs] at h
    | ok valid =>
      simp only [hvs] at h
      by_cases hen : enoughLocations valid.length wanted = true
      case neg => simp [hen] at h
      simp only [hen, if_true] at h
      generalize hsel : (if valid.length = wanted then valid else valid.take wanted) = selected at h
      by_cases hemp : selected.isEmpty = true
      · simp [hemp] at h
      simp only [hemp] at h
      cases haj : allocateJob s reqs job (g.stepOf job) (g.tagOf job) target selected with
      | mk s1 err =>
        simp only [haj] at h
        cases err with
        | some e => simp at h
        | none =>
          simp only [Prod.mk.injEq] at h
          obtain ⟨rfl, _⟩ := h
          have hvalid := validStacks_spec s reqs _ _ avail valid hvs
          have hsub : selected.Sublist avail := by
            have h1 : selected.Sublist valid := by
              rw [← hsel]; by_cases hl : valid.length = wanted
              · simp [hl]
              · simp only [hl, if_false]; exact List.take_sublist _ _
            exact h1.trans (validStacks_sublist s reqs _ _ avail valid hvs)
          have hselmem : ∀ st ∈ selected, st ∈ valid := by
            intro st hst
            rw [← hsel] at hst
            by_cases hl : valid.length = wanted
            · simpa [hl] using hst
            · simp only [hl, if_false] at hst; exact List.mem_of_mem_take hst
          have hnodup : (namesOf selected).Nodup := hnn.sublist (hsub.filterMap _)
          have hfacts : ∀ st ∈ selected, ∃ lvl, st = [lvl] ∧ lvl.dep = g.depOf lvl.name ∧
              Slots.runningCount g.toSlots T job lvl.name < g.slots lvl.name := by
            intro st hst
            obtain ⟨hav', hiv⟩ := hvalid st (hselmem st hst)
            obtain ⟨lvl, rfl, hh, hd, hs⟩ := hflat st hav'
            refine ⟨lvl, rfl, hd, ?_⟩
            rw [← runningJobs_eq g s T hR job lvl hd, ← hs]
            exact isValid_slot s reqs _ _ lvl hh hiv
          have hguard : ((namesOf selected).all fun ℓ => slotFree (Slots.runningCount g.toSlots T job ℓ) (g.toSlots.slots ℓ)) = true := by
            simp only [List.all_eq_true, slotFree, decide_eq_true_eq]
            intro ℓ hℓ
            simp only [namesOf, List.mem_filterMap] at hℓ
            obtain ⟨st, hst, hh⟩ := hℓ
            obtain ⟨lvl, rfl, _, hlt⟩ := hfacts st hst
            simp at hh; subst hh; exact hlt
          refine ⟨namesOf selected, hnodup, ?_⟩
          cases selected with
          | nil => simp at hemp
          | cons st0 rest0 =>
            obtain ⟨top, rfl, hd0, _⟩ := hfacts st0 (List.mem_cons_self ..)
            simp only [allocateJob] at haj
            cases hq0 : assocGet reqs (top.dep, top.name) with
            | none => simp [hq0] at haj
            | some h0 =>
              simp only [hq0] at haj
              obtain ⟨hj, hl⟩ := allocStacks_listed g reqs job ([top] :: rest0) _ _
                (fun st hst => by obtain ⟨l, e1, e2, _⟩ := hfacts st hst; exact ⟨l, e1, e2⟩) haj
              simp only at hj
              have hl' : ∀ ℓ, listedOf g s' ℓ = listedOf g s ℓ ++ List.replicate ((namesOf ([top] :: rest0)).count ℓ) job :=
                fun ℓ => hl ℓ
              simp only [Slots.step, hguard, if_true]
              refine ⟨fun k => ?_, fun k ak hk => ?_, fun ℓ => ?_, fun ℓ x hx => ?_⟩
              · simp only []
                rw [hj, isSome_get_set]
                by_cases hjT : job ∈ T.ids
                · simp only [hjT, if_true, hR.ids k]
                  constructor
                  · exact fun h => Or.inr h
                  · rintro (e | e)
                    · subst e; exact (hR.ids k).mp hjT
                    · exact e
                · simp only [hjT, if_false, List.mem_cons, hR.ids k]
              · rw [hj] at hk
                by_cases e : k = job
                · subst e
                  rw [get_set_eq] at hk
                  simp only [Option.some.injEq] at hk
                  subst hk
                  refine ⟨by simp [Ledger.update], by simp [Ledger.update], by simp [Ledger.update], rfl, rfl, hnodup, ?_⟩
                  intro st hst
                  obtain ⟨l, e1, e2, _⟩ := hfacts st hst
                  exact ⟨l, e1, e2⟩
                · rw [get_set_ne _ _ _ _ e] at hk
                  obtain ⟨h1, h2, h3, h4⟩ := hR.jobs k ak hk
                  exact ⟨by simp [Ledger.update, e, h1], by simp [Ledger.update, e, h2], by simp [Ledger.update, e, h3], h4⟩
              · simp only []
                rw [hl' ℓ, count_nodup _ _ hnodup, hR.listed ℓ]
                by_cases hm : ℓ ∈ namesOf ([top] :: rest0) <;> simp [hm]
              · rw [hl' ℓ, count_nodup _ _ hnodup] at hx
                rw [hj, isSome_get_set]
                rcases List.mem_append.mp hx with e | e
                · exact Or.inr (hR.known ℓ x e)
                · left
                  by_cases hm : ℓ ∈ namesOf ([top] :: rest0)
                  · simp [hm] at e; exact e
                  · simp [hm] at e

theorem notify_refines (g : Cfg) (env : Env) (s s' : St) (T : Slots.St) (j : Nat) (new : Status) (b : Bool)
    (hR : RelSl g s T) (h : notify env s j new = (s', .done b)) :
    RelSl g s' (Slots.step g.toSlots T (.notify j new)) := by
  unfold notify at h
  cases ha : assocGet s.jobs j with
  | none => simp [ha] at h
  | some a =>
    simp only [ha] at h
    obtain ⟨hst, hpl, htp, hstep, htag, hnd, hfl⟩ := hR.jobs j a ha
    have hjT : j ∈ T.ids := (hR.ids j).mpr (by simp [ha])
    generalize ha1 : (if statusStored a.status new = true then { a with status := new } else a) = a1 at h
    have ha1f : a1.locations = a.locations ∧ a1.step = a.step ∧ a1.tag = a.tag ∧
        a1.status = (if statusStored a.status new = true then new else a.status) := by
      rw [← ha1]; by_cases hs : statusStored a.status new = true <;> simp [hs]
    generalize hs1 : ({ s with jobs := assocSet s.jobs j a1 } : St) = s1 at h
    have hs1j : s1.jobs = assocSet s.jobs j a1 := by rw [← hs1]
    have hs1l : s1.locJobs = s.locJobs := by rw [← hs1]
    have hrel : ∃ s2, s2.jobs = s1.jobs ∧ s2.locJobs = s1.locJobs ∧
        s' = (if unlists new = true then
          { s2 with locJobs := unlist j a1.locations s2.locJobs, jobs := assocSet s2.jobs j { a1 with locations := [] } } else s2) := by
      by_cases hr : releases a.status new = true
      · simp only [hr, if_true] at h
        cases hf : freeResources env a1 s1 with
        | mk s2 err =>
          simp only [hf] at h
          obtain ⟨e1, e2⟩ := freeLoop_frame env _ _ _ s1 s2 err hf
          cases err with
          | some e => simp at h
          | none =>
            refine ⟨s2, e1, e2, ?_⟩
            by_cases hu : unlists new = true <;> simp only [hu, if_true, Prod.mk.injEq] at h ⊢ <;> exact h.1.symm
      · have hr' : releases a.status new = false := by simpa using hr
        simp only [hr', Bool.false_eq_true, if_false] at h
        refine ⟨s1, rfl, rfl, ?_⟩
        by_cases hu : unlists new = true <;> simp only [hu, if_true, Prod.mk.injEq] at h ⊢ <;> exact h.1.symm
    obtain ⟨s2, hj2, hl2, hs'⟩ := hrel
    have hFj : s'.jobs = if unlists new = true then assocSet (assocSet s.jobs j a1) j { a1 with locations := [] }
        else assocSet s.jobs j a1 := by
      rw [hs']; by_cases hu : unlists new = true <;> simp [hu, hj2, hs1j]
    have hFl : s'.locJobs = if unlists new = true then unlist j a.locations s.locJobs else s.locJobs := by
      rw [hs']; by_cases hu : unlists new = true <;> simp [hu, hl2, hs1l, ha1f.1]
    have hgetj : assocGet s'.jobs j = some (if unlists new = true then { a1 with locations := [] } else a1) := by
      rw [hFj]; by_cases hu : unlists new = true <;> simp [hu, get_set_eq]
    have hgetk : ∀ k, k ≠ j → assocGet s'.jobs k = assocGet s.jobs k := by
      intro k e; rw [hFj]; by_cases hu : unlists new = true <;> simp [hu, get_set_ne _ _ _ _ e]
    have hflat' : ∀ st ∈ a.locations, ∃ lvl, st = [lvl] ∧ lvl.dep = g.depOf lvl.name := hfl
    have hlistedF : ∀ ℓ, listedOf g s' ℓ =
        if unlists new = true then (if ℓ ∈ namesOf a.locations then (listedOf g s ℓ).erase j else listedOf g s ℓ)
        else listedOf g s ℓ := by
      intro ℓ
      simp only [listedOf, hFl]
      by_cases hu : unlists new = true
      · simp only [hu, if_true]; exact unlist_listed g j a.locations s.locJobs hflat' hnd ℓ
      · simp [hu]
    clear hs'
    have hsome : (assocGet s.jobs j).isSome := by simp [ha]
    simp only [Slots.step, hjT, if_true, hst]
    by_cases hu : unlists new = true
    · simp only [hu, if_true]
      refine ⟨fun k => ?_, fun k ak hk => ?_, fun ℓ => ?_, fun ℓ x hx => ?_⟩
      · simp only [hR.ids k]
        by_cases e : k = j
        · subst e; simp [hgetj, hsome]
        · rw [hgetk k e]
      · by_cases e : k = j
        · subst e
          rw [hgetj] at hk
          simp only [hu, if_true, Option.some.injEq] at hk
          subst hk
          refine ⟨?_, by simp [Ledger.update, namesOf], by simp [Ledger.update, namesOf], by simp [ha1f.2.1, hstep],
            by simp [ha1f.2.2.1, htag], by simp [namesOf], by simp⟩
          have := ha1f.2.2.2
          by_cases hs : statusStored a.status new = true <;> simp [hs, Ledger.update, this, hst]
        · rw [hgetk k e] at hk
          obtain ⟨h1, h2, h3, h4⟩ := hR.jobs k ak hk
          refine ⟨?_, by simp [Ledger.update, e, h2], by simp [Ledger.update, e, h3], h4⟩
          by_cases hs : statusStored a.status new = true <;> simp [hs, Ledger.update, e, h1]
      · simp only [hlistedF ℓ, hu, if_true, htp, hR.listed ℓ]
      · rw [hlistedF ℓ] at hx
        simp only [hu, if_true] at hx
        have hx' : x ∈ listedOf g s ℓ := by
          by_cases hm : ℓ ∈ namesOf a.locations
          · simp only [hm, if_true] at hx; exact List.mem_of_mem_erase hx
          · simpa [hm] using hx
        have := hR.known ℓ x hx'
        by_cases e : x = j
        · subst e; simp [hgetj]
        · rw [hgetk x e]; exact this
    · simp only [hu]
      refine ⟨fun k => ?_, fun k ak hk => ?_, fun ℓ => ?_, fun ℓ x hx => ?_⟩
      · refine Iff.trans (hR.ids k) ?_
        by_cases e : k = j
        · subst e; simp [hgetj, hsome]
        · rw [hgetk k e]
      · by_cases e : k = j
        · subst e
          rw [hgetj] at hk
          simp only [hu, Bool.false_eq_true, if_false, Option.some.injEq] at hk
          subst hk
          refine ⟨?_, by rw [ha1f.1]; exact hpl, by rw [ha1f.1]; exact htp, by rw [ha1f.2.1]; exact hstep,
            by rw [ha1f.2.2.1]; exact htag, by rw [ha1f.1]; exact hnd, by rw [ha1f.1]; exact hfl⟩
          have := ha1f.2.2.2
          by_cases hs : statusStored a.status new = true <;> simp [hs, Ledger.update, this, hst]
        · rw [hgetk k e] at hk
          obtain ⟨h1, h2⟩ := hR.jobs k ak hk
          refine ⟨?_, h2⟩
          by_cases hs : statusStored a.status new = true <;> simp [hs, Ledger.update, e, h1]
      · rw [hlistedF ℓ]; simp [hu, hR.listed ℓ]
      · rw [hlistedF ℓ] at hx
        simp [hu] at hx
        have := hR.known ℓ x hx
        by_cases e : x = j
        · subst e; simp [hgetj]
        · rw [hgetk x e]; exact this

/-! ### whole runs -/

def OkS (g : Cfg) (s : St) : SOp → Prop
  | .pass j st tg _ _ _ av =>
      SlotAvail g av ∧ st = g.stepOf j ∧ tg = g.tagOf j ∧ jobCond s j (fun a => Ledger.occupying a.status = false)
  | .notify j new => jobCond s j (fun a => Ledger.protoOk a.status new)

instance (g : Cfg) (s : St) (op : SOp) : Decidable (OkS g s op) := by
  cases op <;> unfold OkS <;> exact inferInstance

def RunOk (g : Cfg) (env : Env) : St → List SOp → Prop
  | _, [] => True
  | s, op :: ops =>
      OkS g s op ∧
      (match stepS env s op with
       | some s' => RunOk g env s' ops
       | none => True)

instance decRunOk (g : Cfg) (env : Env) : (s : St) → (ops : List SOp) → Decidable (RunOk g env s ops)
  | _, [] => isTrue trivial
  | s, op :: ops => by
      unfold RunOk
      cases h : stepS env s op with
      | none => simp only []; exact inferInstance
      | some s' => simp only []; exact @instDecidableAnd _ _ _ (decRunOk g env s' ops)

theorem step_refines (g : Cfg) (env : Env) (s s' : St) (T : Slots.St) (op : SOp)
    (hR : RelSl g s T) (hI : Slots.Inv g.toSlots T) (hok : OkS g s op) (hs : stepS env s op = some s') :
    ∃ T', RelSl g s' T' ∧ Slots.Inv g.toSlots T' := by
  cases op with
  | pass j st tg rq t w av =>
    obtain ⟨hav, rfl, rfl, hnocc'⟩ := hok
    have hnocc : ∀ a, assocGet s.jobs j = some a → Ledger.occupying a.status = false := by
      intro a ha; exact jobCond_some hnocc' ha
    simp only [stepS] at hs
    cases hta : tryAllocate env s j (g.stepOf j) (g.tagOf j) rq t w av with
    | mk s1 out =>
      simp only [hta] at hs
      cases out with
      | error e => simp at hs
      | waiting =>
        simp only [Option.some.injEq] at hs; subst hs
        rw [tryAllocate_waiting env s s1 j _ _ rq t w av hta]
        exact ⟨T, hR, hI⟩
      | allocated names =>
        simp only [Option.some.injEq] at hs; subst hs
        obtain ⟨locs, hnod, hrel⟩ := tryAllocate_refines g env s s1 T j rq t w av names hR hav hta
        refine ⟨_, hrel, Slots.inv_step g.toSlots T _ hI ⟨?_, hnod⟩⟩
        rintro ⟨hj, hocc⟩
        have := (hR.ids j).mp hj
        cases ha : assocGet s.jobs j with
        | none => simp [ha] at this
        | some a =>
          rw [(hR.jobs j a ha).1, hnocc a ha] at hocc; cases hocc
  | notify j new =>
    simp only [stepS] at hs
    cases hn : notify env s j new with
    | mk s1 out =>
      simp only [hn] at hs
      cases out with
      | error e => simp at hs
      | done b =>
        simp only [Option.some.injEq] at hs; subst hs
        refine ⟨_, notify_refines g env s s1 T j new b hR hn, Slots.inv_step g.toSlots T _ hI ?_⟩
        cases ha : assocGet s.jobs j with
        | none => simp [notify, ha] at hn
        | some a =>
          have : Ledger.protoOk a.status new := jobCond_some hok ha
          show Ledger.occupying new = true → _
          rw [(hR.jobs j a ha).1]; exact this

theorem run_refines (g : Cfg) (env : Env) (ops : List SOp) (s s' : St) (T : Slots.St)
    (hR : RelSl g s T) (hI : Slots.Inv g.toSlots T) (hok : RunOk g env s ops) (hrun : runS env s ops = some s') :
    ∃ T', RelSl g s' T' ∧ Slots.Inv g.toSlots T' := by
  induction ops generalizing s T with
  | nil => simp only [runS, Option.some.injEq] at hrun; subst hrun; exact ⟨T, hR, hI⟩
  | cons op ops ih =>
    simp only [runS] at hrun
    cases hs : stepS env s op with
    | none => simp [hs] at hrun
    | some s1 =>
      simp only [hs] at hrun
      obtain ⟨T1, hR1, hI1⟩ := step_refines g env s s1 T op hR hI hok.1 hs
      have hok2 := hok.2
      simp only [hs] at hok2
      exact ih s1 T1 hR1 hI1 hok2 hrun

end SFV.RefineSlots
