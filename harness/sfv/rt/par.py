"""Run many independent real-code cases in worker processes with a per-case wall-clock watchdog.

`pmap(fn, cases, timeout)` yields (case, status, result) with status in {"ok", "error", "timeout"}.
A hang of the implementation is a *result* (DESIGN §2.3), never a silent pass: the worker is killed."""
from __future__ import annotations

import multiprocessing as mp
import os
import queue
import time
import traceback
from typing import Any, Callable, Iterable


def _worker(fn, inq, outq):
    while True:
        item = inq.get()
        if item is None:
            return
        idx, case = item
        try:
            outq.put((idx, "ok", fn(case)))
        except BaseException as e:  # noqa: BLE001
            outq.put((idx, "error", f"{type(e).__name__}: {e}\n{traceback.format_exc()[-1500:]}"))


def pmap(fn: Callable[[Any], Any], cases: Iterable[Any], timeout: float = 60.0, workers: int | None = None):
    """fn must be a picklable top-level function; results come back in completion order."""
    cases = list(cases)
    workers = min(workers or max(2, (os.cpu_count() or 4) // 2), max(1, len(cases)))
    ctx = mp.get_context("fork")
    outq = ctx.Queue()
    procs = []  # [proc, inq, current idx or None, started]
    pending = list(enumerate(cases))[::-1]
    done = 0

    def spawn():
        inq = ctx.Queue()
        p = ctx.Process(target=_worker, args=(fn, inq, outq), daemon=True)
        p.start()
        return [p, inq, None, 0.0]

    for _ in range(workers):
        procs.append(spawn())
    try:
        while done < len(cases):
            for slot in procs:
                if slot[2] is None and pending:
                    idx, case = pending.pop()
                    slot[1].put((idx, case))
                    slot[2], slot[3] = idx, time.time()
            try:
                idx, status, res = outq.get(timeout=0.2)
                for slot in procs:
                    if slot[2] == idx:
                        slot[2] = None
                done += 1
                yield cases[idx], status, res
            except queue.Empty:
                pass
            now = time.time()
            for i, slot in enumerate(procs):
                if slot[2] is not None and now - slot[3] > timeout:
                    idx = slot[2]
                    slot[0].kill()
                    slot[0].join(2)
                    procs[i] = spawn()
                    done += 1
                    yield cases[idx], "timeout", f"no result after {timeout}s (worker killed)"
                elif slot[2] is not None and not slot[0].is_alive():
                    idx = slot[2]
                    procs[i] = spawn()
                    done += 1
                    yield cases[idx], "error", "worker process died"
    finally:
        for slot in procs:
            try:
                slot[1].put(None)
            except Exception:  # noqa: BLE001
                pass
        for slot in procs:
            slot[0].join(0.5)
            if slot[0].is_alive():
                slot[0].kill()
