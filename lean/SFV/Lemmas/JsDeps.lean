import SFV.Model.JsDeps
/-! Helper lemmas for C31 (`SFV/Props/C31.lean`): soundness of the dependency listener on the handled fragment. -/
namespace SFV.JsDeps
open Frag

theorem nameOf_some {e : Js} {x : String} (h : nameOf e = some x) : e = .ident x := by
  cases e <;> simp [nameOf] at h
  subst h; rfl

theorem bind_ok {α β ε : Type} {x : Except ε α} {f : α → Except ε β} {b : β}
    (h : (x >>= f) = .ok b) : ∃ a, x = .ok a ∧ f a = .ok b := by
  cases x with
  | error e => simp [bind, Except.bind] at h
  | ok a => exact ⟨a, rfl, h⟩

/-! ### heap operations -/

theorem frameAt_set (h : List Frame) (f g : Nat) (fr : Frame) :
    frameAt (h.set f fr) g = if g = f ∧ f < h.length then fr else frameAt h g := by
  unfold frameAt
  by_cases hg : g = f
  · subst hg
    by_cases hl : g < h.length
    · simp [hl, List.getD_eq_getElem?_getD]
    · simp [hl, List.getD_eq_getElem?_getD]
  · simp [hg, List.getD_eq_getElem?_getD, List.getElem?_set_ne (Ne.symm hg)]

theorem lookup_setVar (fr : Frame) (x y : String) (v : Val) :
    (setVar fr x v).lookup y = if y = x then some v else fr.lookup y := by
  induction fr with
  | nil =>
    by_cases h : y = x
    · subst h; simp [setVar, List.lookup]
    · have : (y == x) = false := by simpa using h
      simp [setVar, List.lookup, h, this]
  | cons p fr ih =>
    obtain ⟨z, w⟩ := p
    simp only [setVar]
    by_cases hz : z = x
    · subst hz
      by_cases hy : y = z
      · subst hy; simp [List.lookup]
      · have : (y == z) = false := by simpa using hy
        simp [List.lookup, hy, this]
    · simp only [hz, if_false]
      by_cases hy : y = z
      · subst hy; simp [List.lookup, hz]
      · have : (y == z) = false := by simpa using hy
        simp only [List.lookup, this]; exact ih

theorem frameAt_of_ge (h : List Frame) (f : Nat) (hf : h.length ≤ f) : frameAt h f = [] := by
  unfold frameAt; simp [List.getD_eq_getElem?_getD, List.getElem?_eq_none hf]

/-- lookup through the two frames every top-level fragment runs in -/
def glookup (h : List Frame) (x : String) : Option Val := lookupVar h [1, 0] x

theorem glookup_def (h : List Frame) (x : String) :
    glookup h x = ((frameAt h 1).lookup x).or ((frameAt h 0).lookup x) := by
  simp [glookup, lookupVar]

theorem lookupVar_body (h : List Frame) (fid : Nat) (x : String) :
    lookupVar h (fid :: [1, 0]) x = ((frameAt h fid).lookup x).or (glookup h x) := by
  simp only [lookupVar, glookup]

theorem glookup_assign (h h' : List Frame) (x y : String) (v : Val) (hlen : 2 ≤ h.length)
    (ha : assignVar h [1, 0] x v = some h') :
    glookup h' y = if y = x then some v else glookup h y := by
  have l1 : 1 < h.length := by omega
  have l0 : 0 < h.length := by omega
  simp only [assignVar] at ha
  cases h1 : (frameAt h 1).lookup x with
  | some w =>
    simp only [h1, Option.some.injEq] at ha
    subst ha
    by_cases hy : y = x
    · simp [glookup_def, frameAt_set, lookup_setVar, l1, hy]
    · simp [glookup_def, frameAt_set, lookup_setVar, l1, hy]
  | none =>
    simp only [h1] at ha
    cases h0 : (frameAt h 0).lookup x with
    | some w =>
      simp only [h0, Option.some.injEq] at ha
      subst ha
      by_cases hy : y = x
      · subst hy; simp [glookup_def, frameAt_set, lookup_setVar, l0, h1]
      · simp [glookup_def, frameAt_set, lookup_setVar, l0, hy]
    | none => simp [h0] at ha

theorem length_assign (h h' : List Frame) (x : String) (v : Val) :
    ∀ sc, assignVar h sc x v = some h' → h'.length = h.length := by
  intro sc
  induction sc with
  | nil => intro ha; simp [assignVar] at ha
  | cons f rest ih =>
    intro ha
    simp only [assignVar] at ha
    split at ha
    · simp only [Option.some.injEq] at ha; subst ha; simp
    · exact ih ha

theorem length_declare (h : List Frame) (f : Nat) (x : String) (v : Option Val) :
    (declareVar h f x v).length = h.length := by
  unfold declareVar
  simp only
  split <;> simp

theorem glookup_declare (h : List Frame) (x y : String) (v : Option Val) (hlen : 2 ≤ h.length) :
    glookup (declareVar h 1 x v) y =
      if y = x then (match v with
        | some w => some w
        | none => (((frameAt h 1).lookup x).or (some .undef)).or ((frameAt h 0).lookup x))
      else glookup h y := by
  have h1 : 1 < h.length := by omega
  unfold declareVar
  simp only
  split
  · -- already declared, no initialiser
    rename_i w hl
    by_cases hy : y = x
    · subst hy; simp [glookup_def, hl]
    · simp [hy]
  · rename_i w
    by_cases hy : y = x
    · simp [glookup_def, frameAt_set, lookup_setVar, h1, hy]
    · simp [glookup_def, frameAt_set, lookup_setVar, h1, hy]
  · rename_i hl
    by_cases hy : y = x
    · subst hy; simp [glookup_def, frameAt_set, lookup_setVar, h1, hl]
    · simp [glookup_def, frameAt_set, lookup_setVar, h1, hy]

/-! ### invariants -/


/-- a closure created by handled code: declared at the top level, body in the body fragment, and every key its
body can read through an alias name is in `D` -/
def CloOk (D : List String) : Val → Prop
  | .clo ps body sc => sc = [1, 0] ∧ ∃ nb ks, listen nb body = .ok (nb, ks) ∧ bodyOk nb ps body = true ∧ ∀ k, k ∈ ks → k ∈ D
  | _ => True

/-- no value stored in the frame is the `inputs` object, closures stored in it are handled closures -/
def FrameOk (D : List String) (fr : Frame) : Prop := ∀ x v, fr.lookup x = some v → v ≠ .inp ∧ CloOk D v

structure EnvOk (n : Names) (loc : List String) (top : Bool) (D : List String) (sc : List Nat) (h : List Frame) : Prop where
  loc_clean : ∀ x v, lookupVar h sc x = some v → loc.contains x = true → v ≠ .inp
  free_clean : ∀ x v, lookupVar h sc x = some v → loc.contains x = false → top = true → n.has x = false → v ≠ .inp
  clo_ok : ∀ x v, lookupVar h sc x = some v → CloOk D v
  sc_top : top = true → sc = [1, 0]
  len_ok : top = true → 2 ≤ h.length

def HeapRel (top : Bool) (st st' : St) : Prop :=
  (top = false → st'.heap = st.heap) ∧ frameAt st'.heap 0 = frameAt st.heap 0 ∧
  frameAt st'.heap 1 = frameAt st.heap 1 ∧ st.heap.length ≤ st'.heap.length

theorem HeapRel.refl (top : Bool) (st : St) : HeapRel top st st := ⟨fun _ => rfl, rfl, rfl, Nat.le_refl _⟩

theorem HeapRel.trans {top : Bool} {a b c : St} (h1 : HeapRel top a b) (h2 : HeapRel top b c) : HeapRel top a c :=
  ⟨fun ht => (h2.1 ht).trans (h1.1 ht), h2.2.1.trans h1.2.1, h2.2.2.1.trans h1.2.2.1, Nat.le_trans h1.2.2.2 h2.2.2.2⟩

theorem HeapRel.of_heap_eq {top : Bool} {a b : St} (h : b.heap = a.heap) : HeapRel top a b := by
  refine ⟨fun _ => h, ?_, ?_, ?_⟩ <;> rw [h] <;> exact Nat.le_refl _

theorem EnvOk.rel {n loc top D sc} {st st' : St} (he : EnvOk n loc top D sc st.heap) (hr : HeapRel top st st') :
    EnvOk n loc top D sc st'.heap := by
  cases top with
  | false => rw [hr.1 rfl]; exact he
  | true =>
    have hsc := he.sc_top rfl
    subst hsc
    have hl : ∀ x, lookupVar st'.heap [1, 0] x = lookupVar st.heap [1, 0] x := by
      intro x
      have := glookup_def st'.heap x
      have h2 := glookup_def st.heap x
      unfold glookup at this h2
      rw [this, h2, hr.2.1, hr.2.2.1]
    exact ⟨fun x v h => he.loc_clean x v (hl x ▸ h), fun x v h => he.free_clean x v (hl x ▸ h),
      fun x v h => he.clo_ok x v (hl x ▸ h), fun _ => rfl, fun ht => Nat.le_trans (he.len_ok ht) hr.2.2.2⟩

theorem CloOk_of_ne_clo {D : List String} {v : Val} (h : ∀ ps b sc, v ≠ .clo ps b sc) : CloOk D v := by
  cases v <;> simp [CloOk]
  exact absurd rfl (h _ _ _)

theorem getProp_spec {st : St} {v : Val} {k : String} {w : Val} {st2 : St}
    (h : getProp st v k = some (w, st2)) :
    w ≠ .inp ∧ CloOk D w ∧ st2.heap = st.heap ∧ (st2.reads = st.reads ∨ (v = .inp ∧ st2.reads = k :: st.reads)) := by
  cases v <;> simp [getProp, record] at h <;> obtain ⟨rfl, rfl⟩ := h <;> simp [CloOk]

theorem plus_spec {a b v : Val} (h : plus a b = some v) : v ≠ .inp ∧ CloOk D v := by
  cases a <;> cases b <;> simp [plus] at h <;> subst h <;> simp [CloOk]

theorem eval_ident {fuel sc x st r st1} (h : eval fuel sc (.ident x) st = some (r, st1)) :
    st1 = st ∧ ∃ v, r = .normal v ∧ lookupVar st.heap sc x = some v := by
  cases fuel with
  | zero => simp [eval] at h
  | succ f =>
    simp only [eval] at h
    cases hl : lookupVar st.heap sc x with
    | none => simp [hl] at h
    | some v => simp [hl] at h; exact ⟨h.2.symm, v, h.1.symm, rfl⟩

theorem eval_str {fuel sc k st r st1} (h : eval fuel sc (.str k) st = some (r, st1)) :
    st1 = st ∧ r = .normal (.str k) := by
  cases fuel with
  | zero => simp [eval] at h
  | succ f => simp only [eval, Option.some.injEq, Prod.mk.injEq] at h; exact ⟨h.2.symm, h.1.symm⟩

theorem pureOk_false_irrel (n : Names) (f g : Names → List String → Js → Bool) :
    ∀ (e : Js) (loc : List String), pureOk n loc false f e = pureOk n loc false g e := by
  intro e
  induction e with
  | dot e k ih => intro loc; simp only [pureOk]; cases nameOf e <;> simp [ih]
  | idx e i ih1 ih2 => intro loc; simp only [pureOk]; cases nameOf e <;> simp [ih1, ih2]
  | paren e ih => intro loc; simp only [pureOk]; exact ih loc
  | bin a b ih1 ih2 => intro loc; simp only [pureOk, ih1, ih2]
  | cond c a b ih1 ih2 ih3 => intro loc; simp only [pureOk, ih1, ih2, ih3]
  | seq a b ih1 ih2 => intro loc; simp only [pureOk, ih1, ih2]
  | _ => intro loc; simp [pureOk]

/-- listening to a value-position expression leaves the listener's names unchanged -/
theorem pure_names (f : Names → List String → Js → Bool)
    (hf : ∀ nb ps body nb' ks, f nb ps body = true → listen nb body = .ok (nb', ks) → nb' = nb) :
    ∀ (e : Js) (n : Names) (loc : List String) (top : Bool) (n' : Names) (ks : List String),
      pureOk n loc top f e = true → listen n e = .ok (n', ks) → n' = n := by
  intro e
  induction e with
  | num m => intro n loc top n' ks _ hl; simp only [listen, Except.ok.injEq, Prod.mk.injEq] at hl; exact hl.1.symm
  | str m => intro n loc top n' ks _ hl; simp only [listen, Except.ok.injEq, Prod.mk.injEq] at hl; exact hl.1.symm
  | ident m => intro n loc top n' ks _ hl; simp only [listen, Except.ok.injEq, Prod.mk.injEq] at hl; exact hl.1.symm
  | skip => intro n loc top n' ks _ hl; simp only [listen, Except.ok.injEq, Prod.mk.injEq] at hl; exact hl.1.symm
  | dot e k ih =>
    intro n loc top n' ks hp hl
    simp only [listen] at hl
    obtain ⟨⟨n1, k1⟩, hl1, hl⟩ := bind_ok hl
    simp only [Except.ok.injEq, Prod.mk.injEq] at hl
    obtain ⟨rfl, _⟩ := hl
    simp only [pureOk] at hp
    cases hn : nameOf e with
    | some x =>
      have := nameOf_some hn; subst this
      simp only [listen, Except.ok.injEq, Prod.mk.injEq] at hl1; exact hl1.1.symm
    | none => rw [hn] at hp; exact ih n loc top _ _ hp hl1
  | idx e i ih1 ih2 =>
    intro n loc top n' ks hp hl
    simp only [listen] at hl
    obtain ⟨k0, _, hl⟩ := bind_ok hl
    obtain ⟨⟨n1, k1⟩, hl1, hl⟩ := bind_ok hl
    simp only at hl
    obtain ⟨⟨n2, k2⟩, hl2, hl⟩ := bind_ok hl
    simp only [Except.ok.injEq, Prod.mk.injEq] at hl
    obtain ⟨rfl, _⟩ := hl
    simp only [pureOk] at hp
    cases hn : nameOf e with
    | some x =>
      have := nameOf_some hn; subst this
      simp only [listen, Except.ok.injEq, Prod.mk.injEq] at hl1
      obtain ⟨rfl, _⟩ := hl1
      simp only [nameOf] at hp
      by_cases hc : loc.contains x = true
      · simp only [hc, if_true, Bool.and_eq_true] at hp; exact ih2 n loc top _ _ hp.2 hl2
      · have hc' : loc.contains x = false := by simpa using hc
        simp only [hc', Bool.false_eq_true, if_false] at hp
        by_cases hg : n.isGlobal x = true
        · simp only [hg, if_true] at hp
          cases i <;> simp at hp
          simp only [listen, Except.ok.injEq, Prod.mk.injEq] at hl2; exact hl2.1.symm
        · have hg' : n.isGlobal x = false := by simpa using hg
          simp only [hg', Bool.false_eq_true, if_false, Bool.and_eq_true] at hp
          exact ih2 n loc top _ _ hp.2 hl2
    | none =>
      rw [hn] at hp; simp only [Bool.and_eq_true] at hp
      have := ih1 n loc top _ _ hp.1 hl1; subst this
      exact ih2 n1 loc top _ _ hp.2 hl2
  | paren e ih =>
    intro n loc top n' ks hp hl
    simp only [listen] at hl; simp only [pureOk] at hp
    exact ih n loc top _ _ hp hl
  | bin a b ih1 ih2 =>
    intro n loc top n' ks hp hl
    simp only [listen] at hl
    obtain ⟨⟨n1, k1⟩, hl1, hl⟩ := bind_ok hl
    simp only at hl
    obtain ⟨⟨n2, k2⟩, hl2, hl⟩ := bind_ok hl
    simp only [Except.ok.injEq, Prod.mk.injEq] at hl
    obtain ⟨rfl, _⟩ := hl
    simp only [pureOk, Bool.and_eq_true] at hp
    have := ih1 n loc top _ _ hp.1 hl1; subst this
    exact ih2 n1 loc top _ _ hp.2 hl2
  | seq a b ih1 ih2 =>
    intro n loc top n' ks hp hl
    simp only [listen] at hl
    obtain ⟨⟨n1, k1⟩, hl1, hl⟩ := bind_ok hl
    simp only at hl
    obtain ⟨⟨n2, k2⟩, hl2, hl⟩ := bind_ok hl
    simp only [Except.ok.injEq, Prod.mk.injEq] at hl
    obtain ⟨rfl, _⟩ := hl
    simp only [pureOk, Bool.and_eq_true] at hp
    have := ih1 n loc top _ _ hp.1 hl1; subst this
    exact ih2 n1 loc top _ _ hp.2 hl2
  | call a b ih1 ih2 =>
    intro n loc top n' ks hp hl
    simp only [listen] at hl
    obtain ⟨⟨n1, k1⟩, hl1, hl⟩ := bind_ok hl
    simp only at hl
    obtain ⟨⟨n2, k2⟩, hl2, hl⟩ := bind_ok hl
    simp only [Except.ok.injEq, Prod.mk.injEq] at hl
    obtain ⟨rfl, _⟩ := hl
    simp only [pureOk, Bool.and_eq_true] at hp
    have := ih1 n loc top _ _ hp.1.2 hl1; subst this
    exact ih2 n1 loc top _ _ hp.2 hl2
  | cond c a b ih1 ih2 ih3 =>
    intro n loc top n' ks hp hl
    simp only [listen] at hl
    obtain ⟨⟨n1, k1⟩, hl1, hl⟩ := bind_ok hl
    simp only at hl
    obtain ⟨⟨n2, k2⟩, hl2, hl⟩ := bind_ok hl
    simp only at hl
    obtain ⟨⟨n3, k3⟩, hl3, hl⟩ := bind_ok hl
    simp only [Except.ok.injEq, Prod.mk.injEq] at hl
    obtain ⟨rfl, _⟩ := hl
    simp only [pureOk, Bool.and_eq_true] at hp
    have := ih1 n loc top _ _ hp.1.1 hl1; subst this
    have := ih2 n1 loc top _ _ hp.1.2 hl2; subst this
    exact ih3 n2 loc top _ _ hp.2 hl3
  | fexpr ps body ih =>
    intro n loc top n' ks hp hl
    simp only [listen] at hl
    simp only [pureOk, Bool.and_eq_true] at hp
    exact hf n ps body _ _ hp.2 hl
  | _ => intro n loc top n' ks hp hl; simp [pureOk] at hp

theorem pure_names_false {n loc e n' ks} (hp : pureOk n loc false (fun _ _ _ => false) e = true)
    (hl : listen n e = .ok (n', ks)) : n' = n :=
  pure_names _ (by intro _ _ _ _ _ h; simp at h) e n loc false n' ks hp hl

theorem onAssign_same {n x e n0} (h : (match onAssign n x e with | .ok n' => n' == n | .error _ => false) = true)
    (h0 : onAssign n x e = .ok n0) : n0 = n := by
  rw [h0] at h; simpa using h

theorem bodyOk_seq_other (n : Names) (loc : List String) (a b : Js)
    (h1 : ∀ x, a ≠ .varDecl x) (h2 : ∀ x e, a ≠ .varInit x e) :
    bodyOk n loc (.seq a b) = (bodyOk n loc a && bodyOk n loc b) := by
  cases a with
  | varDecl x => exact absurd rfl (h1 x)
  | varInit x e => exact absurd rfl (h2 x e)
  | _ => simp [bodyOk]

/-- listening to a function body of the fragment leaves the names unchanged -/
theorem body_names : ∀ (s : Js) (nb : Names) (loc : List String) (nb' : Names) (ks : List String),
    bodyOk nb loc s = true → listen nb s = .ok (nb', ks) → nb' = nb := by
  intro s
  induction s with
  | skip => intro nb loc nb' ks _ hl; simp only [listen, Except.ok.injEq, Prod.mk.injEq] at hl; exact hl.1.symm
  | varDecl x => intro nb loc nb' ks _ hl; simp only [listen, Except.ok.injEq, Prod.mk.injEq] at hl; exact hl.1.symm
  | varInit x e _ => intro nb loc nb' ks hb hl; simp only [bodyOk] at hb; simp only [listen] at hl; exact pure_names_false hb hl
  | ret e _ => intro nb loc nb' ks hb hl; simp only [bodyOk] at hb; simp only [listen] at hl; exact pure_names_false hb hl
  | assign x e _ =>
    intro nb loc nb' ks hb hl
    simp only [bodyOk, Bool.and_eq_true] at hb
    simp only [listen] at hl
    obtain ⟨n0, h0, hl'⟩ := bind_ok hl
    have := onAssign_same hb.2 h0; subst this
    exact pure_names_false hb.1.2 hl'
  | ite c t e _ iht ihe =>
    intro nb loc nb' ks hb hl
    simp only [bodyOk, Bool.and_eq_true] at hb
    simp only [listen] at hl
    obtain ⟨⟨n1, k1⟩, hl1, hl⟩ := bind_ok hl
    simp only at hl
    obtain ⟨⟨n2, k2⟩, hl2, hl⟩ := bind_ok hl
    simp only at hl
    obtain ⟨⟨n3, k3⟩, hl3, hl⟩ := bind_ok hl
    simp only [Except.ok.injEq, Prod.mk.injEq] at hl
    obtain ⟨rfl, _⟩ := hl
    have := pure_names_false hb.1.1 hl1; subst this
    have := iht _ _ _ _ hb.1.2 hl2; subst this
    exact ihe _ _ _ _ hb.2 hl3
  | seq a b iha ihb =>
    intro nb loc nb' ks hb hl
    simp only [listen] at hl
    obtain ⟨⟨n1, k1⟩, hl1, hl⟩ := bind_ok hl
    simp only at hl
    obtain ⟨⟨n2, k2⟩, hl2, hl⟩ := bind_ok hl
    simp only [Except.ok.injEq, Prod.mk.injEq] at hl
    obtain ⟨rfl, _⟩ := hl
    have key : n1 = nb ∧ ∃ loc', bodyOk nb loc' b = true := by
      cases a with
      | varDecl x =>
        simp only [bodyOk] at hb
        simp only [listen, Except.ok.injEq, Prod.mk.injEq] at hl1
        exact ⟨hl1.1.symm, _, hb⟩
      | varInit x e =>
        simp only [bodyOk, Bool.and_eq_true] at hb
        simp only [listen] at hl1
        exact ⟨pure_names_false hb.1 hl1, _, hb.2⟩
      | _ =>
        rw [bodyOk_seq_other _ _ _ _ (by intros; simp) (by intros; simp)] at hb
        simp only [Bool.and_eq_true] at hb
        exact ⟨iha _ _ _ _ hb.1 hl1, _, hb.2⟩
    obtain ⟨rfl, loc', hb'⟩ := key
    exact ihb _ _ _ _ hb' hl2
  | fdecl f ps b _ => intro nb loc nb' ks hb; simp [bodyOk] at hb
  | fexpr ps b _ => intro nb loc nb' ks hb; simp [bodyOk] at hb
  | call f a _ _ => intro nb loc nb' ks hb; simp [bodyOk] at hb
  | loop i k n b _ => intro nb loc nb' ks hb; simp [bodyOk] at hb
  | num m => intro nb loc nb' ks hb hl; simp only [bodyOk] at hb; exact pure_names_false hb hl
  | str m => intro nb loc nb' ks hb hl; simp only [bodyOk] at hb; exact pure_names_false hb hl
  | ident m => intro nb loc nb' ks hb hl; simp only [bodyOk] at hb; exact pure_names_false hb hl
  | dot a k _ => intro nb loc nb' ks hb hl; simp only [bodyOk] at hb; exact pure_names_false hb hl
  | idx a i _ _ => intro nb loc nb' ks hb hl; simp only [bodyOk] at hb; exact pure_names_false hb hl
  | paren a _ => intro nb loc nb' ks hb hl; simp only [bodyOk] at hb; exact pure_names_false hb hl
  | bin a c _ _ => intro nb loc nb' ks hb hl; simp only [bodyOk] at hb; exact pure_names_false hb hl
  | cond a c d _ _ _ => intro nb loc nb' ks hb hl; simp only [bodyOk] at hb; exact pure_names_false hb hl

theorem pure_names_top {n loc top e n' ks} (hp : pureOk n loc top bodyOk e = true)
    (hl : listen n e = .ok (n', ks)) : n' = n :=
  pure_names bodyOk (fun nb ps body nb' ks h hl => body_names body nb ps nb' ks h hl) e n loc top n' ks hp hl

theorem frameAt_append_last (h : List Frame) (fr : Frame) : frameAt (h ++ [fr]) h.length = fr := by
  simp [frameAt, List.getD_eq_getElem?_getD]

theorem frameAt_append_lt (h : List Frame) (fr : Frame) (i : Nat) (hi : i < h.length) :
    frameAt (h ++ [fr]) i = frameAt h i := by
  simp [frameAt, List.getD_eq_getElem?_getD, List.getElem?_append_left hi]

theorem glookup_congr {h h' : List Frame} (h0 : frameAt h' 0 = frameAt h 0) (h1 : frameAt h' 1 = frameAt h 1)
    (x : String) : glookup h' x = glookup h x := by
  rw [glookup_def, glookup_def, h0, h1]

theorem bindParams_ok (D : List String) : ∀ (ps : List String) (vs : List Val),
    (∀ v, v ∈ vs → v ≠ .inp ∧ CloOk D v) → FrameOk D (bindParams ps vs) := by
  intro ps
  induction ps with
  | nil => intro vs _ x v h; simp [bindParams] at h
  | cons p ps ih =>
    intro vs hvs x v h
    cases vs with
    | nil =>
      simp only [bindParams, List.lookup] at h
      split at h
      · simp only [Option.some.injEq] at h; subst h; simp [CloOk]
      · exact ih [] (by simp) x v h
    | cons w ws =>
      simp only [bindParams, List.lookup] at h
      split at h
      · simp only [Option.some.injEq] at h; subst h; exact hvs _ (by simp)
      · exact ih ws (fun v hv => hvs v (by simp [hv])) x v h

theorem bindParams_dom : ∀ (ps : List String) (vs : List Val) (x : String),
    ps.contains x = true → (bindParams ps vs).lookup x ≠ none := by
  intro ps
  induction ps with
  | nil => intro vs x h; simp at h
  | cons p ps ih =>
    intro vs x h
    have hx : x = p ∨ ps.contains x = true := by
      simp only [List.contains_cons, Bool.or_eq_true, beq_iff_eq] at h; exact h
    cases vs with
    | nil =>
      simp only [bindParams, List.lookup]
      split
      · simp
      · rename_i hne
        rcases hx with rfl | hx
        · simp at hne
        · exact ih [] x hx
    | cons w ws =>
      simp only [bindParams, List.lookup]
      split
      · simp
      · rename_i hne
        rcases hx with rfl | hx
        · simp at hne
        · exact ih ws x hx

/-- what a function body may do to the heap: only its own frame `fid` changes, and stays clean -/
structure BodyRel (D : List String) (fid : Nat) (st st' : St) : Prop where
  others : ∀ g, g ≠ fid → frameAt st'.heap g = frameAt st.heap g
  len : st'.heap.length = st.heap.length
  frame_ok : FrameOk D (frameAt st'.heap fid)
  dom : ∀ x, (frameAt st.heap fid).lookup x ≠ none → (frameAt st'.heap fid).lookup x ≠ none

theorem BodyRel.of_heap_eq {D fid} {st st' : St} (h : st'.heap = st.heap) (hf : FrameOk D (frameAt st.heap fid)) :
    BodyRel D fid st st' := by
  refine ⟨fun g _ => by rw [h], by rw [h], by rw [h]; exact hf, fun x hx => by rw [h]; exact hx⟩

theorem BodyRel.trans {D fid} {a b c : St} (h1 : BodyRel D fid a b) (h2 : BodyRel D fid b c) : BodyRel D fid a c :=
  ⟨fun g hg => (h2.others g hg).trans (h1.others g hg), h2.len.trans h1.len, h2.frame_ok,
   fun x hx => h2.dom x (h1.dom x hx)⟩

theorem FrameOk.setVar {D : List String} {fr : Frame} (hf : FrameOk D fr) (x : String) (w : Val)
    (hw : w ≠ .inp ∧ CloOk D w) : FrameOk D (setVar fr x w) := by
  intro y v hy
  rw [lookup_setVar] at hy
  by_cases h : y = x
  · simp only [h, if_true, Option.some.injEq] at hy; subst hy; exact hw
  · simp only [h, if_false] at hy; exact hf y v hy

theorem setVar_dom (fr : Frame) (x : String) (w : Val) (y : String) (hy : fr.lookup y ≠ none) :
    (setVar fr x w).lookup y ≠ none := by
  rw [lookup_setVar]; by_cases h : y = x <;> simp [h, hy]

theorem set_rel {D : List String} {fid : Nat} {st st' : St} {x : String} {w : Val}
    (hh : st'.heap = st.heap.set fid (setVar (frameAt st.heap fid) x w)) (hfid : fid < st.heap.length)
    (hf : FrameOk D (frameAt st.heap fid)) (hw : w ≠ .inp ∧ CloOk D w) :
    BodyRel D fid st st' ∧ (frameAt st'.heap fid).lookup x ≠ none := by
  have hfr : frameAt st'.heap fid = setVar (frameAt st.heap fid) x w := by
    rw [hh, frameAt_set]; simp [hfid]
  refine ⟨⟨?_, ?_, ?_, ?_⟩, ?_⟩
  · intro g hg; rw [hh, frameAt_set]; simp [hg]
  · rw [hh]; simp
  · rw [hfr]; exact hf.setVar x w hw
  · intro y hy; rw [hfr]; exact setVar_dom _ _ _ _ hy
  · rw [hfr, lookup_setVar]; simp

theorem declare_rel {D : List String} {fid : Nat} {st st' : St} {x : String} {v : Option Val}
    (hh : st'.heap = declareVar st.heap fid x v) (hfid : fid < st.heap.length)
    (hf : FrameOk D (frameAt st.heap fid)) (hv : ∀ w, v = some w → w ≠ .inp ∧ CloOk D w) :
    BodyRel D fid st st' ∧ (frameAt st'.heap fid).lookup x ≠ none := by
  unfold declareVar at hh
  simp only at hh
  split at hh
  · rename_i w hl
    exact ⟨BodyRel.of_heap_eq hh hf, by rw [hh, hl]; simp⟩
  · rename_i w
    exact set_rel hh hfid hf (hv w rfl)
  · exact set_rel hh hfid hf (by simp [CloOk])

def PureP (D : List String) (fuel : Nat) : Prop :=
  ∀ (n : Names) (e : Js) (loc : List String) (top : Bool) (sc : List Nat) (st : St) (r : Res) (st' : St)
    (n' : Names) (ks : List String),
    pureOk n loc top bodyOk e = true → EnvOk n loc top D sc st.heap →
    eval fuel sc e st = some (r, st') → listen n e = .ok (n', ks) → (∀ k, k ∈ ks → k ∈ D) →
    n' = n ∧ HeapRel top st st' ∧ (∃ v, r = .normal v ∧ v ≠ .inp ∧ CloOk D v) ∧
    (∀ k, k ∈ st'.reads → k ∈ st.reads ∨ k ∈ D)

def ArgsP (D : List String) (fuel : Nat) : Prop :=
  ∀ (n : Names) (args : Js) (loc : List String) (top : Bool) (sc : List Nat) (st : St) (vs : List Val) (st' : St)
    (n' : Names) (ks : List String),
    pureOk n loc top bodyOk args = true → EnvOk n loc top D sc st.heap →
    evalArgs fuel sc args st = some (vs, st') → listen n args = .ok (n', ks) → (∀ k, k ∈ ks → k ∈ D) →
    n' = n ∧ HeapRel top st st' ∧ (∀ v, v ∈ vs → v ≠ .inp ∧ CloOk D v) ∧
    (∀ k, k ∈ st'.reads → k ∈ st.reads ∨ k ∈ D)

/-- the variable a statement declares in the current function frame -/
def declName : Js → Option String
  | .varDecl x => some x
  | .varInit x _ => some x
  | _ => none

theorem bodyOk_seq {nb : Names} {loc : List String} {a b : Js} (h : bodyOk nb loc (.seq a b) = true) :
    bodyOk nb loc a = true ∧
    bodyOk nb (match declName a with | some x => x :: loc | none => loc) b = true := by
  cases a <;> simp_all [bodyOk, declName]

def BodyP (D : List String) (fuel : Nat) : Prop :=
  ∀ (nb : Names) (s : Js) (loc : List String) (fid : Nat) (st : St) (r : Res) (st' : St)
    (nb' : Names) (ks : List String),
    bodyOk nb loc s = true → eval fuel (fid :: [1, 0]) s st = some (r, st') →
    listen nb s = .ok (nb', ks) → (∀ k, k ∈ ks → k ∈ D) →
    2 ≤ fid → fid < st.heap.length → FrameOk D (frameAt st.heap fid) →
    (∀ x v, glookup st.heap x = some v → CloOk D v) →
    (∀ x, loc.contains x = true → (frameAt st.heap fid).lookup x ≠ none) →
    nb' = nb ∧ BodyRel D fid st st' ∧ r.val ≠ .inp ∧ CloOk D r.val ∧
    (∀ x, declName s = some x → (frameAt st'.heap fid).lookup x ≠ none) ∧
    (∀ k, k ∈ st'.reads → k ∈ st.reads ∨ k ∈ D)

theorem reads_trans {a b c : List String} {D : List String}
    (h1 : ∀ k, k ∈ b → k ∈ a ∨ k ∈ D) (h2 : ∀ k, k ∈ c → k ∈ b ∨ k ∈ D) : ∀ k, k ∈ c → k ∈ a ∨ k ∈ D := by
  intro k hk
  rcases h2 k hk with h | h
  · exact h1 k h
  · exact Or.inr h

theorem pure_step (D : List String) (fuel : Nat) (ihP : PureP D fuel) (ihA : ArgsP D fuel) (ihB : BodyP D fuel) :
    PureP D (fuel + 1) := by
  intro n e loc top sc st r st' n' ks hp henv he hl hD
  cases e with
  | num m =>
    simp only [eval, Option.some.injEq, Prod.mk.injEq] at he; obtain ⟨rfl, rfl⟩ := he
    simp only [listen, Except.ok.injEq, Prod.mk.injEq] at hl; obtain ⟨rfl, rfl⟩ := hl
    exact ⟨rfl, HeapRel.refl _ _, ⟨_, rfl, by simp, by simp [CloOk]⟩, fun k hk => Or.inl hk⟩
  | str m =>
    simp only [eval, Option.some.injEq, Prod.mk.injEq] at he; obtain ⟨rfl, rfl⟩ := he
    simp only [listen, Except.ok.injEq, Prod.mk.injEq] at hl; obtain ⟨rfl, rfl⟩ := hl
    exact ⟨rfl, HeapRel.refl _ _, ⟨_, rfl, by simp, by simp [CloOk]⟩, fun k hk => Or.inl hk⟩
  | ident x =>
    obtain ⟨rfl, v, rfl, hv⟩ := eval_ident he
    simp only [listen, Except.ok.injEq, Prod.mk.injEq] at hl; obtain ⟨rfl, rfl⟩ := hl
    refine ⟨rfl, HeapRel.refl _ _, ⟨v, rfl, ?_, henv.clo_ok x v hv⟩, fun k hk => Or.inl hk⟩
    simp only [pureOk, Bool.or_eq_true, Bool.and_eq_true, Bool.not_eq_true'] at hp
    by_cases hc : loc.contains x = true
    · exact henv.loc_clean x v hv hc
    · rcases hp with hp | ⟨ht, hh⟩
      · exact absurd hp hc
      · exact henv.free_clean x v hv (by simpa using hc) ht hh
  | dot e1 k =>
    simp only [eval] at he
    cases h1 : eval fuel sc e1 st with
    | none => rw [h1] at he; simp at he
    | some p =>
      obtain ⟨r1, st1⟩ := p
      rw [h1] at he; simp only at he
      cases h2 : getProp st1 r1.val k with
      | none => rw [h2] at he; simp at he
      | some q =>
        obtain ⟨w, st2⟩ := q
        rw [h2] at he
        simp only [Option.some.injEq, Prod.mk.injEq] at he
        obtain ⟨rfl, rfl⟩ := he
        obtain ⟨hw, hwc, hheap, hreads⟩ := getProp_spec (D := D) h2
        simp only [listen] at hl
        obtain ⟨⟨n1, k1⟩, hl1, hl⟩ := bind_ok hl
        simp only [Except.ok.injEq, Prod.mk.injEq] at hl
        obtain ⟨rfl, rfl⟩ := hl
        simp only [pureOk] at hp
        cases hn : nameOf e1 with
        | some x =>
          have := nameOf_some hn; subst this
          obtain ⟨rfl, v, rfl, hv⟩ := eval_ident h1
          simp only [listen, Except.ok.injEq, Prod.mk.injEq] at hl1; obtain ⟨rfl, rfl⟩ := hl1
          refine ⟨rfl, HeapRel.of_heap_eq hheap, ⟨w, rfl, hw, hwc⟩, ?_⟩
          intro kk hkk
          rcases hreads with hr | ⟨hvi, hr⟩
          · rw [hr] at hkk; exact Or.inl hkk
          · rw [hr] at hkk
            simp only [Res.val] at hvi; subst hvi
            rcases List.mem_cons.mp hkk with rfl | hkk
            · right
              simp only [nameOf] at hp
              by_cases hc : loc.contains x = true
              · exact absurd rfl (henv.loc_clean x _ hv hc)
              · have hc' : loc.contains x = false := by simpa using hc
                have hc'' : x ∉ loc := by simpa using hc
                by_cases hg : n.isGlobal x = true
                · simp [hc'', hg] at hp
                  apply hD
                  simp [dotKeys, nameOf, hg, hp.1, hp.2]
                · have hg' : n.isGlobal x = false := by simpa using hg
                  simp [hc'', hg'] at hp
                  exact absurd rfl (henv.free_clean x _ hv hc' hp.1 hp.2)
            · exact Or.inl hkk
        | none =>
          rw [hn] at hp; simp only at hp
          have hk1 : ∀ k, k ∈ k1 → k ∈ D := fun k hk => hD k (List.mem_append_right _ hk)
          obtain ⟨rfl, hrel, ⟨v, rfl, hv, _⟩, hrd⟩ := ihP n e1 loc top sc st r1 st1 n1 k1 hp henv h1 hl1 hk1
          refine ⟨rfl, hrel.trans (HeapRel.of_heap_eq hheap), ⟨w, rfl, hw, hwc⟩, ?_⟩
          rcases hreads with hr | ⟨hvi, _⟩
          · rw [hr]; exact hrd
          · exact absurd hvi hv
  | paren e1 =>
    simp only [eval] at he
    simp only [listen] at hl
    simp only [pureOk] at hp
    exact ihP n e1 loc top sc st r st' n' ks hp henv he hl hD
  | bin a b =>
    simp only [eval] at he
    cases h1 : eval fuel sc a st with
    | none => rw [h1] at he; simp at he
    | some p =>
      obtain ⟨ra, st1⟩ := p
      rw [h1] at he; simp only at he
      cases h2 : eval fuel sc b st1 with
      | none => rw [h2] at he; simp at he
      | some q =>
        obtain ⟨rb, st2⟩ := q
        rw [h2] at he; simp only at he
        cases h3 : plus ra.val rb.val with
        | none => rw [h3] at he; simp at he
        | some v =>
          rw [h3] at he
          simp only [Option.some.injEq, Prod.mk.injEq] at he
          obtain ⟨rfl, rfl⟩ := he
          simp only [listen] at hl
          obtain ⟨⟨n1, k1⟩, hl1, hl⟩ := bind_ok hl
          simp only at hl
          obtain ⟨⟨n2, k2⟩, hl2, hl⟩ := bind_ok hl
          simp only [Except.ok.injEq, Prod.mk.injEq] at hl
          obtain ⟨rfl, rfl⟩ := hl
          simp only [pureOk, Bool.and_eq_true] at hp
          obtain ⟨rfl, hrel1, _, hrd1⟩ := ihP n a loc top sc st ra st1 n1 k1 hp.1 henv h1 hl1
            (fun k hk => hD k (List.mem_append_left _ hk))
          obtain ⟨rfl, hrel2, _, hrd2⟩ := ihP n1 b loc top sc st1 rb st2 n2 k2 hp.2 (henv.rel hrel1) h2 hl2
            (fun k hk => hD k (List.mem_append_right _ hk))
          obtain ⟨hv, hvc⟩ := plus_spec (D := D) h3
          exact ⟨rfl, hrel1.trans hrel2, ⟨v, rfl, hv, hvc⟩, reads_trans hrd1 hrd2⟩
  | cond c a b =>
    simp only [eval] at he
    cases h1 : eval fuel sc c st with
    | none => rw [h1] at he; simp at he
    | some p =>
      obtain ⟨rc, st1⟩ := p
      rw [h1] at he; simp only at he
      simp only [listen] at hl
      obtain ⟨⟨n1, k1⟩, hl1, hl⟩ := bind_ok hl
      simp only at hl
      obtain ⟨⟨n2, k2⟩, hl2, hl⟩ := bind_ok hl
      simp only at hl
      obtain ⟨⟨n3, k3⟩, hl3, hl⟩ := bind_ok hl
      simp only [Except.ok.injEq, Prod.mk.injEq] at hl
      obtain ⟨rfl, rfl⟩ := hl
      simp only [pureOk, Bool.and_eq_true] at hp
      obtain ⟨rfl, hrel1, _, hrd1⟩ := ihP n c loc top sc st rc st1 n1 k1 hp.1.1 henv h1 hl1
        (fun k hk => hD k (List.mem_append_left _ (List.mem_append_left _ hk)))
      have hn2 : n2 = n1 := pure_names_top hp.1.2 hl2
      subst hn2
      have hn3 : n3 = n2 := pure_names_top hp.2 hl3
      subst hn3
      split at he
      · obtain ⟨_, hrel2, hv, hrd2⟩ := ihP n3 a loc top sc st1 r st' n3 k2 hp.1.2 (henv.rel hrel1) he hl2
          (fun k hk => hD k (List.mem_append_left _ (List.mem_append_right _ hk)))
        exact ⟨rfl, hrel1.trans hrel2, hv, reads_trans hrd1 hrd2⟩
      · obtain ⟨_, hrel2, hv, hrd2⟩ := ihP n3 b loc top sc st1 r st' n3 k3 hp.2 (henv.rel hrel1) he hl3
          (fun k hk => hD k (List.mem_append_right _ hk))
        exact ⟨rfl, hrel1.trans hrel2, hv, reads_trans hrd1 hrd2⟩
  | skip =>
    simp only [eval, Option.some.injEq, Prod.mk.injEq] at he; obtain ⟨rfl, rfl⟩ := he
    simp only [listen, Except.ok.injEq, Prod.mk.injEq] at hl; obtain ⟨rfl, rfl⟩ := hl
    exact ⟨rfl, HeapRel.refl _ _, ⟨_, rfl, by simp, by simp [CloOk]⟩, fun k hk => Or.inl hk⟩
  | seq a b =>
    simp only [eval] at he
    cases h1 : eval fuel sc a st with
    | none => rw [h1] at he; simp at he
    | some p =>
      obtain ⟨ra, st1⟩ := p
      simp only [listen] at hl
      obtain ⟨⟨n1, k1⟩, hl1, hl⟩ := bind_ok hl
      simp only at hl
      obtain ⟨⟨n2, k2⟩, hl2, hl⟩ := bind_ok hl
      simp only [Except.ok.injEq, Prod.mk.injEq] at hl
      obtain ⟨rfl, rfl⟩ := hl
      simp only [pureOk, Bool.and_eq_true] at hp
      obtain ⟨rfl, hrel1, ⟨va, rfl, _, _⟩, hrd1⟩ := ihP n a loc top sc st ra st1 n1 k1 hp.1 henv h1 hl1
        (fun k hk => hD k (List.mem_append_left _ hk))
      rw [h1] at he; simp only at he
      obtain ⟨rfl, hrel2, hv, hrd2⟩ := ihP n1 b loc top sc st1 r st' n2 k2 hp.2 (henv.rel hrel1) he hl2
        (fun k hk => hD k (List.mem_append_right _ hk))
      exact ⟨rfl, hrel1.trans hrel2, hv, reads_trans hrd1 hrd2⟩
  | fexpr ps body =>
    simp only [eval, Option.some.injEq, Prod.mk.injEq] at he; obtain ⟨rfl, rfl⟩ := he
    simp only [listen] at hl
    simp only [pureOk, Bool.and_eq_true] at hp
    have := body_names body n ps n' ks hp.2 hl; subst this
    exact ⟨rfl, HeapRel.refl _ _, ⟨_, rfl, by simp, henv.sc_top hp.1, n', ks, hl, hp.2, hD⟩, fun k hk => Or.inl hk⟩
  | idx e1 i =>
    simp only [eval] at he
    cases h1 : eval fuel sc e1 st with
    | none => rw [h1] at he; simp at he
    | some p =>
      obtain ⟨r1, st1⟩ := p
      rw [h1] at he; simp only at he
      cases h2 : eval fuel sc i st1 with
      | none => rw [h2] at he; simp at he
      | some q =>
        obtain ⟨ri, st2⟩ := q
        rw [h2] at he; simp only at he
        cases h3 : keyOf ri.val with
        | none => rw [h3] at he; simp at he
        | some key =>
          rw [h3] at he; simp only at he
          cases h4 : getProp st2 r1.val key with
          | none => rw [h4] at he; simp at he
          | some qq =>
            obtain ⟨w, st3⟩ := qq
            rw [h4] at he; simp only [Option.some.injEq, Prod.mk.injEq] at he
            obtain ⟨rfl, rfl⟩ := he
            obtain ⟨hw, hwc, hheap, hreads⟩ := getProp_spec (D := D) h4
            simp only [listen] at hl
            obtain ⟨k0, hk0, hl⟩ := bind_ok hl
            obtain ⟨⟨n1, k1⟩, hl1, hl⟩ := bind_ok hl
            simp only at hl
            obtain ⟨⟨n2, k2⟩, hl2, hl⟩ := bind_ok hl
            simp only [Except.ok.injEq, Prod.mk.injEq] at hl
            obtain ⟨rfl, rfl⟩ := hl
            simp only [pureOk] at hp
            -- the common ending: the object is not `inputs`, the index is a pure expression
            have finish : n1 = n → HeapRel top st st1 → (∀ k, k ∈ st1.reads → k ∈ st.reads ∨ k ∈ D) →
                r1.val ≠ .inp → pureOk n loc top bodyOk i = true →
                n2 = n ∧ HeapRel top st st3 ∧ (∃ v, Res.normal w = .normal v ∧ v ≠ .inp ∧ CloOk D v) ∧
                (∀ k, k ∈ st3.reads → k ∈ st.reads ∨ k ∈ D) := by
              intro hn1 hrel1 hrd1 hne hpi
              subst hn1
              obtain ⟨rfl, hrel2, _, hrd2⟩ := ihP n1 i loc top sc st1 ri st2 n2 k2 hpi (henv.rel hrel1) h2 hl2
                (fun k hk => hD k (List.mem_append_right _ hk))
              refine ⟨rfl, (hrel1.trans hrel2).trans (HeapRel.of_heap_eq hheap), ⟨w, rfl, hw, hwc⟩, ?_⟩
              rcases hreads with hr | ⟨hvi, _⟩
              · rw [hr]; exact reads_trans hrd1 hrd2
              · exact absurd hvi hne
            cases hn : nameOf e1 with
            | some x =>
              have := nameOf_some hn; subst this
              obtain ⟨rfl, v, rfl, hv⟩ := eval_ident h1
              simp only [listen, Except.ok.injEq, Prod.mk.injEq] at hl1; obtain ⟨rfl, rfl⟩ := hl1
              simp only [nameOf] at hp
              by_cases hc : loc.contains x = true
              · simp only [hc, if_true, Bool.and_eq_true] at hp
                exact finish rfl (HeapRel.refl _ _) (fun k hk => Or.inl hk) (henv.loc_clean x v hv hc) hp.2
              · have hc' : loc.contains x = false := by simpa using hc
                simp only [hc', Bool.false_eq_true, if_false] at hp
                by_cases hg : n.isGlobal x = true
                · simp only [hg, if_true] at hp
                  cases i <;> simp at hp
                  rename_i kstr
                  obtain ⟨rfl, rfl⟩ := eval_str h2
                  simp only [listen, Except.ok.injEq, Prod.mk.injEq] at hl2; obtain ⟨rfl, rfl⟩ := hl2
                  simp only [Res.val, keyOf, Option.some.injEq] at h3
                  subst h3
                  refine ⟨rfl, HeapRel.of_heap_eq hheap, ⟨w, rfl, hw, hwc⟩, ?_⟩
                  intro kk hkk
                  rcases hreads with hr | ⟨_, hr⟩
                  · rw [hr] at hkk; exact Or.inl hkk
                  · rw [hr] at hkk
                    rcases List.mem_cons.mp hkk with rfl | hkk
                    · right
                      apply hD
                      simp only [idxKeys, nameOf, hg, if_true, Except.ok.injEq] at hk0
                      subst hk0
                      simp [hp]
                    · exact Or.inl hkk
                · have hg' : n.isGlobal x = false := by simpa using hg
                  simp only [hg', Bool.false_eq_true, if_false, Bool.and_eq_true, Bool.not_eq_true'] at hp
                  exact finish rfl (HeapRel.refl _ _) (fun k hk => Or.inl hk)
                    (henv.free_clean x v hv hc' hp.1.1 hp.1.2) hp.2
            | none =>
              rw [hn] at hp; simp only [Bool.and_eq_true] at hp
              obtain ⟨hn1, hrel1, ⟨v, rfl, hv, _⟩, hrd1⟩ := ihP n e1 loc top sc st r1 st1 n1 k1 hp.1 henv h1 hl1
                (fun k hk => hD k (List.mem_append_left _ (List.mem_append_right _ hk)))
              exact finish hn1 hrel1 hrd1 hv (hn1 ▸ hp.2)
  | call f args =>
    simp only [pureOk, Bool.and_eq_true] at hp
    obtain ⟨⟨htop, hpf⟩, hpa⟩ := hp
    subst htop
    simp only [listen] at hl
    obtain ⟨⟨n1, k1⟩, hl1, hl⟩ := bind_ok hl
    simp only at hl
    obtain ⟨⟨n2, k2⟩, hl2, hl⟩ := bind_ok hl
    simp only [Except.ok.injEq, Prod.mk.injEq] at hl
    obtain ⟨rfl, rfl⟩ := hl
    simp only [eval] at he
    cases h1 : eval fuel sc f st with
    | none => rw [h1] at he; simp at he
    | some p =>
      obtain ⟨rf, st1⟩ := p
      rw [h1] at he; simp only at he
      obtain ⟨rfl, hrel1, ⟨vf, rfl, hvf, hcf⟩, hrd1⟩ := ihP n f loc true sc st rf st1 n1 k1 hpf henv h1 hl1
        (fun k hk => hD k (List.mem_append_left _ hk))
      simp only [Res.val] at he
      cases vf with
      | clo ps body csc =>
        simp only at he
        cases h2 : evalArgs fuel sc args st1 with
        | none => rw [h2] at he; simp at he
        | some q =>
          obtain ⟨vs, st2⟩ := q
          rw [h2] at he; simp only at he
          obtain ⟨rfl, hrel2, hvs, hrd2⟩ := ihA n1 args loc true sc st1 vs st2 n2 k2 hpa (henv.rel hrel1) h2 hl2
            (fun k hk => hD k (List.mem_append_right _ hk))
          simp only [CloOk] at hcf
          obtain ⟨rfl, nb, ksb, hlb, hbody, hksb⟩ := hcf
          have henv2 := (henv.rel hrel1).rel hrel2
          have hlen := henv2.len_ok rfl
          have hsc := henv2.sc_top rfl
          cases h3 : eval fuel (st2.heap.length :: [1, 0]) body
              { st2 with heap := st2.heap ++ [bindParams ps vs] } with
          | none => rw [h3] at he; simp at he
          | some q3 =>
            obtain ⟨r3, st3⟩ := q3
            rw [h3] at he
            obtain ⟨_, hbrel, hr3, hr3c, _, hrd3⟩ :=
              ihB nb body ps st2.heap.length _ r3 st3 nb ksb hbody h3 hlb hksb hlen (by simp)
                (by simp only [frameAt_append_last]; exact bindParams_ok D ps vs hvs)
                (by
                  intro x v hx
                  simp only at hx
                  rw [glookup_congr (frameAt_append_lt _ _ 0 (by omega)) (frameAt_append_lt _ _ 1 (by omega))] at hx
                  apply henv2.clo_ok x v
                  rw [hsc]; exact hx)
                (by
                  intro x hx
                  simp only [frameAt_append_last]
                  exact bindParams_dom ps vs x hx)
            simp only at hrd3
            have hrel3 : HeapRel true st2 st3 := by
              refine ⟨fun h => by simp at h, ?_, ?_, ?_⟩
              · rw [hbrel.others 0 (by omega)]; exact frameAt_append_lt _ _ 0 (by omega)
              · rw [hbrel.others 1 (by omega)]; exact frameAt_append_lt _ _ 1 (by omega)
              · rw [hbrel.len]; simp
            cases r3 with
            | normal v3 =>
              simp only [Option.some.injEq, Prod.mk.injEq] at he
              obtain ⟨rfl, rfl⟩ := he
              exact ⟨rfl, (hrel1.trans hrel2).trans hrel3, ⟨_, rfl, by simp, by simp [CloOk]⟩,
                reads_trans (reads_trans hrd1 hrd2) hrd3⟩
            | returned v3 =>
              simp only [Option.some.injEq, Prod.mk.injEq] at he
              obtain ⟨rfl, rfl⟩ := he
              exact ⟨rfl, (hrel1.trans hrel2).trans hrel3, ⟨_, rfl, hr3, hr3c⟩,
                reads_trans (reads_trans hrd1 hrd2) hrd3⟩
      | _ => simp at he
  | _ => simp [pureOk] at hp

theorem args_step (D : List String) (fuel : Nat) (ihP : PureP D fuel) (ihA : ArgsP D fuel) :
    ArgsP D (fuel + 1) := by
  intro n args loc top sc st vs st' n' ks hp henv he hl hD
  cases args with
  | seq a rest =>
    simp only [evalArgs] at he
    cases h1 : eval fuel sc a st with
    | none => rw [h1] at he; simp at he
    | some p =>
      obtain ⟨ra, st1⟩ := p
      rw [h1] at he; simp only at he
      cases h2 : evalArgs fuel sc rest st1 with
      | none => rw [h2] at he; simp at he
      | some q =>
        obtain ⟨ws, st2⟩ := q
        rw [h2] at he
        simp only [Option.some.injEq, Prod.mk.injEq] at he
        obtain ⟨rfl, rfl⟩ := he
        simp only [listen] at hl
        obtain ⟨⟨n1, k1⟩, hl1, hl⟩ := bind_ok hl
        simp only at hl
        obtain ⟨⟨n2, k2⟩, hl2, hl⟩ := bind_ok hl
        simp only [Except.ok.injEq, Prod.mk.injEq] at hl
        obtain ⟨rfl, rfl⟩ := hl
        simp only [pureOk, Bool.and_eq_true] at hp
        obtain ⟨rfl, hrel1, ⟨va, rfl, hva, hvac⟩, hrd1⟩ := ihP n a loc top sc st ra st1 n1 k1 hp.1 henv h1 hl1
          (fun k hk => hD k (List.mem_append_left _ hk))
        obtain ⟨rfl, hrel2, hws, hrd2⟩ := ihA n1 rest loc top sc st1 ws st2 n2 k2 hp.2 (henv.rel hrel1) h2 hl2
          (fun k hk => hD k (List.mem_append_right _ hk))
        refine ⟨rfl, hrel1.trans hrel2, ?_, reads_trans hrd1 hrd2⟩
        intro v hv
        rcases List.mem_cons.mp hv with rfl | hv
        · exact ⟨hva, hvac⟩
        · exact hws v hv
  | _ =>
    simp only [evalArgs, Option.some.injEq, Prod.mk.injEq] at he
    obtain ⟨rfl, rfl⟩ := he
    exact ⟨pure_names_top hp hl, HeapRel.refl _ _, by simp, fun k hk => Or.inl hk⟩

theorem body_env {D : List String} {nb : Names} {loc : List String} {fid : Nat} {h : List Frame}
    (hfr : FrameOk D (frameAt h fid)) (hg : ∀ x v, glookup h x = some v → CloOk D v)
    (hloc : ∀ x, loc.contains x = true → (frameAt h fid).lookup x ≠ none) :
    EnvOk nb loc false D (fid :: [1, 0]) h := by
  refine ⟨?_, fun _ _ _ _ ht => by simp at ht, ?_, fun ht => by simp at ht, fun ht => by simp at ht⟩
  · intro x v hv hc
    rw [lookupVar_body] at hv
    cases hl : (frameAt h fid).lookup x with
    | none => exact absurd hl (hloc x hc)
    | some w => rw [hl] at hv; simp only [Option.some_or, Option.some.injEq] at hv; subst hv; exact (hfr x w hl).1
  · intro x v hv
    rw [lookupVar_body] at hv
    cases hl : (frameAt h fid).lookup x with
    | none => rw [hl] at hv; simp only [Option.none_or] at hv; exact hg x v hv
    | some w => rw [hl] at hv; simp only [Option.some_or, Option.some.injEq] at hv; subst hv; exact (hfr x w hl).2

/-- a pure expression evaluated inside a function body -/
theorem body_pure {D : List String} {fuel : Nat} (ihP : PureP D fuel) {nb : Names} {e : Js} {loc : List String}
    {fid : Nat} {st : St} {r : Res} {st' : St} {nb' : Names} {ks : List String}
    (hp : pureOk nb loc false (fun _ _ _ => false) e = true)
    (he : eval fuel (fid :: [1, 0]) e st = some (r, st')) (hl : listen nb e = .ok (nb', ks))
    (hD : ∀ k, k ∈ ks → k ∈ D) (hfr : FrameOk D (frameAt st.heap fid))
    (hg : ∀ x v, glookup st.heap x = some v → CloOk D v)
    (hloc : ∀ x, loc.contains x = true → (frameAt st.heap fid).lookup x ≠ none) :
    nb' = nb ∧ st'.heap = st.heap ∧ r.val ≠ .inp ∧ CloOk D r.val ∧ (∃ v, r = .normal v) ∧
    (∀ k, k ∈ st'.reads → k ∈ st.reads ∨ k ∈ D) := by
  rw [pureOk_false_irrel nb _ bodyOk] at hp
  obtain ⟨h1, hrel, ⟨v, rfl, hv, hvc⟩, hrd⟩ := ihP nb e loc false _ st r st' nb' ks hp (body_env hfr hg hloc) he hl hD
  exact ⟨h1, hrel.1 rfl, hv, hvc, ⟨v, rfl⟩, hrd⟩

theorem body_of_pure {D : List String} {fuel : Nat} (ihP : PureP D fuel) {nb : Names} {e : Js} {loc : List String}
    {fid : Nat} {st : St} {r : Res} {st' : St} {nb' : Names} {ks : List String}
    (hp : pureOk nb loc false (fun _ _ _ => false) e = true)
    (he : eval fuel (fid :: [1, 0]) e st = some (r, st')) (hl : listen nb e = .ok (nb', ks))
    (hD : ∀ k, k ∈ ks → k ∈ D) (hfr : FrameOk D (frameAt st.heap fid))
    (hg : ∀ x v, glookup st.heap x = some v → CloOk D v)
    (hloc : ∀ x, loc.contains x = true → (frameAt st.heap fid).lookup x ≠ none) :
    nb' = nb ∧ BodyRel D fid st st' ∧ r.val ≠ .inp ∧ CloOk D r.val ∧
    (∀ k, k ∈ st'.reads → k ∈ st.reads ∨ k ∈ D) := by
  obtain ⟨h1, hheap, hv, hvc, _, hrd⟩ := body_pure ihP hp he hl hD hfr hg hloc
  exact ⟨h1, BodyRel.of_heap_eq hheap hfr, hv, hvc, hrd⟩

theorem body_step (D : List String) (fuel : Nat) (ihP : PureP D fuel) (ihA : ArgsP D fuel) (ihB : BodyP D fuel) :
    BodyP D (fuel + 1) := by
  intro nb s loc fid st r st' nb' ks hb he hl hD hfid2 hfid hfr hg hloc
  have hP1 : PureP D (fuel + 1) := pure_step D fuel ihP ihA ihB
  cases s with
  | skip =>
    simp only [eval, Option.some.injEq, Prod.mk.injEq] at he; obtain ⟨rfl, rfl⟩ := he
    simp only [listen, Except.ok.injEq, Prod.mk.injEq] at hl; obtain ⟨rfl, rfl⟩ := hl
    exact ⟨rfl, BodyRel.of_heap_eq rfl hfr, by simp [Res.val], by simp [Res.val, CloOk],
      by intro x h; simp [declName] at h, fun k hk => Or.inl hk⟩
  | varDecl x =>
    simp only [eval, List.headD, Option.some.injEq, Prod.mk.injEq] at he
    obtain ⟨rfl, rfl⟩ := he
    simp only [listen, Except.ok.injEq, Prod.mk.injEq] at hl; obtain ⟨rfl, rfl⟩ := hl
    have := declare_rel (D := D) (st := st) (st' := { st with heap := declareVar st.heap fid x none }) rfl hfid hfr
      (by intro w h; simp at h)
    refine ⟨rfl, this.1, by simp [Res.val], by simp [Res.val, CloOk], ?_, fun k hk => Or.inl hk⟩
    intro y hy; simp only [declName, Option.some.injEq] at hy; subst hy; exact this.2
  | varInit x e =>
    simp only [eval] at he
    cases h1 : eval fuel (fid :: [1, 0]) e st with
    | none => rw [h1] at he; simp at he
    | some p =>
      obtain ⟨r1, st1⟩ := p
      rw [h1] at he
      simp only [List.headD, Option.some.injEq, Prod.mk.injEq] at he
      obtain ⟨rfl, rfl⟩ := he
      simp only [bodyOk] at hb
      simp only [listen] at hl
      obtain ⟨rfl, hheap, hv, hvc, _, hrd⟩ := body_pure ihP hb h1 hl hD hfr hg hloc
      have := declare_rel (D := D) (st := st1)
        (st' := { st1 with heap := declareVar st1.heap fid x (some r1.val) }) rfl (hheap ▸ hfid) (hheap ▸ hfr)
        (by intro w h; simp only [Option.some.injEq] at h; subst h; exact ⟨hv, hvc⟩)
      refine ⟨rfl, (BodyRel.of_heap_eq hheap hfr).trans this.1, by simp [Res.val], by simp [Res.val, CloOk], ?_, hrd⟩
      intro y hy; simp only [declName, Option.some.injEq] at hy; subst hy; exact this.2
  | assign x e =>
    simp only [eval] at he
    cases h1 : eval fuel (fid :: [1, 0]) e st with
    | none => rw [h1] at he; simp at he
    | some p =>
      obtain ⟨r1, st1⟩ := p
      rw [h1] at he; simp only at he
      simp only [bodyOk, Bool.and_eq_true] at hb
      obtain ⟨⟨hlx, hpe⟩, hon⟩ := hb
      simp only [listen] at hl
      obtain ⟨n0, h0, hl'⟩ := bind_ok hl
      have := onAssign_same hon h0; subst this
      obtain ⟨rfl, hheap, hv, hvc, _, hrd⟩ := body_pure ihP hpe h1 hl' hD hfr hg hloc
      have hx : (frameAt st1.heap fid).lookup x ≠ none := by rw [hheap]; exact hloc x hlx
      cases hlk : (frameAt st1.heap fid).lookup x with
      | none => exact absurd hlk hx
      | some w0 =>
        simp only [assignVar, hlk] at he
        simp only [Option.some.injEq, Prod.mk.injEq] at he
        obtain ⟨rfl, rfl⟩ := he
        have := set_rel (D := D) (st := st1)
          (st' := { st1 with heap := st1.heap.set fid (setVar (frameAt st1.heap fid) x r1.val) }) rfl
          (hheap ▸ hfid) (hheap ▸ hfr) ⟨hv, hvc⟩
        exact ⟨rfl, (BodyRel.of_heap_eq hheap hfr).trans this.1, by simpa [Res.val] using hv,
          by simpa [Res.val] using hvc, by intro y hy; simp [declName] at hy, hrd⟩
  | ret e =>
    simp only [eval] at he
    cases h1 : eval fuel (fid :: [1, 0]) e st with
    | none => rw [h1] at he; simp at he
    | some p =>
      obtain ⟨r1, st1⟩ := p
      rw [h1] at he
      simp only [Option.some.injEq, Prod.mk.injEq] at he
      obtain ⟨rfl, rfl⟩ := he
      simp only [bodyOk] at hb
      simp only [listen] at hl
      obtain ⟨rfl, hrel, hv, hvc, hrd⟩ := body_of_pure ihP hb h1 hl hD hfr hg hloc
      exact ⟨rfl, hrel, by simpa [Res.val] using hv, by simpa [Res.val] using hvc,
        by intro y hy; simp [declName] at hy, hrd⟩
  | ite c t e =>
    simp only [eval] at he
    cases h1 : eval fuel (fid :: [1, 0]) c st with
    | none => rw [h1] at he; simp at he
    | some p =>
      obtain ⟨rc, st1⟩ := p
      rw [h1] at he; simp only at he
      simp only [bodyOk, Bool.and_eq_true] at hb
      obtain ⟨⟨hpc, hbt⟩, hbe⟩ := hb
      simp only [listen] at hl
      obtain ⟨⟨n1, k1⟩, hl1, hl⟩ := bind_ok hl
      simp only at hl
      obtain ⟨⟨n2, k2⟩, hl2, hl⟩ := bind_ok hl
      simp only at hl
      obtain ⟨⟨n3, k3⟩, hl3, hl⟩ := bind_ok hl
      simp only [Except.ok.injEq, Prod.mk.injEq] at hl
      obtain ⟨rfl, rfl⟩ := hl
      obtain ⟨rfl, hheap, _, _, _, hrd1⟩ := body_pure ihP hpc h1 hl1
        (fun k hk => hD k (List.mem_append_left _ (List.mem_append_left _ hk))) hfr hg hloc
      have hn2 := body_names t n1 loc n2 k2 hbt hl2; subst hn2
      have hn3 := body_names e n2 loc n3 k3 hbe hl3; subst hn3
      have hrel1 : BodyRel D fid st st1 := BodyRel.of_heap_eq hheap hfr
      split at he
      · obtain ⟨_, hrel2, hv, hvc, _, hrd2⟩ := ihB n3 t loc fid st1 r st' n3 k2 hbt he hl2
          (fun k hk => hD k (List.mem_append_left _ (List.mem_append_right _ hk)))
          hfid2 (hheap ▸ hfid) (hheap ▸ hfr) (hheap ▸ hg) (hheap ▸ hloc)
        exact ⟨rfl, hrel1.trans hrel2, hv, hvc, by intro y hy; simp [declName] at hy, reads_trans hrd1 hrd2⟩
      · obtain ⟨_, hrel2, hv, hvc, _, hrd2⟩ := ihB n3 e loc fid st1 r st' n3 k3 hbe he hl3
          (fun k hk => hD k (List.mem_append_right _ hk))
          hfid2 (hheap ▸ hfid) (hheap ▸ hfr) (hheap ▸ hg) (hheap ▸ hloc)
        exact ⟨rfl, hrel1.trans hrel2, hv, hvc, by intro y hy; simp [declName] at hy, reads_trans hrd1 hrd2⟩
  | seq a b =>
    obtain ⟨hba, hbb⟩ := bodyOk_seq hb
    simp only [listen] at hl
    obtain ⟨⟨n1, k1⟩, hl1, hl⟩ := bind_ok hl
    simp only at hl
    obtain ⟨⟨n2, k2⟩, hl2, hl⟩ := bind_ok hl
    simp only [Except.ok.injEq, Prod.mk.injEq] at hl
    obtain ⟨rfl, rfl⟩ := hl
    simp only [eval] at he
    cases h1 : eval fuel (fid :: [1, 0]) a st with
    | none => rw [h1] at he; simp at he
    | some p =>
      obtain ⟨ra, st1⟩ := p
      rw [h1] at he
      obtain ⟨rfl, hrel1, hva, hvac, hdecl, hrd1⟩ := ihB nb a loc fid st ra st1 n1 k1 hba h1 hl1
        (fun k hk => hD k (List.mem_append_left _ hk)) hfid2 hfid hfr hg hloc
      cases ra with
      | returned v =>
        simp only [Option.some.injEq, Prod.mk.injEq] at he
        obtain ⟨rfl, rfl⟩ := he
        have := body_names b n1 _ n2 k2 hbb hl2; subst this
        exact ⟨rfl, hrel1, hva, hvac, by intro y hy; simp [declName] at hy, hrd1⟩
      | normal v =>
        simp only at he
        have hg1 : ∀ x v, glookup st1.heap x = some v → CloOk D v := by
          intro x v hx
          rw [glookup_congr (hrel1.others 0 (by omega)) (hrel1.others 1 (by omega))] at hx
          exact hg x v hx
        obtain ⟨rfl, hrel2, hv, hvc, _, hrd2⟩ := ihB n1 b _ fid st1 r st' n2 k2 hbb he hl2
          (fun k hk => hD k (List.mem_append_right _ hk)) hfid2 (hrel1.len ▸ hfid) hrel1.frame_ok hg1
          (by
            intro x hx
            cases hd : declName a with
            | none => rw [hd] at hx; exact hrel1.dom x (hloc x hx)
            | some y =>
              rw [hd] at hx
              simp only [List.contains_cons, Bool.or_eq_true, beq_iff_eq] at hx
              rcases hx with rfl | hx
              · exact hdecl _ hd
              · exact hrel1.dom x (hloc x hx))
        exact ⟨rfl, hrel1.trans hrel2, hv, hvc, by intro y hy; simp [declName] at hy, reads_trans hrd1 hrd2⟩
  | fdecl f ps b => simp [bodyOk] at hb
  | fexpr ps b => simp [bodyOk] at hb
  | call f a => simp [bodyOk] at hb
  | loop i k n b => simp [bodyOk] at hb
  | num m =>
    simp only [bodyOk] at hb
    obtain ⟨h1, h2, h3, h4, h5⟩ := body_of_pure hP1 hb he hl hD hfr hg hloc
    exact ⟨h1, h2, h3, h4, by intro y hy; simp [declName] at hy, h5⟩
  | str m =>
    simp only [bodyOk] at hb
    obtain ⟨h1, h2, h3, h4, h5⟩ := body_of_pure hP1 hb he hl hD hfr hg hloc
    exact ⟨h1, h2, h3, h4, by intro y hy; simp [declName] at hy, h5⟩
  | ident m =>
    simp only [bodyOk] at hb
    obtain ⟨h1, h2, h3, h4, h5⟩ := body_of_pure hP1 hb he hl hD hfr hg hloc
    exact ⟨h1, h2, h3, h4, by intro y hy; simp [declName] at hy, h5⟩
  | dot a k =>
    simp only [bodyOk] at hb
    obtain ⟨h1, h2, h3, h4, h5⟩ := body_of_pure hP1 hb he hl hD hfr hg hloc
    exact ⟨h1, h2, h3, h4, by intro y hy; simp [declName] at hy, h5⟩
  | idx a i =>
    simp only [bodyOk] at hb
    obtain ⟨h1, h2, h3, h4, h5⟩ := body_of_pure hP1 hb he hl hD hfr hg hloc
    exact ⟨h1, h2, h3, h4, by intro y hy; simp [declName] at hy, h5⟩
  | paren a =>
    simp only [bodyOk] at hb
    obtain ⟨h1, h2, h3, h4, h5⟩ := body_of_pure hP1 hb he hl hD hfr hg hloc
    exact ⟨h1, h2, h3, h4, by intro y hy; simp [declName] at hy, h5⟩
  | bin a c =>
    simp only [bodyOk] at hb
    obtain ⟨h1, h2, h3, h4, h5⟩ := body_of_pure hP1 hb he hl hD hfr hg hloc
    exact ⟨h1, h2, h3, h4, by intro y hy; simp [declName] at hy, h5⟩
  | cond a c d =>
    simp only [bodyOk] at hb
    obtain ⟨h1, h2, h3, h4, h5⟩ := body_of_pure hP1 hb he hl hD hfr hg hloc
    exact ⟨h1, h2, h3, h4, by intro y hy; simp [declName] at hy, h5⟩

theorem all_fuel (D : List String) : ∀ fuel, PureP D fuel ∧ ArgsP D fuel ∧ BodyP D fuel := by
  intro fuel
  induction fuel with
  | zero =>
    refine ⟨?_, ?_, ?_⟩
    · intro n e loc top sc st r st' n' ks _ _ he; simp [eval] at he
    · intro n e loc top sc st r st' n' ks _ _ he; simp [evalArgs] at he
    · intro nb s loc fid st r st' nb' ks _ he; simp [eval] at he
  | succ fuel ih =>
    obtain ⟨ihP, ihA, ihB⟩ := ih
    exact ⟨pure_step D fuel ihP ihA ihB, args_step D fuel ihP ihA, body_step D fuel ihP ihA ihB⟩

/-! ### the top level of a fragment -/

theorem has_of_inner_nil {n : Names} (h : n.inner = []) (x : String) : n.has x = n.glob.contains x := by
  simp [Names.has, h]

theorem shadowParams_shape : ∀ (ps : List String) (m : Names) (s : List String) (r : List (List String)),
    m.inner = s :: r → ∃ s', (shadowParams m ps).inner = s' :: r ∧ (shadowParams m ps).glob = m.glob := by
  intro ps
  induction ps with
  | nil => intro m s r h; exact ⟨s, h, rfl⟩
  | cons p ps ih =>
    intro m s r h
    simp only [shadowParams]
    split
    · have : (m.add p).inner = (if s.contains p then s else p :: s) :: r ∧ (m.add p).glob = m.glob := by
        simp [Names.add, h]
      obtain ⟨s', h1, h2⟩ := ih (m.add p) _ r this.1
      exact ⟨s', h1, h2.trans this.2⟩
    · exact ih m s r h

theorem shadow_pop (n : Names) (ps : List String) : (shadowParams n.push ps).pop = n := by
  obtain ⟨s', h1, h2⟩ := shadowParams_shape ps n.push [] n.inner rfl
  cases hn : shadowParams n.push ps with
  | mk g i =>
    rw [hn] at h1 h2
    simp only [Names.pop]
    simp only at h1 h2
    cases n with
    | mk g0 i0 => simp_all [Names.push]

/-- the heap after a top-level statement: every visible value is an old one or a clean one -/
def Upd (D : List String) (h h' : List Frame) : Prop :=
  2 ≤ h'.length ∧ ∀ y v, glookup h' y = some v → glookup h y = some v ∨ (v ≠ .inp ∧ CloOk D v)

theorem EnvOk.upd {n : Names} {D : List String} {h h' : List Frame} (he : EnvOk n [] true D [1, 0] h)
    (hu : Upd D h h') : EnvOk n [] true D [1, 0] h' := by
  refine ⟨fun _ _ _ hc => by simp at hc, ?_, ?_, fun _ => rfl, fun _ => hu.1⟩
  · intro x v hv hc ht hh
    rcases hu.2 x v hv with h1 | h1
    · exact he.free_clean x v h1 hc ht hh
    · exact h1.1
  · intro x v hv
    rcases hu.2 x v hv with h1 | h1
    · exact he.clo_ok x v h1
    · exact h1.2

theorem EnvOk.mono {n n' : Names} {D : List String} {h : List Frame} (he : EnvOk n [] true D [1, 0] h)
    (hm : ∀ x, n'.has x = false → n.has x = false) : EnvOk n' [] true D [1, 0] h :=
  ⟨fun _ _ _ hc => by simp at hc, fun x v hv hc ht hh => he.free_clean x v hv hc ht (hm x hh),
   he.clo_ok, fun _ => rfl, he.len_ok⟩

theorem upd_declare {D : List String} {h : List Frame} {x : String} {v : Option Val} (hlen : 2 ≤ h.length)
    (hv : ∀ w, v = some w → w ≠ .inp ∧ CloOk D w) : Upd D h (declareVar h 1 x v) := by
  refine ⟨by rw [length_declare]; exact hlen, ?_⟩
  intro y w hy
  rw [glookup_declare h x y v hlen] at hy
  by_cases hyx : y = x
  · subst hyx
    simp only [if_true] at hy
    cases v with
    | some w0 => simp only [Option.some.injEq] at hy; subst hy; exact Or.inr (hv _ rfl)
    | none =>
      simp only at hy
      cases h1 : (frameAt h 1).lookup y with
      | some w1 =>
        rw [h1] at hy; simp only [Option.some_or, Option.some.injEq] at hy; subst hy
        left; rw [glookup_def, h1]; simp
      | none =>
        rw [h1] at hy; simp only [Option.none_or, Option.some_or, Option.some.injEq] at hy; subst hy
        right; simp [CloOk]
  · simp only [hyx, if_false] at hy; exact Or.inl hy

theorem upd_assign {D : List String} {h h' : List Frame} {x : String} {v : Val} (hlen : 2 ≤ h.length)
    (ha : assignVar h [1, 0] x v = some h') (hv : v ≠ .inp ∧ CloOk D v) : Upd D h h' := by
  refine ⟨by rw [length_assign h h' x v _ ha]; exact hlen, ?_⟩
  intro y w hy
  rw [glookup_assign h h' x y v hlen ha] at hy
  by_cases hyx : y = x
  · simp only [hyx, if_true, Option.some.injEq] at hy; subst hy; exact Or.inr hv
  · simp only [hyx, if_false] at hy; exact Or.inl hy

end SFV.JsDeps
