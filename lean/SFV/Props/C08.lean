import SFV.Lemmas.TokenStore
import SFV.Lemmas.PersistDeps
import SFV.Lemmas.WorkflowStore
import SFV.Gen.Persist
/-! # C08 — saving then loading a workflow reproduces it exactly

Two formal parts: (a) the table of every `_save_additional_params` / `_load` pair, regenerated from the source on every
run (`SFV/Gen/Persist.lean`), is closed; (b) token values round-trip through `Token.save` / `Token.load` for every
nesting depth. The structural round trip of whole workflows and the independence of two loads are checked on the real
classes by the correspondence part (see `harness/sfv/props/c08.py`). -/
namespace SFV.C08
open SFV.Persist SFV.TokenStore

/-- **Every key a `_load` reads is saved by the matching `_save_additional_params`** (own method, extended by or
inherited from the nearest base class), no saved dict has a part the extractor could not read, class names are unique. -/
theorem persist_tables_closed : closed SFV.Gen.persistClasses = true := by decide +kernel

/-- the table is not trivial: it lists the step, port-less combinator, command and processor classes -/
example : 50 ≤ SFV.Gen.persistClasses.length ∧
    (SFV.Gen.persistClasses.map (·.name)).contains "CombinatorStep" = true ∧
    (SFV.Gen.persistClasses.filter (fun c => c.read.length ≥ 1)).length ≥ 40 := by decide +kernel

/-- closedness really tests something: dropping a saved key, or reading a key under another name, is rejected -/
example : closed [⟨"A", [], true, ["x", "y"], false, false, true, ["x", "y"], false⟩] = true ∧
    closed [⟨"A", [], true, ["x"], false, false, true, ["x", "y"], false⟩] = false ∧
    closed [⟨"B", [], true, ["x"], false, false, true, ["x"], false⟩,
            ⟨"A", ["B"], true, ["y"], true, false, true, ["z"], true⟩] = false := by decide

/-- **What closedness buys** (`load_save_entity` for the record model): for every class of a closed table, loading what
was saved never raises `KeyError`, and every key `_load` reads comes back with the value the entity had. -/
theorem load_save_entity (cs : List PClass) (hc : closed cs = true) (c : PClass) (hm : c ∈ cs) (attrs : String → Nat) :
    loadRec cs c (saveRec cs c attrs) = some ((effRead cs cs.length c).map (fun k => (k, attrs k))) := by
  have hsub : ∀ k ∈ effRead cs cs.length c, k ∈ effSaved cs cs.length c := by
    intro k hk
    simp only [closed, Bool.and_eq_true, List.all_eq_true, List.contains_iff_mem, Bool.not_eq_true'] at hc
    exact (hc.1 c hm).1 k hk
  simp only [loadRec, saveRec]
  generalize effRead cs cs.length c = rd at hsub
  induction rd with
  | nil => rfl
  | cons k rd ih =>
    have hk := get_saveRec (effSaved cs cs.length c) attrs k (hsub k (by simp))
    simp only [List.mapM_cons, hk, Option.map_some, List.map_cons]
    rw [ih (fun x hx => hsub x (List.mem_cons_of_mem _ hx))]
    rfl

/-- … instantiated with the generated table -/
theorem load_save_entity_now (c : PClass) (hm : c ∈ SFV.Gen.persistClasses) (attrs : String → Nat) :
    loadRec SFV.Gen.persistClasses c (saveRec SFV.Gen.persistClasses c attrs) =
      some ((effRead SFV.Gen.persistClasses SFV.Gen.persistClasses.length c).map (fun k => (k, attrs k))) :=
  load_save_entity _ persist_tables_closed c hm attrs

/-- **Multi-save histories record every connection** (`Step.save` as it is: `stepSaveDepsAlways` is read from the source):
save a step with the ports `p1`, attach more ports `p2` to the already persisted step, save again — every connection
of `p1 ++ p2` (a port is attached to a step at most once) has its `dependency` row afterwards. -/
theorem resave_records_new_ports (p1 p2 : List Dep) (hnd : ((p1 ++ p2).map (·.1)).Nodup) :
    ∀ d ∈ p1 ++ p2,
      d ∈ (saveStep SFV.Gen.stepSaveDepsAlways (saveStep SFV.Gen.stepSaveDepsAlways ⟨false, []⟩ p1) (p1 ++ p2)).deps := by
  intro d hd
  have ha : SFV.Gen.stepSaveDepsAlways = true := by decide
  simp only [saveStep, ha, Bool.true_or, if_true]
  have hnd1 : (p1.map (·.1)).Nodup := by
    rw [List.map_append] at hnd; exact (List.nodup_append.mp hnd).1
  by_cases h1 : d ∈ p1
  · exact (foldl_addDep_mem (p1 ++ p2) _ d).1 ((foldl_addDep_mem p1 [] d).2 h1 hnd1 (by simp))
  · -- a late connection: its port has no row yet
    apply (foldl_addDep_mem (p1 ++ p2) _ d).2 hd hnd
    intro e he heq
    rcases foldl_addDep_sub p1 [] e he with h | h
    · cases h
    · have hd2 : d ∈ p2 := by
        rcases List.mem_append.mp hd with h' | h'
        · exact absurd h' h1
        · exact h'
      rw [List.map_append] at hnd
      exact (List.nodup_append.mp hnd).2.2 e.1 (List.mem_map.mpr ⟨e, h, rfl⟩) d.1 (List.mem_map.mpr ⟨d, hd2, rfl⟩) heq

/-- … and with the rows written only when the step is first inserted (the seeded change) a late connection is lost -/
example : (5, "late", true) ∉ (saveStep false (saveStep false ⟨false, []⟩ [(1, "in", true)]) [(1, "in", true), (5, "late", true)]).deps := by
  decide

/-- a second concurrent `Token.save` of the same instance waits for the first (read from the source; the correspondence part
saves DAG-shaped values concurrently to exercise it) -/
theorem token_save_waits : SFV.Gen.tokenSaveWaits = true := by decide

/-- **Token values round-trip** (`load_save_val`): for every well-formed token value — plain tokens (file tokens are plain
tokens with a JSON document as value), `ListToken`s, `ObjectToken`s and `JobToken`s (a job with its input tokens) nested to any
depth, any tags, any `recoverable` flags — and every database state, `Token.save` followed by
`Token.load` of the returned id gives the same value back; in particular the same type, tag, members and the same
(derived, for list/object tokens) recoverable flag. -/
theorem load_save_val (t : Tok) (hw : Wf .tok t) (db : DB) (hok : Ok db) :
    ∃ id fuel, (save .tok t db).2 = [id] ∧ load fuel (save .tok t db).1 id = some t ∧
      ∀ t', load fuel (save .tok t db).1 id = some t' → recoverable t' = recoverable t := by
  obtain ⟨id, fuel, h1, h2⟩ := (load_save t).1 hw db hok
  exact ⟨id, fuel, h1, h2, fun t' h => by rw [h2] at h; injection h with h; rw [h]⟩

/-- saving never disturbs what is already stored: a token loaded before is loaded identically afterwards -/
theorem save_keeps_loaded (t : Tok) (m : Mode) (db : DB) (hok : Ok db) (fuel id : Nat) (t0 : Tok)
    (h : load fuel db id = some t0) : load fuel (save m t db).1 id = some t0 :=
  (load_ext hok (save_ext_ok t m db hok).1 fuel).1 id t0 h

/-- non-vacuity: a list of an object and a plain token, two levels deep -/
def exTok : Tok :=
  .list "0" (.cons (.obj "0.0" (.kcons "a" (.plain "0.0" 7 true) (.kcons "b" (.list "0.0" (.cons (.plain "0.0.0" 1 false) .nil)) .nil)))
            (.cons (.plain "0.1" 9 true) .nil))

/-- a job token whose job has a list and a plain input -/
def exJob : Tok :=
  .job "0" 42 true (.kcons "in" (.list "0" (.cons (.plain "0.0" 1 false) .nil)) (.kcons "n" (.plain "0" 5 true) .nil))

example : Wf .tok exJob := by simp [exJob, Wf]
example : load 10 (save .tok exJob ⟨fun _ => none, 1⟩).1 4 = some exJob ∧ recoverable exJob = true := by decide +kernel

example : Wf .tok exTok := by simp [exTok, Wf]
example : load 10 (save .tok exTok ⟨fun _ => none, 1⟩).1 6 = some exTok ∧ recoverable exTok = false := by decide +kernel

/-! ### the whole workflow (`SFV/Model/WorkflowStore.lean`) -/

section WholeWorkflow
open SFV.WfStore

/-- **`load (save w) = w` for a whole workflow**: for every database state, every workflow that has not been saved yet, whose
steps mention only ports of the workflow and are connected to a port at most once (the key of the `dependency` table):
`Workflow.save` followed by `Workflow.load` of the returned id gives back the workflow — every port, every step with its params
(port references resolved to the same ports), `input_ports` and `output_ports` — with the row ids `save` assigned as
`persistent_id`s; erasing the ids gives the original. -/
theorem load_save_workflow (db : WfStore.DB) (w : WF) (hdb : db.ok) (hf : w.fresh) (hw : w.wf) :
    loadWf (saveWf db w).1 db.next = some (saveWf db w).2 ∧ (saveWf db w).2.pid = some db.next ∧ (saveWf db w).2.noIds = w := by
  rw [saveWf_eq db w hdb hf hw]
  exact ⟨loadWf_saved db w hdb hw, rfl, savedWF_noIds db w hf⟩

/-- the database invariant is kept, so the theorem applies again to the next workflow saved into the same database -/
theorem save_keeps_db_ok (db : WfStore.DB) (w : WF) (hdb : db.ok) (hf : w.fresh) (hw : w.wf) : (saveWf db w).1.ok := by
  rw [saveWf_eq db w hdb hf hw]
  exact savedDB_ok db w hdb

/-- **The deep-copy builder reproduces the structure, with every step in its initial state, and carries no persistent id over.** -/
theorem builder_copy_no_ids (db : WfStore.DB) (w : WF) (hdb : db.ok) (hf : w.fresh) (hw : w.wf) :
    ∃ c, copyWf (saveWf db w).1 db.next = some c ∧ c = w.initial ∧
      c.pid = none ∧ (∀ p ∈ c.ports, p.pid = none) ∧ (∀ s ∈ c.steps, s.pid = none) := by
  obtain ⟨h1, _, h3⟩ := load_save_workflow db w hdb hf hw
  refine ⟨w.initial, ?_, rfl, hf.1, hf.2.1, ?_⟩
  · simp only [copyWf, h1, Option.map_some, h3]
  · intro s hs
    simp only [WF.initial, List.mem_map] at hs
    obtain ⟨s0, hs0, rfl⟩ := hs
    exact hf.2.2 s0 hs0

def w0 : WF :=
  { name := "wf", params := [("config", 7)],
    ports := [⟨"in", "Port", [], none⟩, ⟨"jobs", "JobPort", [], none⟩, ⟨"out", "Port", [("p", 1)], none⟩],
    steps := [⟨"sched", "ScheduleStep", 0, [("job_prefix", .plain 3)], [], [("__job__", "jobs")], none⟩,
              ⟨"exec", "ExecuteStep", 4, [("job_port", .port "jobs")], [("x", "in"), ("__job__", "jobs")], [("y", "out")], none⟩],
    pid := none }

/-- not vacuous: a concrete workflow, saved after another one, round-trips with ids 6.. and the copy equals the original -/
example :
    let db := (saveWf WfStore.DB.empty w0).1
    loadWf (saveWf db w0).1 db.next = some (saveWf db w0).2 ∧ copyWf (saveWf db w0).1 db.next = some w0.initial ∧
      ((saveWf db w0).2.steps.map (·.pid)) = [some 11, some 12] := by
  decide

/-- the hypothesis is needed: a step connected to the same port as input AND output loses one of the two connections
(`INSERT OR IGNORE`, key `(step, port)`) -/
example :
    let w1 : WF := { name := "wf", params := [], ports := [⟨"p", "Port", [], none⟩],
                     steps := [⟨"s", "Step", 0, [], [("a", "p")], [("b", "p")], none⟩], pid := none }
    copyWf (saveWf WfStore.DB.empty w1).1 1 ≠ some w1 := by
  decide

end WholeWorkflow

end SFV.C08
