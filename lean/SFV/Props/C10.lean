import SFV.Lemmas.Ledger
import SFV.Lemmas.Slots
import SFV.Lemmas.Refine
import SFV.Lemmas.RefineStack
import SFV.Lemmas.RefineSlots
import SFV.Lemmas.HW
import SFV.Model.Sched
/-! # C10 — the scheduler never over-allocates a location

Two layers (design_notes/C10.md):
* `SFV/Model/Sched.lean` is the executable model of `DefaultScheduler` over `Hardware` values (compared with the real
  scheduler after every call); `alloc_respects_capacity` / `isValid_hw_level` say what its `_is_valid` test guarantees
  at one level of a location stack, per cores, memory and mount point;
* `SFV/Model/Ledger.lean` is the bookkeeping of ONE such component over all locations, jobs and levels at once, with the
  status guards generated from `notify_status`; the invariant theorems hold for every history, every number of
  deployments / locations / levels and every job-to-location assignment.
`HistoryOk` is the engine protocol (a notification never moves a non-occupying job to an occupying status; a job is
re-allocated only while it does not occupy; the levels of the selected locations are distinct locations). -/
namespace SFV.C10
open SFV.HW SFV.Gen.Sched SFV.Ledger

/-- **what `_is_valid` guarantees at one level**: if `(capacity − reserved).satisfies(requirement)` is `True` then
    reserved + requirement fits the capacity in cores, memory and every mount point of the requirement (that the
    capacity has: requirements are resolved against the capacity's own mount points) -/
theorem alloc_respects_capacity (cap reserved req free : Hardware) (hr : ValidMap req.storage)
    (h1 : cap.sub reserved = .ok free) (h2 : free.satisfies req = .ok true) :
    reserved.cores + req.cores ≤ cap.cores ∧ reserved.memory + req.memory ≤ cap.memory ∧
    ∀ μ ∈ mounts req.storage, μ ∈ mounts cap.storage →
      mountTotal reserved.storage μ + mountTotal req.storage μ ≤ mountTotal cap.storage μ := by
  have hfv : ValidMap free.storage := by
    rw [ValidMap_iff]
    simp only [Hardware.sub, bind_eq_ok] at h1
    obtain ⟨sa, _, sb, _, st, hst, e⟩ := h1
    cases e
    exact (mkHardware_normal _ _ (reduceFrom_normal (f := storageSub) Normal.nil hst)).valid
  obtain ⟨hc, hm, ht⟩ := sub_totals h1
  obtain ⟨s1, s2, s3⟩ := (satisfies_ok_true_iff free req hfv hr).mp h2
  refine ⟨by rw [hc] at s1; grind, by rw [hm] at s2; grind, fun μ hμ hcap => ?_⟩
  have := (s3 μ hμ).2
  rw [ht μ hcap] at this
  grind

/-- the model's `_is_valid` on a hardware location without inner levels is exactly that test -/
theorem isValid_hw_level (s : Sched.St) (reqs : List (Sched.LocKey × Hardware)) (step : Nat) (tag : Tag)
    (lvl : Sched.Level) (cap req : Hardware) (hc : lvl.hardware = some cap)
    (hq : Sched.assocGet reqs (lvl.dep, lvl.name) = some req) :
    Sched.isValid s reqs step tag [lvl] = .ok true ↔
      ∃ free, cap.sub (Sched.reservedOf s lvl.name) = .ok free ∧ free.satisfies req = .ok true := by
  simp only [Sched.isValid, hq, hc]
  cases h1 : cap.sub (Sched.reservedOf s lvl.name) with
  | error e => simp [Sched.liftHW, bind, Except.bind]
  | ok free =>
    cases h2 : free.satisfies req with
    | error e => simp [Sched.liftHW, bind, Except.bind, h2]
    | ok b => cases b <;> simp [Sched.liftHW, bind, Except.bind, pure, Except.pure, h2]

/-- slot-only level: the model's `_is_valid` compares the number of jobs `_get_running_jobs` returns with the slots -/
theorem isValid_slot_level (s : Sched.St) (reqs : List (Sched.LocKey × Hardware)) (step : Nat) (tag : Tag)
    (lvl : Sched.Level) (req : Hardware) (hc : lvl.hardware = none)
    (hq : Sched.assocGet reqs (lvl.dep, lvl.name) = some req) :
    Sched.isValid s reqs step tag [lvl] = .ok true ↔
      (Sched.runningJobs s step tag lvl).length < lvl.slots.getD slotsDefault := by
  simp only [Sched.isValid, hq, hc, slotFree]
  by_cases h : (Sched.runningJobs s step tag lvl).length < lvl.slots.getD slotsDefault <;> simp [h, pure, Except.pure]

/-- **what `_allocate_job` does to the books of one location** (`hardware_locations[loc] += hardware[key]`): cores,
    memory and every mount point go up by exactly the requirement's amounts -/
theorem allocate_adds_exact (cur h r : Hardware) (hadd : cur.add h = .ok r) :
    r.cores = cur.cores + h.cores ∧ r.memory = cur.memory + h.memory ∧
    ∀ μ, mountTotal r.storage μ = mountTotal cur.storage μ + mountTotal h.storage μ :=
  add_totals_lem cur h r hadd

/-- the model's `_allocate_job` loop on a location without inner levels: the job is listed there and the books of the
    location get `+ requirement` (or the normalised requirement when the location had no books yet) -/
theorem allocLevels_single (reqs : List (Sched.LocKey × Hardware)) (job : Nat) (lvl : Sched.Level) (s : Sched.St) (h : Hardware)
    (hq : Sched.assocGet reqs (lvl.dep, lvl.name) = some h) :
    Sched.allocLevels reqs job [lvl] s =
      let s1 := { s with locJobs := Sched.appendJob s.locJobs (lvl.dep, lvl.name) job }
      match Sched.assocGet s.reserved lvl.name with
      | some cur =>
          match cur.add h with
          | .ok r => ({ s1 with reserved := Sched.assocSet s1.reserved lvl.name r }, none)
          | .error e => (s1, some (.hw e))
      | none =>
          match h.normalized with
          | .ok r => ({ s1 with reserved := Sched.assocSet s1.reserved lvl.name r }, none)
          | .error e => (s1, some (.hw e)) := by
  simp only [Sched.allocLevels, hq]
  cases hc : Sched.assocGet s.reserved lvl.name with
  | none => simp only []; cases h.normalized <;> rfl
  | some cur => simp only []; cases cur.add h <;> rfl

/-- **whole-run refinement (machine-checked link between the two models)**: take any run of the Hardware-level
    scheduler model — the model compared with the real `DefaultScheduler` after every call — made of passes of
    `_process_target` and notifications, none of which raises, on *flat* configurations (`Refine.FlatAvail`: every
    available location is a hardware location without inner levels; single- and multi-location targets, any number of
    deployments) and following the engine protocol (`Refine.RunOk`, decidable). Then for the component `c` (cores:
    `Refine.coresComp`, memory: `Refine.memoryComp`) the final state is related (`Refine.Rel`) to a ledger state that
    satisfies the bookkeeping invariant: `hardware_locations[ℓ].c` = what the fireable / running jobs were given on ℓ
    (+ residual ≥ 0), and that sum is within the capacity. -/
theorem sched_refines_ledger (c : Refine.Comp) (cap : Loc → Rat) (hcap : ∀ ℓ, 0 ≤ cap ℓ) (env : Sched.Env)
    (ops : List Refine.SOp) (s : Sched.St) (hok : Refine.RunOk c cap env {} ops) (hrun : Refine.runS env {} ops = some s) :
    ∃ L : Ledger.St,
      (∀ ℓ, L.reserved ℓ = c.get (Sched.reservedOf s ℓ)) ∧
      (∀ j a, Sched.assocGet s.jobs j = some a → j ∈ L.ids ∧ L.status j = a.status ∧ L.alloc j = Refine.entriesOf c a) ∧
      (∀ ℓ, c.get (Sched.reservedOf s ℓ) = occSum L ℓ + L.residual ℓ ∧ 0 ≤ L.residual ℓ) ∧
      (∀ ℓ, occSum L ℓ ≤ cap ℓ) := by
  obtain ⟨L, hR, hI⟩ := Refine.run_refines c cap env ops {} s Ledger.init (Refine.rel_init c) (inv_init cap hcap) hok hrun
  refine ⟨L, hR.reserved, fun j a ha => ⟨(hR.ids j).mpr (by simp [ha]), (hR.jobs j a ha).1, (hR.jobs j a ha).2⟩,
    fun ℓ => ⟨by rw [← hR.reserved ℓ]; exact hI.books ℓ, hI.resid ℓ⟩, hI.bound⟩

/-- one step of that refinement, allocation side: a successful pass of `_process_target` is the ledger's guarded
    allocation (the guard `reserved + amount ≤ capacity` holds at every selected location) -/
theorem pass_refines_allocate (c : Refine.Comp) (cap : Loc → Rat) (env : Sched.Env) (s s' : Sched.St) (L : Ledger.St)
    (job step : Nat) (tag : Tag) (req : Hardware) (target wanted : Nat) (avail : List Sched.Stack) (names : List Nat)
    (hR : Refine.Rel c s L)
    (havail : ∀ st ∈ avail, ∃ lvl cp, st = [lvl] ∧ lvl.hardware = some cp ∧ c.get cp = cap lvl.name)
    (hnd : (avail.map Refine.keyOf).Nodup)
    (h : Sched.tryAllocate env s job step tag req target wanted avail = (s', .allocated names)) :
    ∃ entries, (entries.all fun e => decide (L.reserved e.1 + e.2 ≤ cap e.1)) = true ∧ (∀ e ∈ entries, e.2 = c.get req) ∧
      Refine.Rel c s' (Ledger.step cap L (.allocate job entries)) := by
  obtain ⟨e, h1, h2, _, h4⟩ := Refine.tryAllocate_refines c cap env s s' L job step tag req target wanted avail names hR havail hnd h
  exact ⟨e, h1, h2, h4⟩

/-- … and notification side: a non-raising `notify_status` is the ledger's notification -/
theorem notify_refines_notify (c : Refine.Comp) (cap : Loc → Rat) (env : Sched.Env) (s s' : Sched.St) (L : Ledger.St)
    (j : Nat) (new : Status) (b : Bool) (hR : Refine.Rel c s L) (h : Sched.notify env s j new = (s', .done b)) :
    Refine.Rel c s' (Ledger.step cap L (.notify j new [])) :=
  Refine.notify_refines c cap env s s' L j new b hR h

/-! non-vacuity of the refinement: two 2-core jobs on a 2-core / 4-MB location of deployment 1; the second waits, is
    granted after the first completes; protocol and flatness hold for cores and for memory -/
def exLoc : Sched.Stack := [⟨1, 2, some ⟨2, 4, [(0, ⟨0, 10, [], none⟩)]⟩, none⟩]
def exReq : Hardware := ⟨2, 1, [(0, ⟨0, 0, [], none⟩)]⟩
def exRun : List Refine.SOp :=
  [.pass 1 1 [0] exReq 0 1 [exLoc], .pass 2 2 [0] exReq 0 1 [exLoc], .notify 1 .running, .notify 1 .completed,
   .pass 2 2 [0] exReq 0 1 [exLoc], .notify 1 .completed, .notify 2 .running]

example : Refine.RunOk Refine.coresComp (fun _ => 2) {} {} exRun ∧ Refine.RunOk Refine.memoryComp (fun _ => 4) {} {} exRun := by
  decide +kernel
example : ((Refine.runS {} {} exRun).map (fun s => (Sched.reservedOf s 2).cores)) = some 2 ∧
    ((Refine.runS {} {} (exRun.take 2)).map (fun s => s.jobs.length)) = some 1 := by decide +kernel

/-- **whole-run refinement on STACKED configurations**: as `sched_refines_ledger`, for available locations that are chains
    of hardware locations (a wrapper stacked on inner locations, any depth; single- and multi-location targets), provided
    no level is shared between two available locations of a pass (`RefineStack.StackedAvail`, decidable — the shared
    inner location is the known finding). The ledger entries of an allocation are one per level of every selected
    location; the release walks the levels through `bind_mount_point` and subtracts the same amounts. -/
theorem sched_refines_ledger_stacked (c : Refine.Comp) (cap : Loc → Rat) (hcap : ∀ ℓ, 0 ≤ cap ℓ) (env : Sched.Env)
    (ops : List Refine.SOp) (s : Sched.St) (hok : RefineStack.RunOk c cap env {} ops) (hrun : Refine.runS env {} ops = some s) :
    ∃ L : Ledger.St,
      (∀ ℓ, L.reserved ℓ = c.get (Sched.reservedOf s ℓ)) ∧
      (∀ j a, Sched.assocGet s.jobs j = some a → j ∈ L.ids ∧ L.status j = a.status ∧ L.alloc j = RefineStack.entriesOfS c a) ∧
      (∀ ℓ, c.get (Sched.reservedOf s ℓ) = occSum L ℓ + L.residual ℓ ∧ 0 ≤ L.residual ℓ) ∧
      (∀ ℓ, occSum L ℓ ≤ cap ℓ) := by
  obtain ⟨L, hR, hI⟩ := RefineStack.run_refines c cap env ops {} s Ledger.init (RefineStack.relS_init c) (inv_init cap hcap) hok hrun
  refine ⟨L, hR.reserved, fun j a ha => ⟨(hR.ids j).mpr (by simp [ha]), (hR.jobs j a ha).1, (hR.jobs j a ha).2⟩,
    fun ℓ => ⟨by rw [← hR.reserved ℓ]; exact hI.books ℓ, hI.resid ℓ⟩, hI.bound⟩

/-! non-vacuity (stacked): a 2-core container (deployment 3, location 4) stacked on a 2-core host (deployment 1, location 2);
    two 2-core jobs, the second is granted after the first completes; both levels are reserved and released -/
def exStack : Sched.Stack := [⟨3, 4, some ⟨2, 4, [(0, ⟨0, 10, [], none⟩)]⟩, none⟩, ⟨1, 2, some ⟨2, 4, [(0, ⟨0, 10, [], none⟩)]⟩, none⟩]
def exRunS : List Refine.SOp :=
  [.pass 1 1 [0] exReq 0 1 [exStack], .pass 2 2 [0] exReq 0 1 [exStack], .notify 1 .running, .notify 1 .completed,
   .pass 2 2 [0] exReq 0 1 [exStack], .notify 2 .running]

example : RefineStack.RunOk Refine.coresComp (fun _ => 2) {} {} exRunS ∧ RefineStack.RunOk Refine.memoryComp (fun _ => 4) {} {} exRunS := by
  decide +kernel
example : ((Refine.runS {} {} exRunS).map (fun s => ((Sched.reservedOf s 4).cores, (Sched.reservedOf s 2).cores))) = some (2, 2) ∧
    ((Refine.runS {} {} (exRunS.take 4)).map (fun s => ((Sched.reservedOf s 4).cores, (Sched.reservedOf s 2).cores))) = some (0, 0) := by
  decide +kernel

/-- **whole-run refinement for slot-only locations**: every non-raising run of the Hardware-level scheduler model on flat
    configurations whose available locations have no hardware information (`RefineSlots.SlotAvail`: slot-only locations
    without inner levels, distinct names, `slots` as configured or the extracted default), following the engine protocol
    (`RefineSlots.RunOk`, decidable), ends in a state related to a state of the slot bookkeeping that satisfies its
    invariant: same job table, the location job lists `location_allocations[…].jobs` are the model's `listed`, and on every
    location the number of fireable / running jobs placed there is at most the slots — the second sentence of the
    property, now for the model that is compared with the real scheduler. -/
theorem sched_refines_slots (g : RefineSlots.Cfg) (env : Sched.Env) (ops : List Refine.SOp) (s : Sched.St)
    (hok : RefineSlots.RunOk g env {} ops) (hrun : Refine.runS env {} ops = some s) :
    ∃ T : Slots.St,
      (∀ j a, Sched.assocGet s.jobs j = some a → j ∈ T.ids ∧ T.status j = a.status ∧ T.placed j = RefineSlots.namesOf a.locations) ∧
      (∀ ℓ, T.listed ℓ = RefineSlots.listedOf g s ℓ) ∧
      (∀ ℓ, Slots.occCount T ℓ ≤ g.slots ℓ) := by
  obtain ⟨T, hR, hI⟩ := RefineSlots.run_refines g env ops {} s Slots.init (RefineSlots.relSl_init g) (Slots.inv_init g.toSlots) hok hrun
  exact ⟨T, fun j a ha => ⟨(hR.ids j).mpr (by simp [ha]), (hR.jobs j a ha).1, (hR.jobs j a ha).2.1⟩, hR.listed, hI.bound⟩

/-! non-vacuity (slots): three jobs on a two-slot location; the third waits until the first completes; the second is
    rolled back, un-listed and allocated again -/
def exG : RefineSlots.Cfg := ⟨fun _ => 1, fun _ => 2, fun j => j, fun _ => [0]⟩
def exSlotLoc : Sched.Stack := [⟨1, 5, none, some 2⟩]
def exReq0 : Hardware := ⟨1, 1, [(0, ⟨0, 0, [], none⟩)]⟩
def exRunSl : List Refine.SOp :=
  [.pass 1 1 [0] exReq0 0 1 [exSlotLoc], .pass 2 2 [0] exReq0 0 1 [exSlotLoc], .pass 3 3 [0] exReq0 0 1 [exSlotLoc],
   .notify 1 .running, .notify 1 .completed, .pass 3 3 [0] exReq0 0 1 [exSlotLoc], .notify 2 .rollback,
   .pass 2 2 [0] exReq0 0 1 [exSlotLoc]]
example : RefineSlots.RunOk exG {} {} exRunSl := by decide +kernel
example : ((Refine.runS {} {} exRunSl).map (fun s => s.locJobs)) = some [((1, 5), [1, 3, 2])] ∧
    ((Refine.runS {} {} (exRunSl.take 3)).map (fun s => s.jobs.length)) = some 2 := by decide +kernel

/-- **bookkeeping invariant** (every history that follows the protocol, every configuration): at every location the
    reserved amount is what the occupying jobs were given there plus the measured usage left by finished jobs -/
theorem reserved_eq_sum (cap : Loc → Rat) (hcap : ∀ ℓ, 0 ≤ cap ℓ) (ops : List Op) (hok : HistoryOk cap init ops) (ℓ : Loc) :
    (run cap init ops).reserved ℓ = occSum (run cap init ops) ℓ + (run cap init ops).residual ℓ ∧
    0 ≤ (run cap init ops).residual ℓ :=
  ⟨(inv_run ops (inv_init cap hcap) hok).books ℓ, (inv_run ops (inv_init cap hcap) hok).resid ℓ⟩

/-- **never over-allocated**, under the engine protocol: after every history of allocations and notifications, at every
    location (all stacked levels, all locations of multi-location targets) what the fireable / running jobs hold does
    not exceed the capacity. The full-strength statement (no protocol hypothesis) is `never_overallocated`, which is
    false of the code: see `never_overallocated_false`. -/
theorem never_overallocated_partial (cap : Loc → Rat) (hcap : ∀ ℓ, 0 ≤ cap ℓ) (ops : List Op)
    (hok : HistoryOk cap init ops) (ℓ : Loc) : occSum (run cap init ops) ℓ ≤ cap ℓ :=
  (inv_run ops (inv_init cap hcap) hok).bound ℓ

/-- **slot-only locations, under the engine protocol**: after every history, on every location the number of fireable /
    running jobs placed there (counted once each, whatever the duplicates in the location's job list) does not exceed the
    slots; `locs` of an allocation are the slot-only levels of the selected locations, each guarded by
    `len(_get_running_jobs) < slots` as in `_is_valid` -/
theorem slots_never_exceeded_partial (c : Slots.Cfg) (ops : List Slots.Op) (hok : Slots.HistoryOk c Slots.init ops) (ℓ : Loc) :
    Slots.occCount (Slots.run c Slots.init ops) ℓ ≤ c.slots ℓ :=
  (Slots.inv_run c ops _ (Slots.inv_init c) hok).bound ℓ

/-- without the protocol the slot bound fails too: a COMPLETED job notified RUNNING again occupies a slot that was given
    to another job (one slot, two running jobs) -/
theorem slots_never_exceeded_false :
    ¬ (∀ (c : Slots.Cfg) (ops : List Slots.Op) (ℓ : Loc), Slots.occCount (Slots.run c Slots.init ops) ℓ ≤ c.slots ℓ) := by
  intro h
  have := h ⟨fun _ => 1, fun _ => 0, fun _ _ => 0⟩
    [.allocate 1 [0] [0], .notify 1 .completed, .allocate 2 [0] [0], .notify 1 .running] 0
  revert this
  decide

/-- non-vacuity: three jobs on a two-slot location, one rolled back and re-allocated -/
example : Slots.HistoryOk ⟨fun _ => 2, fun j => j, fun _ _ => 0⟩ Slots.init
    [.allocate 1 [0] [0], .allocate 2 [0] [0], .allocate 3 [0] [0], .notify 1 .running, .notify 2 .rollback,
     .allocate 3 [0] [0], .notify 1 .completed, .allocate 2 [0] [0]] ∧
    Slots.occCount (Slots.run ⟨fun _ => 2, fun j => j, fun _ _ => 0⟩ Slots.init
      [.allocate 1 [0] [0], .allocate 2 [0] [0], .allocate 3 [0] [0], .notify 1 .running, .notify 2 .rollback,
       .allocate 3 [0] [0], .notify 1 .completed, .allocate 2 [0] [0]]) 0 = 2 := by
  refine ⟨?_, by decide⟩
  simp only [Slots.HistoryOk, Slots.OpOk]
  decide

/-- the out-of-protocol history of the known finding: one job FIREABLE → COMPLETED → RUNNING → COMPLETED, then two
    2-core jobs on the 2-core location 0 -/
def doubleFree : List Op :=
  [.allocate 1 [(0, 2)], .notify 1 .completed [], .notify 1 .running [], .notify 1 .completed [],
   .allocate 2 [(0, 2)], .allocate 3 [(0, 2)]]

/-- **full strength is false**: without the protocol hypothesis a history of notifications exists after which the
    reserved cores went to −2 and two 2-core jobs are FIREABLE on a 2-core location -/
theorem never_overallocated_false :
    ¬ (∀ (cap : Loc → Rat) (ops : List Op) (ℓ : Loc), (∀ ℓ, 0 ≤ cap ℓ) → occSum (run cap init ops) ℓ ≤ cap ℓ) := by
  intro h
  have := h (fun _ => 2) doubleFree 0 (by intro _; decide +kernel)
  revert this
  decide +kernel

/-- … and the bookkeeping went negative in between (reserved −2 after the second COMPLETED) -/
theorem double_free_reserved_negative : (run (fun _ => 2) init (doubleFree.take 4)).reserved 0 = -2 := by
  decide +kernel

/-- the witness history violates the protocol exactly at the COMPLETED → RUNNING notification -/
example : ¬ HistoryOk (fun _ => 2) init doubleFree ∧ HistoryOk (fun _ => 2) init (doubleFree.take 2) := by
  decide +kernel

/-! ### the hypotheses are satisfiable: two jobs on a stacked location (levels 0 and 1) and a second location -/
def exHistory : List Op :=
  [.allocate 1 [(0, 1), (1, 1)], .allocate 2 [(0, 1), (1, 1)], .notify 1 .running [], .notify 1 .completed [(0, 1/2)],
   .notify 1 .completed [], .allocate 3 [(2, 3)], .notify 2 .recovery [], .notify 2 .rollback [], .allocate 2 [(2, 1)]]

example : HistoryOk (fun _ => 4) init exHistory := by decide +kernel

example : occSum (run (fun _ => 4) init exHistory) 2 = 4 ∧ (run (fun _ => 4) init exHistory).reserved 0 = 1/2 := by
  decide +kernel

end SFV.C10
