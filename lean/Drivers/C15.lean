import SFV.Model.JobDirs
import SFV.Model.Proto
open SFV SFV.Proto SFV.JobDirs

/-! `dirs <reqs…>` with one request per scheduling: `<job>:<nlocs>:<fixIn|->:<fixOut|->:<fixTmp|->`
    -> `ok jobs=<n> distinct=<number of distinct directories> generated=<supply used> cells=<existing (loc,dir) cells>` -/

def optN (w : String) : Option Nat := if w = "-" then none else w.toNat?

def parseReq (w : String) : Option Req :=
  match w.splitOn ":" with
  | [j, n, a, b, c] => match j.toNat?, n.toNat? with
    | some j, some n => some ⟨j, List.range n, 0, optN a, optN b, optN c⟩
    | _, _ => none
  | _ => none

def handle : List String → String
  | "dirs" :: ws =>
      match ws.mapM parseReq with
      | some rs =>
          let s := run rs
          let all := s.jobs.flatMap (·.2)
          s!"ok jobs={s.jobs.length} distinct={all.eraseDups.length} generated={s.next} cells={s.fs.eraseDups.length}"
      | none => "bad-op"
  | _ => "bad-op"

def main : IO Unit := runPure handle
