"""C30: random CommandLineTools whose baseCommand dumps argv / selected environment / stdin as JSON."""
from __future__ import annotations

import json
import os
import random

DUMP_PY = r'''#!/usr/bin/env python3
import json, os, sys
rp = os.path.realpath
data = {"argv": sys.argv[1:], "env": {k: v for k, v in os.environ.items() if k.startswith("SFVT_")},
        "home_is_cwd": rp(os.environ.get("HOME", "/nonexistent")) == rp(os.getcwd()),
        "tmpdir_ok": os.path.isdir(os.environ.get("TMPDIR", "/nonexistent")) and rp(os.environ.get("TMPDIR", "")) != rp(os.getcwd())}
try:
    data["stdin"] = sys.stdin.read()
except Exception as e:
    data["stdin"] = "ERR:" + type(e).__name__
with open("dump.json", "w") as f:
    json.dump(data, f, sort_keys=True)
sys.stdout.write("STDOUT-TEXT\n")
sys.stderr.write("STDERR-TEXT\n")
sys.stdout.flush()
sys.exit(int(os.environ.get("SFVT_EXIT", "0")))
'''

# string values with shell metacharacters, whitespace, quotes, unicode, empty
STRINGS = ["plain", "two words", "", "it's", 'say "hi"', "$HOME", "`id`", "a;b", "a|b", "a&b", "*", "?x", "~", "#c", "back\\slash",
           "tab\there", "new\nline", "é ü 日本", "-dash", "--opt=val", "a=b", "(p)", "<in", ">out", "{x}", "[y]", "!bang", "%p", "a,b",
           " lead", "trail ", "''", '"', "$(echo x)", "${HOME}", "\\", "x'y\"z"]
SAFE_STRINGS = ["plain", "abc", "x1", "file.txt", "a-b", "A_B", "1.5", "v=1"]
ENV_SAFE = ["plain", "two words", "a;b", "it's", "é ü", "a=b", "*", "~", "#c", "(p)", "<in", "a|b", "a&b", ""]
ENV_ACTIVE = ["$HOME `id`", "$HOME", "`echo X`", 'q"uote', "back\\slash", "$(echo x)"]


def write_dump_script(d: str) -> str:
    p = os.path.join(d, "dump.py")
    with open(p, "w") as f:
        f.write(DUMP_PY)
    os.chmod(p, 0o755)
    return p


def _binding(rng: random.Random, feats: set, shell: bool, array: bool, allow: set):
    b = {}
    if rng.random() < 0.7:
        b["position"] = rng.choice([-1, 0, 1, 1, 2, 3])
        feats.add("position")
    if rng.random() < 0.6:
        b["prefix"] = rng.choice(["-x", "--opt", "--opt=", "-I", "-"])
        feats.add("prefix")
        if rng.random() < 0.4:
            b["separate"] = False
            feats.add("separate-false")
    if array and "itemSeparator" in allow and rng.random() < 0.5:
        b["itemSeparator"] = rng.choice([",", ":", " "] if "unsafe-arrays" in allow else [",", ":"])
        feats.add("itemSeparator")
    if shell and "shellQuote-false" in allow and rng.random() < 0.3:
        b["shellQuote"] = False
        feats.add("shellQuote-false")
    if "valueFrom" in allow and (not array or "unsafe-arrays" in allow) and rng.random() < 0.15:
        b["valueFrom"] = rng.choice(["$(self)", "literal", "lit eral"])
        feats.add("valueFrom")
    return b


def gen_tool(rng: random.Random, d: str, allow: set, strings=None, n_inputs=None, env_mode: str = "safe"):
    """write tool.cwl / job.json / dump.py (and input files) into d; returns description dict"""
    os.makedirs(d, exist_ok=True)
    dump = write_dump_script(d)
    feats: set = set()
    strings = strings or STRINGS
    astrings = strings if "unsafe-arrays" in allow else SAFE_STRINGS
    shell = "shell" in allow and rng.random() < 0.35
    if shell:
        feats.add("ShellCommandRequirement")
    inputs, job = {}, {}
    kinds = [k for k in ["string", "int", "boolean", "File", "string[]", "int[]", "optional-null", "optional-value", "enum", "float",
                         "array-item-binding", "record", "boolean[]", "nested-array", "no-binding", "empty-array", "File[]"] if k in allow]
    n = n_inputs or rng.randint(1, 6)
    names = rng.sample(["a", "b", "c", "d", "e", "f", "g", "zz", "A", "in1"], n)
    for nm in names:
        kind = rng.choice(kinds)
        feats.add("type:" + kind)
        array = kind in ("string[]", "int[]", "boolean[]", "array-item-binding", "nested-array", "empty-array", "File[]")
        b = _binding(rng, feats, shell, array, allow)
        if kind == "string":
            inputs[nm] = {"type": "string", "inputBinding": b}
            job[nm] = rng.choice(strings)
        elif kind == "int":
            inputs[nm] = {"type": "int", "inputBinding": b}
            job[nm] = rng.choice([0, 1, 42, -7, 1000000])
        elif kind == "float":
            inputs[nm] = {"type": "float", "inputBinding": b}
            job[nm] = rng.choice([1.5, 0.25, -2.75, 10.0])
        elif kind == "boolean":
            inputs[nm] = {"type": "boolean", "inputBinding": b}
            job[nm] = rng.random() < 0.6
        elif kind == "File":
            fn = f"in_{nm}.txt"
            with open(os.path.join(d, fn), "w") as f:
                f.write(f"content of {nm}\n")
            inputs[nm] = {"type": "File", "inputBinding": b}
            job[nm] = {"class": "File", "path": os.path.join(d, fn)}
        elif kind == "File[]":
            fs = []
            for i in range(rng.randint(1, 3)):
                fn = f"in_{nm}_{i}.txt"
                with open(os.path.join(d, fn), "w") as f:
                    f.write(f"content of {nm} {i}\n")
                fs.append({"class": "File", "path": os.path.join(d, fn)})
            inputs[nm] = {"type": "File[]", "inputBinding": b}
            job[nm] = fs
        elif kind == "string[]":
            inputs[nm] = {"type": "string[]", "inputBinding": b}
            job[nm] = [rng.choice(astrings) for _ in range(rng.randint(1, 3))]
        elif kind == "empty-array":
            inputs[nm] = {"type": "string[]", "inputBinding": b}
            job[nm] = []
        elif kind == "int[]":
            inputs[nm] = {"type": "int[]", "inputBinding": b}
            job[nm] = [rng.randint(0, 99) for _ in range(rng.randint(1, 4))]
        elif kind == "boolean[]":
            inputs[nm] = {"type": "boolean[]", "inputBinding": b}
            job[nm] = [rng.random() < 0.5 for _ in range(rng.randint(1, 3))]
        elif kind == "nested-array":
            inputs[nm] = {"type": {"type": "array", "items": {"type": "array", "items": "string"}}, "inputBinding": b}
            job[nm] = [[rng.choice(SAFE_STRINGS) for _ in range(rng.randint(1, 2))] for _ in range(rng.randint(1, 2))]
        elif kind == "array-item-binding":
            ib = {"prefix": rng.choice(["-i", "--item", "-i="])}
            if rng.random() < 0.4:
                ib["separate"] = False
            inputs[nm] = {"type": {"type": "array", "items": "string", "inputBinding": ib}}
            if "unsafe-arrays" not in allow:
                b.pop("itemSeparator", None)
                inputs[nm]["inputBinding"] = b
            elif rng.random() < 0.6:
                inputs[nm]["inputBinding"] = b
            job[nm] = [rng.choice(astrings) for _ in range(rng.randint(1, 3))]
        elif kind == "optional-null":
            inputs[nm] = {"type": ["null", "string"], "inputBinding": b}
            job[nm] = None
        elif kind == "optional-value":
            inputs[nm] = {"type": ["null", "string"], "inputBinding": b}
            job[nm] = rng.choice(strings)
        elif kind == "enum":
            inputs[nm] = {"type": {"type": "enum", "symbols": ["red", "green", "blue"]}, "inputBinding": b}
            job[nm] = rng.choice(["red", "green", "blue"])
        elif kind == "record":
            fields = []
            val = {}
            for fnm in rng.sample(["p", "q", "r"], rng.randint(1, 3)):
                fb = {}
                if rng.random() < 0.8:
                    fb = {"position": rng.choice([0, 1, 2]), "prefix": rng.choice(["-p", "--q", "-r="])}
                    if rng.random() < 0.3:
                        fb["separate"] = False
                ft = rng.choice(["string", "int", "boolean"])
                fields.append({"name": fnm, "type": ft, **({"inputBinding": fb} if fb else {})})
                val[fnm] = rng.choice(strings) if ft == "string" else (rng.randint(0, 9) if ft == "int" else rng.random() < 0.5)
            inputs[nm] = {"type": {"type": "record", "name": f"rec_{nm}", "fields": fields}}
            if rng.random() < 0.5:
                inputs[nm]["inputBinding"] = {k: v for k, v in b.items() if k in ("position", "prefix")}
            job[nm] = val
        elif kind == "no-binding":
            inputs[nm] = {"type": "string"}
            job[nm] = rng.choice(strings)
    arguments = []
    if "arguments" in allow and rng.random() < 0.6:
        feats.add("arguments")
        for _ in range(rng.randint(1, 3)):
            r = rng.random()
            if r < 0.4:
                arguments.append(rng.choice(SAFE_STRINGS + ["two words", "it's", "$HOME", "a;b"]))
            else:
                scalars = [k for k, v in inputs.items() if v.get("type") in ("string", "int")]
                a = {"valueFrom": rng.choice(["lit", "two words", "it's", "$(1+1)", "$HOME;x"] +
                                             (["$(inputs." + scalars[0] + ")"] if scalars else []))}
                if rng.random() < 0.7:
                    a["position"] = rng.choice([-2, 0, 1, 2, 5])
                if rng.random() < 0.5:
                    a["prefix"] = rng.choice(["-A", "--arg", "--arg="])
                    if rng.random() < 0.4:
                        a["separate"] = False
                if shell and "shellQuote-false" in allow and rng.random() < 0.3:
                    a["shellQuote"] = False
                    feats.add("shellQuote-false")
                if "$(" in a["valueFrom"]:
                    feats.add("arguments-expression")
                arguments.append(a)
    reqs = {}
    if shell:
        reqs["ShellCommandRequirement"] = {}
    if "arguments-expression" in feats or "valueFrom" in feats:
        reqs["InlineJavascriptRequirement"] = {}
    env = {}
    if "env" in allow and rng.random() < 0.6:
        feats.add("EnvVarRequirement")
        for k in rng.sample(["SFVT_A", "SFVT_B", "SFVT_C"], rng.randint(1, 3)):
            if env_mode == "active" and rng.random() < 0.7:
                env[k] = rng.choice(ENV_ACTIVE)
                feats.add("env-shell-active")
            else:
                env[k] = rng.choice(ENV_SAFE)
        reqs["EnvVarRequirement"] = {"envDef": env}
    tool = {"cwlVersion": "v1.2", "class": "CommandLineTool", "baseCommand": ["python3", dump], "inputs": inputs,
            "outputs": {"dump": {"type": "File", "outputBinding": {"glob": "dump.json"}}}}
    if arguments:
        tool["arguments"] = arguments
    if reqs:
        tool["requirements"] = reqs
    collect = ["dump.json"]
    if "stdin" in allow and rng.random() < 0.3:
        feats.add("stdin")
        fn = "stdin_src.txt"
        with open(os.path.join(d, fn), "w") as f:
            f.write("FROM-STDIN-FILE\n")
        tool["inputs"]["sin"] = {"type": "File"}
        job["sin"] = {"class": "File", "path": os.path.join(d, fn)}
        tool["stdin"] = "$(inputs.sin.path)"
    if "stdout" in allow and ("stderr" in allow or "stdout-alone" in allow) and rng.random() < 0.3:
        feats.add("stdout")
        tool["stdout"] = "out.txt"
        tool["outputs"]["so"] = {"type": "stdout"}
        collect.append("out.txt")
    if "stderr" in allow and ("stdout" in feats or rng.random() < 0.3) and not ("stdout" not in feats and "stderr-alone" not in allow and False):
        feats.add("stderr")
        tool["stderr"] = "err.txt"
        tool["outputs"]["se"] = {"type": "stderr"}
        collect.append("err.txt")
    with open(os.path.join(d, "tool.cwl"), "w") as f:
        json.dump(tool, f, indent=1)
    with open(os.path.join(d, "job.json"), "w") as f:
        json.dump(job, f, indent=1)
    return {"tool": tool, "job": job, "features": sorted(feats), "collect": collect, "env": env, "shell": shell}


SAFE_FEATURES = {"string", "int", "boolean", "File", "string[]", "int[]", "optional-null", "optional-value", "enum", "float",
                 "array-item-binding", "record", "no-binding", "empty-array", "File[]", "shell", "itemSeparator", "shellQuote-false",
                 "valueFrom", "arguments", "env", "stdin", "stdout", "stderr"}
ALL_FEATURES = {"unsafe-arrays", "stdout-alone", "string", "int", "boolean", "File", "string[]", "int[]", "optional-null", "optional-value", "enum", "float",
                "array-item-binding", "record", "boolean[]", "nested-array", "no-binding", "empty-array", "File[]", "shell",
                "itemSeparator", "shellQuote-false", "valueFrom", "arguments", "env", "stdin", "stdout", "stderr"}
