import SFV.Lemmas.Remap
/-! C32: file:// locations, other schemes, and the round trip through `remap_token_value`. -/
namespace SFV.Remap
open SFV

@[reducible] def fileScheme : Str := SFV.Gen.remapScheme

theorem containsColonSlash_fileUrl (s : Str) : containsColonSlash (fileUrl ++ s) = true := by
  simp [fileUrl, SFV.Gen.remapFilePrefix, containsColonSlash]

theorem scheme_fileUrl (s : Str) : scheme (fileUrl ++ s) = fileScheme := by
  simp [scheme, fileUrl, fileScheme, SFV.Gen.remapFilePrefix, SFV.Gen.remapScheme, List.dropWhile, List.filter, List.takeWhile, alphaFirst, schemeChar, lowerAscii]

theorem remapPath_fileUrl (cwd oc nc comps : List Str) (hoc : oc ≠ []) (hnc : nc ≠ []) (hc : comps ≠ [])
    (ho : ∀ w ∈ oc, Reg w) (hn : ∀ w ∈ nc, Reg w) (hcs : ∀ w ∈ comps, Reg w) :
    remapPath cwd (fileUrl ++ absStr (oc ++ comps)) (absStr oc) (absStr nc) = some (fileUrl ++ absStr (nc ++ comps)) := by
  have hplain := remapPath_plain cwd oc nc comps hoc hnc hc ho hn hcs
  have hall : ∀ w ∈ oc ++ comps, Reg w := by
    intro w hw; rcases List.mem_append.mp hw with h | h
    · exact ho w h
    · exact hcs w h
  have hcolon : ':' ∉ absStr (oc ++ comps) := mem_absStr (by decide) (fun w hw => (hall w hw).2.2.2.2.2)
  simp only [remapPath, containsColonSlash_false hcolon, Bool.false_eq_true, if_false] at hplain
  have hdrop : (fileUrl ++ absStr (oc ++ comps)).drop SFV.Gen.remapDrop = absStr (oc ++ comps) := by
    simp [fileUrl, SFV.Gen.remapFilePrefix, SFV.Gen.remapDrop]
  simp only [remapPath, containsColonSlash_fileUrl, if_true, scheme_fileUrl, fileScheme, hdrop]
  cases hr : relpath cwd (unquote (absStr (oc ++ comps))) (absStr oc) with
  | none => simp [hr] at hplain
  | some rel =>
    simp only [hr, Option.map_some, Option.some.injEq] at hplain ⊢
    rw [hplain]

theorem remapPath_other (cwd : List Str) (p old new : Str) (h1 : containsColonSlash p = true)
    (h2 : scheme p ≠ fileScheme) : remapPath cwd p old new = some p := by
  simp only [remapPath, h1, if_true]
  rw [if_neg (by simpa [fileScheme] using h2)]

/-- the strings the partial round trip covers: a plain path or `file://` location below the directory with
    regular names, or a URL of another scheme -/
def GoodStr (oc : List Str) (s : Str) : Prop :=
  (∃ comps, comps ≠ [] ∧ (∀ w ∈ comps, Reg w) ∧
      (s = absStr (oc ++ comps) ∨ s = fileUrl ++ absStr (oc ++ comps))) ∨
  (containsColonSlash s = true ∧ scheme s ≠ fileScheme)

theorem goodStr_remap (cwd oc nc : List Str) (hoc : oc ≠ []) (hnc : nc ≠ []) (ho : ∀ w ∈ oc, Reg w)
    (hn : ∀ w ∈ nc, Reg w) (s : Str) (h : GoodStr oc s) :
    ∃ s', remapPath cwd s (absStr oc) (absStr nc) = some s' ∧ GoodStr nc s' ∧
      remapPath cwd s' (absStr nc) (absStr oc) = some s := by
  rcases h with ⟨comps, hc, hcs, rfl | rfl⟩ | ⟨h1, h2⟩
  · exact ⟨_, remapPath_plain cwd oc nc comps hoc hnc hc ho hn hcs, Or.inl ⟨comps, hc, hcs, Or.inl rfl⟩,
      remapPath_plain cwd nc oc comps hnc hoc hc hn ho hcs⟩
  · exact ⟨_, remapPath_fileUrl cwd oc nc comps hoc hnc hc ho hn hcs, Or.inl ⟨comps, hc, hcs, Or.inr rfl⟩,
      remapPath_fileUrl cwd nc oc comps hnc hoc hc hn ho hcs⟩
  · exact ⟨s, remapPath_other cwd s _ _ h1 h2, Or.inr ⟨h1, h2⟩, remapPath_other cwd s _ _ h1 h2⟩

/-! ### values -/

/-- the entry handler of the File/Directory branch -/
def fieldRemap (cwd : List Str) (old new : Str) (k : Str) (x : Val) : Option Val :=
  if k = kLocation ∨ k = kPath then remapStrField cwd old new x
  else if k = kSecondary ∨ k = kListing then remap cwd old new .list x
  else some x

/-- where the strings of a value must be good for the round trip, following the traversal of
    `remap_token_value` -/
def GoodVal (oc : List Str) : Mode → Val → Prop
  | m, .lcons h t => (m = .value ∨ m = .list) → (GoodVal oc .value h ∧ GoodVal oc .list t)
  | m, .ocons k x rest =>
      match m with
      | .value =>
          if isFileObj (.ocons k x rest) then
            (if k = kLocation ∨ k = kPath then ∃ s, x = .str s ∧ GoodStr oc s
             else if k = kSecondary ∨ k = kListing then GoodVal oc .list x else True) ∧
            GoodVal oc .fileFields rest
          else GoodVal oc .value x ∧ GoodVal oc .objFields rest
      | .fileFields =>
          (if k = kLocation ∨ k = kPath then ∃ s, x = .str s ∧ GoodStr oc s
           else if k = kSecondary ∨ k = kListing then GoodVal oc .list x else True) ∧
          GoodVal oc .fileFields rest
      | .objFields => GoodVal oc .value x ∧ GoodVal oc .objFields rest
      | .list => True
  | _, _ => True

def fieldGood (oc : List Str) (k : Str) (x : Val) : Prop :=
  if k = kLocation ∨ k = kPath then ∃ s, x = .str s ∧ GoodStr oc s
  else if k = kSecondary ∨ k = kListing then GoodVal oc .list x else True

/-- same "being the string `s`" -/
def StrEq (a b : Val) : Prop := ∀ s, b = .str s ↔ a = .str s

/-- the `class` / `type` entries of two entry chains agree as far as `get_token_class` can tell -/
def LookSim (c c' : Val) : Prop :=
  ∀ key, key = kClass ∨ key = kType →
    (c.lookup key = none ∧ c'.lookup key = none) ∨
    (∃ a a', c.lookup key = some a ∧ c'.lookup key = some a' ∧ StrEq a a')

theorem strEq_refl (a : Val) : StrEq a a := fun _ => Iff.rfl

theorem lookSim_refl (c : Val) : LookSim c c := by
  intro key _
  cases h : c.lookup key with
  | none => exact Or.inl ⟨rfl, rfl⟩
  | some a => exact Or.inr ⟨a, a, rfl, rfl, strEq_refl a⟩

theorem isFileObj_of_lookSim {c c' : Val} (h : LookSim c c') : isFileObj c' = isFileObj c := by
  have key : ∀ s, classOf c' = some (.str s) ↔ classOf c = some (.str s) := by
    intro s
    simp only [classOf]
    rcases h kClass (Or.inl rfl) with ⟨h1, h2⟩ | ⟨a, a', h1, h2, he⟩
    · rw [h1, h2]
      rcases h kType (Or.inr rfl) with ⟨h3, h4⟩ | ⟨b, b', h3, h4, he'⟩
      · rw [h3, h4]
      · rw [h3, h4]; simp only [Option.some.injEq]; exact he' s
    · rw [h1, h2]; simp only [Option.some.injEq]; exact he s
  simp only [isFileObj, key]

theorem lookSim_ocons {k : Str} {x x' rest rest' : Val} (hr : LookSim rest rest')
    (hx : (k = kClass ∨ k = kType) → StrEq x x') :
    LookSim (.ocons k x rest) (.ocons k x' rest') := by
  intro key hk
  simp only [Val.lookup]
  by_cases hkk : k = key
  · subst hkk
    simp only [if_true]
    exact Or.inr ⟨x, x', rfl, rfl, hx hk⟩
  · simp only [hkk, if_false]
    exact hr key hk

section
variable (cwd oc nc : List Str) (hoc : oc ≠ []) (hnc : nc ≠ []) (ho : ∀ w ∈ oc, Reg w) (hn : ∀ w ∈ nc, Reg w)

/-- what the round trip needs from one remapped sub-value -/
def RT (m : Mode) (v v' : Val) : Prop :=
  remap cwd (absStr oc) (absStr nc) m v = some v' ∧ GoodVal nc m v' ∧
  remap cwd (absStr nc) (absStr oc) m v' = some v ∧ LookSim v v' ∧ (m = .value → StrEq v v')

theorem rt_atom (m : Mode) (v : Val) (h1 : ∀ h t, v ≠ .lcons h t) (h2 : ∀ k x r, v ≠ .ocons k x r) :
    RT cwd oc nc m v v := by
  refine ⟨?_, ?_, ?_, lookSim_refl v, fun _ => strEq_refl v⟩
  · cases v <;> cases m <;> first | exact absurd rfl (h1 _ _) | exact absurd rfl (h2 _ _ _) | simp [remap]
  · cases v <;> cases m <;> first | exact absurd rfl (h1 _ _) | exact absurd rfl (h2 _ _ _) | simp [GoodVal]
  · cases v <;> cases m <;> first | exact absurd rfl (h1 _ _) | exact absurd rfl (h2 _ _ _) | simp [remap]

include hoc hnc ho hn in
theorem field_rt (k : Str) (x : Val) (hg : fieldGood oc k x)
    (ih : GoodVal oc .list x → ∃ x', RT cwd oc nc .list x x') :
    ∃ x', fieldRemap cwd (absStr oc) (absStr nc) k x = some x' ∧ fieldGood nc k x' ∧
      fieldRemap cwd (absStr nc) (absStr oc) k x' = some x ∧
      ((k = kClass ∨ k = kType) → x' = x) := by
  unfold fieldGood at hg
  unfold fieldRemap fieldGood
  by_cases h1 : k = kLocation ∨ k = kPath
  · simp only [h1, if_true] at hg ⊢
    obtain ⟨s, rfl, hs⟩ := hg
    obtain ⟨s', hf, hg', hb⟩ := goodStr_remap cwd oc nc hoc hnc ho hn s hs
    refine ⟨.str s', by simp [remapStrField, hf], ⟨s', rfl, hg'⟩, by simp [remapStrField, hb], ?_⟩
    rintro (rfl | rfl) <;> rcases h1 with h | h <;> exact absurd h (by decide)
  · simp only [h1, if_false] at hg ⊢
    by_cases h2 : k = kSecondary ∨ k = kListing
    · simp only [h2, if_true] at hg ⊢
      obtain ⟨x', hf, hg', hb, _, _⟩ := ih hg
      refine ⟨x', hf, hg', hb, ?_⟩
      rintro (rfl | rfl) <;> rcases h2 with h | h <;> exact absurd h (by decide)
    · simp only [h2, if_false]
      exact ⟨x, rfl, trivial, rfl, fun _ => rfl⟩

include hoc hnc ho hn in
/-- **the round trip through `remap_token_value`**, for every mode of the traversal -/
theorem goodVal_remap (v : Val) : ∀ m, GoodVal oc m v → ∃ v', RT cwd oc nc m v v' := by
  induction v with
  | null | str _ | num _ | lnil | onil =>
    intro m _; exact ⟨_, rt_atom cwd oc nc m _ (by intros; simp) (by intros; simp)⟩
  | lcons h t ihh iht =>
    intro m hg
    have hcase : (m = .value ∨ m = .list) ∨ (m = .fileFields ∨ m = .objFields) := by cases m <;> simp
    rcases hcase with hm | hm
    · have hg' : GoodVal oc .value h ∧ GoodVal oc .list t := by
        rcases hm with rfl | rfl <;> simpa [GoodVal] using hg
      obtain ⟨h', hh1, hh2, hh3, _, _⟩ := ihh .value hg'.1
      obtain ⟨t', ht1, ht2, ht3, _, _⟩ := iht .list hg'.2
      refine ⟨.lcons h' t', ?_, ?_, ?_, ?_, ?_⟩
      · rcases hm with rfl | rfl <;> simp [remap, hh1, ht1, combL]
      · rcases hm with rfl | rfl <;> simp [GoodVal, hh2, ht2]
      · rcases hm with rfl | rfl <;> simp [remap, hh3, ht3, combL]
      · intro key _; exact Or.inl ⟨rfl, rfl⟩
      · intro _ s; simp
    · refine ⟨.lcons h t, ?_, ?_, ?_, lookSim_refl _, fun _ => strEq_refl _⟩
      · rcases hm with rfl | rfl <;> simp [remap]
      · rcases hm with rfl | rfl <;> simp [GoodVal]
      · rcases hm with rfl | rfl <;> simp [remap]
  | ocons k x rest ihx ihr =>
    intro m hg
    cases m with
    | list =>
      exact ⟨_, by simp [remap], by simp [GoodVal], by simp [remap], lookSim_refl _, fun _ => strEq_refl _⟩
    | objFields =>
      have hg' : GoodVal oc .value x ∧ GoodVal oc .objFields rest := by simpa [GoodVal] using hg
      obtain ⟨x', hx1, hx2, hx3, _, hx5⟩ := ihx .value hg'.1
      obtain ⟨r', hr1, hr2, hr3, hr4, _⟩ := ihr .objFields hg'.2
      refine ⟨.ocons k x' r', by simp [remap, hx1, hr1, combO], by simp [GoodVal, hx2, hr2],
        by simp [remap, hx3, hr3, combO], lookSim_ocons hr4 (fun _ => hx5 rfl), fun h => by cases h⟩
    | fileFields =>
      have hg' : fieldGood oc k x ∧ GoodVal oc .fileFields rest := by simpa [GoodVal, fieldGood] using hg
      obtain ⟨x', hx1, hx2, hx3, hx4⟩ := field_rt cwd oc nc hoc hnc ho hn k x hg'.1 (ihx .list)
      obtain ⟨r', hr1, hr2, hr3, hr4, _⟩ := ihr .fileFields hg'.2
      unfold fieldRemap at hx1 hx3
      unfold fieldGood at hx2
      refine ⟨.ocons k x' r', by simp only [remap, hx1, hr1, combO], by simp only [GoodVal]; exact ⟨hx2, hr2⟩,
        by simp only [remap, hx3, hr3, combO],
        lookSim_ocons hr4 (fun hk => by rw [hx4 hk]; exact strEq_refl x), fun h => by cases h⟩
    | value =>
      by_cases hf : isFileObj (.ocons k x rest) = true
      · have hg' : fieldGood oc k x ∧ GoodVal oc .fileFields rest := by simpa [GoodVal, fieldGood, hf] using hg
        obtain ⟨x', hx1, hx2, hx3, hx4⟩ := field_rt cwd oc nc hoc hnc ho hn k x hg'.1 (ihx .list)
        obtain ⟨r', hr1, hr2, hr3, hr4, _⟩ := ihr .fileFields hg'.2
        have hsim : LookSim (.ocons k x rest) (.ocons k x' r') :=
          lookSim_ocons hr4 (fun hk => by rw [hx4 hk]; exact strEq_refl x)
        have hf' : isFileObj (.ocons k x' r') = true := by rw [isFileObj_of_lookSim hsim]; exact hf
        unfold fieldRemap at hx1 hx3
        unfold fieldGood at hx2
        refine ⟨.ocons k x' r', by simp only [remap, hf, if_true, hx1, hr1, combO],
          by simp only [GoodVal, hf', if_true]; exact ⟨hx2, hr2⟩,
          by simp only [remap, hf', if_true, hx3, hr3, combO], hsim, fun _ s => by simp⟩
      · have hg' : GoodVal oc .value x ∧ GoodVal oc .objFields rest := by simpa [GoodVal, hf] using hg
        obtain ⟨x', hx1, hx2, hx3, _, hx5⟩ := ihx .value hg'.1
        obtain ⟨r', hr1, hr2, hr3, hr4, _⟩ := ihr .objFields hg'.2
        have hsim : LookSim (.ocons k x rest) (.ocons k x' r') := lookSim_ocons hr4 (fun _ => hx5 rfl)
        have hf' : ¬ isFileObj (.ocons k x' r') = true := by rw [isFileObj_of_lookSim hsim]; exact hf
        refine ⟨.ocons k x' r', by simp only [remap, hf, if_false, hx1, hr1, combO]; simp,
          by simp only [GoodVal, hf', if_false]; exact ⟨hx2, hr2⟩,
          by simp only [remap, hf', if_false, hx3, hr3, combO]; simp, hsim, fun _ s => by simp⟩

end

end SFV.Remap
