import SFV.Model.Gather
namespace SFV.C01
open SFV SFV.Gather

theorem scatter_length {V} (tag : Tag) (xs : List V) : (scatter tag xs).1.length = xs.length := by
  unfold scatter
  generalize 0 = i
  induction xs generalizing i with
  | nil => rfl
  | cons x xs ih => simp [scatterFrom, ih]

end SFV.C01
