-- PILOT (round 0): Net.lean (abstract confluence: DAG network + per-step order independence ⇒ any two consistent log families agree up to Perm on every port; 45 lines, 0.5 s). Generalise `Consistent` for ports with several producers (CWL skip ports): log ~ concatenation of producers emissions.
/-! Pilot: confluence of a DAG dataflow network from per-step order-independence.
    Ports are Nat; a step is (inputs, outputs, behaviour relation). -/
namespace PilotN

variable {Tok : Type}

structure Step (Tok : Type) where
  ins  : List Nat
  outs : List Nat
  /-- `beh inLogs outLogs`: the step, fed with *some* interleaving of the input logs, emits outLogs -/
  beh  : (Nat → List Tok) → (Nat → List Tok) → Prop

/-- per-step order independence (C01/C02/C06-style local theorem), in relational form -/
def OrderIndep (S : Step Tok) : Prop :=
  ∀ in1 in2 out1 out2, (∀ q ∈ S.ins, (in1 q).Perm (in2 q)) → S.beh in1 out1 → S.beh in2 out2 →
    ∀ o ∈ S.outs, (out1 o).Perm (out2 o)

structure Net (Tok : Type) where
  steps : List (Step Tok)
  rank  : Nat → Nat
  /-- DAG: inputs of a step have strictly smaller rank than its outputs -/
  dag   : ∀ S ∈ steps, ∀ q ∈ S.ins, ∀ o ∈ S.outs, rank q < rank o
  /-- every port has at most one producer -/
  single : ∀ S ∈ steps, ∀ S' ∈ steps, ∀ o, o ∈ S.outs → o ∈ S'.outs → S = S'

/-- logs are consistent with the network and the given source contents -/
def Consistent (N : Net Tok) (src : Nat → List Tok) (logs : Nat → List Tok) : Prop :=
  (∀ p, (∀ S ∈ N.steps, p ∉ S.outs) → logs p = src p) ∧
  (∀ S ∈ N.steps, S.beh logs logs)

theorem confluence (N : Net Tok) (hoi : ∀ S ∈ N.steps, OrderIndep S)
    (src : Nat → List Tok) (l1 l2 : Nat → List Tok)
    (h1 : Consistent N src l1) (h2 : Consistent N src l2) : ∀ p, (l1 p).Perm (l2 p) := by
  suffices h : ∀ n p, N.rank p = n → (l1 p).Perm (l2 p) from fun p => h _ p rfl
  intro n
  induction n using Nat.strongRecOn with
  | _ n ih =>
    intro p hp
    by_cases hprod : ∃ S ∈ N.steps, p ∈ S.outs
    · obtain ⟨S, hS, hpo⟩ := hprod
      have hin : ∀ q ∈ S.ins, (l1 q).Perm (l2 q) := by
        intro q hq
        have : N.rank q < n := hp ▸ N.dag S hS q hq p hpo
        exact ih _ this q rfl
      exact hoi S hS l1 l2 l1 l2 hin (h1.2 S hS) (h2.2 S hS) p hpo
    · have hsrc : ∀ S ∈ N.steps, p ∉ S.outs := fun S hS hpo => hprod ⟨S, hS, hpo⟩
      rw [h1.1 p hsrc, h2.1 p hsrc]

end PilotN
#print axioms PilotN.confluence
