"""Fakes for driving the REAL DefaultScheduler without I/O (C10–C13).

* `FakeConnector`  : a base connector with a scripted list of locations (hardware or slots); `run` answers the
  `find … | awk` size query of `remotepath._size` from a scripted table path -> bytes.
* `FakeWrapper`    : a ConnectorWrapper whose locations are `stacked=True` on locations of the inner connector.
* `FakeContext`    : the two attributes the scheduler reads (`deployment_manager.get_connector`, `scheduler`).
* `FakeRequirement`: a HardwareRequirement returning a scripted Hardware (keys like CWLHardwareRequirement).
Nothing is patched into streamflow; the fakes are plain subclasses used at run time.
"""
from __future__ import annotations

import re
from collections.abc import MutableMapping, MutableSequence
from typing import Any

from streamflow.core.deployment import Connector, ExecutionLocation
from streamflow.core.scheduling import AvailableLocation, Hardware, HardwareRequirement, Storage
from streamflow.deployment.wrapper import ConnectorWrapper


def copy_hw(h: Hardware | None) -> Hardware | None:
    if h is None:
        return None
    return Hardware(h.cores, h.memory, {k: Storage(s.mount_point, s.size, set(s.paths), s.bind) for k, s in h.storage.items()})


class LocSpec:
    def __init__(self, name: str, hardware: Hardware | None = None, slots: int | None = None, wraps: str | None = None,
                 stacked: bool = True):
        self.name, self.hardware, self.slots, self.wraps, self.stacked = name, hardware, slots, wraps, stacked


class _Base:
    sizes: dict[str, int]

    def _answer(self, command) -> tuple[str, int]:
        cmd = " ".join(command)
        if cmd.startswith("find -L"):
            total = 0
            for p in re.findall(r'"([^"]*)"', cmd):
                if self.sizes.get(p, 0) < 0:
                    # scripted failure of the disk-usage probe: `_check_status` turns the non-zero status into a
                    # WorkflowExecutionException inside remotepath.get_storage_usages
                    return f"find: '{p}': Input/output error", 1
                total += self.sizes.get(p, 0)
            return str(total), 0
        return "", 0


class FakeConnector(_Base, Connector):
    def __init__(self, deployment_name: str, locs: list[LocSpec], sizes: dict[str, int] | None = None):
        super().__init__(deployment_name, "/", 2 ** 16)
        self.locs = locs
        self.sizes = sizes if sizes is not None else {}
        self.calls = 0

    async def get_available_locations(self, service: str | None = None) -> MutableMapping[str, AvailableLocation]:
        self.calls += 1
        return {
            s.name: AvailableLocation(name=s.name, deployment=self.deployment_name, hostname=s.name, local=False,
                                      service=service, slots=s.slots, hardware=copy_hw(s.hardware))
            for s in self.locs
        }

    async def run(self, location, command, environment=None, workdir=None, stdin=None, stdout=1, stderr=1,
                  capture_output=False, timeout=None, job_name=None):
        return self._answer(command) if capture_output else None

    async def copy_local_to_remote(self, *a, **k): raise NotImplementedError
    async def copy_remote_to_local(self, *a, **k): raise NotImplementedError
    async def copy_remote_to_remote(self, *a, **k): raise NotImplementedError
    async def deploy(self, external: bool) -> None: return None
    async def undeploy(self, external: bool) -> None: return None
    async def get_shell(self, *a, **k): raise NotImplementedError
    async def get_stream_reader(self, *a, **k): raise NotImplementedError
    async def get_stream_writer(self, *a, **k): raise NotImplementedError

    @classmethod
    def get_schema(cls) -> str:
        return ""


class FakeWrapper(_Base, ConnectorWrapper):
    def __init__(self, deployment_name: str, connector: Connector, locs: list[LocSpec], sizes: dict[str, int] | None = None):
        super().__init__(deployment_name, "/", connector, None, 2 ** 16)
        self.locs = locs
        self.sizes = sizes if sizes is not None else {}
        self.calls = 0

    async def get_available_locations(self, service: str | None = None) -> MutableMapping[str, AvailableLocation]:
        self.calls += 1
        inner = await self.connector.get_available_locations(service=None)
        return {
            s.name: AvailableLocation(name=s.name, deployment=self.deployment_name, hostname=s.name, local=False,
                                      service=service, slots=s.slots, hardware=copy_hw(s.hardware), stacked=s.stacked,
                                      wraps=inner[s.wraps] if s.wraps is not None else None)
            for s in self.locs
        }

    async def run(self, location, command, environment=None, workdir=None, stdin=None, stdout=1, stderr=1,
                  capture_output=False, timeout=None, job_name=None):
        return self._answer(command) if capture_output else None

    @classmethod
    def get_schema(cls) -> str:
        return ""


class _DM:
    def __init__(self, connectors: dict[str, Connector]):
        self.connectors = connectors

    def get_connector(self, name: str) -> Connector | None:
        return self.connectors.get(name)


class FakeContext:
    def __init__(self, connectors: dict[str, Connector]):
        self.deployment_manager = _DM(connectors)
        self.scheduler = None


class FakeRequirement(HardwareRequirement):
    def __init__(self, hardware: Hardware):
        self.hardware = hardware

    def eval(self, job) -> Hardware:
        return copy_hw(self.hardware)

    @classmethod
    async def _load(cls, row, loading_context): raise NotImplementedError
    async def _save_additional_params(self, database) -> MutableMapping[str, Any]: raise NotImplementedError
