import SFV.Model.Retry
import SFV.Model.Proto
open SFV SFV.Proto SFV.Retry

/-! `retry <max|none> <r|d> <njobs> <acts…>` with acts `s<j>` (start) and `f<j>[:n1,n2]` (failure of j rolling back n1,n2)
    -> `ok failed=<0|1> versions=<v0,…> execs=<e0,…>` | `disabled <index>` -/

def parseAct (w : String) : Option Act :=
  if w.startsWith "s" then (w.drop 1).toNat?.map Act.start
  else if w.startsWith "f" then
    match (w.drop 1).toString.splitOn ":" with
    | [j] => j.toNat?.map (fun j => Act.fail j [])
    | [j, ns] => j.toNat?.map (fun j => Act.fail j ((ns.splitOn ",").filterMap (·.toNat?)))
    | _ => none
  else none

def runIdx (mgr : Mgr) (max : Option Nat) : St → List Act → Nat → Sum Nat St
  | s, [], _ => .inr s
  | s, a :: as, i => match step mgr max s a with
    | some s' => runIdx mgr max s' as (i + 1)
    | none => .inl i

def handle : List String → String
  | "retry" :: mx :: mg :: n :: acts =>
      let max : Option Nat := if mx = "none" then none else mx.toNat?
      let mgr := if mg = "d" then Mgr.dummy else Mgr.rollback
      match n.toNat?, acts.mapM parseAct with
      | some n, some as =>
          match runIdx mgr max init as 0 with
          | .inl i => s!"disabled {i}"
          | .inr s =>
              let js := List.range n
              s!"ok failed={if s.failed then 1 else 0} versions={",".intercalate (js.map (fun j => toString (s.version j)))} execs={",".intercalate (js.map (fun j => toString (s.execs j)))}"
      | _, _ => "bad-op"
  | _ => "bad-op"

def main : IO Unit := runPure handle
