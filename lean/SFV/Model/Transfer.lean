/-! # Where a transferred tree lands (C22)

Path/decision logic of the copy routes, over abstract trees: a tree is the list of its entries, each with its path
*relative to the tree root* (the root itself has the empty path). Path components `α` and entry payloads `ε` (file
bytes + mode, directory, …) are arbitrary: the functions below only move entries around.

* `archive`            : `tar chf - -C dirname(src) basename(src)` — members are named `basename/…`
* `remoteWriteCmd`     : the four-row decision of `get_remote_to_remote_write_command`
* `runWrite`           : what the chosen `tar xpf - …` / `tee` command does with the archive (GNU tar's behaviour on
                         member names is *assumed*: `-C d` prefixes `d`, `--strip-components 1` drops the first component)
* `localToRemoteDest`  : `get_local_to_remote_destination` + the writer of `copy_local_to_remote` (`arcname=dst`, `tar xpf - -C /`)
* `extractStream`      : `extract_tar_stream` (the three branches, as written) -/
namespace SFV.Transfer

abbrev Path (α : Type) := List α
abbrev Tree (α ε : Type) := List (Path α × ε)

/-- the tree `t` with its root at `final` -/
def place {α ε} (final : Path α) (t : Tree α ε) : Tree α ε := t.map (fun pe => (final ++ pe.1, pe.2))

/-- member names of `tar chf - -C dirname(src) basename(src)` -/
def archive {α ε} (base : α) (t : Tree α ε) : Tree α ε := t.map (fun pe => (base :: pe.1, pe.2))

/-- where the transfer is meant to put the tree: inside `dst` when `dst` is an existing directory, else at `dst` -/
def finalDest {α} (dst : Path α) (dstIsDir : Bool) (base : α) : Path α := if dstIsDir then dst ++ [base] else dst

inductive WriteCmd (α : Type)
  | xC (d : Path α)          -- tar xpf - -C d
  | xCstrip (d : Path α)     -- mkdir -p d; tar xpf - -C d --strip-components 1
  | tee (f : Path α)         -- tar xpf - -O | tee f > /dev/null
deriving DecidableEq, Repr

/-- `get_remote_to_remote_write_command` -/
def remoteWriteCmd {α} [DecidableEq α] (dst : Path α) (dstIsDir : Bool) (srcBase : α) (srcIsDir : Bool) : WriteCmd α :=
  if dstIsDir then .xC dst
  else if some srcBase ≠ dst.getLast? then
    (if srcIsDir then .xCstrip dst else .tee dst)
  else .xC dst.dropLast

def runWrite {α ε} (c : WriteCmd α) (a : Tree α ε) : Tree α ε :=
  match c with
  | .xC d => a.map (fun pe => (d ++ pe.1, pe.2))
  | .xCstrip d => a.map (fun pe => (d ++ pe.1.drop 1, pe.2))
  | .tee f => a.map (fun pe => (f, pe.2))

/-- `copy_local_to_remote`: destination from `get_local_to_remote_destination`, members named by `arcname=dst'`,
    extracted with `tar xpf - -C /` -/
def localToRemote {α ε} (dst : Path α) (dstIsDir : Bool) (base : α) (t : Tree α ε) : Tree α ε :=
  (t.map (fun pe => (finalDest dst dstIsDir base ++ pe.1, pe.2))).map (fun pe => ([] ++ pe.1, pe.2))

/-- `extract_tar_stream(tar, src, dst)` on the members of `archive base t`:
    `if isdir(dst) and member.path == basename(src): extract(member, dst)`; otherwise files go to
    `join(dst, relpath(member.path, basename(src)))` and other members are renamed the same way and extracted at `dst` -/
def extractStream {α ε} [DecidableEq α] (dst : Path α) (dstIsDir : Bool) (base : α) (a : Tree α ε) : Tree α ε :=
  a.map (fun pe => if dstIsDir && pe.1 == [base] then (dst ++ pe.1, pe.2) else (dst ++ pe.1.drop 1, pe.2))

end SFV.Transfer
