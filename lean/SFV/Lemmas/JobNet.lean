import SFV.Model.JobNet
/-! Helper lemmas for C16 (`SFV/Model/JobNet.lean`). -/
namespace SFV.JobNet

theorem gather_sound {den : Nat → Int} {s : St} (hs : ∀ j v, s.store j = some v → v = den j) :
    ∀ (ds : List Nat) (vs : List Int), gather s ds = some vs → vs = ds.map den := by
  intro ds
  induction ds with
  | nil => intro vs h; simp [gather] at h; subst h; rfl
  | cons d ds ih =>
    intro vs h
    simp only [gather] at h
    split at h
    · rename_i v vs' hv hvs
      cases h
      rw [hs d v hv, ih vs' hvs]; rfl
    · cases h

/-- stage-and-execute the jobs `0 … n-1` in order -/
def sweep : Nat → List Act
  | 0 => []
  | n + 1 => sweep n ++ [.stage n, .exec n]

theorem gather_some_of_present {s : St} : ∀ (ds : List Nat), (∀ d, d ∈ ds → (s.store d).isSome) → (gather s ds).isSome := by
  intro ds
  induction ds with
  | nil => intro _; rfl
  | cons d ds ih =>
    intro h
    have hd := h d (List.mem_cons_self ..)
    have hds := ih (fun x hx => h x (List.mem_cons_of_mem _ hx))
    simp only [gather]
    cases h1 : s.store d <;> cases h2 : gather s ds <;> simp_all

theorem runActs_append {net : Net} {s : St} {as bs : List Act} :
    runActs net s (as ++ bs) = (runActs net s as).bind (fun s' => runActs net s' bs) := by
  induction as generalizing s with
  | nil => rfl
  | cons a as ih =>
    simp only [List.cons_append, runActs]
    cases step net s a with
    | none => rfl
    | some s1 => exact ih

end SFV.JobNet
