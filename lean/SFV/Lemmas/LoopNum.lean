import SFV.Model.Loop
/-! LoopCombinator numbering and the LoopCombinatorStep checklist (C06). -/
namespace SFV.Loop
open SFV

/-! ### numbering -/

/-- an arrival at the loop combinator: `(p, none)` = the external inputs of instance `p` (tag `p`),
    `(p, some k)` = a back-edge arrival carrying the tag `p.k` of the iteration that just ran -/
abbrev Arr := Tag × Option Nat

def tagOf : Arr → Tag
  | (p, none) => p
  | (p, some k) => p ++ [k]

/-- causality: every instance of `P` starts once, with its external inputs; back-edge arrivals of an instance
    come after its start (they are produced by the loop body from the outputs of this very combinator) -/
def Causal (P : List Tag) : List Tag → List Arr → Prop
  | _, [] => True
  | st, (q, none) :: r => q ∈ P ∧ q ∉ st ∧ Causal P (q :: st) r
  | st, (q, some _) :: r => q ∈ st ∧ Causal P st r

/-- the tags given to the arrivals of instance `p`, in arrival order -/
def outsOf (p : Tag) : Counters → List Arr → List Tag
  | _, [] => []
  | m, a :: r =>
      if a.1 = p then (number m (tagOf a)).2 :: outsOf p (number m (tagOf a)).1 r
      else outsOf p (number m (tagOf a)).1 r

def nextIdx (m : Counters) (p : Tag) : Nat :=
  match m p with
  | none => 0
  | some c => c + 1

theorem range_succ_map (n : Nat) (f : Nat → Tag) :
    (List.range (n + 1)).map f = f 0 :: (List.range n).map (fun j => f (j + 1)) := by
  rw [List.range_succ_eq_map]; simp [List.map_map, Function.comp_def]

theorem numbering_aux (P : List Tag) (hsep : ∀ p ∈ P, p.dropLast ∉ P) (p : Tag) :
    ∀ (arr : List Arr) (st : List Tag) (m : Counters), (∀ x, (m x).isSome ↔ x ∈ st) → (∀ x ∈ st, x ∈ P) →
      Causal P st arr →
      outsOf p m arr = (List.range (arr.filter (fun a => a.1 = p)).length).map (fun j => p ++ [nextIdx m p + j]) := by
  intro arr
  induction arr with
  | nil => intro st m _ _ _; rfl
  | cons a r ih =>
    intro st m hm hst hc
    obtain ⟨q, o⟩ := a
    cases o with
    | none =>
      obtain ⟨hqP, hqst, hc'⟩ := hc
      have hdl : m q.dropLast = none := by
        cases h : m q.dropLast with
        | none => rfl
        | some c =>
          have : q.dropLast ∈ st := (hm _).mp (by simp [h])
          exact absurd (hst _ this) (hsep q hqP)
      have hnum : number m (tagOf (q, none)) = (setKey m q (some Gen.loopInit), q ++ [Gen.loopFirstSuffix]) := by
        simp [number, tagOf, hdl]
      have hm' : ∀ x, ((setKey m q (some Gen.loopInit)) x).isSome ↔ x ∈ q :: st := by
        intro x
        by_cases hx : x = q
        · subst hx; simp [setKey]
        · simp [setKey, hx, hm x]
      have hst' : ∀ x ∈ q :: st, x ∈ P := by
        intro x hx
        rcases List.mem_cons.mp hx with rfl | hx
        · exact hqP
        · exact hst x hx
      have ih' := ih (q :: st) _ hm' hst' hc'
      simp only [outsOf, hnum]
      by_cases hqp : q = p
      · subst hqp
        have hmq : m q = none := by
          cases h : m q with
          | none => rfl
          | some c => exact absurd ((hm q).mp (by simp [h])) hqst
        simp only [if_true, List.filter_cons, decide_true, List.length_cons]
        rw [range_succ_map, ih']
        simp [nextIdx, hmq, setKey, Gen.loopInit, Gen.loopFirstSuffix, Nat.add_comm, Nat.add_left_comm]
      · simp only [hqp, if_false, List.filter_cons, decide_false, Bool.false_eq_true]
        rw [ih']
        have : nextIdx (setKey m q (some Gen.loopInit)) p = nextIdx m p := by
          have hpq : ¬ p = q := fun e => hqp e.symm
          simp [nextIdx, setKey, hpq]
        rw [this]
    | some k =>
      obtain ⟨hqst, hc'⟩ := hc
      obtain ⟨c, hc0⟩ : ∃ c, m q = some c := by
        have := (hm q).mpr hqst
        cases h : m q with
        | none => simp [h] at this
        | some c => exact ⟨c, rfl⟩
      have hnum : number m (tagOf (q, some k)) = (setKey m q (some (c + Gen.loopIncr)), q ++ [c + Gen.loopIncr]) := by
        simp [number, tagOf, hc0]
      have hm' : ∀ x, ((setKey m q (some (c + Gen.loopIncr))) x).isSome ↔ x ∈ st := by
        intro x
        by_cases hx : x = q
        · subst hx; simp [setKey, hqst]
        · simp [setKey, hx, hm x]
      have ih' := ih st _ hm' hst hc'
      simp only [outsOf, hnum]
      by_cases hqp : q = p
      · subst hqp
        simp only [if_true, List.filter_cons, decide_true, List.length_cons]
        rw [range_succ_map, ih']
        simp [nextIdx, hc0, setKey, Gen.loopIncr, Nat.add_comm, Nat.add_left_comm]
      · simp only [hqp, if_false, List.filter_cons, decide_false, Bool.false_eq_true]
        rw [ih']
        have : nextIdx (setKey m q (some (c + Gen.loopIncr))) p = nextIdx m p := by
          have hpq : ¬ p = q := fun e => hqp e.symm
          simp [nextIdx, setKey, hpq]
        rw [this]

/-! ### checklist -/

def CEv.benign (p : Tag) : CEv → Prop
  | .data _ => True
  | .iterTerm tag => tag ≠ p
  | .term st => st = .completed

theorem keepsReading_of_nonempty (t : Bool) (n : Nat) (h : 0 < n) : Gen.loopKeepsReading t false n = true := by
  simp [Gen.loopKeepsReading]; omega

theorem cpre_keeps (s : CSt) (e : CEv) (p : Tag) (hp : p ∈ s.checklist) (hf : s.failed = false) (he : e.benign p) :
    p ∈ (cpre s e).checklist ∧ (cpre s e).failed = false := by
  cases e with
  | data tag =>
    simp only [cpre]
    split
    · split
      · exact ⟨hp, hf⟩
      · exact ⟨List.mem_cons_of_mem _ hp, hf⟩
    · exact ⟨hp, hf⟩
  | iterTerm tag =>
    have : tag ≠ p := he
    refine ⟨?_, hf⟩
    simp only [cpre, List.mem_filter, hp, true_and, decide_eq_true_eq]
    exact fun e => this e.symm
  | term st =>
    have : st = .completed := he
    subst this
    simp [cpre, Gen.loopChecklistClears, Gen.loopFails, hp, hf]

theorem cstep_keeps (s : CSt) (e : CEv) (p : Tag) (hp : p ∈ s.checklist) (hr : s.reading = true) (hf : s.failed = false)
    (he : e.benign p) :
    p ∈ (cstep s e).checklist ∧ (cstep s e).reading = true ∧ (cstep s e).failed = false := by
  obtain ⟨h1, h2⟩ := cpre_keeps s e p hp hf he
  unfold cstep
  simp only [hr, Bool.not_true, Bool.false_eq_true, if_false]
  refine ⟨h1, ?_, h2⟩
  simp only [h2]
  exact keepsReading_of_nonempty _ _ (List.length_pos_of_mem h1)

end SFV.Loop

namespace SFV.Loop
open SFV

/-- back-edge phase of the closed loop: the counter of `p` is `some k`, some token of the instance comes back -/
theorem cycle_from {V} (cond : Tag → Bool) (body : Tag → V) (p : Tag) (n : Nat)
    (htrue : ∀ k, k < n → cond (p ++ [k]) = true) (hfalse : cond (p ++ [n]) = false) :
    ∀ (j k : Nat) (f : Nat) (m : Counters) (x : Nat), k + 1 + j = n → j < f → m p = some k →
      cycle cond body f m (p ++ [x]) =
        ((List.range j).map (fun i => Ev.data ⟨p ++ [k + 1 + i], body (p ++ [k + 1 + i])⟩)) ++ [Ev.iterTerm (p ++ [n])] := by
  intro j
  induction j with
  | zero =>
    intro k f m x hk hf hm
    cases f with
    | zero => omega
    | succ f =>
      have hnum : number m (p ++ [x]) = (setKey m p (some (k + 1)), p ++ [k + 1]) := by
        simp [number, hm, Gen.loopIncr]
      have hkn : k + 1 = n := by omega
      simp [cycle, trip, hnum, hkn, hfalse]
  | succ j ih =>
    intro k f m x hk hf hm
    cases f with
    | zero => omega
    | succ f =>
      have hnum : number m (p ++ [x]) = (setKey m p (some (k + 1)), p ++ [k + 1]) := by
        simp [number, hm, Gen.loopIncr]
      have hc : cond (p ++ [k + 1]) = true := htrue (k + 1) (by omega)
      have := ih (k + 1) f (setKey m p (some (k + 1))) (k + 1) (by omega) (by omega) (by simp [setKey])
      simp only [cycle, trip, hnum, hc, if_true]
      rw [this, range_succ_map']
      simp only [List.cons_append, Nat.add_zero]
      congr 2
      apply List.map_congr_left
      intro i _
      have : k + 1 + 1 + i = k + 1 + (i + 1) := by omega
      rw [this]
where
  range_succ_map' {α} (n : Nat) (g : Nat → α) :
      (List.range (n + 1)).map g = g 0 :: (List.range n).map (fun j => g (j + 1)) := by
    rw [List.range_succ_eq_map]; simp [List.map_map, Function.comp_def]

end SFV.Loop

namespace SFV.Loop
open SFV

theorem iterToks_range' {V} (p : Tag) (g : Nat → V) (n : Nat) : ∀ i,
    iterToks p i ((List.range' i n).map g) = (List.range' i n).map (fun k => ⟨p ++ [k], g k⟩) := by
  induction n with
  | zero => intro i; rfl
  | succ n ih => intro i; simp [List.range'_succ, iterToks, ih (i + 1)]

/-- the tokens one loop instance sends to the loop output step: exactly `p.0 … p.(n-1)` and `iterTerm p.n`,
    where `n` is the first iteration index at which the condition is false -/
theorem cycle_eq {V} (cond : Tag → Bool) (body : Tag → V) (p : Tag) (n : Nat)
    (htrue : ∀ k, k < n → cond (p ++ [k]) = true) (hfalse : cond (p ++ [n]) = false)
    (m : Counters) (hm : m p.dropLast = none) (f : Nat) (hf : n < f) :
    cycle cond body f m p =
      (iterToks p 0 ((List.range n).map (fun k => body (p ++ [k])))).map Ev.data ++ [Ev.iterTerm (p ++ [n])] := by
  cases f with
  | zero => omega
  | succ f =>
    have hnum : number m p = (setKey m p (some 0), p ++ [0]) := by
      simp [number, hm, Gen.loopInit, Gen.loopFirstSuffix]
    rw [List.range_eq_range', iterToks_range' p (fun k => body (p ++ [k])) n 0, ← List.range_eq_range']
    cases n with
    | zero => simp [cycle, trip, hnum, hfalse]
    | succ n =>
      have hc : cond (p ++ [0]) = true := htrue 0 (by omega)
      have := cycle_from cond body p (n + 1) htrue hfalse n 0 f (setKey m p (some 0)) 0 (by omega) (by omega) (by simp [setKey])
      simp only [cycle, trip, hnum, hc, if_true]
      rw [this, List.map_map, cycle_from.range_succ_map']
      simp only [List.cons_append, Function.comp_def, Nat.zero_add]
      congr 2
      apply List.map_congr_left
      intro i _
      have : 1 + i = i + 1 := by omega
      rw [this]

end SFV.Loop

namespace SFV.Loop
open SFV

/-- tags of the data tokens of an event list -/
def dataTags : List CEv → List Tag
  | [] => []
  | .data t :: r => t :: dataTags r
  | _ :: r => dataTags r

/-- tags given by the combinator to a list of arrivals, starting from counters `m` -/
def numberFrom : Counters → List Tag → List Tag
  | _, [] => []
  | m, t :: ts => (number m t).2 :: numberFrom (number m t).1 ts

/-- the port is read at every event of the list (the step has not stopped before its end) -/
def Reads : LCSt → List CEv → Prop
  | _, [] => True
  | s, e :: es => s.c.reading = true ∧ Reads (lcstep s e) es

theorem lcstep_fields (s : LCSt) (e : CEv) (hr : s.c.reading = true) :
    (lcstep s e).c = cstep s.c e ∧
    (lcstep s e).out = s.out ++ (match e with | .data t => [(number s.cnt t).2] | _ => []) ∧
    (lcstep s e).cnt = (match e with | .data t => (number s.cnt t).1 | _ => s.cnt) := by
  unfold lcstep
  simp only [hr, Bool.not_true, Bool.false_eq_true, if_false]
  cases e <;> (split <;> simp)

/-- **the step's output log.** As long as the port is read, what a one-port `LoopCombinatorStep` puts on its output port is the
    combinator's numbering of the data tokens it received, in order (iteration terminations and the termination token add nothing) -/
theorem lcrun_out : ∀ (es : List CEv) (s : LCSt), Reads s es →
    (es.foldl lcstep s).out = s.out ++ numberFrom s.cnt (dataTags es) := by
  intro es
  induction es with
  | nil => intro s _; simp [dataTags, numberFrom]
  | cons e es ih =>
    intro s h
    obtain ⟨hr, hrest⟩ := h
    obtain ⟨_, ho, hc⟩ := lcstep_fields s e hr
    simp only [List.foldl_cons]
    rw [ih (lcstep s e) hrest, ho, hc]
    cases e <;> simp [dataTags, numberFrom]

end SFV.Loop
