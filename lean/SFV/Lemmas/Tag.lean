import SFV.Model.Tag
/-! Helper lemmas for tags (C33, C01, C06). -/
namespace SFV

theorem nd_pos (n : Nat) : 0 < nd n := by
  unfold nd; split <;> omega

theorem cmpComps_antisymm (a b : Tag) : cmpComps a b = - cmpComps b a := by
  fun_induction cmpComps a b with
  | case1 x xs y ys h =>
    simp only [Gen.cmpElemTest, Gen.cmpElem, bne_iff_ne, ne_eq] at h
    have h' : ¬ ((y : Int) - x = 0) := by omega
    simp only [cmpComps, Gen.cmpElemTest, Gen.cmpElem, bne_iff_ne, ne_eq, h, h', not_false_eq_true, if_true]; omega
  | case2 x xs y ys h ih =>
    simp only [Gen.cmpElemTest, Gen.cmpElem, bne_iff_ne, ne_eq, Decidable.not_not] at h
    have h' : (y : Int) - x = 0 := by omega
    simp [cmpComps, Gen.cmpElemTest, Gen.cmpElem, h', ih]
  | case3 a b hne =>
    cases a with
    | nil => cases b <;> simp [cmpComps, Gen.cmpDefault]
    | cons x xs =>
      cases b with
      | nil => simp [cmpComps, Gen.cmpDefault]
      | cons y ys => exact (hne x xs y ys rfl rfl).elim

theorem compareTags_antisymm (a b : Tag) : compareTags a b = - compareTags b a := by
  unfold compareTags
  simp only [Gen.cmpLenTest, Gen.cmpLen, bne_iff_ne, ne_eq, ite_not]
  by_cases h : (a.length : Int) - b.length = 0
  · have h' : (b.length : Int) - a.length = 0 := by omega
    simp [h, h', cmpComps_antisymm a b]
  · have h' : ¬ (b.length : Int) - a.length = 0 := by omega
    simp only [h, h', if_false]; omega

theorem cmpComps_eq_zero {a b : Tag} (hl : a.length = b.length) (h0 : cmpComps a b = 0) : a = b := by
  fun_induction cmpComps a b with
  | case1 x xs y ys h =>
    simp only [Gen.cmpElemTest, Gen.cmpElem, bne_iff_ne, ne_eq] at h
    simp only [Gen.cmpElem] at h0
    exact absurd h0 h
  | case2 x xs y ys h ih =>
    simp only [Gen.cmpElemTest, Gen.cmpElem, bne_iff_ne, ne_eq, Decidable.not_not] at h
    have : x = y := by omega
    subst this
    simp only [List.length_cons, Nat.add_right_cancel_iff] at hl
    rw [ih hl h0]
  | case3 a b hne =>
    cases a with
    | nil => cases b <;> simp_all
    | cons x xs =>
      cases b with
      | nil => simp at hl
      | cons y ys => exact (hne x xs y ys rfl rfl).elim

theorem cmpComps_self (a : Tag) : cmpComps a a = 0 := by
  induction a with
  | nil => simp [cmpComps, Gen.cmpDefault]
  | cons x xs ih => simp [cmpComps, Gen.cmpElemTest, Gen.cmpElem, ih]

/-- transitivity of the component comparison on equal lengths, in one statement covering `<` and `≤` -/
theorem cmpComps_trans {a b c : Tag} (hab : a.length = b.length) (hbc : b.length = c.length) :
    (cmpComps a b < 0 → cmpComps b c ≤ 0 → cmpComps a c < 0) ∧
    (cmpComps a b ≤ 0 → cmpComps b c < 0 → cmpComps a c < 0) ∧
    (cmpComps a b ≤ 0 → cmpComps b c ≤ 0 → cmpComps a c ≤ 0) := by
  induction a generalizing b c with
  | nil =>
    cases b <;> cases c <;> simp_all [cmpComps, Gen.cmpDefault]
  | cons x xs ih =>
    cases b with
    | nil => simp at hab
    | cons y ys =>
      cases c with
      | nil => simp at hbc
      | cons z zs =>
        simp only [List.length_cons, Nat.add_right_cancel_iff] at hab hbc
        have ih' := ih hab hbc
        simp only [cmpComps, Gen.cmpElemTest, Gen.cmpElem, bne_iff_ne, ne_eq, ite_not]
        by_cases hxy : (x : Int) - y = 0 <;> by_cases hyz : (y : Int) - z = 0 <;>
          by_cases hxz : (x : Int) - z = 0 <;> simp only [hxy, hyz, hxz, if_true, if_false] <;>
          first
            | exact ih'
            | (refine ⟨?_, ?_, ?_⟩ <;> intros <;> omega)

theorem strLen_pos {t : Tag} (h : t ≠ []) : 0 < strLen t := by
  match t, h with
  | [a], _ => simpa [strLen] using nd_pos a
  | a :: b :: r, _ => simp [strLen]; have := nd_pos a; omega

theorem strLen_append_lt (p : Tag) {q : Tag} (hp : p ≠ []) (hq : q ≠ []) : strLen p < strLen (p ++ q) := by
  induction p with
  | nil => exact absurd rfl hp
  | cons a p ih =>
    cases p with
    | nil =>
      cases q with
      | nil => exact absurd rfl hq
      | cons b r => simp only [List.cons_append, List.nil_append, strLen]; omega
    | cons b r =>
      have := ih (by simp)
      simp only [List.cons_append, strLen] at this ⊢
      omega

theorem strLen_lt_of_prefix {a b : Tag} (ha : a ≠ []) (h : a <+: b) (hne : a ≠ b) : strLen a < strLen b := by
  obtain ⟨q, rfl⟩ := h
  exact strLen_append_lt a ha (by intro hq; subst hq; simp at hne)

/-! ### splitting and joining on `/` -/

theorem splitSlash_ne_nil (s : List Char) : splitSlash s ≠ [] := by
  induction s with
  | nil => simp [splitSlash]
  | cons c cs ih =>
    simp only [splitSlash]
    split
    · contradiction
    · split <;> simp

theorem splitSlash_noslash (w : List Char) (h : '/' ∉ w) : splitSlash w = [w] := by
  induction w with
  | nil => rfl
  | cons c cs ih =>
    simp only [List.mem_cons, not_or] at h
    have hc : c ≠ '/' := fun e => h.1 e.symm
    simp [splitSlash, ih h.2, hc]

theorem splitSlash_append_slash (w rest : List Char) (h : '/' ∉ w) :
    splitSlash (w ++ '/' :: rest) = w :: splitSlash rest := by
  induction w with
  | nil =>
    simp only [List.nil_append, splitSlash]
    split
    · rename_i he; exact absurd he (splitSlash_ne_nil rest)
    · rename_i he; simp [he]
  | cons c cs ih =>
    simp only [List.mem_cons, not_or] at h
    have hc : c ≠ '/' := fun e => h.1 e.symm
    simp [splitSlash, ih h.2, hc]

theorem splitSlash_joinSlash (ws : List (List Char)) (hne : ws ≠ []) (h : ∀ w ∈ ws, '/' ∉ w) :
    splitSlash (joinSlash ws) = ws := by
  induction ws with
  | nil => exact absurd rfl hne
  | cons w ws ih =>
    cases ws with
    | nil => simpa [joinSlash] using splitSlash_noslash w (h w (by simp))
    | cons w' ws' =>
      simp only [joinSlash]
      rw [splitSlash_append_slash w _ (h w (by simp)), ih (by simp) (fun x hx => h x (List.mem_cons_of_mem _ hx))]

end SFV

namespace SFV

theorem strLen_le_of_prefix {a b : Tag} (ha : a ≠ []) (h : a <+: b) : strLen a ≤ strLen b := by
  by_cases e : a = b
  · subst e; exact Nat.le_refl _
  · exact Nat.le_of_lt (strLen_lt_of_prefix ha h e)

theorem getTagLoop_max (out : Tag) (ts : List Tag) :
    getTagLoop out ts ∈ out :: ts ∧ ∀ t ∈ out :: ts, strLen t ≤ strLen (getTagLoop out ts) := by
  induction ts generalizing out with
  | nil => simp [getTagLoop]
  | cons t ts ih =>
    simp only [getTagLoop, Gen.getTagTakes, gt_iff_lt, Int.ofNat_lt, decide_eq_true_eq]
    split
    · rename_i hlt
      obtain ⟨hm, hmax⟩ := ih t
      refine ⟨List.mem_cons_of_mem _ hm, ?_⟩
      intro x hx
      rcases List.mem_cons.mp hx with rfl | hx
      · have := hmax t (by simp); omega
      · exact hmax x hx
    · rename_i hnlt
      obtain ⟨hm, hmax⟩ := ih out
      refine ⟨?_, ?_⟩
      · rcases List.mem_cons.mp hm with h | h
        · rw [h]; simp
        · exact List.mem_cons_of_mem _ (List.mem_cons_of_mem _ h)
      · intro x hx
        rcases List.mem_cons.mp hx with rfl | hx
        · exact hmax _ (by simp)
        · rcases List.mem_cons.mp hx with rfl | hx
          · have := hmax out (by simp); omega
          · exact hmax x (List.mem_cons_of_mem _ hx)

theorem getTagLoop_stays (out : Tag) (ts : List Tag) (h : ∀ t ∈ ts, strLen t ≤ strLen out) :
    getTagLoop out ts = out := by
  induction ts with
  | nil => rfl
  | cons t ts ih =>
    have ht := h t (by simp)
    simp only [getTagLoop, Gen.getTagTakes, gt_iff_lt, Int.ofNat_lt, decide_eq_true_eq]
    rw [if_neg (by omega)]
    exact ih (fun x hx => h x (List.mem_cons_of_mem _ hx))

theorem joinSlash_append_singleton (ws : List (List Char)) (w : List Char) (h : ws ≠ []) :
    joinSlash (ws ++ [w]) = joinSlash ws ++ '/' :: w := by
  induction ws with
  | nil => exact absurd rfl h
  | cons a ws ih =>
    cases ws with
    | nil => simp [joinSlash]
    | cons b r =>
      have := ih (by simp)
      simp only [List.cons_append, joinSlash] at this ⊢
      rw [this]; simp

theorem getLast?_joinSlash (ws : List (List Char)) (h : ws ≠ []) (hne : ∀ w ∈ ws, w ≠ []) :
    (joinSlash ws).getLast? = (ws.getLast h).getLast? := by
  induction ws with
  | nil => exact absurd rfl h
  | cons a ws ih =>
    cases ws with
    | nil => simp [joinSlash]
    | cons b r =>
      have hb := ih (by simp) (fun w hw => hne w (List.mem_cons_of_mem _ hw))
      simp only [joinSlash]
      have hne' : joinSlash (b :: r) ≠ [] := by
        intro e; rw [e] at hb; simp at hb
        have := hne ((b :: r).getLast (by simp)) (List.mem_cons_of_mem _ (List.getLast_mem _))
        exact this (by simpa using hb.symm)
      rw [List.getLast?_append, List.getLast?_cons_of_ne_nil hne', hb]
      have hl := hne ((b :: r).getLast (by simp)) (List.mem_cons_of_mem _ (List.getLast_mem _))
      cases hg : ((b :: r).getLast (by simp)).getLast? with
      | none => simp at hg; exact absurd hg hl
      | some c => simp [hg]

end SFV
