"""Extractor: scheduler guards and hardware comparison/arithmetic operators -> SFV/Gen/SchedGuards.lean

Reads (by semantic anchor, never by line number)
  streamflow/core/workflow.py      class Status                         -> inductive Status
  streamflow/scheduling/scheduler.py
      notify_status               the `if` that stores the status, the `if` whose body awaits `_free_resources`,
                                  the `if` whose body removes the job from `location_allocations[..].jobs`,
                                  and that `notify_all()` is the last statement under the allocation test
      _get_running_jobs           the filter lambda
      _is_valid                   slot default, slot comparison
      _process_target             `len(valid_locations) >= target.locations`
      _allocate_job               status given to a new allocation
  streamflow/core/scheduling.py
      Hardware.satisfies          cores/memory test and per-disk comparison
      Hardware.__add__/__sub__/__ior__   cores / memory arithmetic
      Storage.__init__            negative-size test
      Storage.__add__/__sub__/__or__/__ior__   size arithmetic, mount-point test
"""
from __future__ import annotations

import ast
import os

from sfv.translate.expr import ExprTranslator, TranslateError, find_nodes, parse_function

TARGET = "SFV/Gen/SchedGuards.lean"
ENUMS = {"Status": ""}


def _status_enum(repo: str) -> list[tuple[str, int]]:
    path = os.path.join(repo, "streamflow/core/workflow.py")
    with open(path) as f:
        tree = ast.parse(f.read(), filename=path)
    for node in tree.body:
        if isinstance(node, ast.ClassDef) and node.name == "Status":
            members = []
            for st in node.body:
                if (isinstance(st, ast.Assign) and len(st.targets) == 1 and isinstance(st.targets[0], ast.Name)
                        and isinstance(st.value, ast.Constant) and isinstance(st.value.value, int)):
                    members.append((st.targets[0].id, st.value.value))
            if not members:
                raise TranslateError("Status: no integer members found")
            return members
    raise TranslateError("class Status not found in streamflow/core/workflow.py")


def _calls(node: ast.AST, suffix: str) -> bool:
    """does the subtree contain a call whose function text ends with `suffix`"""
    return any(ast.unparse(c.func).endswith(suffix) for c in find_nodes(node, ast.Call))


def _arith(node: ast.AST, names: dict[str, str]) -> str:
    """`a + b`, `a - b`, `max(a, b)` over named operands"""
    src = ast.unparse(node)
    if src in names:
        return names[src]
    if isinstance(node, ast.BinOp) and isinstance(node.op, (ast.Add, ast.Sub)):
        op = "+" if isinstance(node.op, ast.Add) else "-"
        return f"({_arith(node.left, names)} {op} {_arith(node.right, names)})"
    if isinstance(node, ast.Call) and ast.unparse(node.func) in ("max", "min") and len(node.args) == 2 and not node.keywords:
        return f"({ast.unparse(node.func)} {_arith(node.args[0], names)} {_arith(node.args[1], names)})"
    raise TranslateError(f"unsupported arithmetic `{src}`")


def _kw(call: ast.Call, name: str, pos: int | None = None) -> ast.AST:
    for k in call.keywords:
        if k.arg == name:
            return k.value
    if pos is not None and len(call.args) > pos:
        return call.args[pos]
    raise TranslateError(f"`{ast.unparse(call)}` has no argument `{name}`")


def _returned_call(fn: ast.FunctionDef, ctor: str) -> ast.Call:
    rets = [r for r in find_nodes(fn, ast.Return) if isinstance(r.value, ast.Call) and ast.unparse(r.value.func) == ctor]
    if len(rets) != 1:
        raise TranslateError(f"{fn.name}: expected exactly one `return {ctor}(...)`")
    return rets[0].value


def _mount_guard(fn: ast.FunctionDef, cls: str) -> str:
    """the `if self.mount_point != other.mount_point: raise ArithmeticError` test"""
    for i in find_nodes(fn, ast.If):
        if any(isinstance(s, ast.Raise) and "ArithmeticError" in ast.unparse(s) for s in i.body):
            return ExprTranslator({"self.mount_point": "selfMount", "other.mount_point": "otherMount"}).tr(i.test)
    raise TranslateError(f"{cls}.{fn.name}: mount-point test raising ArithmeticError not found")


def generate(repo: str) -> tuple[str, str]:
    members = _status_enum(repo)
    sched = os.path.join(repo, "streamflow/scheduling/scheduler.py")
    core = os.path.join(repo, "streamflow/core/scheduling.py")

    # ---- notify_status ------------------------------------------------------------------------
    fn = parse_function(sched, "notify_status", "DefaultScheduler")
    withs = [s for s in fn.body if isinstance(s, ast.AsyncWith)]
    if len(withs) != 1 or "wait_queue" not in ast.unparse(withs[0].items[0].context_expr):
        raise TranslateError("notify_status: `async with self.wait_queue` not found at top level")
    if any(isinstance(s, (ast.AsyncWith, ast.If, ast.For, ast.While)) for s in fn.body if s is not withs[0]):
        raise TranslateError("notify_status: scheduler state is touched outside `async with self.wait_queue`")
    outer = [s for s in withs[0].body if isinstance(s, ast.If)]
    if len(withs[0].body) != 1 or len(outer) != 1 or outer[0].orelse:
        raise TranslateError("notify_status: body of the critical section is not the single `if job_allocation := …`")
    alloc_if = outer[0]
    if "job_allocations.get(job_name)" not in ast.unparse(alloc_if.test):
        raise TranslateError("notify_status: allocation lookup `self.job_allocations.get(job_name)` not found")
    names = {"status": "new", "previous_status": "prev"}
    stored = releases = unlists = None
    prev_src = None
    for st in alloc_if.body:
        if not isinstance(st, ast.If):
            continue
        body_src = ast.unparse(ast.Module(body=st.body, type_ignores=[]))
        if "_free_resources" in body_src:
            if st.orelse or not any(isinstance(n, ast.Await) for n in ast.walk(st)):
                raise TranslateError("notify_status: release branch has an unexpected shape")
            releases = ExprTranslator(names, ENUMS).tr(st.test)
        elif "job_allocation.status = status" in body_src:
            named = find_nodes(st.test, ast.NamedExpr)
            if len(named) != 1 or named[0].target.id != "previous_status" or ast.unparse(named[0].value) != "job_allocation.status":
                raise TranslateError("notify_status: `previous_status := job_allocation.status` not found in the storing test")
            prev_src = ast.unparse(named[0])
            stored = ExprTranslator({**names, prev_src: "prev", f"({prev_src})": "prev"}, ENUMS).tr(st.test)
        elif ".jobs.remove(job_name)" in body_src:
            if "job_allocation.locations.clear()" not in body_src:
                raise TranslateError("notify_status: un-listing branch no longer clears job_allocation.locations")
            unlists = ExprTranslator(names, ENUMS).tr(st.test)
        else:
            raise TranslateError(f"notify_status: unexpected conditional `if {ast.unparse(st.test)}`")
    if stored is None or releases is None or unlists is None:
        raise TranslateError("notify_status: storing / releasing / un-listing conditionals not all found")
    last = alloc_if.body[-1]
    notifies_last = isinstance(last, ast.Expr) and ast.unparse(last.value) == "self.wait_queue.notify_all()"
    # order of the three conditionals matters (release reads the locations the un-listing clears)
    order = [("store" if "job_allocation.status = status" in ast.unparse(s) else
              "release" if "_free_resources" in ast.unparse(s) else "unlist")
             for s in alloc_if.body if isinstance(s, ast.If)]
    if order != ["store", "release", "unlist"]:
        raise TranslateError(f"notify_status: conditionals in unexpected order {order}")

    # ---- _get_running_jobs --------------------------------------------------------------------
    fn = parse_function(sched, "_get_running_jobs", "DefaultScheduler")
    lambdas = find_nodes(fn, ast.Lambda)
    if len(lambdas) != 1 or [a.arg for a in lambdas[0].args.args] != ["x"]:
        raise TranslateError("_get_running_jobs: the filter `lambda x: …` was not found")
    filt = [c for c in find_nodes(fn, ast.Call) if ast.unparse(c.func) == "filter"]
    if len(filt) != 1 or ".jobs" not in ast.unparse(filt[0].args[1]):
        raise TranslateError("_get_running_jobs: `filter(lambda, …location….jobs)` not found")
    counts = ExprTranslator({
        "self.job_allocations[x].status": "st",
        "get_job_step_name(x)": "stepX", "get_job_step_name(job_name)": "stepJ",
        "compare_tags(get_job_tag(x), get_job_tag(job_name))": "tagCmp",
    }, ENUMS).tr(lambdas[0].body)

    # ---- _is_valid ----------------------------------------------------------------------------
    fn = parse_function(sched, "_is_valid", "DefaultScheduler")
    slot_default = None
    for a in find_nodes(fn, ast.Assign):
        if ast.unparse(a.targets[0]) == "slots" and isinstance(a.value, ast.IfExp):
            if ast.unparse(a.value.test) != "location.slots is not None" or ast.unparse(a.value.body) != "location.slots":
                raise TranslateError("_is_valid: slots default has an unexpected shape")
            slot_default = ExprTranslator({}).tr(a.value.orelse)
    if slot_default is None:
        raise TranslateError("_is_valid: `slots = location.slots if … else <default>` not found")
    slot_free = None
    hw_test = None
    for i in find_nodes(fn, ast.If):
        t = i.test
        if isinstance(t, ast.UnaryOp) and isinstance(t.op, ast.Not) and "return False" in ast.unparse(i.body[0]):
            inner = t.operand
            if "_get_running_jobs" in ast.unparse(inner):
                slot_free = ExprTranslator({"len(self._get_running_jobs(job_name, location))": "running", "slots": "slots"}).tr(inner)
            elif ".satisfies(" in ast.unparse(inner):
                hw_test = ast.unparse(inner).replace(" ", "").replace("\n", "")
    if slot_free is None:
        raise TranslateError("_is_valid: `if not len(self._get_running_jobs(…)) < slots: return False` not found")
    if hw_test != "(location.hardware-self.hardware_locations.get(location.name,Hardware())).satisfies(hardware_requirement)":
        raise TranslateError(f"_is_valid: hardware test is not `(capacity - reserved).satisfies(requirement)`: {hw_test}")

    # ---- _process_target ----------------------------------------------------------------------
    fn = parse_function(sched, "_process_target", "DefaultScheduler")
    enough = None
    for i in find_nodes(fn, ast.If):
        if "len(valid_locations)" in ast.unparse(i.test):
            enough = ExprTranslator({"len(valid_locations)": "valid", "target.locations": "wanted"}).tr(i.test)
    if enough is None:
        raise TranslateError("_process_target: `len(valid_locations) >= target.locations` not found")

    # ---- _allocate_job ------------------------------------------------------------------------
    fn = parse_function(sched, "_allocate_job", "DefaultScheduler")
    ja = [c for c in find_nodes(fn, ast.Call) if ast.unparse(c.func) == "JobAllocation"]
    if len(ja) != 1:
        raise TranslateError("_allocate_job: `JobAllocation(...)` not found")
    alloc_status = ExprTranslator({}, ENUMS).tr(_kw(ja[0], "status"))

    # ---- Hardware.satisfies -------------------------------------------------------------------
    fn = parse_function(core, "satisfies", "Hardware")
    ifs = [s for s in fn.body if isinstance(s, ast.If) and "cores" in ast.unparse(s.test)]
    if len(ifs) != 1:
        raise TranslateError("Hardware.satisfies: cores/memory test not found")
    top = ifs[0]
    cm = ExprTranslator({"self.cores": "selfCores", "other.cores": "otherCores",
                         "self.memory": "selfMemory", "other.memory": "otherMemory"}, numeric="Rat").tr(top.test)
    if not (len(top.orelse) == 1 and isinstance(top.orelse[0], ast.Return) and ast.unparse(top.orelse[0].value) == "False"):
        raise TranslateError("Hardware.satisfies: else branch is not `return False`")
    raises = [s for s in top.body if isinstance(s, ast.If)]
    if len(raises) != 1 or not any(isinstance(s, ast.Raise) for s in raises[0].body):
        raise TranslateError("Hardware.satisfies: missing-storage test raising an exception not found")
    miss = ast.unparse(raises[0].test).replace(" ", "").replace("\n", "")
    if miss != "set((other_norm:=other._normalize_storage()).keys())-set((self_norm:=self._normalize_storage()).keys())":
        raise TranslateError(f"Hardware.satisfies: missing-storage test has an unexpected shape: {miss}")
    ret = [s for s in top.body if isinstance(s, ast.Return)]
    if len(ret) != 1 or not (isinstance(ret[0].value, ast.Call) and ast.unparse(ret[0].value.func) == "all"):
        raise TranslateError("Hardware.satisfies: final `return all(...)` not found")
    gen = ret[0].value.args[0]
    if not (isinstance(gen, ast.GeneratorExp) and len(gen.generators) == 1 and not gen.generators[0].ifs
            and ast.unparse(gen.generators[0].iter) == "other_norm.values()"):
        raise TranslateError("Hardware.satisfies: generator does not range over other_norm.values()")
    disk = gen.generators[0].target.id
    disk_ok = ExprTranslator({f"self_norm[{disk}.mount_point].size": "selfSize", f"{disk}.size": "otherSize"},
                             numeric="Rat").tr(gen.elt)

    # ---- Hardware arithmetic ------------------------------------------------------------------
    def hw_binop(name: str) -> tuple[str, str, str]:
        f = parse_function(core, name, "Hardware")
        call = _returned_call(f, "Hardware")
        n = {"self.cores": "a", "other.cores": "b", "self.memory": "a", "other.memory": "b"}
        red = call.args[2] if len(call.args) > 2 else _kw(call, "storage")
        red_src = ast.unparse(red).replace(" ", "").replace("\n", "")
        want = "_reduce_storages((*self._normalize_storage().values(),*other._normalize_storage().values()),Storage.{}.__call__)"
        op = "__add__" if name == "__add__" else "__sub__"
        if red_src != want.format(op):
            raise TranslateError(f"Hardware.{name}: storage is not reduced over (self normalised, other normalised) with Storage.{op}: {red_src}")
        return _arith(_kw(call, "cores", 0), n), _arith(_kw(call, "memory", 1), n), op

    add_c, add_m, _ = hw_binop("__add__")
    sub_c, sub_m, _ = hw_binop("__sub__")
    f = parse_function(core, "__ior__", "Hardware")
    ior = {}
    for a in find_nodes(f, ast.AugAssign):
        t = ast.unparse(a.target)
        if t in ("self.cores", "self.memory") and isinstance(a.op, (ast.Add, ast.Sub)):
            field = t.split(".")[1]
            if ast.unparse(a.value) != f"other.{field}":
                raise TranslateError(f"Hardware.__ior__: {t} is not combined with other.{field}")
            ior[field] = f"(a {'+' if isinstance(a.op, ast.Add) else '-'} b)"
    for a in find_nodes(f, ast.Assign):
        t = ast.unparse(a.targets[0])
        if t in ("self.cores", "self.memory"):
            field = t.split(".")[1]
            ior[field] = _arith(a.value, {f"self.{field}": "a", f"other.{field}": "b"})
    if set(ior) != {"cores", "memory"}:
        raise TranslateError("Hardware.__ior__: cores/memory updates not found")
    loops = [s for s in f.body if isinstance(s, ast.For)]
    if len(loops) != 1 or ast.unparse(loops[0].iter) != "other.storage.items()":
        raise TranslateError("Hardware.__ior__: loop over other.storage.items() not found")
    loop_src = ast.unparse(loops[0]).replace(" ", "").replace("\n", "")
    if loop_src != "forkey,diskinother.storage.items():ifkeynotinself.storage.keys():self.storage[key]=diskelse:self.storage[key]|=disk":
        raise TranslateError(f"Hardware.__ior__: storage merge loop has an unexpected shape: {loop_src}")

    # ---- Storage ------------------------------------------------------------------------------
    f = parse_function(core, "__init__", "Storage")
    rej = [i for i in find_nodes(f, ast.If) if any(isinstance(s, ast.Raise) for s in i.body)]
    if len(rej) != 1:
        raise TranslateError("Storage.__init__: the size test raising an exception was not found")
    size_rejected = ExprTranslator({"size": "size"}, numeric="Rat").tr(rej[0].test)
    sn = {"self.size": "a", "other.size": "b"}
    st_ops = {}
    for name in ("__add__", "__sub__", "__or__"):
        f = parse_function(core, name, "Storage")
        call = _returned_call(f, "Storage")
        st_ops[name] = (_arith(_kw(call, "size", 1), sn), _mount_guard(f, "Storage"))
        if ast.unparse(_kw(call, "mount_point", 0)) != "self.mount_point":
            raise TranslateError(f"Storage.{name}: result mount point is not self.mount_point")
        if ast.unparse(_kw(call, "paths", 2)).replace(" ", "") != "self.paths|other.paths":
            raise TranslateError(f"Storage.{name}: result paths are not `self.paths | other.paths`")
        if ast.unparse(_kw(call, "bind", 3)) != "self.bind":
            raise TranslateError(f"Storage.{name}: result bind is not self.bind")
    f = parse_function(core, "__ior__", "Storage")
    ior_size = None
    for a in find_nodes(f, ast.Assign):
        if ast.unparse(a.targets[0]) == "self.size":
            ior_size = _arith(a.value, sn)
    if ior_size is None:
        raise TranslateError("Storage.__ior__: `self.size = …` not found")
    if "self.paths |= other.paths" not in ast.unparse(f):
        raise TranslateError("Storage.__ior__: `self.paths |= other.paths` not found")
    ior_guard = _mount_guard(f, "Storage")
    guards = {st_ops[n][1] for n in st_ops} | {ior_guard}
    if len(guards) != 1:
        raise TranslateError(f"Storage operators use different mount-point tests: {sorted(guards)}")

    # ---- _reduce_storages ---------------------------------------------------------------------
    f = parse_function(core, "_reduce_storages")
    red = ast.unparse(f).replace(" ", "").replace("\n", "")
    body = ("fordiskinstorages:ifdisk.mount_pointinstorage.keys():storage[disk.mount_point]=operator(storage[disk.mount_point],disk)"
            "else:storage[disk.mount_point]=Storage(mount_point=disk.mount_point,size=disk.size,paths=disk.paths,bind=disk.bind)returnstorage")
    if not red.endswith(body):
        raise TranslateError("_reduce_storages: loop has an unexpected shape")

    ctor_names = " | ".join(m.lower() for m, _ in members)
    to_nat = "\n".join(f"  | .{m.lower()} => {v}" for m, v in members)
    all_list = ", ".join(f".{m.lower()}" for m, _ in members)
    text = f"""/-! GENERATED by harness/sfv/translate/schedguards.py from streamflow/core/workflow.py,
    streamflow/scheduling/scheduler.py and streamflow/core/scheduling.py — do not edit. -/
namespace SFV.Gen.Sched

/-- `class Status(IntEnum)` -/
inductive Status | {ctor_names}
deriving DecidableEq, Repr

def Status.toNat : Status → Nat
{to_nat}

def Status.all : List Status := [{all_list}]

/-- notify_status: `if status != (previous_status := job_allocation.status):` — the new status is stored -/
def statusStored (prev new : Status) : Bool := {stored}
/-- notify_status: the `if` whose body awaits `_free_resources` -/
def releases (prev new : Status) : Bool := {releases}
/-- notify_status: the `if` whose body removes the job from `location_allocations[…].jobs` and clears its locations -/
def unlists (new : Status) : Bool := {unlists}
/-- notify_status: `self.wait_queue.notify_all()` is the last statement under `if job_allocation := …` -/
def notifiesAllLast : Bool := {"true" if notifies_last else "false"}
/-- _allocate_job: status of a fresh `JobAllocation` -/
def allocStatus : Status := {alloc_status}
/-- _get_running_jobs: the filter lambda (`st` = status of job x, `stepX`/`stepJ` = step names of x and of the
    requesting job, `tagCmp` = compare_tags(tag x, tag of the requesting job)) -/
def countsAsRunning (st : Status) (stepX stepJ : Nat) (tagCmp : Int) : Bool := {counts}
/-- _is_valid: `slots = location.slots if location.slots is not None else …` -/
def slotsDefault : Nat := {slot_default}
/-- _is_valid: `len(self._get_running_jobs(job_name, location)) < slots` -/
def slotFree (running slots : Nat) : Bool := {slot_free}
/-- _process_target: `len(valid_locations) >= target.locations` -/
def enoughLocations (valid wanted : Nat) : Bool := {enough}
/-- Hardware.satisfies: cores and memory test -/
def coresMemoryOk (selfCores selfMemory otherCores otherMemory : Rat) : Bool := {cm}
/-- Hardware.satisfies: per mount point test inside `all(...)` -/
def diskOk (selfSize otherSize : Rat) : Bool := {disk_ok}
/-- Storage.__init__: the test that raises -/
def sizeRejected (size : Rat) : Bool := {size_rejected}
/-- Storage.__add__ / __sub__ / __or__ / __ior__: the test that raises ArithmeticError -/
def mountMismatch (selfMount otherMount : Nat) : Bool := {guards.pop()}
/-- Storage.__add__ size -/
def storageAdd (a b : Rat) : Rat := {st_ops['__add__'][0]}
/-- Storage.__sub__ size -/
def storageSub (a b : Rat) : Rat := {st_ops['__sub__'][0]}
/-- Storage.__or__ size -/
def storageOr (a b : Rat) : Rat := {st_ops['__or__'][0]}
/-- Storage.__ior__ size -/
def storageIor (a b : Rat) : Rat := {ior_size}
/-- Hardware.__add__ cores / memory -/
def hwAddCores (a b : Rat) : Rat := {add_c}
def hwAddMemory (a b : Rat) : Rat := {add_m}
/-- Hardware.__sub__ cores / memory -/
def hwSubCores (a b : Rat) : Rat := {sub_c}
def hwSubMemory (a b : Rat) : Rat := {sub_m}
/-- Hardware.__ior__ cores / memory -/
def hwIorCores (a b : Rat) : Rat := {ior['cores']}
def hwIorMemory (a b : Rat) : Rat := {ior['memory']}

end SFV.Gen.Sched
"""
    return TARGET, text
