import SFV.Lemmas.RegistryInv
import SFV.Lemmas.SourceLoc
import SFV.Gen.SourceLoc
import SFV.Lemmas.InnerPath
import SFV.Gen.InnerPath
/-! # C21 — the data-location registry answers consistently with its history

`_RemotePathMapper` / `DefaultDataManager` (`streamflow/data/manager.py`) **after fix 5f6015f** (invalidation walks the node
sub-tree structurally; `put` stops only at a still-valid location), modelled as written in `SFV/Model/Registry.lean` (trie
nodes, `locations` lists of `DataLocation` *objects*, the `valid_paths` cache, a heap of objects whose validity is mutated
in place). The three defects of the code before the fix (stale `valid_paths`, `RecursionError`, skipped sub-tree) are gone:
the statements that were `_partial` or false are proved below for every history, relations included. -/
namespace SFV.C21
open SFV.Registry

/-- the operations of a history; a relation names two existing `DataLocation` objects -/
inductive Op where
  | register (l : Nat) (p : Path)
  | relate (src dst : Nat)
  | invalidate (l : Nat) (p : Path)

def apply (s : St) : Op → St
  | .register l p => (register s l p).1
  | .relate a b => if a < s.heap.length ∧ b < s.heap.length then relate s a b else s
  | .invalidate l p => match invalidate s l p with
                       | .ok s' => s'
                       | .keyError => s

def run (ops : List Op) : St := ops.foldl apply St.init

theorem winv_foldl (ops : List Op) (s : St) (h : WInv s) : WInv (ops.foldl apply s) := by
  induction ops generalizing s with
  | nil => exact h
  | cons op ops ih =>
    apply ih
    cases op with
    | register l p => exact winv_register s h l p
    | relate a b =>
      simp only [apply]
      split
      · rename_i hc; exact winv_relate s h a b hc.2
      · exact h
    | invalidate l p =>
      simp only [apply, invalidate]
      split
      · rename_i heq; split at heq
        · cases heq
        · injection heq with heq; subst heq; exact winv_invNode _ s l p h
      · exact h

/-- every reachable registry satisfies the invariant used below -/
theorem reachable_winv (ops : List Op) : WInv (run ops) := winv_foldl ops St.init winv_init

/-- **`registry_refines_spec`** (full strength, every history of registrations, relations and invalidations): a valid
object stored at a node always has its path listed in that node's `valid_paths`, hence the test `put` makes
(`path in valid_paths and some still-valid location carries it`) is exactly the test of the registry without the cache. -/
theorem registry_refines_spec (ops : List Op) (np : Path) (l : Nat) (p : Path) :
    (specValid (run ops) np l p = true → p ∈ (run ops).vpaths np l) ∧
    ((p ∈ (run ops).vpaths np l ∧ specValid (run ops) np l p = true) ↔ specValid (run ops) np l p = true) := by
  have h := reachable_winv ops
  have h1 : specValid (run ops) np l p = true → p ∈ (run ops).vpaths np l := by
    intro hs
    simp only [specValid, List.any_eq_true, Bool.and_eq_true, beq_iff_eq] at hs
    obtain ⟨o, ho, hv, hp⟩ := hs
    rw [← hp]; exact h.listed np l o ho hv
  exact ⟨h1, ⟨fun x => x.2, fun x => ⟨h1 x, x⟩⟩⟩

/-- **`invalidate_total`**: `invalidate_location` always returns — `KeyError` exactly when the node does not exist, a new
state otherwise (the walk is a structural recursion over the finite tree; `invalidate_subtree` shows that its depth budget,
the height of the tree, never cuts the walk short). -/
theorem invalidate_total (s : St) (l : Nat) (p : Path) :
    (invalidate s l p = .keyError ↔ (p ≠ [] ∧ p ∉ s.nodes)) ∧
    (¬ (p ≠ [] ∧ p ∉ s.nodes) → ∃ s', invalidate s l p = .ok s') := by
  unfold invalidate
  by_cases h : p ≠ [] ∧ p ∉ s.nodes
  · simp [h]
  · simp [h]

/-- **`invalidate_subtree`**: after `invalidate_location(L, P)` on a reachable registry, nothing is reported available on `L`
at `P` or at any node beneath it; no object stored under another location changes; and nothing but validity flags and
`valid_paths` entries changes at all (no object becomes valid, entries, nodes, paths and locations of objects stay). -/
theorem invalidate_subtree (ops : List Op) (l : Nat) (p : Path) (s' : St) (h : invalidate (run ops) l p = .ok s') :
    (∀ q, (q ∈ (run ops).nodes ∨ q = p) → p <+: q → getLocs s' q l = []) ∧
    (∀ o, objLoc (run ops) o ≠ l → objValid s' o = objValid (run ops) o) ∧
    (s'.locs = (run ops).locs ∧ s'.nodes = (run ops).nodes ∧ s'.heap.length = (run ops).heap.length ∧
      ∀ o, objValid s' o = true → objValid (run ops) o = true) := by
  have hW := reachable_winv ops
  unfold invalidate at h
  split at h
  · cases h
  · rename_i hex
    injection h with h; subst h
    have hs := shrinks_invNode (height (run ops)) (run ops) l p
    refine ⟨?_, invNode_other _ _ l p hW, hs.locs, hs.nodes, hs.len, hs.valid⟩
    intro q hq hpre
    have hlen : q.length ≤ p.length + height (run ops) := by
      rcases hq with hq | rfl
      · have := le_height _ q hq; omega
      · omega
    simp only [getLocs, hs.locs]
    apply List.filter_eq_nil_iff.mpr
    intro o ho
    simp [invNode_reaches _ _ l p q hW hq hpre hlen o ho]

/-- **`reregister_available`** (full strength): on every reachable registry a registration makes the path available on that
location — whatever was invalidated or related before. -/
theorem reregister_available (ops : List Op) (l : Nat) (p : Path) (hp : p ≠ []) :
    getLocs (register (run ops) l p).1 p l ≠ [] := by
  have hW := reachable_winv ops
  generalize run ops = s at hW
  obtain ⟨init, hpre, hlen⟩ := prefixes_snoc p hp
  have hrev : (prefixes p).reverse = p :: init.reverse := by rw [hpre]; simp
  have hne : ∀ np ∈ init.reverse, np ≠ p := by
    intro np hnp e
    have := hlen np (by simpa using hnp)
    rw [e] at this; omega
  have hl : objLoc ⟨s.heap ++ [⟨l, p, true⟩], s.nodes, s.locs, s.vpaths⟩ s.heap.length = l := by simp [objLoc]
  have hpth : objPath ⟨s.heap ++ [⟨l, p, true⟩], s.nodes ++ prefixes p, s.locs, s.vpaths⟩ s.heap.length = p := by
    simp [objPath]
  simp only [register, put, hrev, if_true, hl, putLoop, hpth]
  split
  · -- a valid location for the path is already stored there
    rename_i hbreak
    have hs := hbreak.2
    simp only [specValid, List.any_eq_true, Bool.and_eq_true, beq_iff_eq] at hs
    obtain ⟨o, ho, hv, _⟩ := hs
    intro hnil
    have : o ∈ getLocs ⟨s.heap ++ [⟨l, p, true⟩], s.nodes ++ prefixes p, s.locs, s.vpaths⟩ p l := by
      simp only [getLocs, List.mem_filter]; exact ⟨ho, hv⟩
    rw [hnil] at this; cases this
  · obtain ⟨hk1, hk2⟩ := putLoop_keeps l s.heap.length p init.reverse
      { heap := s.heap ++ [⟨l, p, true⟩], nodes := s.nodes ++ prefixes p,
        locs := upd s.locs p l (s.locs p l ++ [s.heap.length]), vpaths := upd s.vpaths p l (setAddP (s.vpaths p l) p) } hne
    intro hnil
    have : s.heap.length ∈ getLocs (putLoop l s.heap.length p init.reverse
        { heap := s.heap ++ [⟨l, p, true⟩], nodes := s.nodes ++ prefixes p,
          locs := upd s.locs p l (s.locs p l ++ [s.heap.length]), vpaths := upd s.vpaths p l (setAddP (s.vpaths p l) p) }) p l := by
      simp only [getLocs, List.mem_filter]
      refine ⟨by rw [hk1]; simp [upd], ?_⟩
      simp only [objValid]
      rw [hk2 s.heap.length (by simp)]
      simp
    rw [hnil] at this; cases this

/-- `get_data_locations` never returns an invalid location -/
theorem get_returns_valid_only (s : St) (p : Path) (l : Nat) : ∀ o ∈ getLocs s p l, objValid s o = true := by
  intro o ho
  simp only [getLocs, List.mem_filter] at ho
  exact ho.2

/-! ### the source chosen for a transfer, while other transfers are in flight

`get_source_location` as a task (`SFV/Model/SourceLoc.lean`; the shape of its three loops is read from the source into
`SFV.Gen.sourceLocShape`). `hs` are the heaps at the successive resumptions of the task: the environment — transfers that put
PRIMARY locations whose `available` event is still unset, invalidations, a finished copy that turns out to be a symbolic link,
`available.set()` — is arbitrary in between. -/

section SourceLocation
open SFV.SourceLoc

theorem sourceLocShape_rechecks : ∀ b, SFV.Gen.sourceLocShape.recheck b = true := by
  intro b; cases b <;> decide

/-- **The source location chosen for a transfer is a valid primary copy at the moment it is returned**, for every candidate
order, every number of resumptions and every behaviour of the environment between them. -/
theorem source_is_valid_primary (same loc pl : List Nat) (hs : List Heap) (i : Nat) (h : Heap) :
    returnedAt SFV.Gen.sourceLocShape (.waiting false (candidates same loc pl)) hs = some (some i, h) →
      h ∈ hs ∧ validPrimary h i := by
  intro hr
  obtain ⟨h1, h2, _⟩ := returned_good _ sourceLocShape_rechecks hs _ _ _ hr
  exact ⟨h1, h2 i rfl⟩

/-- … and `None` is returned only when every primary copy found at call time was seen not to be one any more -/
theorem source_none_only_if_lost (same loc pl : List Nat) (hs : List Heap) (h : Heap) :
    returnedAt SFV.Gen.sourceLocShape (.waiting false (candidates same loc pl)) hs = some (none, h) →
      ∀ i ∈ pl, ∃ h' ∈ hs, lost h' i := by
  intro hr i hi
  obtain ⟨_, _, h3⟩ := returned_good _ sourceLocShape_rechecks hs _ _ _ hr
  exact h3 rfl (Branch.any, i) (by simp [candidates, hi])

/-- the type tested BEFORE the wait in the same-deployment loop (the seeded change): a destination in flight (PRIMARY, not
available) that is invalidated before `available.set()` is returned although it is INVALID -/
example :
    let sh : Shape := { same := false, loc := true, any := true }
    let h0 : Heap := [⟨1, false, .primary, false⟩]
    let h1 : Heap := [⟨1, false, .invalid, true⟩]
    returnedAt sh (.waiting false (candidates [0] [] [0])) [h0, h1] = some (some 0, h1) ∧ ¬ validPrimary h1 0 := by
  decide

/-- the code as written on the same history: the invalidated destination is skipped, nothing else is left -/
example :
    let h0 : Heap := [⟨1, false, .primary, false⟩]
    let h1 : Heap := [⟨1, false, .invalid, true⟩]
    returnedAt SFV.Gen.sourceLocShape (.waiting false (candidates [0] [] [0])) [h0, h1] = some (none, h1) := by
  decide

/-- not vacuous: an in-flight destination that completes as a primary copy is returned once it is available -/
example :
    let h0 : Heap := [⟨0, false, .primary, true⟩, ⟨1, false, .primary, false⟩]
    let h1 : Heap := [⟨0, false, .primary, true⟩, ⟨1, false, .primary, true⟩]
    returnedAt SFV.Gen.sourceLocShape (.waiting false (candidates [1] [] [0, 1])) [h0, h0, h1] = some (some 1, h1) := by
  decide

end SourceLocation

/-! ### a path of a wrapping location on the wrapped one (`get_inner_path`, used by `register_path` and `transfer_data`) -/

section InnerPath
open SFV.InnerPath

/-- **`inner_path_uses_longest_mount`**: in the order the code tries the mounts (`SFV.Gen.innerPathOrder`, read from the source),
whenever no mount precedes a mount nested inside it (`Desc`, what the reverse string order gives; evaluated by the correspondence
part on every mount table it uses), the mount `get_inner_path` maps a path through is the most specific one: a mount of the table
the path is relative to, and no other such mount is longer. -/
theorem inner_path_uses_longest_mount (ms : List Mount) (p : InnerPath.Path) (m : Mount) (hd : Desc (SFV.Gen.innerPathOrder ms))
    (hm : firstMatch (SFV.Gen.innerPathOrder ms) p = some m) :
    m ∈ ms ∧ m.key.isPrefixOf p = true ∧ ∀ m' ∈ ms, m'.key.isPrefixOf p = true → m'.key.length ≤ m.key.length := by
  obtain ⟨h1, h2, h3⟩ := firstMatch_longest _ p m hd hm
  exact ⟨(mem_sortBy _ m ms).mp h1, h2, fun m' hm' => h3 m' ((mem_sortBy _ m' ms).mpr hm')⟩

/-- nested mounts: `/m → /a`, `/m/b → /e/x` (inside the first), `/mm → /b` -/
def exMounts : List Mount := [⟨["/", "m"], ["/", "a"]⟩, ⟨["/", "m", "b"], ["/", "e", "x"]⟩, ⟨["/", "mm"], ["/", "b"]⟩]

/-- not vacuous: the hypothesis holds for this table in the code's order, and a path below the inner mount goes through it -/
example : Desc (SFV.Gen.innerPathOrder exMounts) ∧
    innerPath (SFV.Gen.innerPathOrder exMounts) ["/", "m", "b", "f", "g"] = some ["/", "e", "x", "f", "g"] ∧
    innerPath (SFV.Gen.innerPathOrder exMounts) ["/", "m", "c"] = some ["/", "a", "c"] ∧
    innerPath (SFV.Gen.innerPathOrder exMounts) ["/", "mm", "c"] = some ["/", "b", "c"] ∧
    innerPath (SFV.Gen.innerPathOrder exMounts) ["/", "q"] = none := by
  decide

/-- shortest mount first (the seeded change `sorted(keys, key=len)`): the path is mapped through the outer mount -/
example : ¬ Desc (sortMountsByLen exMounts) ∧
    innerPath (sortMountsByLen exMounts) ["/", "m", "b", "f", "g"] = some ["/", "a", "b", "f", "g"] := by
  decide

end InnerPath

/-! ### regression guards: the three histories that failed before fix 5f6015f -/

def paf : Path := ["/", "a", "f"]
def pbg : Path := ["/", "b", "g"]
def pe : Path := ["/", "e"]
def pef : Path := ["/", "e", "f"]
def pbea : Path := ["/", "b", "e", "a"]
def pbeaf : Path := ["/", "b", "e", "a", "f"]

/-- (false before fix 5f6015f: the second relation was ignored) register A:/a/f (object 0), B:/b/g (3), relate, invalidate
B:/b/g, register B:/b/g again (6), relate: `/a/f` is available on B again -/
example : getLocs (run [.register 0 paf, .register 1 pbg, .relate 0 3, .invalidate 1 pbg, .register 1 pbg, .relate 0 6]) paf 1 = [6] := by
  decide +kernel

/-- (did not terminate before fix 5f6015f) register L:/e/f, L:/e, relate them, invalidate L:/e: returns, and nothing is
left available on L at `/e` or `/e/f` -/
example : let s := run [.register 0 pef, .register 0 pe, .relate 0 3, .invalidate 0 pe]
    getLocs s pe 0 = [] ∧ getLocs s pef 0 = [] := by
  decide +kernel

/-- (sub-tree skipped before fix 5f6015f) register B:/b/e/a, A:/b, B:/b/e/a/f, relate A:/b with B:/b/e/a, invalidate B:/ -/
example : getLocs (run [.register 1 pbea, .register 0 ["/", "b"], .register 1 pbeaf, .relate 5 0, .invalidate 1 ["/"]]) pbeaf 1 = [] := by
  decide +kernel

end SFV.C21
