"""C11 — released resources return exactly what was reserved."""
from __future__ import annotations

from sfv.framework import Ctx, Property
from sfv.props.c10 import SCHED_RULE, SCHED_TRUSTED
from sfv.rt import schedprop
from sfv.translate import schedguards


class C11(Property):
    pid = "C11"
    title = "Released resources return exactly what was reserved"
    lean_targets = ["SFV.Props.C11", "SFV.Model.SchedProto"]
    props_files = ["SFV/Props/C11.lean"]
    drivers = ["Drivers/C10.lean", "Drivers/C10Hyp.lean"]
    translators = [schedguards.generate]
    rule = SCHED_RULE + (" Every history is driven to completion (every job notified to a non-occupying status, in random order, with "
                         "duplicates); whenever no job is FIREABLE/RUNNING the reserved cores and memory of every location must be exactly "
                         "0 on the real scheduler; notify_status must not raise.")
    trusted_base = SCHED_TRUSTED
    technique = ("Lean 4: release_exact / allocate_release_roundtrip / notify_same_status_noop / all_done_zero_partial for all histories under "
                 "the engine protocol, negative witness without it; guards translated from notify_status; differential correspondence with "
                 "the real DefaultScheduler (state after every call, storage residues included)")
    level_text = ("grade A-: all_done_zero_partial proved for every order and repetition of notifications under the engine protocol (reserved = "
                  "measured residual; 0 for cores/memory), release_exact for every state; all_done_zero_false: full strength fails "
                  "(reserved -2 after FIREABLE->COMPLETED->RUNNING->COMPLETED, known finding); further genuine leaks of the real code "
                  "(containers sharing a host, heterogeneous multi-location targets, stale connector race, float residue) are recorded as "
                  "known findings with their configuration shape")
    level_note = C10_NOTE = ("Lean kernel, axioms within {propext, Classical.choice, Quot.sound}; theorems over exact rationals on the "
                             "per-component ledger; Hardware-level model tied to the code differentially; storage residues are compared "
                             "with the model, cores/memory checked on the real state")
    assumptions = ["engine protocol (HistoryOk)", "levels of the selected locations are distinct locations; locations of a multi-location "
                   "target resolve the requirement identically", "amounts are exact rationals (binary floats leave residues: known finding)"]
    quick_budget_s = 600

    def explore(self, ctx: Ctx) -> None:
        schedprop.explore(ctx, self.pid)

    def replay(self, ctx: Ctx, data) -> None:
        schedprop.replay(ctx, self.pid, data)


PROPERTY = C11()
